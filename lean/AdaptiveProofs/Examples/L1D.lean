import AdaptiveProofs.Props.C01
import AdaptiveProofs.Props.C02
import AdaptiveProofs.Props.C10
import AdaptiveProofs.Props.C11
import AdaptiveProofs.Props.C12
import AdaptiveProofs.Props.C13
import Mathlib.Algebra.Order.Field.Rat
import Mathlib.Tactic.NormNum
import Mathlib.Tactic.Linarith

/-!
# NON-VACUITY of the Learner1D theorems (C01, C02, C10, C11, C12, C13)

Every property theorem of `Props/C01.lean`, `C02.lean`, `C11.lean`, `C12.lean` (and the Learner1D parts of
`C10.lean`, `C13.lean`) that has hypotheses is INSTANTIATED here on a concrete history at `α := ℚ`:
all hypotheses are discharged simultaneously (by `decide +kernel`, `norm_num`, `rfl` — never
`native_decide`), and the objects the conclusion talks about are exhibited and shown to be non-empty.

Contents
* §0  a Boolean checker `validOpsB` for `ValidOps` with a soundness proof (generic in `α`);
* §1  the loss functions (`uniformLoss` nn = 0, `uniformLoss1` nn = 1 ignoring the neighbours, `slopeLoss`
      nn = 0 depending on the values) and the hypotheses on them (`NonNegLoss`, `ScaleFreeAtZero`, `ScaleFreeY`);
* §2  the history `ops1` (10 operations on bounds (0, 1)) and its hypotheses for factor 1 and 2, nn 0 and 1;
* §3  the exhibited values (`loss`, `askPoints`, tables, `Cand`);
* §4  the theorems of C01 applied to the instance;
* §5  C02;  §5b a history whose batch does not contain the end points of the domain (`opsNoEnds`);
  §6  C10/C13 (Learner1D part);  §7  C11;  §8  C12.
-/
set_option linter.unusedSectionVars false
namespace L1D
namespace Ex

/-! ## §0  a decidable checker for `ValidOps` -/
section checker
variable {α : Type} [Field α] [LinearOrder α] [IsStrictOrderedRing α]

/-- Boolean version of `ValidOp` (points inside the bounds; no empty batch on the batch path).  Before the
repair `fix: Learner1D.tell_many batch path shrank the x-scale to the range of the points` it also had to check
that both end points of the domain were known, pending or in the batch; that proviso is gone. -/
def validOpB (s : State α) : Op α → Bool
  | .tell x _ => decide (s.lo ≤ x) && decide (x ≤ s.hi)
  | .tellPending x => decide (s.lo ≤ x) && decide (x ≤ s.hi)
  | .tellMany pts force =>
      pts.all (fun kv => decide (s.lo ≤ kv.1) && decide (kv.1 ≤ s.hi)) &&
      (!(force || (decide (s.data.length < 2 * pts.length) && decide (2 < pts.length))) || !pts.isEmpty)
  | .removeUnfinished => true
  | .ask _ _ => true

theorem validOp_of_B {s : State α} {op : Op α} (h : validOpB s op = true) : ValidOp s op := by
  cases op with
  | tell x y => simpa [validOpB, ValidOp] using h
  | tellPending x => simpa [validOpB, ValidOp] using h
  | removeUnfinished => trivial
  | ask n c => trivial
  | tellMany pts force =>
    simp only [validOpB, Bool.and_eq_true, List.all_eq_true, decide_eq_true_eq, Bool.or_eq_true,
      Bool.not_eq_true'] at h
    obtain ⟨h1, h2⟩ := h
    refine ⟨fun kv hkv => h1 kv hkv, ?_⟩
    intro hb
    rcases h2 with h2 | hne
    · exfalso
      rcases hb with hb | ⟨hb1, hb2⟩
      · simp [hb] at h2
      · simp [hb1, hb2] at h2
    · intro e
      rw [e] at hne
      simp at hne

variable (lossFn : List (Option α) → List (Option (List α)) → Loss α) (r12 : α → α)

/-- Boolean version of `ValidOps` -/
def validOpsB (s : State α) : List (Op α) → Bool
  | [] => true
  | op :: ops => validOpB s op && validOpsB (step lossFn r12 s op) ops

theorem validOps_of_B {s : State α} {ops : List (Op α)} (h : validOpsB lossFn r12 s ops = true) :
    ValidOps lossFn r12 s ops := by
  induction ops generalizing s with
  | nil => trivial
  | cons op r ih =>
    simp only [validOpsB, Bool.and_eq_true] at h
    exact ⟨validOp_of_B h.1, ih h.2⟩

/-- Boolean version of `OpDim` / `OpY` -/
def opYB (d : Nat) : Op α → Bool
  | .tell _ y => decide (y.length = d)
  | .tellMany pts _ => pts.all (fun kv => decide (kv.2.length = d)) && !pts.isEmpty
  | _ => true

theorem opY_of_B {d : Nat} {op : Op α} (h : opYB d op = true) : OpY d op := by
  cases op with
  | tell x y =>
    refine ⟨?_, fun _ _ e => by cases e⟩
    intro kv hkv
    simp only [tellsOf, List.mem_singleton] at hkv
    subst hkv
    simpa [opYB] using h
  | tellPending x => exact ⟨fun kv hkv => by simp [tellsOf] at hkv, fun _ _ e => by cases e⟩
  | removeUnfinished => exact ⟨fun kv hkv => by simp [tellsOf] at hkv, fun _ _ e => by cases e⟩
  | ask n c => exact ⟨fun kv hkv => by simp [tellsOf] at hkv, fun _ _ e => by cases e⟩
  | tellMany pts force =>
    simp only [opYB, Bool.and_eq_true, List.all_eq_true, decide_eq_true_eq] at h
    refine ⟨fun kv hkv => h.1 kv hkv, ?_⟩
    intro p f e
    cases e
    intro e
    rw [e] at h
    simp at h

theorem opsY_of_B {d : Nat} {ops : List (Op α)} (h : ops.all (opYB d) = true) :
    ∀ op ∈ ops, OpY d op := by
  intro op hop
  exact opY_of_B (List.all_eq_true.1 h op hop)

theorem opsDim_of_B {d : Nat} {ops : List (Op α)} (h : ops.all (opYB d) = true) :
    ∀ op ∈ ops, OpDim d op := fun op hop => (opsY_of_B h op hop).1

end checker

/-! ## §1  loss functions -/

/-- `uniform_loss` (nn = 0): the scaled width of the interval.  (Clamped at 0 so that `NonNegLoss`, which
quantifies over ALL argument lists, holds; on the arguments the learner produces — sorted abscissae — it is
`xs[1] - xs[0]`, see `widthLoss` below.) -/
def uniformLoss (xs : List (Option ℚ)) (_ys : List (Option (List ℚ))) : Loss ℚ :=
  match xs with
  | [some a, some b] => .fin (if a ≤ b then b - a else 0)
  | _ => .fin 0

/-- the literal `uniform_loss`: `xs[1] - xs[0]` -/
def widthLoss (xs : List (Option ℚ)) (_ys : List (Option (List ℚ))) : Loss ℚ :=
  match xs with
  | [some a, some b] => .fin (b - a)
  | _ => .fin 0

/-- a loss with `nn = 1` (it is handed 4 abscissae) that ignores the neighbours -/
def uniformLoss1 (xs : List (Option ℚ)) (_ys : List (Option (List ℚ))) : Loss ℚ :=
  match xs with
  | [_, some a, some b, _] => .fin (if a ≤ b then b - a else 0)
  | _ => .fin 0

/-- difference of the two scalar values handed to a `nn = 0` loss -/
def dyOf : List (Option (List ℚ)) → ℚ
  | [some [ya], some [yb]] => yb - ya
  | _ => 0

/-- a value-dependent loss (nn = 0): scaled width plus squared scaled height difference -/
def slopeLoss (xs : List (Option ℚ)) (ys : List (Option (List ℚ))) : Loss ℚ :=
  match xs with
  | [some a, some b] => .fin ((if a ≤ b then b - a else 0) + dyOf ys * dyOf ys)
  | _ => .fin 0

theorem nonneg_uniformLoss : NonNegLoss uniformLoss := by
  intro xs ys v h
  unfold uniformLoss at h
  split at h
  · injection h with h
    subst h
    split_ifs with hab
    · linarith
    · exact le_refl _
  · injection h with h
    subst h
    exact le_refl _

theorem nonneg_uniformLoss1 : NonNegLoss uniformLoss1 := by
  intro xs ys v h
  unfold uniformLoss1 at h
  split at h
  · injection h with h
    subst h
    split_ifs with hab
    · linarith
    · exact le_refl _
  · injection h with h
    subst h
    exact le_refl _

theorem nonneg_slopeLoss : NonNegLoss slopeLoss := by
  intro xs ys v h
  unfold slopeLoss at h
  split at h
  · injection h with h
    subst h
    have h2 : 0 ≤ dyOf ys * dyOf ys := mul_self_nonneg _
    split_ifs with hab
    · linarith
    · linarith
  · injection h with h
    subst h
    exact le_refl _

/-- REMARK (hypothesis stronger than the code's loss functions satisfy literally): `NonNegLoss` quantifies over
all argument lists, so the literal `uniform_loss = xs[1] - xs[0]` does NOT satisfy it … -/
theorem not_nonneg_widthLoss : ¬ NonNegLoss widthLoss := by
  intro h
  have := h [some 1, some 0] [] (-1) (by simp [widthLoss])
  norm_num at this

theorem scaleFreeY_uniformLoss : ScaleFreeY uniformLoss := fun _ _ _ _ => rfl
theorem scaleFreeY_uniformLoss1 : ScaleFreeY uniformLoss1 := fun _ _ _ _ => rfl
theorem scaleFree_uniformLoss : ScaleFreeAtZero uniformLoss := scaleFreeY_uniformLoss.atZero
theorem scaleFree_uniformLoss1 : ScaleFreeAtZero uniformLoss1 := scaleFreeY_uniformLoss1.atZero

theorem dyOf_scale (c : ℚ) (ys : List (Option (List ℚ))) :
    dyOf (ys.map (Option.map (List.map (fun t => c * t)))) = c * dyOf ys := by
  rcases ys with _ | ⟨_ | ⟨_ | ⟨ya, _ | _⟩⟩, _ | ⟨_ | ⟨_ | ⟨yb, _ | _⟩⟩, _ | _⟩⟩ <;>
    simp [dyOf, mul_sub]

theorem dyOf_const (ys : List (Option (List ℚ)))
    (h : ∀ v ∈ ys, ∀ w ∈ ys, ∀ a b, v = some a → w = some b → a = b) : dyOf ys = 0 := by
  rcases ys with _ | ⟨_ | ⟨_ | ⟨ya, _ | _⟩⟩, _ | ⟨_ | ⟨_ | ⟨yb, _ | _⟩⟩, _ | _⟩⟩ <;>
    try rfl
  have e := h (some [ya]) (by simp) (some [yb]) (by simp) [ya] [yb] rfl rfl
  simp only [List.cons.injEq, and_true] at e
  simp [dyOf, e]

/-- `slopeLoss` satisfies the WEAK scale hypothesis of C12 … -/
theorem scaleFree_slopeLoss : ScaleFreeAtZero slopeLoss := by
  intro c _ xs ys h
  unfold slopeLoss
  rw [dyOf_scale, dyOf_const ys h]
  simp

/-- … but not the strong one (so C12.a/b are used with a loss for which `ScaleFreeAtZero` is really needed). -/
theorem not_scaleFreeY_slopeLoss : ¬ ScaleFreeY slopeLoss := by
  intro h
  have := h 2 (by norm_num) [some 0, some 1] [some [0], some [1]]
  revert this
  decide +kernel

theorem mono_id : Monotone (id : ℚ → ℚ) := monotone_id

/-! ## §2  the history -/

/-- 10 operations on the bounds (0, 1): both end points and interior points told in non-sorted order, a
`tell_pending`, a committing `ask(3)`, a forced (batch-path) `tell_many`, a `remove_unfinished`, another tell and
another pending mark.  All values are scalars (`d = 1`). -/
def ops1 : List (Op ℚ) :=
  [.tell 1 [3], .tell (1/4) [1], .tell 0 [0], .tellPending (1/2), .tell (3/4) [2], .ask 3 true,
   .tellMany [(1/2, [5]), (1/8, [1/2])] true, .removeUnfinished, .tell (5/8) [1], .tellPending (7/8)]

example : ops1.length = 10 := rfl

/-- the same history without the trailing pending mark (all points evaluated) and a longer one ending in an
unforced `tell_many` that takes the batch path (4 new points > 2, more than half the data) -/
def ops2 : List (Op ℚ) := ops1 ++ [.tellMany [(7/8, [4]), (1/16, [0]), (3/8, [2]), (15/16, [3]), (1/2, [9])] false]

theorem lt01 : (0 : ℚ) < 1 := by norm_num

theorem ops1_Y : ∀ op ∈ ops1, OpY 1 op := opsY_of_B (by decide +kernel)
theorem ops1_dim : ∀ op ∈ ops1, OpDim 1 op := opsDim_of_B (by decide +kernel)
theorem ops2_Y : ∀ op ∈ ops2, OpY 1 op := opsY_of_B (by decide +kernel)
theorem ops2_dim : ∀ op ∈ ops2, OpDim 1 op := opsDim_of_B (by decide +kernel)

/-- the state reached: loss function, factor, nn are parameters -/
abbrev st (lossFn : List (Option ℚ) → List (Option (List ℚ)) → Loss ℚ) (factor : ℚ) (nn : Nat)
    (ops : List (Op ℚ)) : State ℚ :=
  run lossFn id (init 0 1 factor 0 nn) ops

/-! ### `ValidOps` — for factor 1 and 2, nn = 0 and nn = 1, three loss functions -/
theorem valid_u_1 : ValidOps uniformLoss id (init 0 1 1 0 0) ops1 := validOps_of_B _ _ (by decide +kernel)
theorem valid_u_2 : ValidOps uniformLoss id (init 0 1 2 0 0) ops1 := validOps_of_B _ _ (by decide +kernel)
theorem valid_u1_1 : ValidOps uniformLoss1 id (init 0 1 1 0 1) ops1 := validOps_of_B _ _ (by decide +kernel)
theorem valid_u1_2 : ValidOps uniformLoss1 id (init 0 1 2 0 1) ops1 := validOps_of_B _ _ (by decide +kernel)
theorem valid_s_1 : ValidOps slopeLoss id (init 0 1 1 0 0) ops1 := validOps_of_B _ _ (by decide +kernel)
theorem valid_s_2 : ValidOps slopeLoss id (init 0 1 2 0 0) ops1 := validOps_of_B _ _ (by decide +kernel)
theorem valid2_s_1 : ValidOps slopeLoss id (init 0 1 1 0 0) ops2 := validOps_of_B _ _ (by decide +kernel)
theorem valid2_s_2 : ValidOps slopeLoss id (init 0 1 2 0 0) ops2 := validOps_of_B _ _ (by decide +kernel)

/-- the checker is not trivially true: a point outside the bounds (single or in a batch) and a forced empty batch
are rejected … -/
example : validOpsB uniformLoss id (init 0 1 1 0 0) [.tell 2 [0]] = false := by decide +kernel
example : validOpsB uniformLoss id (init 0 1 1 0 0) [.tellMany [(0, [0]), (3/2, [1])] true] = false := by
  decide +kernel
example : validOpsB uniformLoss id (init 0 1 1 0 0) [.tellMany [] true] = false := by decide +kernel
/-- … whereas a forced batch that lacks an end point of the domain — rejected before the repair
`fix: Learner1D.tell_many batch path shrank the x-scale to the range of the points` — is valid now -/
example : ValidOps uniformLoss id (init 0 1 1 0 0) [.tellMany [(0, [0]), (1/2, [1])] true] :=
  validOps_of_B _ _ (by decide +kernel)

/-! ### `missingBounds = []`, `pairs xs ≠ []` -/
theorem mb_u_1 : missingBounds (st uniformLoss 1 0 ops1) = [] := by decide +kernel
theorem mb_u_2 : missingBounds (st uniformLoss 2 0 ops1) = [] := by decide +kernel
theorem mb_u1_1 : missingBounds (st uniformLoss1 1 1 ops1) = [] := by decide +kernel
theorem mb_u1_2 : missingBounds (st uniformLoss1 2 1 ops1) = [] := by decide +kernel
theorem mb_s_1 : missingBounds (st slopeLoss 1 0 ops1) = [] := by decide +kernel
theorem mb_s_2 : missingBounds (st slopeLoss 2 0 ops1) = [] := by decide +kernel

theorem pairs_u_1 : pairs (st uniformLoss 1 0 ops1).xs ≠ [] := by decide +kernel
theorem pairs_u_2 : pairs (st uniformLoss 2 0 ops1).xs ≠ [] := by decide +kernel
theorem pairs_u1_1 : pairs (st uniformLoss1 1 1 ops1).xs ≠ [] := by decide +kernel
theorem pairs_u1_2 : pairs (st uniformLoss1 2 1 ops1).xs ≠ [] := by decide +kernel
theorem pairs_s_1 : pairs (st slopeLoss 1 0 ops1).xs ≠ [] := by decide +kernel
theorem pairs_s_2 : pairs (st slopeLoss 2 0 ops1).xs ≠ [] := by decide +kernel

/-! ## §3  the objects the conclusions talk about -/

/-- 7 evaluated points, 8 known points (one pending), 6 real and 7 combined intervals -/
example : (st uniformLoss 1 0 ops1).xs = [0, 1/8, 1/4, 1/2, 5/8, 3/4, 1] := by decide +kernel
example : (st uniformLoss 1 0 ops1).xsC = [0, 1/8, 1/4, 1/2, 5/8, 3/4, 7/8, 1] := by decide +kernel
example : (st uniformLoss 1 0 ops1).pending = [7/8] := by decide +kernel
example : (st uniformLoss 1 0 ops1).losses =
    [((1/4, 1/2), .fin (1/4)), ((3/4, 1), .fin (1/4)), ((0, 1/8), .fin (1/8)), ((1/8, 1/4), .fin (1/8)),
     ((1/2, 5/8), .fin (1/8)), ((5/8, 3/4), .fin (1/8))] := by decide +kernel
example : (st uniformLoss 1 0 ops1).lossesC =
    [((1/4, 1/2), .fin (1/4)), ((0, 1/8), .fin (1/8)), ((1/8, 1/4), .fin (1/8)), ((1/2, 5/8), .fin (1/8)),
     ((5/8, 3/4), .fin (1/8)), ((3/4, 7/8), .fin (1/8)), ((7/8, 1), .fin (1/8))] := by decide +kernel

/-- the reported loss and the next three suggestions: `uniformLoss`, factor 1 and 2 -/
example : loss (st uniformLoss 1 0 ops1) true = .fin (1/4) := by decide +kernel
example : loss (st uniformLoss 2 0 ops1) true = .fin (1/4) := by decide +kernel
example : loss (st uniformLoss 1 0 ops1) false = .fin (1/4) := by decide +kernel
example : (askPoints id (st uniformLoss 1 0 ops1) 3).1 = [1/3, 5/12, 1/16] := by decide +kernel
example : (askPoints id (st uniformLoss 2 0 ops1) 3).1 = [1/3, 5/12, 1/16] := by decide +kernel
example : (askPoints id (st uniformLoss 1 0 ops1) 3).2 = [.fin (1/12), .fin (1/12), .fin (1/16)] := by
  decide +kernel
/-- `nn = 1` -/
example : loss (st uniformLoss1 1 1 ops1) true = .fin (1/4) := by decide +kernel
example : loss (st uniformLoss1 2 1 ops1) true = .fin (1/4) := by decide +kernel
example : (askPoints id (st uniformLoss1 1 1 ops1) 3).1 = [1/3, 5/12, 1/16] := by decide +kernel
example : (askPoints id (st uniformLoss1 2 1 ops1) 3).1 = [1/3, 5/12, 1/16] := by decide +kernel

/-- the value-dependent loss: the two factors give DIFFERENT states (the stale scale of factor 2 is visible), both
non-trivial. -/
example : (st slopeLoss 1 0 ops1).oldScaleY = 5 ∧ (st slopeLoss 1 0 ops1).scaleY = 5 := by decide +kernel
example : (st slopeLoss 2 0 ops1).oldScaleY = 5 ∧ (st slopeLoss 2 0 ops1).scaleY = 5 := by decide +kernel
example : loss (st slopeLoss 1 0 ops1) true = .fin (89/100) := by decide +kernel
example : (askPoints id (st slopeLoss 1 0 ops1) 3).1 = [9/16, 1/3, 5/12] := by decide +kernel
example : (askPoints id (st slopeLoss 1 0 ops1) 3).2 = [.fin (153/400), .fin (89/300), .fin (89/300)] := by
  decide +kernel

/-- a state in which the scale IS stale with factor 2 (after the third op): `oldScaleY = 2 < scaleY = 3`, and the
interval `(1/4, 1)` still carries the loss computed with the scale 2, whereas factor 1 recomputed it with 3 -/
example : (st slopeLoss 2 0 (ops1.take 3)).oldScaleY = 2 ∧ (st slopeLoss 2 0 (ops1.take 3)).scaleY = 3 := by
  decide +kernel
example : (st slopeLoss 1 0 (ops1.take 3)).oldScaleY = 3 ∧ (st slopeLoss 1 0 (ops1.take 3)).scaleY = 3 := by
  decide +kernel
example : (st slopeLoss 2 0 (ops1.take 3)).losses = [((1/4, 1), .fin (7/4)), ((0, 1/4), .fin (13/36))] := by
  decide +kernel
example : (st slopeLoss 1 0 (ops1.take 3)).losses = [((1/4, 1), .fin (43/36)), ((0, 1/4), .fin (13/36))] := by
  decide +kernel

/-- the committing `ask(3)` of the history (6th op) proposed three interior points -/
example : (askPoints id (st uniformLoss 1 0 (ops1.take 5)) 3).1 = [1/8, 3/8, 5/8] := by decide +kernel

/-- `Cand s` (C02.g/h) has 7 elements here -/
example : candList (st uniformLoss 1 0 ops1) =
    [(1/4, 1/2), (0, 1/8), (1/8, 1/4), (1/2, 5/8), (5/8, 3/4), (3/4, 7/8), (7/8, 1)] := by decide +kernel
theorem card_cand_u_1 : Fintype.card (Cand (st uniformLoss 1 0 ops1)) = 7 := by
  rw [L1D.card_cand _ (inv_run uniformLoss id 0 1 1 0 0 ops1) (by decide +kernel)]
  decide +kernel

/-! ## §4  C01 applied to the instance -/

/-- Boolean helpers for the two table hypotheses -/
def allFinB {α : Type} (l : List (Ival α × Loss α)) : Bool :=
  l.all (fun e => match e.2 with | .fin _ => true | .inf => false)

theorem allFin_of_B {α : Type} {l : List (Ival α × Loss α)} (h : allFinB l = true) :
    ∀ e ∈ l, ∃ w, e.2 = .fin w := by
  intro e he
  have := List.all_eq_true.1 h e he
  cases h2 : e.2 with
  | fin w => exact ⟨w, rfl⟩
  | inf => rw [h2] at this; cases this

def allNonnegB (l : List (Ival ℚ × Loss ℚ)) : Bool :=
  l.all (fun e => match e.2 with | .fin v => decide (0 ≤ v) | .inf => true)

theorem allNonneg_of_B {l : List (Ival ℚ × Loss ℚ)} (h : allNonnegB l = true) :
    ∀ e ∈ l, ∀ v, e.2 = .fin v → 0 ≤ v := by
  intro e he v hv
  have := List.all_eq_true.1 h e he
  rw [hv] at this
  simpa using this

/-- C01.c instantiated (factor 2, value-dependent loss): all three hypotheses hold, the losses table has 6 entries -/
example : ∃ v, loss (st slopeLoss 2 0 ops1) true = .fin v ∧
    ∀ iv w, (iv, Loss.fin w) ∈ (st slopeLoss 2 0 ops1).losses → id w ≤ id v :=
  c01_loss_ge_all slopeLoss id 0 1 2 0 0 ops1 mb_s_2 (by decide +kernel) (allFin_of_B (by decide +kernel))
example : (st slopeLoss 2 0 ops1).losses.length = 6 := by decide +kernel

/-- C01.e instantiated: `1 ≤ factor` (factor 2), `OpDim 1` -/
example : (st slopeLoss 2 0 ops1).scaleY ≤ (st slopeLoss 2 0 ops1).factor * (st slopeLoss 2 0 ops1).oldScaleY ∧
    (st slopeLoss 2 0 ops1).oldScaleY ≤ (st slopeLoss 2 0 ops1).scaleY ∧
    ((2 : ℚ) = 1 → (st slopeLoss 2 0 ops1).oldScaleY = (st slopeLoss 2 0 ops1).scaleY) :=
  c01_staleness_bounded slopeLoss id 0 1 2 0 0 (by norm_num) 1 ops1 ops1_dim
/-- … and with `factor = 1` the last conjunct has a true antecedent -/
example : (st slopeLoss 1 0 ops1).oldScaleY = (st slopeLoss 1 0 ops1).scaleY :=
  (c01_staleness_bounded slopeLoss id 0 1 1 0 0 (le_refl 1) 1 ops1 ops1_dim).2.2 rfl

/-- C01.f: a state INSIDE `tell` in which the recomputation fires: the history's first five ops with factor 2
(`oldScaleY = 2`, `scaleY = 3`), then the pre-state of `tell (1/2) [5]` (scale 5 > 2·2), with 4 intervals. -/
def preRescale : State ℚ :=
  updateLosses slopeLoss id (tellPre (st slopeLoss 2 0 (ops1.take 5)) (1/2) [5]) (1/2) true

theorem preRescale_fires : preRescale.factor * preRescale.oldScaleY < preRescale.scaleY := by decide +kernel
example : preRescale.oldScaleY = 2 ∧ preRescale.scaleY = 5 ∧ (tkeys preRescale.losses).length = 4 := by
  decide +kernel
/-- `preRescale` is what `tell` hands to `maybeRescale` -/
example : tell slopeLoss id (st slopeLoss 2 0 (ops1.take 5)) (1/2) [5] = maybeRescale slopeLoss id preRescale := by
  rw [tell_eq, if_neg (by decide +kernel)]
  rfl
example : (maybeRescale slopeLoss id preRescale).oldScaleY = (maybeRescale slopeLoss id preRescale).scaleY ∧
    (∀ iv, iv ∈ tkeys (maybeRescale slopeLoss id preRescale).losses ↔ iv ∈ tkeys preRescale.losses) ∧
    (∀ iv ∈ tkeys (maybeRescale slopeLoss id preRescale).losses,
      lget iv (maybeRescale slopeLoss id preRescale).losses =
        some (getLoss slopeLoss (maybeRescale slopeLoss id preRescale) iv.1 iv.2)) :=
  c01_rescale_recomputes_all slopeLoss id preRescale preRescale_fires
/-- the recomputation changes the table (it is not a no-op) -/
example : (maybeRescale slopeLoss id preRescale).losses ≠ preRescale.losses := by decide +kernel

/-- C01.g: a state with a pending point (1/2) inside the evaluated interval (1/4, 3/4) -/
def sG : State ℚ := st slopeLoss 1 0 (ops1.take 5)
theorem sG_sorted : sG.xsC.Pairwise (· < ·) := by decide +kernel
example : (1/4, 1/2) ∈ pairs sG.xsC ∧ (1/2, 3/4) ∈ pairs sG.xsC ∧ (1/4, 3/4) ∈ pairs sG.xs := by decide +kernel
example : lget (1/4, 3/4) (updInterp slopeLoss id sG (1/4) (3/4)).losses = some (getLoss slopeLoss sG (1/4) (3/4)) :=
  (c01_update_proportional slopeLoss id sG_sorted (1/4) (3/4)).1
example : lget (1/4, 1/2) (updInterp slopeLoss id sG (1/4) (3/4)).lossesC =
    some (Loss.mulDiv (1/2 - 1/4) (getLoss slopeLoss sG (1/4) (3/4)) (3/4 - 1/4)) :=
  (c01_update_proportional slopeLoss id sG_sorted (1/4) (3/4)).2.1 (1/4) (1/2) (by decide +kernel)
    (by norm_num) (by norm_num)
example : getLoss slopeLoss sG (1/4) (3/4) = .fin (11/18) ∧
    lget (1/4, 1/2) (updInterp slopeLoss id sG (1/4) (3/4)).lossesC = some (.fin (11/36)) := by decide +kernel

/-- C01.h instantiated, factor 2, in the state where the scale is stale: `sy = 2` for `(1/4, 1)`, not `scaleY = 3` -/
example :
    (∀ iv ∈ pairs (st slopeLoss 2 0 (ops1.take 3)).xs, ∃ sy, (st slopeLoss 2 0 (ops1.take 3)).oldScaleY ≤ sy ∧
        sy ≤ (st slopeLoss 2 0 (ops1.take 3)).scaleY ∧
        lget iv (st slopeLoss 2 0 (ops1.take 3)).losses =
          some (getLossAt slopeLoss (st slopeLoss 2 0 (ops1.take 3)) sy iv.1 iv.2)) :=
  (c01_values slopeLoss id lt01 2 0 0 1 (ops1.take 3) (opsDim_of_B (by decide +kernel))
    (validOps_of_B _ _ (by decide +kernel))).1
example : lget (1/4, 1) (st slopeLoss 2 0 (ops1.take 3)).losses =
      some (getLossAt slopeLoss (st slopeLoss 2 0 (ops1.take 3)) 2 (1/4) 1) ∧
    lget (1/4, 1) (st slopeLoss 2 0 (ops1.take 3)).losses ≠
      some (getLoss slopeLoss (st slopeLoss 2 0 (ops1.take 3)) (1/4) 1) := by decide +kernel

/-- C01.h on the full history (both conjuncts), factor 1 and 2, nn 0 and 1 -/
example := c01_values slopeLoss id lt01 1 0 0 1 ops1 ops1_dim valid_s_1
example := c01_values slopeLoss id lt01 2 0 0 1 ops1 ops1_dim valid_s_2
example := c01_values uniformLoss1 id lt01 1 0 1 1 ops1 ops1_dim valid_u1_1
example := c01_values uniformLoss1 id lt01 2 0 1 1 ops1 ops1_dim valid_u1_2
/-- the second conjunct is about 7 combined intervals, two of which are pieces of the evaluated interval (3/4, 1) -/
example : (pairs (st slopeLoss 2 0 ops1).xsC).length = 7 ∧ (3/4, 7/8) ∈ pairs (st slopeLoss 2 0 ops1).xsC ∧
    (3/4, 7/8) ∉ pairs (st slopeLoss 2 0 ops1).xs := by decide +kernel

/-- C01.i instantiated (`factor = 1`) -/
example : ∀ iv ∈ pairs (st slopeLoss 1 0 ops1).xs,
    lget iv (st slopeLoss 1 0 ops1).losses = some (getLoss slopeLoss (st slopeLoss 1 0 ops1) iv.1 iv.2) :=
  c01_exact_when_factor_one slopeLoss id lt01 1 0 0 rfl 1 ops1 ops1_dim valid_s_1
example : ∀ iv ∈ pairs (st uniformLoss1 1 1 ops1).xs,
    lget iv (st uniformLoss1 1 1 ops1).losses = some (getLoss uniformLoss1 (st uniformLoss1 1 1 ops1) iv.1 iv.2) :=
  c01_exact_when_factor_one uniformLoss1 id lt01 1 0 1 rfl 1 ops1 ops1_dim valid_u1_1

/-- C01.j instantiated: every hypothesis (`lo < hi`, `factor = 1`, `ValidOps`, `OpDim`, `missingBounds = []`,
`pairs xs ≠ []`) discharged; the reported loss is 89/100, attained on (1/4, 1/2). -/
example : ∃ iv0 ∈ pairs (st slopeLoss 1 0 ops1).xs,
    loss (st slopeLoss 1 0 ops1) true = getLoss slopeLoss (st slopeLoss 1 0 ops1) iv0.1 iv0.2 ∧
    ∀ iv ∈ pairs (st slopeLoss 1 0 ops1).xs,
      finiteLoss id iv (getLoss slopeLoss (st slopeLoss 1 0 ops1) iv.1 iv.2) (st slopeLoss 1 0 ops1).lossScale ≤
      finiteLoss id iv0 (getLoss slopeLoss (st slopeLoss 1 0 ops1) iv0.1 iv0.2) (st slopeLoss 1 0 ops1).lossScale :=
  c01_loss_is_true_max slopeLoss id lt01 1 0 0 rfl 1 ops1 valid_s_1 ops1_dim mb_s_1 pairs_s_1
example := c01_loss_is_true_max uniformLoss id lt01 1 0 0 rfl 1 ops1 valid_u_1 ops1_dim mb_u_1 pairs_u_1
example := c01_loss_is_true_max uniformLoss1 id lt01 1 0 1 rfl 1 ops1 valid_u1_1 ops1_dim mb_u1_1 pairs_u1_1
example : loss (st slopeLoss 1 0 ops1) true = getLoss slopeLoss (st slopeLoss 1 0 ops1) (1/4) (1/2) ∧
    getLoss slopeLoss (st slopeLoss 1 0 ops1) (1/4) (1/2) = .fin (89/100) := by decide +kernel

/-- C01.j on the longer history `ops2`, whose last op is an UNFORCED `tell_many` that takes the batch path -/
example : tellMany slopeLoss id (st slopeLoss 1 0 ops1)
      [(7/8, [4]), (1/16, [0]), (3/8, [2]), (15/16, [3]), (1/2, [9])] false =
    tellManyBatch slopeLoss id (st slopeLoss 1 0 ops1)
      [(7/8, [4]), (1/16, [0]), (3/8, [2]), (15/16, [3]), (1/2, [9])] := by
  unfold tellMany
  rw [if_neg (by decide +kernel)]
example := c01_loss_is_true_max slopeLoss id lt01 1 0 0 rfl 1 ops2 valid2_s_1 ops2_dim (by decide +kernel)
  (by decide +kernel)
example : loss (st slopeLoss 1 0 ops2) true = .fin (153/200) ∧ (pairs (st slopeLoss 1 0 ops2).xs).length = 10 := by
  decide +kernel

/-- C01.k instantiated (factor 2) -/
example := c01_loss_is_max_general slopeLoss id lt01 2 0 0 1 ops2 valid2_s_2 ops2_dim (by decide +kernel)
  (by decide +kernel)
example := c01_loss_is_max_general slopeLoss id lt01 2 0 0 1 ops1 valid_s_2 ops1_dim mb_s_2 pairs_s_2
example := c01_loss_is_max_general uniformLoss id lt01 2 0 0 1 ops1 valid_u_2 ops1_dim mb_u_2 pairs_u_2
example := c01_loss_is_max_general uniformLoss1 id lt01 2 0 1 1 ops1 valid_u1_2 ops1_dim mb_u1_2 pairs_u1_2

/-! ## §5  C02 applied to the instance -/

/-- C02.a instantiated: 3 fresh distinct points -/
example : (askPoints id (st slopeLoss 2 0 ops1) 3).1.Nodup ∧
    (∀ x ∈ (askPoints id (st slopeLoss 2 0 ops1) 3).1, 0 ≤ x ∧ x ≤ 1 ∧ x ∉ (st slopeLoss 2 0 ops1).xsC ∧
      hasData (st slopeLoss 2 0 ops1) x = false ∧ x ∉ (st slopeLoss 2 0 ops1).pending) ∧
    (askPoints id (st slopeLoss 2 0 ops1) 3).1.length = 3 ∧ (askPoints id (st slopeLoss 2 0 ops1) 3).2.length = 3 :=
  c02_count_distinct_fresh slopeLoss id lt01 2 0 0 ops1 valid_s_2 3

/-- C02.b: a state where both antecedents of the first conjunct hold (one interior point known, both bounds
missing, 4 points requested) and one where the antecedent of the second holds -/
def sB : State ℚ := st uniformLoss 1 0 [.tell (1/4) [1]]
example : (missingBounds sB).length < 4 ∧ sB.data.length + sB.pending.length ≠ 0 := by decide +kernel
example : missingBounds sB = [0, 1] ∧ (askPoints id sB 4).1 = [0, 1, 1/2, 3/4] := by decide +kernel
example : 1 ≤ (missingBounds sB).length ∧ (askPoints id sB 1).1 = [0] := by decide +kernel

/-- C02.c instantiated -/
example : (askPoints id (init (0 : ℚ) 1 2 0 0) 5).1 = npLinspace 0 1 5 :=
  c02_empty_uniform id (init 0 1 2 0 0) 5 rfl rfl (by decide +kernel)
example : npLinspace (0 : ℚ) 1 5 = [0, 1/4, 1/2, 3/4, 1] := by decide +kernel

/-- C02.d instantiated, in a state with a BOUND interval (upper end point missing) and in the main state -/
def opsD : List (Op ℚ) := [.tell (1/4) [1], .tell 0 [0], .tellPending (1/2)]
theorem validD : ValidOps uniformLoss id (init 0 1 2 0 0) opsD := validOps_of_B _ _ (by decide +kernel)
example : (missingBounds (st uniformLoss 2 0 opsD)).length < 4 ∧
    (st uniformLoss 2 0 opsD).data.length + (st uniformLoss 2 0 opsD).pending.length ≠ 0 := by decide +kernel
example := c02_equal_parts uniformLoss id lt01 2 0 0 opsD validD 4 (by decide +kernel) (by decide +kernel)
example : missingBounds (st uniformLoss 2 0 opsD) = [1] ∧ (boundQuals (st uniformLoss 2 0 opsD)).length = 1 ∧
    (askQuals id (st uniformLoss 2 0 opsD) 4).length = 2 := by decide +kernel
example := c02_equal_parts slopeLoss id lt01 2 0 0 ops1 valid_s_2 3 (by decide +kernel) (by decide +kernel)
example : (askQuals id (st slopeLoss 2 0 ops1) 3).map (fun q => (q.l, q.r, q.n)) =
    [(1/2, 5/8, 2), (1/4, 1/2, 3)] := by decide +kernel

/-- C02.e: a concrete greedy allocation (2 intervals of weights 1 and 1/2, two greedy steps: 1 → 2 → 3 parts for
the first) and a competing allocation with the same number of parts -/
def wE : Fin 2 → ℚ := fun i => if i = 0 then 1 else 1/2
theorem greedyE : Greedy wE id 1 (Function.update (fun _ => 1) 0 2) := by
  have h := Greedy.step (w := wE) (r := id) (0 : Fin 2) Greedy.zero (by decide +kernel)
  exact h
example : ∀ j, id (wE j / ((Function.update (fun _ => 1) (0 : Fin 2) 2 : Fin 2 → ℕ) j : ℚ)) ≤ 1 :=
  c02_greedy_optimal (by decide +kernel) mono_id greedyE (fun i => if i = 0 then 1 else 2) (by decide)
    (by decide) 1 (by decide +kernel)

/-- C02.g instantiated: the side conditions (`Monotone`, `ValidOps`, data present, non-negative table) hold … -/
theorem hw_s_2 : ∀ e ∈ (st slopeLoss 2 0 ops1).lossesC, ∀ v, e.2 = .fin v → 0 ≤ v :=
  allNonneg_of_B (by decide +kernel)
theorem hd_s_2 : (st slopeLoss 2 0 ops1).data.length + (st slopeLoss 2 0 ops1).pending.length ≠ 0 := by
  decide +kernel
example := c02_allocation_optimal slopeLoss id mono_id lt01 2 0 0 ops1 valid_s_2 3 hd_s_2 hw_s_2
/-- … `Cand s` has 7 elements … -/
theorem card_cand_s_2 : Fintype.card (Cand (st slopeLoss 2 0 ops1)) = 7 := by
  rw [L1D.card_cand _ (inv_run slopeLoss id 0 1 2 0 0 ops1) hd_s_2]
  decide +kernel
/-- … and the quantifier over competing allocations `a` is inhabited by an allocation DIFFERENT from the code's:
the code's allocation with the parts of two intervals swapped.  The theorem then bounds the code's worst rounded
loss per part (153/400) by the competitor's (89/100). -/
def cA : Cand (st slopeLoss 2 0 ops1) := ⟨(1/4, 1/2), by decide +kernel⟩
def cB : Cand (st slopeLoss 2 0 ops1) := ⟨(0, 1/8), by decide +kernel⟩
def altAlloc (i : Cand (st slopeLoss 2 0 ops1)) : ℕ :=
  gOf (askQuals id (st slopeLoss 2 0 ops1) 3) (Equiv.swap cA cB i).1
theorem altAlloc_ge (i) : 1 ≤ altAlloc i := Nat.le_add_right 1 _
theorem altAlloc_sum : ∑ i, altAlloc i = ∑ i : Cand (st slopeLoss 2 0 ops1), gOf (askQuals id (st slopeLoss 2 0 ops1) 3) i.1 :=
  Equiv.sum_comp (Equiv.swap cA cB) (fun i => gOf (askQuals id (st slopeLoss 2 0 ops1) 3) i.1)
example : altAlloc cA = 1 ∧ gOf (askQuals id (st slopeLoss 2 0 ops1) 3) cA.1 = 3 := by
  unfold altAlloc
  rw [Equiv.swap_apply_left]
  decide +kernel
example (M : ℚ) (hM : ∀ i, id (wOf (st slopeLoss 2 0 ops1) i.1 / (altAlloc i : ℚ)) ≤ M) :
    ∀ i : Cand (st slopeLoss 2 0 ops1),
      id (wOf (st slopeLoss 2 0 ops1) i.1 / (gOf (askQuals id (st slopeLoss 2 0 ops1) 3) i.1 : ℚ)) ≤ M :=
  c02_allocation_optimal slopeLoss id mono_id lt01 2 0 0 ops1 valid_s_2 3 hd_s_2 hw_s_2 altAlloc altAlloc_ge
    altAlloc_sum M hM

/-- C02.h instantiated (`NonNegLoss`, `Monotone`, `lo < hi`, `ValidOps`), nn = 0 and nn = 1, factor 1 and 2 -/
example := c02_allocation_optimal_nonneg slopeLoss id nonneg_slopeLoss mono_id lt01 2 0 0 ops1 valid_s_2 3 hd_s_2
example := c02_allocation_optimal_nonneg uniformLoss id nonneg_uniformLoss mono_id lt01 1 0 0 ops1 valid_u_1 3
  (by decide +kernel)
example := c02_allocation_optimal_nonneg uniformLoss1 id nonneg_uniformLoss1 mono_id lt01 2 0 1 ops1 valid_u1_2 3
  (by decide +kernel)
example (M : ℚ) (hM : ∀ i, id (wOf (st slopeLoss 2 0 ops1) i.1 / (altAlloc i : ℚ)) ≤ M) :=
  c02_allocation_optimal_nonneg slopeLoss id nonneg_slopeLoss mono_id lt01 2 0 0 ops1 valid_s_2 3 hd_s_2
    altAlloc altAlloc_ge altAlloc_sum M hM

/-- C02.g is the route for the LITERAL `uniform_loss` (`widthLoss`, which is not `NonNegLoss`, see
`not_nonneg_widthLoss`): its table in the reachable state is non-negative. -/
theorem valid_w_2 : ValidOps widthLoss id (init 0 1 2 0 0) ops1 := validOps_of_B _ _ (by decide +kernel)
example := c02_allocation_optimal widthLoss id mono_id lt01 2 0 0 ops1 valid_w_2 3 (by decide +kernel)
  (allNonneg_of_B (by decide +kernel))
example : (st widthLoss 2 0 ops1).lossesC = (st uniformLoss 2 0 ops1).lossesC := by decide +kernel

/-! ## §5b  a history whose batch does NOT contain the end points of the domain

Bounds (0, 10): a FORCED `tell_many` of the interior points 2, 3, 4 in an empty learner (batch path; neither end
point known, pending or in the batch), then `tell 8`, `tell_pending 9`, a committing `ask(3)`.  Before the repair
`fix: Learner1D.tell_many batch path shrank the x-scale to the range of the points` this history was excluded by
the end-point proviso of `ValidOp` — and rightly so: the batch set `scaleX = 2`, `tell 8` widened it to 6 and left
stale entries.  It satisfies the new `ValidOps`, so C01.h–k, C02.a/d/g/h and C10 apply to it. -/

def opsNoEnds : List (Op ℚ) :=
  [.tellMany [(2, [0]), (3, [1]), (4, [4])] true, .tell 8 [2], .tellPending 9, .ask 3 true]

theorem lt010 : (0 : ℚ) < 10 := by norm_num

/-- the state reached on the bounds (0, 10) -/
abbrev stN (lossFn : List (Option ℚ) → List (Option (List ℚ)) → Loss ℚ) (factor : ℚ) (nn : Nat)
    (ops : List (Op ℚ)) : State ℚ :=
  run lossFn id (init 0 10 factor 0 nn) ops

theorem validNoEnds_1 : ValidOps slopeLoss id (init 0 10 1 0 0) opsNoEnds := validOps_of_B _ _ (by decide +kernel)
theorem validNoEnds_2 : ValidOps slopeLoss id (init 0 10 2 0 0) opsNoEnds := validOps_of_B _ _ (by decide +kernel)
theorem validNoEnds_u1 : ValidOps uniformLoss1 id (init 0 10 2 0 1) opsNoEnds := validOps_of_B _ _ (by decide +kernel)
theorem noEnds_dim : ∀ op ∈ opsNoEnds, OpDim 1 op := opsDim_of_B (by decide +kernel)

/-- the first operation takes the batch path, and when it is applied neither end point is known, pending, or in
the batch -/
example : step slopeLoss id (init 0 10 1 0 0) (.tellMany [(2, [0]), (3, [1]), (4, [4])] true) =
    tellManyBatch slopeLoss id (init 0 10 1 0 0) [(2, [0]), (3, [1]), (4, [4])] := rfl
example : missingBounds (stN slopeLoss 1 0 (opsNoEnds.take 3)) = [0, 10] := by decide +kernel
/-- the x-scale bookkeeping is the domain's after the batch and at the end; the committing ask handed out the two
end points first -/
example : (stN slopeLoss 1 0 (opsNoEnds.take 1)).bboxX = (0, 10) ∧ (stN slopeLoss 1 0 (opsNoEnds.take 1)).scaleX = 10 ∧
    (stN slopeLoss 1 0 (opsNoEnds.take 1)).lossScale = 10 := by decide +kernel
example : (stN slopeLoss 1 0 opsNoEnds).bboxX = (0, 10) ∧ (stN slopeLoss 1 0 opsNoEnds).scaleX = 10 ∧
    (stN slopeLoss 1 0 opsNoEnds).lossScale = 10 := by decide +kernel
example : (stN slopeLoss 1 0 opsNoEnds).xs = [2, 3, 4, 8] ∧ (stN slopeLoss 1 0 opsNoEnds).xsC = [0, 2, 3, 7/2, 4, 8, 9, 10] ∧
    missingBounds (stN slopeLoss 1 0 opsNoEnds) = [] := by decide +kernel

/-- C01.h / C01.i / C01.j / C01.k on it (3 evaluated intervals) -/
example := c01_values slopeLoss id lt010 2 0 0 1 opsNoEnds noEnds_dim validNoEnds_2
example := c01_values uniformLoss1 id lt010 2 0 1 1 opsNoEnds noEnds_dim validNoEnds_u1
example : ∀ iv ∈ pairs (stN slopeLoss 1 0 opsNoEnds).xs,
    lget iv (stN slopeLoss 1 0 opsNoEnds).losses =
      some (getLoss slopeLoss (stN slopeLoss 1 0 opsNoEnds) iv.1 iv.2) :=
  c01_exact_when_factor_one slopeLoss id lt010 1 0 0 rfl 1 opsNoEnds noEnds_dim validNoEnds_1
example := c01_loss_is_true_max slopeLoss id lt010 1 0 0 rfl 1 opsNoEnds validNoEnds_1 noEnds_dim
  (by decide +kernel) (by decide +kernel)
example := c01_loss_is_max_general slopeLoss id lt010 2 0 0 1 opsNoEnds validNoEnds_2 noEnds_dim
  (by decide +kernel) (by decide +kernel)
/-- the conclusion of C01.i evaluated on the interval whose entry was stale before the repair (cf. `ceState` in
`Lemmas/L1DValues.lean`): stored = recomputed -/
example : lget (2, 3) (stN slopeLoss 1 0 opsNoEnds).losses = some (.fin (13/80)) ∧
    getLoss slopeLoss (stN slopeLoss 1 0 opsNoEnds) 2 3 = .fin (13/80) ∧
    (pairs (stN slopeLoss 1 0 opsNoEnds).xs).length = 3 := by decide +kernel

/-- C02.a / C02.d / C02.h on it -/
example : (askPoints id (stN slopeLoss 2 0 opsNoEnds) 3).1.Nodup ∧
    (∀ x ∈ (askPoints id (stN slopeLoss 2 0 opsNoEnds) 3).1, 0 ≤ x ∧ x ≤ 10 ∧ x ∉ (stN slopeLoss 2 0 opsNoEnds).xsC ∧
      hasData (stN slopeLoss 2 0 opsNoEnds) x = false ∧ x ∉ (stN slopeLoss 2 0 opsNoEnds).pending) ∧
    (askPoints id (stN slopeLoss 2 0 opsNoEnds) 3).1.length = 3 ∧
    (askPoints id (stN slopeLoss 2 0 opsNoEnds) 3).2.length = 3 :=
  c02_count_distinct_fresh slopeLoss id lt010 2 0 0 opsNoEnds validNoEnds_2 3
example := c02_equal_parts slopeLoss id lt010 2 0 0 opsNoEnds validNoEnds_2 3 (by decide +kernel) (by decide +kernel)
example := c02_allocation_optimal_nonneg slopeLoss id nonneg_slopeLoss mono_id lt010 2 0 0 opsNoEnds validNoEnds_2 3
  (by decide +kernel)
/-- … also in the state right after the batch (both end points still missing) -/
example := c02_count_distinct_fresh slopeLoss id lt010 2 0 0 (opsNoEnds.take 1)
  (validOps_of_B _ _ (by decide +kernel)) 5
example : (askPoints id (stN slopeLoss 2 0 (opsNoEnds.take 1)) 5).1.length = 5 := by decide +kernel
/-- C10 on it -/
example := C10.l1d_asked_pending_until_told slopeLoss id lt010 2 0 0 (opsNoEnds.take 3)
  (validOps_of_B _ _ (by decide +kernel)) 3

/-! ## §6  C10 / C13, Learner1D part -/

example : tell slopeLoss id (st slopeLoss 2 0 ops1) (1/4) [77] = st slopeLoss 2 0 ops1 :=
  C10.l1d_retell_noop slopeLoss id _ (1/4) [77] (by decide +kernel)
example : tellPending slopeLoss id (st slopeLoss 2 0 ops1) (1/4) = st slopeLoss 2 0 ops1 :=
  C10.l1d_tellPending_known_noop slopeLoss id _ (1/4) (by decide +kernel)
/-- a told point is never pending again: `1/2` (told in the batch) after three more operations -/
example := C10.l1d_told_never_pending slopeLoss id 0 1 2 0 0 ops1
  [.tellPending (1/2), .ask 2 true, .tellMany [(1/2, [0])] false] (1/2) (by decide +kernel)
/-- the points of a committing ask stay pending: here 3 points, and a non-empty continuation that keeps `9/16` -/
example := C10.l1d_asked_pending_until_told slopeLoss id lt01 2 0 0 ops1 valid_s_2 3
example : (9/16 : ℚ) ∈ (ask slopeLoss id (st slopeLoss 2 0 ops1) 3 true).1.1 := by decide +kernel
example : ∀ op ∈ ([.tell (1/3) [1], .tellPending (9/16), .ask 1 true, .tellMany [(5/12, [2])] false] : List (Op ℚ)),
    KeepsPending (9/16) op := by
  intro op hop
  simp only [List.mem_cons, List.mem_nil_iff, or_false] at hop
  rcases hop with rfl | rfl | rfl | rfl <;> simp [KeepsPending] <;> norm_num
/-- C10 data = first told (no hypotheses; the told keys are not trivial: 12 told results, 11 distinct points) -/
example : (toldKeys ops2).length = 12 ∧ (toldKeys ops2).dedup.length = 11 := by decide +kernel

/-! ## §7  C11: two orders of the same four results -/
def ts₁ : List (ℚ × List ℚ) := [(0, [0]), (1/4, [1]), (3/4, [2]), (1, [3])]
def ts₂ : List (ℚ × List ℚ) := [(3/4, [2]), (1, [3]), (1/4, [1]), (0, [0])]

theorem ts_perm : ts₁.Perm ts₂ := by decide +kernel
theorem ts_nodup : (ts₁.map Prod.fst).Nodup := by decide +kernel
theorem ts_dim : ∀ kv ∈ ts₁, kv.2.length = 1 := by decide +kernel
theorem ts_in : ∀ kv ∈ ts₁, (0 : ℚ) ≤ kv.1 ∧ kv.1 ≤ 1 := by decide +kernel
example : ts₁ ≠ ts₂ := by decide +kernel

/-- C11.c instantiated (nn = 0 and nn = 1) -/
example : Agree slopeLoss id (run slopeLoss id (init 0 1 1 0 0) (ts₁.map tellOp))
    (run slopeLoss id (init 0 1 1 0 0) (ts₂.map tellOp)) :=
  C11.l1d_order_irrelevant slopeLoss id lt01 0 0 1 ts_perm ts_nodup ts_dim ts_in
example := C11.l1d_order_irrelevant uniformLoss1 id lt01 0 1 1 ts_perm ts_nodup ts_dim ts_in
/-- the conclusion evaluated: same (non-empty) tables, although the data dicts differ as lists -/
example : (run slopeLoss id (init 0 1 1 0 0) (ts₁.map tellOp)).losses =
    (run slopeLoss id (init 0 1 1 0 0) (ts₂.map tellOp)).losses ∧
    (run slopeLoss id (init 0 1 1 0 0) (ts₁.map tellOp)).losses.length = 3 ∧
    (run slopeLoss id (init 0 1 1 0 0) (ts₁.map tellOp)).data ≠
    (run slopeLoss id (init 0 1 1 0 0) (ts₂.map tellOp)).data := by decide +kernel

/-- C11.d instantiated: forced and unforced (the only side condition left: a forced batch is not empty) -/
theorem ts₂_ne : ts₂ ≠ [] := by decide
example (f : Bool) := C11.l1d_batch_eq_single slopeLoss id lt01 0 0 1 f ts_perm ts_nodup ts_dim ts_in (fun _ => ts₂_ne)
/-- C11.d on results that do NOT contain the end points of the domain (bounds (0, 10), points 2, 3, 4; forced, so
the batch path is taken): excluded before the repair, covered now; the tables are equal and non-empty -/
def tsI₁ : List (ℚ × List ℚ) := [(2, [0]), (3, [1]), (4, [4])]
def tsI₂ : List (ℚ × List ℚ) := [(4, [4]), (2, [0]), (3, [1])]
example : Agree slopeLoss id (run slopeLoss id (init 0 10 1 0 0) (tsI₁.map tellOp))
    (run slopeLoss id (init 0 10 1 0 0) [.tellMany tsI₂ true]) :=
  C11.l1d_batch_eq_single slopeLoss id (by norm_num) 0 0 1 true (by decide +kernel) (by decide +kernel)
    (by decide +kernel) (by decide +kernel) (fun _ => by decide)
example : (run slopeLoss id (init 0 10 1 0 0) (tsI₁.map tellOp)).losses =
    (run slopeLoss id (init 0 10 1 0 0) [.tellMany tsI₂ true]).losses ∧
    (run slopeLoss id (init 0 10 1 0 0) [.tellMany tsI₂ true]).losses.length = 2 ∧
    (run slopeLoss id (init 0 10 1 0 0) [.tellMany tsI₂ true]).scaleX = 10 := by decide +kernel
/-- the unforced call takes the batch path too (4 > 2 points, no data) -/
example : tellMany slopeLoss id (init 0 1 1 0 0) ts₂ false = tellManyBatch slopeLoss id (init 0 1 1 0 0) ts₂ := by
  unfold tellMany
  rw [if_neg (by decide +kernel)]

/-- C11.e instantiated: the main history and a completely different one (one forced batch of the seven results in
another order, then the pending mark) with the same content -/
def opsE : List (Op ℚ) :=
  [.tellMany [(5/8, [1]), (0, [0]), (1/8, [1/2]), (1/4, [1]), (1/2, [5]), (3/4, [2]), (1, [3])] true,
   .ask 2 false, .tellPending (7/8)]
theorem validE : ValidOps slopeLoss id (init 0 1 1 0 0) opsE := validOps_of_B _ _ (by decide +kernel)
theorem opsE_dim : ∀ op ∈ opsE, OpDim 1 op := opsDim_of_B (by decide +kernel)
theorem dataE : ∀ x, dataGet (st slopeLoss 1 0 ops1).data x = dataGet (st slopeLoss 1 0 opsE).data x :=
  dataGet_perm (by decide +kernel) (by decide +kernel)
theorem pendE : ∀ x, x ∈ (st slopeLoss 1 0 ops1).pending ↔ x ∈ (st slopeLoss 1 0 opsE).pending := by
  have h : (st slopeLoss 1 0 ops1).pending = (st slopeLoss 1 0 opsE).pending := by decide +kernel
  intro x
  rw [h]
example : Agree slopeLoss id (st slopeLoss 1 0 ops1) (st slopeLoss 1 0 opsE) :=
  C11.l1d_state_is_function_of_content slopeLoss id lt01 0 0 1 ops1 opsE valid_s_1 validE ops1_dim opsE_dim dataE pendE
example : (st slopeLoss 1 0 ops1).data ≠ (st slopeLoss 1 0 opsE).data := by decide +kernel

/- C11.a/b (SequenceLearner / AverageLearner): see `Examples/Misc.lean`. -/

/-! ## §8  C12: scaling by `cx = 2`, `cy = 3` -/

/-- C12.a instantiated with a loss that is NOT `ScaleFreeY` (only `ScaleFreeAtZero`), on the 10-op history -/
example : run slopeLoss id (init (2 * 0) (2 * 1) 2 (2 * 0) 0) (ops1.map (scaleOp 2 3)) =
    scaleState 2 3 (run slopeLoss id (init 0 1 2 0 0) ops1) :=
  C12.l1d_run_equivariant slopeLoss id (by norm_num) (by norm_num) scaleFree_slopeLoss 1 0 1 2 0 0 ops1 ops1_Y
/-- C12.b instantiated, and its conclusion evaluated -/
example := C12.l1d_ask_equivariant slopeLoss id (cx := 2) (cy := 3) (by norm_num) (by norm_num) scaleFree_slopeLoss
  1 0 1 2 0 0 ops1 ops1_Y 3
example : (askPoints id (run slopeLoss id (init (2 * 0) (2 * 1) 2 (2 * 0) 0) (ops1.map (scaleOp 2 3))) 3).1 =
    [9/8, 2/3, 5/6] := by decide +kernel
/-- C12.d instantiated (`ScaleFreeY`) from a reachable state -/
example := C12.l1d_run_equivariant_strong uniformLoss1 id (cx := 2) (cy := 3) (by norm_num) (by norm_num)
  scaleFreeY_uniformLoss1 (st uniformLoss1 2 1 (ops1.take 5)) (ops1.drop 5)

end Ex
end L1D
