import AdaptiveProofs.Props.C04Reach

/-!
Non-vacuity of `LND.lnd_*_reach` on a REAL run of a coordinate-computed environment (`Wit2.gEnv`).

Point ids `0, 1, 2` are the corners `(0,0)`, `(1,0)`, `(0,1)` of the unit square's lower triangle, id `3` is the point
`choose_point_in_simplex` (the modelled function, `Real.sqrt`) returns for that triangle, ids `n + 4` enumerate the
rational points of the plane (`Wit.coord`).  The oracles `choose` / `pis` / `inside` ARE the modelled functions of the
coordinates (`CoordEnv2` is proved for all ids); on the four named ids their values are additionally given in closed form
(proved equal to the modelled functions: the point chosen in a triangle is accepted for it and lies in the box), so that
the bookkeeping run `tell 0, tell 1, tell 2, ask(1)` can be evaluated by the kernel.  It builds the triangulation
`[[0,1,2]]`, chooses the point `3`, tells it pending and sub-triangulates the simplex.
-/
set_option linter.unusedVariables false
namespace Wit2
open Choose Gen.Prims Prims LND
noncomputable section

/-- the id of the point chosen in the triangle `(0,0) (1,0) (0,1)` among the enumerated rational points -/
def P3 (eps : ℝ) : Nat := Classical.choose (Wit.key eps (Wit.enc (0, 0)) (Wit.enc (1, 0)) (Wit.enc (0, 1)))

/-- ids to enumerated rational points -/
def f (eps : ℝ) : Nat → Nat
  | 0 => Wit.enc (0, 0)
  | 1 => Wit.enc (1, 0)
  | 2 => Wit.enc (0, 1)
  | 3 => P3 eps
  | n + 4 => n

def coord (eps : ℝ) (n : Nat) : P2 ℝ := Wit.coord (f eps n)

theorem coord3 (eps : ℝ) :
    coord eps 3 = choosePoint2 Real.sqrt eps (coord eps 0) (coord eps 1) (coord eps 2) none :=
  Classical.choose_spec (Wit.key eps (Wit.enc (0, 0)) (Wit.enc (1, 0)) (Wit.enc (0, 1)))

theorem coord0 (eps : ℝ) : coord eps 0 = (0, 0) := by
  simp only [coord, f, Wit.coord_enc]; norm_num
theorem coord1 (eps : ℝ) : coord eps 1 = (1, 0) := by
  simp only [coord, f, Wit.coord_enc]; norm_num
theorem coord2 (eps : ℝ) : coord eps 2 = (0, 1) := by
  simp only [coord, f, Wit.coord_enc]; norm_num

/-- the point chosen in a triangle of ids is again an id -/
theorem key' (eps : ℝ) (a b c : Nat) :
    ∃ n, coord eps n = choosePoint2 Real.sqrt eps (coord eps a) (coord eps b) (coord eps c) none := by
  obtain ⟨m, hm⟩ := Wit.key eps (f eps a) (f eps b) (f eps c)
  exact ⟨m + 4, hm⟩

/-- the environment: one triangle `[0,1,2]`; sub-triangulations: a triangle, then its three pieces around the 4th vertex -/
def gEnv (eps eps' epsb : ℝ) : Env Int where
  dim := 2
  boundsPts := []
  inside q := if q ≤ 3 then true else insideRect 0 1 0 1 epsb (coord eps q)
  one := 1
  inf := 1000000
  c15 := 0
  c2 := 1
  factor := 1
  abs x := if x < 0 then -x else x
  isZero x := x == 0
  rnd x := x
  lossFn _ _ := 5
  vol _ := 1
  pis q pts := match pts with
    | [a, b, c] =>
      if q = 3 ∧ a = 0 ∧ b = 1 ∧ c = 2 then true
      else point_in_simplex2 (coord eps q).1 (coord eps q).2 (coord eps a).1 (coord eps a).2 (coord eps b).1
        (coord eps b).2 (coord eps c).1 (coord eps c).2 eps'
    | _ => true
  choose pts := match pts with
    | [a, b, c] => if a = 0 ∧ b = 1 ∧ c = 2 then 3 else Classical.choose (key' eps a b c)
    | _ => 0
  triInit n := n == 3
  triSimps n := if n = 3 then [[0, 1, 2]] else []
  triAdd _ _ := none
  locate _ _ := []
  uord _ := []
  subSimps sv := if sv.length = 3 then [[0, 1, 2]] else if sv.length = 4 then [[0, 1, 3], [0, 2, 3], [1, 2, 3]] else []
  subAdd sv _ := if sv.length = 3 then some ([[0, 1, 2]], [[0, 1, 3], [0, 2, 3], [1, 2, 3]]) else none
  randPt _ := 0

def gOps : List (Op Int) := [.tell 0 1 1, .tell 1 2 2, .tell 2 5 5, .ask 1 true]

variable (eps eps' epsb : ℝ)

theorem le3 (n : Nat) (h : n ≤ 3) : n = 0 ∨ n = 1 ∨ n = 2 ∨ n = 3 := by omega

theorem gEnv_coords (he : 0 ≤ eps') (hb : 0 ≤ epsb) :
    CoordEnv2 (gEnv eps eps' epsb) (coord eps) Real.sqrt eps eps' epsb none 0 1 0 1 where
  hdim := rfl
  hsqrt := C20.real_sqrt_law
  heps' := he
  ht := by intro _ _ h; cases h
  hchoose := by
    intro a b c
    by_cases h : a = 0 ∧ b = 1 ∧ c = 2
    · obtain ⟨rfl, rfl, rfl⟩ := h
      exact coord3 eps
    · simp only [gEnv, if_neg h]
      exact Classical.choose_spec (key' eps a b c)
  hpis := by
    intro q a b c
    by_cases h : q = 3 ∧ a = 0 ∧ b = 1 ∧ c = 2
    · obtain ⟨rfl, rfl, rfl, rfl⟩ := h
      simp only [gEnv, and_self, if_true]
      rw [coord3]
      exact (choose2_in_own_triangle Real.sqrt C20.real_sqrt_law eps _ _ _ none (by intro _ _ h; cases h) eps' he).symm
    · simp only [gEnv, if_neg h]
  hinside := by
    intro q
    by_cases h : q ≤ 3
    · simp only [gEnv, if_pos h]
      symm
      have h0 : insideRect 0 1 0 1 epsb (coord eps 0) = true := by
        rw [coord0, insideRect_iff]; constructor <;> constructor <;> simp <;> linarith
      have h1 : insideRect 0 1 0 1 epsb (coord eps 1) = true := by
        rw [coord1, insideRect_iff]; constructor <;> constructor <;> simp <;> linarith
      have h2 : insideRect 0 1 0 1 epsb (coord eps 2) = true := by
        rw [coord2, insideRect_iff]; constructor <;> constructor <;> simp <;> linarith
      have hq : q = 0 ∨ q = 1 ∨ q = 2 ∨ q = 3 := le3 q h
      rcases hq with rfl | rfl | rfl | rfl
      · exact h0
      · exact h1
      · exact h2
      · rw [coord3]
        exact Choose.choose2_in_box Real.sqrt C20.real_sqrt_law eps _ _ _ none (by intro _ _ h; cases h) 0 1 0 1 epsb
          h0 h1 h2
    · simp only [gEnv, if_neg h]

theorem gEnv_triGeom : TriGeom (gEnv eps eps' epsb) where
  report := by intro n h D A hadd; simp [gEnv] at hadd
  idx := by
    intro n x hx i hi
    simp only [gEnv] at hx
    split at hx
    · rename_i h3; subst h3
      simp only [List.mem_cons, List.not_mem_nil, or_false] at hx; subst hx
      simp only [List.mem_cons, List.not_mem_nil, or_false] at hi
      omega
    · exact absurd hx (by simp)
  fresh := by intro n h D A hadd; simp [gEnv] at hadd

theorem gEnv_subGeom : SubGeom (gEnv eps eps' epsb) where
  subReport := by
    intro sv p D A hadd x hx
    simp only [gEnv] at hadd hx
    split at hadd
    · rename_i h3
      simp only [Option.some.injEq, Prod.mk.injEq] at hadd
      obtain ⟨_, rfl⟩ := hadd
      right
      simpa [h3] using hx
    · exact absurd hadd (by simp)
  fresh := by
    intro sv p D A _ hadd x hx
    simp only [gEnv] at hadd hx
    split at hadd
    · rename_i h3
      simp only [Option.some.injEq, Prod.mk.injEq] at hadd
      obtain ⟨_, rfl⟩ := hadd
      simpa [h3] using hx
    · exact absurd hadd (by simp)
  size := by
    intro n sx hsx
    simp only [gEnv] at hsx ⊢
    split at hsx
    · simp only [List.mem_singleton] at hsx; subst hsx; rfl
    · exact absurd hsx (by simp)

theorem gEnv_hyps (he : 0 ≤ eps') (hb : 0 ≤ epsb) :
    Dim2HypsR (gEnv eps eps' epsb) (coord eps) Real.sqrt eps eps' epsb none 0 1 0 1 where
  coords := gEnv_coords eps eps' epsb he hb
  subSize := by
    intro sv ss hss
    simp only [gEnv] at hss
    split at hss
    · simp only [List.mem_singleton] at hss; subst hss; rfl
    · split at hss
      · simp only [List.mem_cons, List.not_mem_nil, or_false] at hss
        rcases hss with rfl | rfl | rfl <;> rfl
      · exact absurd hss (by simp)
  subIdx := by
    intro sv ss hss i hi
    simp only [gEnv] at hss
    split at hss
    · simp only [List.mem_singleton] at hss; subst hss
      simp only [List.mem_cons, List.not_mem_nil, or_false] at hi
      omega
    · split at hss
      · simp only [List.mem_cons, List.not_mem_nil, or_false] at hss
        rcases hss with rfl | rfl | rfl <;>
          (simp only [List.mem_cons, List.not_mem_nil, or_false] at hi; omega)
      · exact absurd hss (by simp)
  split := by
    intro sv ss hss D A hadd
    simp only [gEnv] at hadd hss ⊢
    split at hadd
    · rename_i h3
      simp only [h3, if_true, List.mem_singleton] at hss
      subst hss
      simp [h3]
    · exact absurd hadd (by simp)
  nodup := by
    intro n
    simp only [gEnv]
    split <;> simp

theorem gOps_inDomain : InDomain (gEnv eps eps' epsb) gOps := ⟨rfl, rfl, rfl, trivial⟩

theorem gOps_askNew : AskNew (gEnv eps eps' epsb) gOps := askNew_of_check _ gOps rfl

/-- the run: the triangulation `[[0,1,2]]` is created by the `ask`, the chosen point `3` becomes pending and the simplex
is sub-triangulated -/
theorem gRun : ∃ s, run (gEnv eps eps' epsb) (init (gEnv eps eps' epsb)) gOps = .ok s ∧
    s.tri = some [0, 1, 2] ∧ s.pending = [3] ∧ s.book.subs = [([0, 1, 2], [0, 1, 2, 3])] :=
  ⟨_, rfl, rfl, rfl, rfl⟩

/-- `lnd_ghost_true_reach`, `lnd_queue_complete_reach`, `lnd_subVertsInOwner_reach`, `lnd_verts_in_domain` on this run:
the ghost flag is true, the three pieces of `[0,1,2]` around the pending point are queued, `point_in_simplex` (the modelled
barycentric test on real coordinates) accepts every vertex of every piece for the owner, and the pending point lies in the
unit square — from hypotheses about the environment and the told points only -/
theorem gRun_reach (he : 0 ≤ eps') (hb : 0 ≤ epsb) :
    ∃ s, run (gEnv eps eps' epsb) (init (gEnv eps eps' epsb)) gOps = .ok s ∧ s.book.geomOK = true ∧
      (∀ ss ∈ (gEnv eps eps' epsb).subSimps [0, 1, 2, 3],
        ∃ e ∈ s.book.queue, e.simplex = [0, 1, 2] ∧ e.sub = some ss) ∧
      (∀ ss ∈ (gEnv eps eps' epsb).subSimps [0, 1, 2, 3], ∀ p ∈ ptsOf [0, 1, 2, 3] ss,
        point_in_simplex2 (coord eps p).1 (coord eps p).2 0 0 1 0 0 1 eps' = true) ∧
      insideRect 0 1 0 1 epsb (coord eps 3) = true := by
  obtain ⟨s, h, ht, hpend, hsub⟩ := gRun eps eps' epsb
  have hD := gEnv_hyps eps eps' epsb he hb
  have hT := gEnv_triGeom eps eps' epsb
  have hG := gEnv_subGeom eps eps' epsb
  have hin := gOps_inDomain eps eps' epsb
  have hN := gOps_askNew eps eps' epsb
  have hx : get? [0, 1, 2] s.book.subs = some [0, 1, 2, 3] := by rw [hsub]; rfl
  refine ⟨s, h, lnd_ghost_true_reach hD hT hG gOps hin hN h, ?_, ?_, ?_⟩
  · have := lnd_queue_complete_reach hD hT hG gOps hin hN h _ ht
    exact (this [0, 1, 2] (by simp [gEnv])).2 [0, 1, 2, 3] hx
  · intro ss hss p hp
    have := lnd_subVertsInOwner_reach hD hT hG gOps h _ _ _ ht hx ss hss p hp
    have e : List.take ((gEnv eps eps' epsb).dim + 1) [0, 1, 2, 3] = [0, 1, 2] := rfl
    rw [e, hD.coords.hpis, coord0, coord1, coord2] at this
    exact this
  · have := (lnd_verts_in_domain (gEnv eps eps' epsb) hT gOps hin h).2.1 3 (by rw [hpend]; simp)
    rw [hD.coords.hinside] at this
    exact this

end
end Wit2
