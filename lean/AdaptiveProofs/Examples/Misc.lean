import AdaptiveProofs.Props.C09
import AdaptiveProofs.Props.C10
import AdaptiveProofs.Props.C11
import AdaptiveProofs.Props.C13
import AdaptiveProofs.Examples.Balancing
import Mathlib.Algebra.Order.Field.Rat

/-!
# NON-VACUITY of the SequenceLearner / AverageLearner / wrapper theorems of C09, C10, C11, C13

Concrete valid op lists for `Seq.ValidOps`, concrete AverageLearner histories (no validity proviso any more; they
contain a `tell_pending` of an already told seed) with the states they reach, the `Perm`/`Nodup`
hypotheses of C11.a/b, and concrete learners for the generic wrapper theorems of C09.
(Learner1D instances are in `Examples/L1D.lean`; the lawful Balancing child is `Balancing.Ex.toy`.)
-/
namespace MiscEx

/-! ## SequenceLearner (C10 `seq_partition`, C13 `seq_roundtrip_valid`, C10 `seq_asked_pending_until_told`) -/

/-- a history on a sequence of 5 elements: a committing ask, tells in non-sorted order (one of them a re-tell), an
explicit pending mark, a discard, a non-committing ask -/
def seqOps : List (Seq.Op String) :=
  [.ask 2 true, .tell 1 "b", .tellPending 3, .tell 4 "e", .tell 1 "b'", .removeUnfinished, .ask 1 false,
   .tell 0 "a", .ask 2 true]

theorem seqValid : Seq.ValidOps (Seq.init 5) seqOps := by decide

/-- the quantifier excludes something: an index outside the sequence, a pending mark on an evaluated element -/
example : ¬ Seq.ValidOps (Seq.init 5) [.tell 5 "x"] := by decide
example : ¬ Seq.ValidOps (Seq.init 5) [.tell 2 "x", .tellPending 2] := by decide

example : Seq.Inv (Seq.run (Seq.init 5) seqOps) := C10.seq_partition 5 seqOps seqValid
example : Seq.Inv (Seq.run (Seq.init 5) seqOps) := C13.seq_roundtrip_valid 5 seqOps seqValid

/-- the state reached: three evaluated elements, two pending, nothing left to do -/
example : (Seq.run (Seq.init 5) seqOps).data = [(0, "a"), (1, "b'"), (4, "e")] ∧
    (Seq.run (Seq.init 5) seqOps).pending = [3, 2] ∧ (Seq.run (Seq.init 5) seqOps).todo = [] := by decide
/-- and an earlier state where all three parts are non-empty -/
example : (Seq.run (Seq.init 5) (seqOps.take 3)).data = [(1, "b")] ∧
    (Seq.run (Seq.init 5) (seqOps.take 3)).pending = [3, 0] ∧
    (Seq.run (Seq.init 5) (seqOps.take 3)).todo = [2, 4] := by decide

/-- C10 `seq_asked_pending_until_told`: the hypothesis `i ∈ (ask s n true).1` holds for a reachable `s`, and the
quantifier over continuations contains a non-empty one -/
def sSeq : Seq.State String := Seq.run (Seq.init 5) (seqOps.take 8)
theorem mem_ask : 2 ∈ (Seq.ask sSeq 2 true).1 := by decide
example := C10.seq_asked_pending_until_told sSeq 2 2 mem_ask
example : ∀ op ∈ ([.tell 3 "d", .tellPending 2, .ask 1 true] : List (Seq.Op String)), Seq.KeepsPending 2 op := by
  intro op hop
  simp only [List.mem_cons, List.mem_nil_iff, or_false] at hop
  rcases hop with rfl | rfl | rfl <;> simp [Seq.KeepsPending]
example : 2 ∈ (Seq.run (Seq.ask sSeq 2 true).2 [.tell 3 "d", .tellPending 2, .ask 1 true]).pending := by decide

/-- C11.a: two different orders of four results with distinct indices -/
def tsS : List (Nat × String) := [(0, "a"), (3, "d"), (1, "b"), (2, "c")]
def tsS' : List (Nat × String) := [(2, "c"), (0, "a"), (1, "b"), (3, "d")]
theorem tsS_perm : tsS.Perm tsS' := by decide
theorem tsS_nodup : (tsS.map Prod.fst).Nodup := by decide
example : tsS ≠ tsS' := by decide
example : Seq.run (Seq.init 5) (tsS.map Seq.tellOp) = Seq.run (Seq.init 5) (tsS'.map Seq.tellOp) :=
  C11.seq_order_irrelevant 5 tsS_perm tsS_nodup
example : (Seq.run (Seq.init 5) (tsS.map Seq.tellOp)).data = [(0, "a"), (1, "b"), (2, "c"), (3, "d")] := by decide

/-! ## AverageLearner (C10 `avg_told_not_pending_partial`, `avg_retell_noop`, `avg_tellPending_known_noop`,
`avg_retell_after_pending_noop`, `avg_retell_after_pending_run`, `avg_asked_pending_until_told`, C11.b) -/

/-- a history: a committing ask that returned seeds 0, 1, 2, results in another order, an explicit pending mark of
a fresh seed, a pending mark of the ALREADY TOLD seed 2, a re-tell of it, a committing ask whose points contain the
told seed 0, a discard, another committing ask, a pending mark of the told seed 0 -/
def avgOps : List (Avg.Op ℚ) :=
  [.askCommit [0, 1, 2], .tell 2 (1/2), .tell 0 3, .tellPending 5, .tellPending 2, .tell 2 7, .askCommit [0, 4],
   .removeUnfinished, .askCommit [1, 3], .tell 3 (-1), .tellPending 0]

/-- the history marks seeds pending that have a value at that moment (before the repair
`fix: AverageLearner.tell_pending marked an already evaluated seed as pending` such a history was excluded by the
proviso `Avg.ValidOps`) -/
example : Avg.hasKey 2 (Avg.run (Avg.init (some (1/10 : ℚ)) none 2) (avgOps.take 4)).data = true ∧
    Avg.hasKey 0 (Avg.run (Avg.init (some (1/10 : ℚ)) none 2) (avgOps.take 6)).data = true ∧
    Avg.hasKey 0 (Avg.run (Avg.init (some (1/10 : ℚ)) none 2) (avgOps.take 10)).data = true := by decide +kernel
example : avgOps = avgOps.take 4 ++ .tellPending 2 :: avgOps.drop 5 ∧
    avgOps = avgOps.take 6 ++ .askCommit [0, 4] :: avgOps.drop 7 ∧
    avgOps = avgOps.take 10 ++ [.tellPending 0] := ⟨rfl, rfl, rfl⟩

/-- C10 `avg_told_not_pending_partial` on that history (no hypothesis left to discharge) -/
example := C10.avg_told_not_pending_partial (some (1/10 : ℚ)) none 2 avgOps

/-- … and on the former counterexample: seed 0 has a value and is not pending -/
example : let s := Avg.run (Avg.init (none : Option ℚ) none 2) [.tell 0 1, .tellPending 0, .tell 0 2]
    Avg.hasKey 0 s.data = true ∧ 0 ∉ s.pending := by
  intro s
  have h : Avg.hasKey 0 s.data = true := by decide +kernel
  exact ⟨h, (C10.avg_told_not_pending_partial (none : Option ℚ) none 2 _).2 0 h⟩

/-- the state reached: three values, one pending seed; right after the pending mark of the told seed 2 (prefix of
length 5) and after the committing ask that contained the told seed 0 (prefix of length 7) the told seeds are not
pending -/
example : (Avg.run (Avg.init (some (1/10 : ℚ)) none 2) avgOps).data = [(2, 1/2), (0, 3), (3, -1)] ∧
    (Avg.run (Avg.init (some (1/10 : ℚ)) none 2) avgOps).pending = [1] ∧
    (Avg.run (Avg.init (some (1/10 : ℚ)) none 2) avgOps).npoints = 3 ∧
    (Avg.run (Avg.init (some (1/10 : ℚ)) none 2) avgOps).sumF = 5/2 ∧
    (Avg.run (Avg.init (some (1/10 : ℚ)) none 2) (avgOps.take 5)).pending = [5, 1] ∧
    (Avg.run (Avg.init (some (1/10 : ℚ)) none 2) (avgOps.take 7)).pending = [4, 5, 1] := by decide +kernel

/-- C10 `avg_retell_noop`: the hypothesis holds for seed 2 in the reachable state -/
example : Avg.tell (Avg.run (Avg.init (some (1/10 : ℚ)) none 2) avgOps) 2 99 =
    Avg.run (Avg.init (some (1/10 : ℚ)) none 2) avgOps :=
  C10.avg_retell_noop _ 2 99 (by decide +kernel)

/-- C10 `avg_tellPending_known_noop`: the hypothesis holds for seed 2 in the reachable state -/
example : Avg.tellPending (Avg.run (Avg.init (some (1/10 : ℚ)) none 2) avgOps) 2 =
    Avg.run (Avg.init (some (1/10 : ℚ)) none 2) avgOps :=
  C10.avg_tellPending_known_noop _ 2 (by decide +kernel)

/-- C10 `avg_retell_after_pending_noop` / `avg_retell_after_pending_run` in the state reached by that history, for
a FRESH seed 7 (the first `tell` does something: 7 gets the value 4, not 9) and for the told seed 2 -/
example := C10.avg_retell_after_pending_noop (Avg.run (Avg.init (some (1/10 : ℚ)) none 2) avgOps) 7 4 9
example := C10.avg_retell_after_pending_run (some (1/10 : ℚ)) none 2 avgOps 7 4 9
example := C10.avg_retell_after_pending_run (some (1/10 : ℚ)) none 2 avgOps 2 4 9
example :
    let s := Avg.run (Avg.init (some (1/10 : ℚ)) none 2) avgOps
    let t := Avg.tell (Avg.tellPending (Avg.tell s 7 4) 7) 7 9
    t.data = [(2, 1/2), (0, 3), (3, -1), (7, 4)] ∧ t.pending = [1] ∧ t.npoints = 4 ∧ t.sumF = 13/2 := by
  decide +kernel

/-- C10 `avg_asked_pending_until_told`: a real `ask(2)` in the state reached (its hypothesis is inhabited) -/
theorem avgAsk : Avg.askPoints (Avg.run (Avg.init (some (1/10 : ℚ)) none 2) avgOps) 2 [] = some [4, 5] := by
  decide +kernel
example := C10.avg_asked_pending_until_told _ 2 [] [4, 5] avgAsk

/-- C11.b: two orders of four results with distinct seeds -/
def tsA : List (Nat × ℚ) := [(0, 1), (3, 1/2), (1, 7), (2, 2)]
def tsA' : List (Nat × ℚ) := [(2, 2), (0, 1), (1, 7), (3, 1/2)]
theorem tsA_perm : tsA.Perm tsA' := by decide +kernel
theorem tsA_nodup : (tsA.map Prod.fst).Nodup := by decide
example : tsA ≠ tsA' := by decide +kernel
example := C11.avg_order_irrelevant (Avg.init (some (1/10 : ℚ)) none 2) tsA_perm tsA_nodup
example : (Avg.run (Avg.init (some (1/10 : ℚ)) none 2) (tsA.map Avg.tellOp)).sumF = 21/2 ∧
    (Avg.run (Avg.init (some (1/10 : ℚ)) none 2) (tsA.map Avg.tellOp)).sumFsq = 217/4 ∧
    Avg.mean (Avg.run (Avg.init (some (1/10 : ℚ)) none 2) (tsA'.map Avg.tellOp)) = 21/8 := by decide +kernel

/-! ## C09: the generic wrapper theorems have inhabited hypotheses -/

/-- the SequenceLearner model as a `Learner`: its non-committing ask returns its state -/
theorem seq_nocommit (c : Seq.State String) (n : Nat) : ((Seq.asLearner String).ask c n false).2 = c := rfl

/-- DataSaver over it (full results = (value, extra) pairs, the picker takes the value) -/
def dsState : DataSaver.State (Seq.State String) Nat (String × Nat) :=
  { child := Seq.run (Seq.init 5) (seqOps.take 3), extra := [(1, ("b", 17))] }
example := C09.datasaver_ask_nocommit_noop (Seq.asLearner String) (Prod.fst : String × Nat → String) seq_nocommit
  dsState 2
example : ((DataSaver.wrap (Seq.asLearner String) (Prod.fst : String × Nat → String)).ask dsState 2 false).1 =
    [2, 4] := by decide

example := C09.learner_later_answers (Seq.asLearner String) seq_nocommit (Seq.init 5) 3
  [.tell 0 "a", .ask 2 true, .ask 1 false]
example : (Seq.asLearner String).answers (Seq.init 5) [.tell 0 "a", .ask 2 true, .ask 1 false] = [[1, 2], [3]] := by
  decide

/-- BalancingLearner over lawful children: `Balancing.Ex.toy_lawful` (three children, reachable state) -/
example := C09.balancing_ask_nocommit_noop Balancing.Ex.toy Balancing.Ex.toy_lawful (Balancing.Ex.reach .loss) 3

end MiscEx
