import AdaptiveProofs.Lemmas.L2D
import AdaptiveProofs.Lemmas.OrderIndep

/-!
# C11 — what a learner knows depends on the set of results, not on how they arrived

Property theorems (helper lemmas: `Lemmas/OrderIndep*.lean`).  For the one-dimensional learner the statement is
for exact loss recomputation (`factor = 1`): with the default factor 2 it is FALSE of the code and of the model
(`Lemmas/OrderIndep.lean` carries a kernel-checked counterexample at `Rat`; recorded finding
`C11.l1d_order_dependence:recompute_factor_gt_1`).  `Agree s₁ s₂` says the two states coincide in every observable:
abscissa lists, data as a map, bounding boxes and scales, BOTH loss tables as lists (same entries in the same
`ItemSortedDict` order), `loss(real)` for both flags and `ask(n)` for every `n`.
-/
namespace C11

/-- C11.a  SequenceLearner: telling the same results (distinct indices) in any order gives the SAME state. -/
theorem seq_order_irrelevant {β : Type} (n : Nat) {ts₁ ts₂ : List (Nat × β)} (hp : ts₁.Perm ts₂)
    (hnd : (ts₁.map Prod.fst).Nodup) :
    Seq.run (Seq.init n) (ts₁.map Seq.tellOp) = Seq.run (Seq.init n) (ts₂.map Seq.tellOp) :=
  Seq.run_tells_perm n hp hnd

/-- C11.b  AverageLearner: telling the same results (distinct seeds) in any order gives the same moments, the
same data as a set, the same mean / standard deviation / loss and the same next suggestions. -/
theorem avg_order_irrelevant {α : Type} [Field α] [LinearOrder α] [IsStrictOrderedRing α]
    (s : Avg.State α) {ts₁ ts₂ : List (Nat × α)} (hp : ts₁.Perm ts₂) (hnd : (ts₁.map Prod.fst).Nodup) :
    let s₁ := Avg.run s (ts₁.map Avg.tellOp)
    let s₂ := Avg.run s (ts₂.map Avg.tellOp)
    s₁.npoints = s₂.npoints ∧ s₁.sumF = s₂.sumF ∧ s₁.sumFsq = s₂.sumFsq ∧
    (∀ k v, (k, v) ∈ s₁.data ↔ (k, v) ∈ s₂.data) ∧ Avg.mean s₁ = Avg.mean s₂ ∧
    (∀ sqrt, Avg.std sqrt s₁ = Avg.std sqrt s₂) ∧
    (∀ sqrt real, Avg.loss sqrt s₁ real = Avg.loss sqrt s₂ real) ∧
    (∀ n choice, Avg.askPoints s₁ n choice = Avg.askPoints s₂ n choice) := by
  intro s₁ s₂
  obtain ⟨a, b, c, d, _, _, g, h, i, j⟩ := Avg.order_indep s hp hnd
  exact ⟨a, b, c, d, g, h, i, j⟩

section l1d
open L1D
variable {α : Type} [Field α] [LinearOrder α] [IsStrictOrderedRing α]
variable (lossFn : List (Option α) → List (Option (List α)) → Loss α) (r12 : α → α)

/-- C11.c  Learner1D (exact recomputation): the same results told one by one in ANY ORDER lead to states that
agree in every observable — for every loss function with any number of neighbours, scalar or vector values. -/
theorem l1d_order_irrelevant {lo hi : α} (hlt : lo < hi) (dxEps : α) (nn d : Nat)
    {ts₁ ts₂ : List (α × List α)} (hp : ts₁.Perm ts₂) (hnd : (ts₁.map Prod.fst).Nodup)
    (hdim : ∀ kv ∈ ts₁, kv.2.length = d) (hin : ∀ kv ∈ ts₁, lo ≤ kv.1 ∧ kv.1 ≤ hi) :
    Agree lossFn r12 (run lossFn r12 (init lo hi 1 dxEps nn) (ts₁.map tellOp))
      (run lossFn r12 (init lo hi 1 dxEps nn) (ts₂.map tellOp)) :=
  order_indep_tells lossFn r12 hlt dxEps nn d hp hnd hdim hin

/-- C11.d  Learner1D: one batch (`tell_many`, loop or batch path, forced or not) equals telling one by one —
whichever points of the domain the batch contains.  Before the repair `fix: Learner1D.tell_many batch path
shrank the x-scale to the range of the points` this needed validity of the batch in the old sense (both end
points of the domain among the results, hypothesis `hv : ValidOps … [.tellMany ts₂ force]`); that proviso is
gone.  What is left is `hne`: a FORCED batch is not empty (on a forced empty batch of an empty learner the
real code raises; the model, which does not mirror the exception, puts its default `0` into the x-box —
kernel-checked example at the end of `Lemmas/OrderIndep.lean`). -/
theorem l1d_batch_eq_single {lo hi : α} (hlt : lo < hi) (dxEps : α) (nn d : Nat)
    {ts₁ ts₂ : List (α × List α)} (force : Bool) (hp : ts₁.Perm ts₂) (hnd : (ts₁.map Prod.fst).Nodup)
    (hdim : ∀ kv ∈ ts₁, kv.2.length = d) (hin : ∀ kv ∈ ts₁, lo ≤ kv.1 ∧ kv.1 ≤ hi)
    (hne : force = true → ts₂ ≠ []) :
    Agree lossFn r12 (run lossFn r12 (init lo hi 1 dxEps nn) (ts₁.map tellOp))
      (run lossFn r12 (init lo hi 1 dxEps nn) [.tellMany ts₂ force]) :=
  tells_vs_tellMany lossFn r12 hlt dxEps nn d force hp hnd hdim hin hne

/-- C11.e  Learner1D, the general form, also WHILE OTHER POINTS ARE PENDING: any two valid histories (tells,
batched tells, pending marks, discards, asks; valid = all points inside the bounds and no empty batch — since the
repair `fix: Learner1D.tell_many batch path shrank the x-scale to the range of the points` `ValidOps` has no
end-point proviso any more, so a batch may contain any points of the domain) after which the learners hold the
same data and the same pending set agree in every observable — the state is a function of (data, pending). -/
theorem l1d_state_is_function_of_content {lo hi : α} (hlt : lo < hi) (dxEps : α) (nn d : Nat)
    (ops₁ ops₂ : List (Op α))
    (hv₁ : ValidOps lossFn r12 (init lo hi 1 dxEps nn) ops₁) (hv₂ : ValidOps lossFn r12 (init lo hi 1 dxEps nn) ops₂)
    (hd₁ : ∀ op ∈ ops₁, OpDim d op) (hd₂ : ∀ op ∈ ops₂, OpDim d op)
    (hdata : ∀ x, dataGet (run lossFn r12 (init lo hi 1 dxEps nn) ops₁).data x =
                  dataGet (run lossFn r12 (init lo hi 1 dxEps nn) ops₂).data x)
    (hpend : ∀ x, x ∈ (run lossFn r12 (init lo hi 1 dxEps nn) ops₁).pending ↔
                  x ∈ (run lossFn r12 (init lo hi 1 dxEps nn) ops₂).pending) :
    Agree lossFn r12 (run lossFn r12 (init lo hi 1 dxEps nn) ops₁) (run lossFn r12 (init lo hi 1 dxEps nn) ops₂) :=
  agree_of_same_content lossFn r12 hlt dxEps nn d ops₁ ops₂ hv₁ hv₂ hd₁ hd₂ hdata hpend
end l1d

end C11


/-! ### Learner2D (bookkeeping model `AdaptiveModel/L2D.lean`; proofs in `Lemmas/L2D.lean`, sections I and J).  The geometry is
an oracle that reads `data` as an ORDERED list, so nothing is claimed about later suggestions; the statement is about the
bookkeeping: `data`, `npoints`, `pending_points`, `_stack`. -/
namespace C11
section l2d
open L2D
variable {V L : Type}

/-- C11.l2d  Telling the same (point, value) pairs - pairwise distinct points, inside the bounds or not - in any order to the
same learner (ANY state) gives the same `data` as a map, the same key set, the same `npoints`, the same old part of `data`
in the same order, the SAME pending list and the SAME stack.  What differs is the `OrderedDict` order of the newly inserted
keys (`L2D.keys_tellMany`; `L2D.Ex.tell_order_shows_in_data_order`).  With a repeated point the last value wins
(`L2D.Ex.duplicate_tells_last_wins`). -/
theorem l2d_tells_order_irrelevant (c : Cfg L) (s : State V L) {xs ys : List (Nat × V)} (hp : xs.Perm ys)
    (hnd : (keys xs).Nodup) :
    (∀ p, aget (tellMany c s xs).data p = aget (tellMany c s ys).data p) ∧
    (∀ p, p ∈ keys (tellMany c s xs).data ↔ p ∈ keys (tellMany c s ys).data) ∧
    npoints (tellMany c s xs) = npoints (tellMany c s ys) ∧
    (keys (tellMany c s xs).data).take s.data.length = (keys (tellMany c s ys).data).take s.data.length ∧
    (tellMany c s xs).pending = (tellMany c s ys).pending ∧
    (tellMany c s xs).stack = (tellMany c s ys).stack :=
  L2D.l2d_tells_order_irrelevant c s hp hnd

/-- along histories: the two `data` are permutations of each other (same (point, value) pairs) -/
theorem l2d_tells_data_perm_reach (c : Cfg L) (h : List (Op V L)) {xs ys : List (Nat × V)} (hp : xs.Perm ys)
    (hnd : (keys xs).Nodup) :
    (tellMany c (run c (init c) h) xs).data.Perm (tellMany c (run c (init c) h) ys).data :=
  l2d_tells_data_perm c _ (inv0_run (inv0_init c) h).dataNodup hp hnd

/-- the exact order of `data` after the tells: old keys in the old order, then the new points in told order -/
theorem l2d_data_order_after_tells (c : Cfg L) (s : State V L) (xs : List (Nat × V)) (hnd : (keys xs).Nodup) :
    keys (tellMany c s xs).data = keys s.data ++ (keys xs).filter (fun p => !hasKey s.data p) :=
  keys_tellMany c s xs hnd

/-- the states are EQUAL when the points new to `data` come in the same relative order - in particular re-evaluations of known
points commute -/
theorem l2d_tells_state_eq_reach (c : Cfg L) (h : List (Op V L)) {xs ys : List (Nat × V)} (hp : xs.Perm ys)
    (hnd : (keys xs).Nodup)
    (hord : (keys xs).filter (fun p => !hasKey (run c (init c) h).data p) =
            (keys ys).filter (fun p => !hasKey (run c (init c) h).data p)) :
    tellMany c (run c (init c) h) xs = tellMany c (run c (init c) h) ys :=
  l2d_tells_state_eq c _ (inv0_run (inv0_init c) h).dataNodup hp hnd hord

end l2d
end C11
