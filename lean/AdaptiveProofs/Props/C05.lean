import AdaptiveProofs.Lemmas.RunnerInv

/-!
# C05 — Runners drive a learner through a legal history under every completion schedule

All theorems quantify over every configuration (`ntasks`, `retries`, both runner kinds)
and every finite event list: every learner (its answers to `ask` are events), every
goal, every completion order and outcome, cancellation at any wait.
-/
namespace Runner

/-- every `tell` in the trace is legal: the value comes from a future that was submitted
for exactly this pid and point, the point is the one the learner handed out for this pid
(entry `pid` of everything the learner returned so far), the pid has not been told
before, and the future's result has not been consumed before. -/
def TellsLegal (tr : List Call) : Prop :=
  ∀ tr1 tr2 fut pid x y, tr = tr1 ++ Call.tell fut pid x y :: tr2 →
    Call.submit fut pid x ∈ tr1 ∧ (askedPts tr1)[pid]? = some x ∧ nTell pid tr1 = 0 ∧
    (∀ p x' y', Call.tell fut p x' y' ∉ tr1)

/-- C05.a -/
theorem runner_tells_legal (cfg : Cfg) (evs : List Ev) :
    TellsLegal (run (init cfg) evs).trace :=
  (inv_run evs _ (inv_init cfg)).1.legal

/-- C05.b  never more than `ntasks` evaluations in flight (learners that answer `ask(k)`
with at most `k` points) -/
theorem runner_inflight_bound (cfg : Cfg) (evs : List Ev) (h : EvsOK (init cfg) evs) :
    (run (init cfg) evs).pending.length ≤ cfg.ntasks := by
  have hb := (boundInv_run evs _ (boundInv_init cfg) h).1
  rwa [run_cfg] at hb

/-- C05.c  … and exactly `ntasks` in flight after each refill when the learner gave as
many points as requested, or when retries alone fill the slots -/
theorem runner_inflight_full (cfg : Cfg) (evs : List Ev) (h : EvsOK (init cfg) evs) :
    let s := run (init cfg) evs
    (∀ n pids pts, s.phase = .asking n pids → pts.length = n - pids.length →
        (step s (.asked pts)).phase = .waiting ∧ (step s (.asked pts)).pending.length = cfg.ntasks) ∧
    (s.phase = .head → (step s (.goal false)).phase = .waiting →
        (step s (.goal false)).pending.length = cfg.ntasks) := by
  intro s
  have hb : BoundInv s := boundInv_run evs _ (boundInv_init cfg) h
  have hcfg : s.cfg = cfg := run_cfg evs (init cfg)
  refine ⟨fun n pids pts hph hlen => ?_, fun hph hw => ?_⟩
  · rw [← hcfg]; exact boundInv_asked_full hb hph hlen
  · rw [← hcfg]; exact boundInv_refill_full hb hph hw

/-- C05.d  clean exit: when the runner has stopped, `remove_unfinished` was called and
after it only cancellations and the consumption of late results happen (no further
`ask`, `submit` or goal evaluation); every submitted future was consumed or cancelled;
status `finished` means the last goal evaluation was true; only the asynchronous runner
reports `cancelled`. -/
theorem runner_exit_clean (cfg : Cfg) (evs : List Ev) (st : Status)
    (h : (run (init cfg) evs).phase = .stopped st) :
    let s := run (init cfg) evs
    (∃ tr1 tr2, s.trace = tr1 ++ Call.removeUnfinished :: tr2 ∧
      ∀ c ∈ tr2, (∃ f, c = .cancel f) ∨ (∃ f p x y, c = .tell f p x y) ∨
                 (∃ f p, c = .evalFailed f p) ∨ (∃ p x, c = .raise p x)) ∧
    (∀ fut pid x, Call.submit fut pid x ∈ s.trace →
      fut ∉ s.pending.map Prod.fst ∨ Call.cancel fut ∈ s.trace) ∧
    (st = .finished → ∃ tr1 tr2, s.trace = tr1 ++ Call.goal true :: tr2 ∧
      ∀ c ∈ tr2, ∀ b, c ≠ .goal b) ∧
    (st = .cancelled → cfg.blocking = false) := by
  intro s
  have hcfg : s.cfg = cfg := run_cfg evs (init cfg)
  obtain ⟨h1, h2, h3, h4, _⟩ := exitInv_run evs _ (exitInv_init cfg) st (Or.inr h)
  refine ⟨h1, fun fut pid x _ => ?_, h3, fun e => hcfg ▸ h4 e⟩
  by_cases hm : fut ∈ s.pending.map Prod.fst
  · obtain ⟨fp, hfp, rfl⟩ := List.mem_map.1 hm
    exact Or.inr (h2 fp hfp)
  · exact Or.inl hm

/-! ## Non-vacuity: a concrete asynchronous run with a retry, a late result and a cancel -/

def exampleCfg : Cfg := { ntasks := 3, retries := 1, raiseIf := false, blocking := false, doLog := true }

def exampleEvs : List Ev :=
  [.goal false, .asked [10, 11], .done [(0, .fail)], .goal false, .asked [12],
   .done [(1, .ok 5), (2, .ok 6)], .goal false, .asked [], .cancel, .remaining [(3, .ok 7)]]

example : EvsOK (init exampleCfg) exampleEvs := by decide
example : (run (init exampleCfg) exampleEvs).phase = .stopped .cancelled := by decide
example : (run (init exampleCfg) (exampleEvs.take 5)).pending.length = 3 := by decide
example : (run (init exampleCfg) (exampleEvs.take 4)).phase = .asking 2 [0] := by decide
example : nTell 1 (run (init exampleCfg) exampleEvs).trace = 1 := by decide

end Runner
