import AdaptiveProofs.Lemmas.L1DInv
import AdaptiveProofs.Lemmas.SeqInv
import AdaptiveModel.Avg
import AdaptiveProofs.Lemmas.L1DBook
import AdaptiveProofs.Lemmas.AvgBook
import AdaptiveProofs.Lemmas.SeqBook
import AdaptiveProofs.Lemmas.L2D

/-!
# C10 — telling is faithful bookkeeping: data, pending set and re-tells

Property theorems per learner model (helper lemmas: `Lemmas/L1DBook.lean`, `AvgBook.lean`, `SeqBook.lean`).
-/
namespace C10

section l1d
open L1D
variable {α : Type} [Field α] [LinearOrder α] [IsStrictOrderedRing α]
variable (lossFn : List (Option α) → List (Option (List α)) → Loss α) (r12 : α → α)

/-- telling an already known point again — with the same or a different value — changes nothing -/
theorem l1d_retell_noop (s : State α) (x : α) (y : List α) (h : hasData s x = true) :
    tell lossFn r12 s x y = s := by
  unfold tell; rw [if_pos h]

theorem l1d_tellPending_known_noop (s : State α) (x : α) (h : hasData s x = true) :
    tellPending lossFn r12 s x = s := by
  unfold tellPending; rw [if_pos h]

/-- in every reachable state: the abscissa lists are exactly the evaluated / evaluated-or-pending points,
no pending point has a value, no point is stored twice -/
theorem l1d_pending_discipline (lo hi factor dxEps : α) (nn : Nat) (ops : List (Op α)) :
    let s := run lossFn r12 (init lo hi factor dxEps nn) ops
    (∀ x ∈ s.pending, hasData s x = false) ∧ s.pending.Nodup ∧ (s.data.map Prod.fst).Nodup ∧
    (∀ x, x ∈ s.xs ↔ hasData s x = true) := by
  intro s
  have h : Inv s := inv_run lossFn r12 lo hi factor dxEps nn ops
  exact ⟨h.pend_nodata, h.pend_nodup, h.data_nodup, h.xs_mem⟩

/-- discarding unfinished points empties the pending set and makes the expected loss the real loss -/
theorem l1d_removeUnfinished_spec (s : State α) :
    (removeUnfinished s).pending = [] ∧ (removeUnfinished s).data = s.data ∧
    loss (removeUnfinished s) false = loss (removeUnfinished s) true := by
  refine ⟨rfl, rfl, ?_⟩
  simp only [loss, removeUnfinished]
  rfl
end l1d

section seq
variable {β : Type}
/-- SequenceLearner: in every reachable state to-do, pending and evaluated indices partition the sequence -/
theorem seq_partition (n : Nat) (ops : List (Seq.Op β)) (hv : Seq.ValidOps (Seq.init n) ops) :
    Seq.Inv (Seq.run (Seq.init n) ops) :=
  Seq.inv_run ops _ (Seq.inv_init n) hv

theorem seq_removeUnfinished_spec (s : Seq.State β) :
    (Seq.removeUnfinished s).pending = [] ∧ (Seq.removeUnfinished s).data = s.data ∧
    Seq.lossNum (Seq.removeUnfinished s) false = Seq.lossNum (Seq.removeUnfinished s) true := by
  refine ⟨rfl, rfl, ?_⟩
  simp [Seq.lossNum, Seq.removeUnfinished]
end seq

section avg
variable {α : Type} [Add α] [Mul α]
/-- AverageLearner: a seed that already has a value keeps it; the re-tell changes nothing -/
theorem avg_retell_noop (s : Avg.State α) (k : Nat) (v : α) (h : Avg.hasKey k s.data = true) :
    Avg.tell s k v = s := by
  unfold Avg.tell; rw [if_pos h]

/-- AverageLearner: marking a seed that already has a value pending changes nothing (since the repair
`fix: AverageLearner.tell_pending marked an already evaluated seed as pending`) -/
theorem avg_tellPending_known_noop (s : Avg.State α) (k : Nat) (h : Avg.hasKey k s.data = true) :
    Avg.tellPending s k = s := by
  unfold Avg.tellPending; rw [if_pos h]

/-- AverageLearner: telling an already known seed again changes nothing observable ALSO when the seed was
re-marked pending in between: after `tell(k, v)`, the sequence `tell_pending(k)`, `tell(k, w)` leaves the
whole state as it was — for every state `s`, in particular every state reachable from `init`. -/
theorem avg_retell_after_pending_noop (s : Avg.State α) (k : Nat) (v w : α) :
    Avg.tell (Avg.tellPending (Avg.tell s k v) k) k w = Avg.tell s k v :=
  Avg.tell_tellPending_tell s k v w

theorem avg_removeUnfinished_spec (s : Avg.State α) :
    (Avg.removeUnfinished s).pending = [] ∧ (Avg.removeUnfinished s).data = s.data := ⟨rfl, rfl⟩
end avg

/-! ### data = what was told, for EVERY op list (both `tell_many` paths included) -/
section full
open L1D in
/-- Learner1D: `data[x]` is the value told FIRST for `x`; the number of points is the number of distinct
told abscissae. -/
theorem l1d_data_is_first_told {α : Type} [Field α] [LinearOrder α] [IsStrictOrderedRing α]
    (lossFn : List (Option α) → List (Option (List α)) → Loss α) (r12 : α → α)
    (lo hi factor dxEps : α) (nn : Nat) (ops : List (Op α)) :
    (∀ x, dataGet (run lossFn r12 (init lo hi factor dxEps nn) ops).data x = firstTold ops x) ∧
    (run lossFn r12 (init lo hi factor dxEps nn) ops).data.length = (toldKeys ops).dedup.length :=
  ⟨fun x => data_is_first_told lossFn r12 lo hi factor dxEps nn ops x,
   data_length_eq_distinct_told lossFn r12 lo hi factor dxEps nn ops⟩

open L1D in
/-- Learner1D: a point that has a value is never pending again, whatever happens later. -/
theorem l1d_told_never_pending {α : Type} [Field α] [LinearOrder α] [IsStrictOrderedRing α]
    (lossFn : List (Option α) → List (Option (List α)) → Loss α) (r12 : α → α)
    (lo hi factor dxEps : α) (nn : Nat) (ops ops' : List (Op α)) (x : α)
    (h : hasData (run lossFn r12 (init lo hi factor dxEps nn) ops) x = true) :
    let s := run lossFn r12 (run lossFn r12 (init lo hi factor dxEps nn) ops) ops'
    hasData s x = true ∧ x ∉ s.pending :=
  told_never_pending lossFn r12 (inv_run lossFn r12 lo hi factor dxEps nn ops) h ops'

open L1D in
/-- Learner1D: every point handed out by a committing ask (in a state reached by a valid history) is
pending afterwards and stays pending until it is told or unfinished points are discarded. -/
theorem l1d_asked_pending_until_told {α : Type} [Field α] [LinearOrder α] [IsStrictOrderedRing α]
    (lossFn : List (Option α) → List (Option (List α)) → Loss α) (r12 : α → α) {lo hi : α} (hlt : lo < hi)
    (factor dxEps : α) (nn : Nat) (ops : List (Op α))
    (hv : ValidOps lossFn r12 (init lo hi factor dxEps nn) ops) (n : Nat) :
    let s := run lossFn r12 (init lo hi factor dxEps nn) ops
    ∀ x ∈ (ask lossFn r12 s n true).1.1,
      x ∈ (ask lossFn r12 s n true).2.pending ∧
      ∀ ops', (∀ op ∈ ops', KeepsPending x op) → x ∈ (run lossFn r12 (ask lossFn r12 s n true).2 ops').pending :=
  ask_commit_marks_pending_run lossFn r12 hlt factor dxEps nn ops hv n

/-- AverageLearner: `data[seed]` is the value told first; `npoints` is the number of distinct told seeds. -/
theorem avg_data_is_first_told {α : Type} [Field α] [LinearOrder α] [IsStrictOrderedRing α]
    (atol rtol : Option α) (m : Nat) (ops : List (Avg.Op α)) :
    (∀ k, Avg.dataGet (Avg.run (Avg.init atol rtol m) ops).data k = Avg.firstTold ops k) ∧
    (Avg.run (Avg.init atol rtol m) ops).npoints = (Avg.toldSeeds ops).dedup.length :=
  ⟨fun k => Avg.data_is_first_told atol rtol m ops k,
   (Avg.npoints_eq_distinct_told atol rtol m ops).1.trans (Avg.npoints_eq_distinct_told atol rtol m ops).2⟩

/-- AverageLearner: in every state reachable from `init` — by EVERY op list — no told seed is pending.
(Before the repair `fix: AverageLearner.tell_pending marked an already evaluated seed as pending` this needed
the proviso `Avg.ValidOps`: "the history never marks an already told seed pending"; a told seed that WAS marked
pending again stayed pending after a re-tell, the former finding
`C10.retold_point_still_pending:AverageLearner`.  The name of the theorem is kept; it is no longer partial.) -/
theorem avg_told_not_pending_partial {α : Type} [Field α] [LinearOrder α] [IsStrictOrderedRing α]
    (atol rtol : Option α) (m : Nat) (ops : List (Avg.Op α)) :
    let s := Avg.run (Avg.init atol rtol m) ops
    (∀ k ∈ s.pending, Avg.hasKey k s.data = false) ∧ ∀ k, Avg.hasKey k s.data = true → k ∉ s.pending :=
  Avg.told_not_pending_run atol rtol m ops

/-- AverageLearner: in every state reachable from `init`, after `tell(k, v)`, `tell_pending(k)`, `tell(k, w)` the
state is the one right after the first `tell`, seed `k` has a value and is not pending. -/
theorem avg_retell_after_pending_run {α : Type} [Field α] [LinearOrder α] [IsStrictOrderedRing α]
    (atol rtol : Option α) (m : Nat) (ops : List (Avg.Op α)) (k : Nat) (v w : α) :
    let s := Avg.run (Avg.init atol rtol m) ops
    let t := Avg.tell (Avg.tellPending (Avg.tell s k v) k) k w
    t = Avg.tell s k v ∧ Avg.hasKey k t.data = true ∧ k ∉ t.pending :=
  Avg.tell_tellPending_tell_run atol rtol m ops k v w

/-- AverageLearner: every seed a committing `ask(n)` returned is pending afterwards and stays pending until it is
told or unfinished points are discarded (any state; `choice` = the code's pick in the fallback branch). -/
theorem avg_asked_pending_until_told {α : Type} [Field α] [LinearOrder α] [IsStrictOrderedRing α]
    (s : Avg.State α) (n : Nat) (choice pts : List Nat) (h : Avg.askPoints s n choice = some pts) :
    ∀ p ∈ pts, p ∈ (Avg.step s (.askCommit pts)).pending ∧
      ∀ ops : List (Avg.Op α), (∀ op ∈ ops, Avg.KeepsPending p op) →
        p ∈ (Avg.run (Avg.step s (.askCommit pts)) ops).pending :=
  Avg.ask_pending_until_told h

/-- AverageLearner: discarding empties the pending set and equalises the two losses. -/
theorem avg_removeUnfinished_losses {α : Type} [Field α] [LinearOrder α] [IsStrictOrderedRing α]
    (sqrt : α → α) (s : Avg.State α) :
    (Avg.removeUnfinished s).pending = [] ∧
    Avg.loss sqrt (Avg.removeUnfinished s) false = Avg.loss sqrt (Avg.removeUnfinished s) true :=
  ⟨(Avg.removeUnfinished_spec sqrt s).1, (Avg.removeUnfinished_spec sqrt s).2.1⟩

/-- SequenceLearner: `data[i]` is the value told LAST for index `i` (every op list); `npoints` is the number of
distinct told indices; committed indices are pending until told or discarded. -/
theorem seq_data_is_last_told {β : Type} (n : Nat) (ops : List (Seq.Op β)) :
    (∀ i, Seq.lookup i (Seq.run (Seq.init n) ops).data = Seq.lastTold ops i) ∧
    Seq.npoints (Seq.run (Seq.init n) ops) = (Seq.toldIdx ops).dedup.length :=
  ⟨fun i => Seq.data_is_last_told' n ops i, Seq.npoints_eq_distinct_told n ops⟩

theorem seq_asked_pending_until_told {β : Type} (s : Seq.State β) (n i : Nat)
    (h : i ∈ (Seq.ask s n true).1) :
    i ∈ (Seq.ask s n true).2.pending ∧
    ∀ ops, (∀ op ∈ ops, Seq.KeepsPending i op) → i ∈ (Seq.run (Seq.ask s n true).2 ops).pending :=
  Seq.ask_commit_marks_pending s n i h
end full

end C10

/-! ### Learner2D (bookkeeping model `AdaptiveModel/L2D.lean`; the geometry is an oracle, every `ask` of a history carries its
own; proofs in `Lemmas/L2D.lean`) -/
namespace C10
section l2d
open L2D
variable {V L : Type}

/-- Learner2D, every history with any oracles: `data[p]` is the value told LAST for `p` (`tell` OVERWRITES), and `npoints`
is the number of DISTINCT told points. -/
theorem l2d_data_is_last_told (c : Cfg L) (ops : List (Op V L)) :
    (∀ p, aget (run c (init c) ops).data p = lastTold ops p) ∧
    npoints (run c (init c) ops) = (toldPts ops).dedup.length :=
  ⟨fun p => data_is_last_told c ops p, npoints_eq_distinct_told c ops⟩

/-- one `tell`: the value is stored, nothing else in `data` changes; an in-bounds point leaves the pending set and the
stack; a point outside the bounds touches neither. -/
theorem l2d_tell (c : Cfg L) (s : State V L) (p : Nat) (v : V) :
    aget (tell c s p v).data p = some v ∧ (∀ q, q ≠ p → aget (tell c s p v).data q = aget s.data q) ∧
    (c.inB p = true → p ∉ (tell c s p v).pending ∧ p ∉ keys (tell c s p v).stack) ∧
    (c.inB p = false → (tell c s p v).pending = s.pending ∧ (tell c s p v).stack = s.stack) :=
  ⟨(tell_overwrites c s p v).1, (tell_overwrites c s p v).2, tell_inB_clears c s p v, tell_outside c s p v⟩

/-- a re-tell with the SAME value leaves `data` (order included) and `npoints` as they were; its only effect is the
`discard`/`pop` of the point; if the point is neither pending nor on the stack the state is unchanged. -/
theorem l2d_retell_same (c : Cfg L) (s : State V L) (p : Nat) (v : V) (h : aget s.data p = some v) :
    (tell c s p v).data = s.data ∧ npoints (tell c s p v) = npoints s ∧
    (tell c s p v).pending = (if c.inB p then pdiscard s.pending p else s.pending) ∧
    (tell c s p v).stack = (if c.inB p then apop s.stack p else s.stack) ∧
    (p ∉ s.pending → p ∉ keys s.stack → tell c s p v = s) :=
  ⟨(retell_same c s p v h).1, (retell_same c s p v h).2.1, (retell_same c s p v h).2.2.1, (retell_same c s p v h).2.2.2,
   retell_same_noop c s p v h⟩

/-- every in-bounds point a committing `ask` returns is pending afterwards, and stays pending along every continuation that
neither tells it nor discards - ANY state, ANY oracles (`KeepsPendingAny`: an `ask` of the continuation is any `ask`).  Before
the repair of the non-committing `ask` (e806eb2) this needed `Inv1`, `CandsFresh` for this `ask` and for every `ask` of the
continuation (`KeepsPending`); `L2D.Ex.nocommit_ask_keeps_prior_pending` is the former counterexample. -/
theorem l2d_asked_pending_until_told (c : Cfg L) (cands : Oracle V L) (s : State V L)
    (n : Nat) {s' : State V L} {ret : List (Nat × L)}
    (h : ask c cands s n true = (s', .ok ret)) :
    ∀ q ∈ keys ret, c.inB q = true → q ∈ s'.pending ∧
      ∀ ops : List (Op V L), (∀ op ∈ ops, KeepsPendingAny q op) → q ∈ (run c s' ops).pending := by
  intro q hq hb
  have h1 := ask_commit_marks_pending c cands s n h q hq hb
  exact ⟨h1, fun ops hops => pending_stays_run_any h1 ops hops⟩

/-- the earlier form (fresh oracles in the continuation) is a special case -/
theorem l2d_asked_pending_until_told_fresh (c : Cfg L) (cands : Oracle V L) (s : State V L)
    (n : Nat) {s' : State V L} {ret : List (Nat × L)}
    (h : ask c cands s n true = (s', .ok ret)) :
    ∀ q ∈ keys ret, c.inB q = true → q ∈ s'.pending ∧
      ∀ ops : List (Op V L), (∀ op ∈ ops, KeepsPending q op) → q ∈ (run c s' ops).pending := fun q hq hb =>
  ⟨(l2d_asked_pending_until_told c cands s n h q hq hb).1, fun ops hops =>
    (l2d_asked_pending_until_told c cands s n h q hq hb).2 ops
      (fun op hop => keepsPendingAny_of_keepsPending (hops op hop))⟩

/-- `remove_unfinished` empties the pending set, keeps the data, and queues every corner without a value at `inf`. -/
theorem l2d_removeUnfinished (c : Cfg L) (s : State V L) :
    (removeUnfinished c s).pending = [] ∧ (removeUnfinished c s).data = s.data ∧
    ∀ p ∈ c.corners, p ∉ keys s.data → aget (removeUnfinished c s).stack p = some c.inf :=
  removeUnfinished_spec c s

/-- invariants of every reachable state, whatever the oracles answer: the pending set is duplicate free and in bounds, the
stack and `data` hold one entry per key. -/
theorem l2d_invariants (c : Cfg L) (ops : List (Op V L)) : Inv0 c (run c (init c) ops) :=
  inv0_run (inv0_init c) ops

/-- … and when every oracle proposes fresh points (`CandsFresh`: neither pending nor evaluated): no stack key is pending,
no in-bounds stack key is evaluated.  `L2D.Ex.inv1_needs_fresh` / `inv1_needs_fresh_evaluated` are the kernel-checked
counterexamples without the hypothesis. -/
theorem l2d_invariants_fresh (c : Cfg L) (ops : List (Op V L)) (hops : ∀ op ∈ ops, OpFresh op) :
    Inv1 c (run c (init c) ops) := inv1_reach c ops hops

/-- the `while n_left > 0` loop of `ask` is modelled with `n_left` rounds of fuel; more fuel never changes the result, and the
`diverge` outcome is reported exactly out of a round in which `_fill_stack` returned no point and changed nothing (the real
loop then repeats that round for ever). -/
theorem l2d_ask_loop_total (c : Cfg L) (cands : Oracle V L) (nl k : Nat) (s : State V L) (pts : List (Nat × L)) :
    askLoop c cands (nl + k) nl s pts = askLoop c cands nl nl s pts ∧
    ∀ s2, askLoop c cands nl nl s pts = (s2, .diverge) → ∃ till, fillStack cands s2 till = some (s2, []) :=
  ⟨askLoop_fuel_ge c cands nl s pts k, fun s2 h => askLoop_diverge_iff_empty_round c cands nl nl s pts s2 (le_refl _) h⟩
end l2d
end C10
