import AdaptiveProofs.Lemmas.L1DInv
import AdaptiveProofs.Lemmas.SeqInv
import AdaptiveModel.Avg

/-!
# C10 — telling is faithful bookkeeping: data, pending set and re-tells

Property theorems per learner model (first instalment; `Lemmas/L1DBook.lean`, `AvgBook.lean` extend it).
-/
namespace C10

section l1d
open L1D
variable {α : Type} [Field α] [LinearOrder α] [IsStrictOrderedRing α]
variable (lossFn : List (Option α) → List (Option (List α)) → Loss α) (r12 : α → α)

/-- telling an already known point again — with the same or a different value — changes nothing -/
theorem l1d_retell_noop (s : State α) (x : α) (y : List α) (h : hasData s x = true) :
    tell lossFn r12 s x y = s := by
  unfold tell; rw [if_pos h]

theorem l1d_tellPending_known_noop (s : State α) (x : α) (h : hasData s x = true) :
    tellPending lossFn r12 s x = s := by
  unfold tellPending; rw [if_pos h]

/-- in every reachable state: the abscissa lists are exactly the evaluated / evaluated-or-pending points,
no pending point has a value, no point is stored twice -/
theorem l1d_pending_discipline (lo hi factor dxEps : α) (nn : Nat) (ops : List (Op α)) :
    let s := run lossFn r12 (init lo hi factor dxEps nn) ops
    (∀ x ∈ s.pending, hasData s x = false) ∧ s.pending.Nodup ∧ (s.data.map Prod.fst).Nodup ∧
    (∀ x, x ∈ s.xs ↔ hasData s x = true) := by
  intro s
  have h : Inv s := inv_run lossFn r12 lo hi factor dxEps nn ops
  exact ⟨h.pend_nodata, h.pend_nodup, h.data_nodup, h.xs_mem⟩

/-- discarding unfinished points empties the pending set and makes the expected loss the real loss -/
theorem l1d_removeUnfinished_spec (s : State α) :
    (removeUnfinished s).pending = [] ∧ (removeUnfinished s).data = s.data ∧
    loss (removeUnfinished s) false = loss (removeUnfinished s) true := by
  refine ⟨rfl, rfl, ?_⟩
  simp only [loss, removeUnfinished]
  rfl
end l1d

section seq
variable {β : Type}
/-- SequenceLearner: in every reachable state to-do, pending and evaluated indices partition the sequence -/
theorem seq_partition (n : Nat) (ops : List (Seq.Op β)) (hv : Seq.ValidOps (Seq.init n) ops) :
    Seq.Inv (Seq.run (Seq.init n) ops) :=
  Seq.inv_run ops _ (Seq.inv_init n) hv

theorem seq_removeUnfinished_spec (s : Seq.State β) :
    (Seq.removeUnfinished s).pending = [] ∧ (Seq.removeUnfinished s).data = s.data ∧
    Seq.lossNum (Seq.removeUnfinished s) false = Seq.lossNum (Seq.removeUnfinished s) true := by
  refine ⟨rfl, rfl, ?_⟩
  simp [Seq.lossNum, Seq.removeUnfinished]
end seq

section avg
variable {α : Type} [Add α] [Mul α]
/-- AverageLearner: a seed that already has a value keeps it; the re-tell changes nothing -/
theorem avg_retell_noop (s : Avg.State α) (k : Nat) (v : α) (h : Avg.hasKey k s.data = true) :
    Avg.tell s k v = s := by
  unfold Avg.tell; rw [if_pos h]

theorem avg_removeUnfinished_spec (s : Avg.State α) :
    (Avg.removeUnfinished s).pending = [] ∧ (Avg.removeUnfinished s).data = s.data := ⟨rfl, rfl⟩
end avg

end C10
