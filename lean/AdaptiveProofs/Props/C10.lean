import AdaptiveProofs.Lemmas.L1DInv
import AdaptiveProofs.Lemmas.SeqInv
import AdaptiveModel.Avg
import AdaptiveProofs.Lemmas.L1DBook
import AdaptiveProofs.Lemmas.AvgBook
import AdaptiveProofs.Lemmas.SeqBook

/-!
# C10 — telling is faithful bookkeeping: data, pending set and re-tells

Property theorems per learner model (helper lemmas: `Lemmas/L1DBook.lean`, `AvgBook.lean`, `SeqBook.lean`).
-/
namespace C10

section l1d
open L1D
variable {α : Type} [Field α] [LinearOrder α] [IsStrictOrderedRing α]
variable (lossFn : List (Option α) → List (Option (List α)) → Loss α) (r12 : α → α)

/-- telling an already known point again — with the same or a different value — changes nothing -/
theorem l1d_retell_noop (s : State α) (x : α) (y : List α) (h : hasData s x = true) :
    tell lossFn r12 s x y = s := by
  unfold tell; rw [if_pos h]

theorem l1d_tellPending_known_noop (s : State α) (x : α) (h : hasData s x = true) :
    tellPending lossFn r12 s x = s := by
  unfold tellPending; rw [if_pos h]

/-- in every reachable state: the abscissa lists are exactly the evaluated / evaluated-or-pending points,
no pending point has a value, no point is stored twice -/
theorem l1d_pending_discipline (lo hi factor dxEps : α) (nn : Nat) (ops : List (Op α)) :
    let s := run lossFn r12 (init lo hi factor dxEps nn) ops
    (∀ x ∈ s.pending, hasData s x = false) ∧ s.pending.Nodup ∧ (s.data.map Prod.fst).Nodup ∧
    (∀ x, x ∈ s.xs ↔ hasData s x = true) := by
  intro s
  have h : Inv s := inv_run lossFn r12 lo hi factor dxEps nn ops
  exact ⟨h.pend_nodata, h.pend_nodup, h.data_nodup, h.xs_mem⟩

/-- discarding unfinished points empties the pending set and makes the expected loss the real loss -/
theorem l1d_removeUnfinished_spec (s : State α) :
    (removeUnfinished s).pending = [] ∧ (removeUnfinished s).data = s.data ∧
    loss (removeUnfinished s) false = loss (removeUnfinished s) true := by
  refine ⟨rfl, rfl, ?_⟩
  simp only [loss, removeUnfinished]
  rfl
end l1d

section seq
variable {β : Type}
/-- SequenceLearner: in every reachable state to-do, pending and evaluated indices partition the sequence -/
theorem seq_partition (n : Nat) (ops : List (Seq.Op β)) (hv : Seq.ValidOps (Seq.init n) ops) :
    Seq.Inv (Seq.run (Seq.init n) ops) :=
  Seq.inv_run ops _ (Seq.inv_init n) hv

theorem seq_removeUnfinished_spec (s : Seq.State β) :
    (Seq.removeUnfinished s).pending = [] ∧ (Seq.removeUnfinished s).data = s.data ∧
    Seq.lossNum (Seq.removeUnfinished s) false = Seq.lossNum (Seq.removeUnfinished s) true := by
  refine ⟨rfl, rfl, ?_⟩
  simp [Seq.lossNum, Seq.removeUnfinished]
end seq

section avg
variable {α : Type} [Add α] [Mul α]
/-- AverageLearner: a seed that already has a value keeps it; the re-tell changes nothing -/
theorem avg_retell_noop (s : Avg.State α) (k : Nat) (v : α) (h : Avg.hasKey k s.data = true) :
    Avg.tell s k v = s := by
  unfold Avg.tell; rw [if_pos h]

/-- AverageLearner: marking a seed that already has a value pending changes nothing (since the repair
`fix: AverageLearner.tell_pending marked an already evaluated seed as pending`) -/
theorem avg_tellPending_known_noop (s : Avg.State α) (k : Nat) (h : Avg.hasKey k s.data = true) :
    Avg.tellPending s k = s := by
  unfold Avg.tellPending; rw [if_pos h]

/-- AverageLearner: telling an already known seed again changes nothing observable ALSO when the seed was
re-marked pending in between: after `tell(k, v)`, the sequence `tell_pending(k)`, `tell(k, w)` leaves the
whole state as it was — for every state `s`, in particular every state reachable from `init`. -/
theorem avg_retell_after_pending_noop (s : Avg.State α) (k : Nat) (v w : α) :
    Avg.tell (Avg.tellPending (Avg.tell s k v) k) k w = Avg.tell s k v :=
  Avg.tell_tellPending_tell s k v w

theorem avg_removeUnfinished_spec (s : Avg.State α) :
    (Avg.removeUnfinished s).pending = [] ∧ (Avg.removeUnfinished s).data = s.data := ⟨rfl, rfl⟩
end avg

/-! ### data = what was told, for EVERY op list (both `tell_many` paths included) -/
section full
open L1D in
/-- Learner1D: `data[x]` is the value told FIRST for `x`; the number of points is the number of distinct
told abscissae. -/
theorem l1d_data_is_first_told {α : Type} [Field α] [LinearOrder α] [IsStrictOrderedRing α]
    (lossFn : List (Option α) → List (Option (List α)) → Loss α) (r12 : α → α)
    (lo hi factor dxEps : α) (nn : Nat) (ops : List (Op α)) :
    (∀ x, dataGet (run lossFn r12 (init lo hi factor dxEps nn) ops).data x = firstTold ops x) ∧
    (run lossFn r12 (init lo hi factor dxEps nn) ops).data.length = (toldKeys ops).dedup.length :=
  ⟨fun x => data_is_first_told lossFn r12 lo hi factor dxEps nn ops x,
   data_length_eq_distinct_told lossFn r12 lo hi factor dxEps nn ops⟩

open L1D in
/-- Learner1D: a point that has a value is never pending again, whatever happens later. -/
theorem l1d_told_never_pending {α : Type} [Field α] [LinearOrder α] [IsStrictOrderedRing α]
    (lossFn : List (Option α) → List (Option (List α)) → Loss α) (r12 : α → α)
    (lo hi factor dxEps : α) (nn : Nat) (ops ops' : List (Op α)) (x : α)
    (h : hasData (run lossFn r12 (init lo hi factor dxEps nn) ops) x = true) :
    let s := run lossFn r12 (run lossFn r12 (init lo hi factor dxEps nn) ops) ops'
    hasData s x = true ∧ x ∉ s.pending :=
  told_never_pending lossFn r12 (inv_run lossFn r12 lo hi factor dxEps nn ops) h ops'

open L1D in
/-- Learner1D: every point handed out by a committing ask (in a state reached by a valid history) is
pending afterwards and stays pending until it is told or unfinished points are discarded. -/
theorem l1d_asked_pending_until_told {α : Type} [Field α] [LinearOrder α] [IsStrictOrderedRing α]
    (lossFn : List (Option α) → List (Option (List α)) → Loss α) (r12 : α → α) {lo hi : α} (hlt : lo < hi)
    (factor dxEps : α) (nn : Nat) (ops : List (Op α))
    (hv : ValidOps lossFn r12 (init lo hi factor dxEps nn) ops) (n : Nat) :
    let s := run lossFn r12 (init lo hi factor dxEps nn) ops
    ∀ x ∈ (ask lossFn r12 s n true).1.1,
      x ∈ (ask lossFn r12 s n true).2.pending ∧
      ∀ ops', (∀ op ∈ ops', KeepsPending x op) → x ∈ (run lossFn r12 (ask lossFn r12 s n true).2 ops').pending :=
  ask_commit_marks_pending_run lossFn r12 hlt factor dxEps nn ops hv n

/-- AverageLearner: `data[seed]` is the value told first; `npoints` is the number of distinct told seeds. -/
theorem avg_data_is_first_told {α : Type} [Field α] [LinearOrder α] [IsStrictOrderedRing α]
    (atol rtol : Option α) (m : Nat) (ops : List (Avg.Op α)) :
    (∀ k, Avg.dataGet (Avg.run (Avg.init atol rtol m) ops).data k = Avg.firstTold ops k) ∧
    (Avg.run (Avg.init atol rtol m) ops).npoints = (Avg.toldSeeds ops).dedup.length :=
  ⟨fun k => Avg.data_is_first_told atol rtol m ops k,
   (Avg.npoints_eq_distinct_told atol rtol m ops).1.trans (Avg.npoints_eq_distinct_told atol rtol m ops).2⟩

/-- AverageLearner: in every state reachable from `init` — by EVERY op list — no told seed is pending.
(Before the repair `fix: AverageLearner.tell_pending marked an already evaluated seed as pending` this needed
the proviso `Avg.ValidOps`: "the history never marks an already told seed pending"; a told seed that WAS marked
pending again stayed pending after a re-tell, the former finding
`C10.retold_point_still_pending:AverageLearner`.  The name of the theorem is kept; it is no longer partial.) -/
theorem avg_told_not_pending_partial {α : Type} [Field α] [LinearOrder α] [IsStrictOrderedRing α]
    (atol rtol : Option α) (m : Nat) (ops : List (Avg.Op α)) :
    let s := Avg.run (Avg.init atol rtol m) ops
    (∀ k ∈ s.pending, Avg.hasKey k s.data = false) ∧ ∀ k, Avg.hasKey k s.data = true → k ∉ s.pending :=
  Avg.told_not_pending_run atol rtol m ops

/-- AverageLearner: in every state reachable from `init`, after `tell(k, v)`, `tell_pending(k)`, `tell(k, w)` the
state is the one right after the first `tell`, seed `k` has a value and is not pending. -/
theorem avg_retell_after_pending_run {α : Type} [Field α] [LinearOrder α] [IsStrictOrderedRing α]
    (atol rtol : Option α) (m : Nat) (ops : List (Avg.Op α)) (k : Nat) (v w : α) :
    let s := Avg.run (Avg.init atol rtol m) ops
    let t := Avg.tell (Avg.tellPending (Avg.tell s k v) k) k w
    t = Avg.tell s k v ∧ Avg.hasKey k t.data = true ∧ k ∉ t.pending :=
  Avg.tell_tellPending_tell_run atol rtol m ops k v w

/-- AverageLearner: every seed a committing `ask(n)` returned is pending afterwards and stays pending until it is
told or unfinished points are discarded (any state; `choice` = the code's pick in the fallback branch). -/
theorem avg_asked_pending_until_told {α : Type} [Field α] [LinearOrder α] [IsStrictOrderedRing α]
    (s : Avg.State α) (n : Nat) (choice pts : List Nat) (h : Avg.askPoints s n choice = some pts) :
    ∀ p ∈ pts, p ∈ (Avg.step s (.askCommit pts)).pending ∧
      ∀ ops : List (Avg.Op α), (∀ op ∈ ops, Avg.KeepsPending p op) →
        p ∈ (Avg.run (Avg.step s (.askCommit pts)) ops).pending :=
  Avg.ask_pending_until_told h

/-- AverageLearner: discarding empties the pending set and equalises the two losses. -/
theorem avg_removeUnfinished_losses {α : Type} [Field α] [LinearOrder α] [IsStrictOrderedRing α]
    (sqrt : α → α) (s : Avg.State α) :
    (Avg.removeUnfinished s).pending = [] ∧
    Avg.loss sqrt (Avg.removeUnfinished s) false = Avg.loss sqrt (Avg.removeUnfinished s) true :=
  ⟨(Avg.removeUnfinished_spec sqrt s).1, (Avg.removeUnfinished_spec sqrt s).2.1⟩

/-- SequenceLearner: `data[i]` is the value told LAST for index `i` (every op list); `npoints` is the number of
distinct told indices; committed indices are pending until told or discarded. -/
theorem seq_data_is_last_told {β : Type} (n : Nat) (ops : List (Seq.Op β)) :
    (∀ i, Seq.lookup i (Seq.run (Seq.init n) ops).data = Seq.lastTold ops i) ∧
    Seq.npoints (Seq.run (Seq.init n) ops) = (Seq.toldIdx ops).dedup.length :=
  ⟨fun i => Seq.data_is_last_told' n ops i, Seq.npoints_eq_distinct_told n ops⟩

theorem seq_asked_pending_until_told {β : Type} (s : Seq.State β) (n i : Nat)
    (h : i ∈ (Seq.ask s n true).1) :
    i ∈ (Seq.ask s n true).2.pending ∧
    ∀ ops, (∀ op ∈ ops, Seq.KeepsPending i op) → i ∈ (Seq.run (Seq.ask s n true).2 ops).pending :=
  Seq.ask_commit_marks_pending s n i h
end full

end C10
