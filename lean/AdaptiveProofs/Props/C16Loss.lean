import AdaptiveProofs.Props.C16Full
import AdaptiveProofs.Lemmas.Avg1DLoss

/-!
# C16 (extension 2) — the INHERITED LOSS TABLES of the complete AverageLearner1D

`Avg1DFull.State.base : L1D.State` is the embedded Learner1D state (`data` = running means,
`neighbors` = `xs`, `neighbors_combined` = `xsC`, `losses`, `losses_combined` = `lossesC`, scales).
The inherited `pending` of the embedded state stays `[]` (AverageLearner1D keeps `(seed, x)` tuples in
`pending_points`), so the Learner1D invariant `L1D.Inv` does not hold literally; its content does,
with "pending abscissae" = the second components of `pend`.

All theorems: any ordered field, EVERY `lossFn` (any `nn`), `r12`, `sqrt`, `tq`, `hypot`, every
finite operation list (new abscissae, re-samples, `tell_many`, `tell_many_at_point`, pending marks,
`remove_unfinished`, `ask` committing or not).
-/
set_option linter.unusedVariables false
set_option linter.unusedSectionVars false

namespace Avg1DFull
open L1D (Loss Ival)
variable {α : Type} [Field α] [LinearOrder α] [IsStrictOrderedRing α]
variable (lossFn : List (Option α) → List (Option (List α)) → Loss α) (r12 : α → α)
variable (sqrt : α → α) (tq : Nat → α) (hypot : α → α → α)

/-- C16L.a  STRUCTURE.  In every reachable state: `neighbors` / `neighbors_combined` are strictly
sorted; `neighbors` = the abscissae holding a mean; `neighbors_combined` = these ∪ the abscissae
with a pending `(seed, x)` mark; `losses` has exactly one entry per pair of neighbouring evaluated
abscissae, `losses_combined` exactly one per pair of neighbouring evaluated-or-pending abscissae;
`data` has each abscissa once. -/
theorem c16l_structure (lo hi factor dxEps : α) (nn : Nat) (delta minError : α) (minS maxS : Nat)
    (ns : α) (ops : List (Op α)) :
    let s := run lossFn r12 sqrt tq hypot (init lo hi factor dxEps nn delta minError minS maxS ns) ops
    s.base.xs.Pairwise (· < ·) ∧ s.base.xsC.Pairwise (· < ·) ∧
    (∀ x, x ∈ s.base.xs ↔ L1D.hasData s.base x = true) ∧
    (∀ x, x ∈ s.base.xsC ↔ (L1D.hasData s.base x = true ∨ ∃ seed, (seed, x) ∈ s.pend)) ∧
    (∀ iv, (L1D.lget iv s.base.losses).isSome = true ↔ iv ∈ L1D.pairs s.base.xs) ∧
    (∀ iv, (L1D.lget iv s.base.lossesC).isSome = true ↔ iv ∈ L1D.pairs s.base.xsC) ∧
    (L1D.tkeys s.base.losses).Nodup ∧ (L1D.tkeys s.base.lossesC).Nodup ∧
    (s.base.data.map Prod.fst).Nodup := by
  intro s
  have h : SInv s := sinv_run lossFn r12 sqrt tq hypot
    (finv_init hypot lo hi factor dxEps nn delta minError minS maxS ns)
    (sinv_init lo hi factor dxEps nn delta minError minS maxS ns) ops
  refine ⟨h.d.bi.xs_sorted, h.d.bi.xsC_sorted, ?_, ?_, ?_, ?_, h.d.bi.t.losses_nodup,
    h.d.bi.t.lossesC_nodup, h.d.data_nodup⟩
  · intro x; rw [L1D.hasData_iff]; exact h.d.xs_mem x
  · intro x
    rw [L1D.hasData_iff, h.c x]
    unfold pendXs
    simp only [List.mem_map, Prod.exists, exists_eq_right]
  · intro iv; rw [L1D.lget_isSome]; exact h.d.bi.t.losses_keys iv
  · intro iv; rw [L1D.lget_isSome]; exact h.d.bi.t.lossesC_keys iv

/-- C16L.a'  the invariant form (`SInv`, `Lemmas/Avg1DLoss.lean`), from any state satisfying it -/
theorem c16l_structure_from {s : State α} (hf : FInv hypot s) (h : SInv s) (ops : List (Op α)) :
    SInv (run lossFn r12 sqrt tq hypot s ops) := sinv_run lossFn r12 sqrt tq hypot hf h ops

/-- C16L.b  Both loss containers are in `ItemSortedDict` order in every reachable state — the LIVE
re-computation loops of AverageLearner1D included. -/
theorem c16l_tables_sorted (lo hi factor dxEps : α) (nn : Nat) (delta minError : α) (minS maxS : Nat)
    (ns : α) (ops : List (Op α)) :
    L1D.TablesSorted r12
      (run lossFn r12 sqrt tq hypot (init lo hi factor dxEps nn delta minError minS maxS ns) ops).base := by
  apply L1D.TS.tablesSorted r12 (sc := hi - lo)
  apply ts_run
  exact ⟨rfl, List.Pairwise.nil, List.Pairwise.nil⟩

/-- C16L.c  `loss(real)` in every reachable state: infinite while a domain end point has no value
(a PENDING end point does not count: quirk of the `(seed, x)` marks) or the table is empty;
otherwise the loss of an entry of `losses` (`real`) / `losses_combined` that no other entry exceeds
in rounded, infinity-aware loss. -/
theorem c16l_loss_is_max (lo hi factor dxEps : α) (nn : Nat) (delta minError : α) (minS maxS : Nat)
    (ns : α) (ops : List (Op α)) (real : Bool) :
    let s := run lossFn r12 sqrt tq hypot (init lo hi factor dxEps nn delta minError minS maxS ns) ops
    ((L1D.missingBounds s.base ≠ [] ∨ L1D.lossTable s.base real = []) ∧ loss s real = .inf) ∨
    (L1D.missingBounds s.base = [] ∧ ∃ e l, L1D.lossTable s.base real = e :: l ∧ loss s real = e.2 ∧
      ∀ f ∈ L1D.lossTable s.base real,
        L1D.finiteLoss r12 f.1 f.2 s.base.lossScale ≤ L1D.finiteLoss r12 e.1 e.2 s.base.lossScale) := by
  intro s
  have hts := c16l_tables_sorted lossFn r12 sqrt tq hypot lo hi factor dxEps nn delta minError minS maxS ns ops
  rcases L1D.loss_spec r12 s.base real with h | ⟨hm, e, l, ht, hl, hmax⟩
  · exact Or.inl h
  · exact Or.inr ⟨hm, e, l, ht, hl, hmax hts⟩

/-! ## values -/

/-- C16L.d  THE RE-SAMPLE OF AN EXISTING ABSCISSA recomputes every interval whose loss depends on
`data[x]`, for ANY `nn`: after `_update_losses_resampling(x)` (state `b1` = mean at `x` replaced,
`_update_scale` fed) each interval of `_get_intervals(x, neighbors, nn)` holds the loss function's
value on the NEW data at the NEW scales; every other interval keeps its entry, and its loss does not
depend on `data[x]` (so it stays exact if the scales did not move). -/
theorem c16l_resample_recomputes_dependents {b b1 : L1D.State α} (hs : b.xs.Pairwise (· < ·))
    (he : Exact lossFn b) {x : α} (hx : x ∈ b.xs) (v : List α) (h1 : b1.dxEps = b.dxEps)
    (h2 : b1.scaleX = b.scaleX) (h4 : b1.xs = b.xs) (h5 : b1.nn = b.nn)
    (h6 : b1.data = dataPut b.data x v) (h7 : b1.losses = b.losses) :
    let b2 := updateLossesResampling lossFn r12 b1 x true
    ∀ k ∈ L1D.pairs b.xs,
      (k ∈ L1D.getIntervals b x → L1D.lget k b2.losses = some (L1D.getLoss lossFn b2 k.1 k.2)) ∧
      (k ∉ L1D.getIntervals b x → b1.scaleY = b.scaleY →
        L1D.lget k b2.losses = some (L1D.getLoss lossFn b2 k.1 k.2)) ∧
      (k ∉ L1D.getIntervals b x → L1D.lget k b2.losses = L1D.lget k b.losses) :=
  resample_losses lossFn r12 hs he hx v h1 h2 h4 h5 h6 h7

/-- C16L.e  VALUE STEP for both "resampled" paths (`tell` of a known abscissa with a new seed; the
batch part of `tell_many_at_point`), any `nn`, any factor: if every stored loss was exact, `x` lies
inside the x-box (x-scale unchanged) and EITHER the y-scale did not move OR the live re-computation
loop fires and REACHES every interval (`liveKeys`), every stored loss is exact again.  The guard is
needed: see the counterexamples below. -/
theorem c16l_resample_exact {s : State α} (hd : DInv s.base) (he : Exact lossFn s.base) {x : α}
    (hx : x ∈ L1D.dkeys s.base.data) (samp : Avg1D.State α) (ys : List α)
    (hX : (resPre s.base (meanIn samp x) x ys).scaleX = s.base.scaleX)
    (hcase : (resPre s.base (meanIn samp x) x ys).scaleY = s.base.scaleY ∨
      ((resPre s.base (meanIn samp x) x ys).factor * (resPre s.base (meanIn samp x) x ys).oldScaleY <
          (resPre s.base (meanIn samp x) x ys).scaleY ∧
        ∀ k ∈ L1D.pairs s.base.xs, k ∈ liveKeys lossFn r12
          (updateLossesResampling lossFn r12 (resPre s.base (meanIn samp x) x ys) x true)
          ((updateLossesResampling lossFn r12 (resPre s.base (meanIn samp x) x ys) x true).losses.length - 1))) :
    Exact lossFn (afterResample lossFn r12 hypot s samp x ys).base :=
  exact_afterResample lossFn r12 hypot hd he hx samp ys hX hcase

/-- C16L.f  what the LIVE loop `for interval in reversed(self.losses): …` does: it is the snapshot
loop over the keys it really visits (`liveKeys`); a visited interval gets the loss of the current
data at the current scales, an interval it does not reach keeps its (stale) entry. -/
theorem c16l_live_loop (b : L1D.State α) (k : Ival α) :
    L1D.lget k (maybeRescaleLive lossFn r12 b).losses =
      if b.factor * b.oldScaleY < b.scaleY ∧ k ∈ liveKeys lossFn r12 b (b.losses.length - 1) ∧
          b.losses ≠ [] then
        some (L1D.getLoss lossFn b k.1 k.2)
      else L1D.lget k b.losses :=
  maybeRescaleLive_losses lossFn r12 b k

end Avg1DFull

/-! ## kernel-checked instances over ℚ (`factor = 1`, `dxEps = 0`, `nn = 0`, bounds `[0, 1]`,
`r12 = id`, `sqrt = id`, `tq = 1`, `hypot a b = a² + b²`) -/
section C16LossExamples
open Avg1DFull

private def pairOf : List (Option ℚ) → List (Option (List ℚ)) → Option (ℚ × ℚ × ℚ × ℚ)
  | [some a, some b], [some [ya], some [yb]] => some (a, b, ya, yb)
  | _, _ => none

/-- `dx² + dy²` on the scaled values (decreases when the y-scale grows, like the default loss) -/
private def lossDec : List (Option ℚ) → List (Option (List ℚ)) → L1D.Loss ℚ := fun xs ys =>
  match pairOf xs ys with
  | some (a, b, ya, yb) => .fin ((b - a) * (b - a) + (yb - ya) * (yb - ya))
  | none => .inf

/-- `dx / (1 + dy²)` on the scaled values: python
`lambda xs, ys: (xs[1] - xs[0]) / (1 + (ys[1] - ys[0]) ** 2)`; GROWS when the y-scale grows -/
private def lossInc : List (Option ℚ) → List (Option (List ℚ)) → L1D.Loss ℚ := fun xs ys =>
  match pairOf xs ys with
  | some (a, b, ya, yb) => .fin ((b - a) / (1 + (yb - ya) * (yb - ya)))
  | none => .inf

private def hyp2 : ℚ → ℚ → ℚ := fun a b => a * a + b * b
private def lInit : State ℚ := init 0 1 1 0 0 (1 / 5) 0 1 50 (1 / 2)
private def lRun (lf : List (Option ℚ) → List (Option (List ℚ)) → L1D.Loss ℚ) (ops : List (Op ℚ)) :
    L1D.State ℚ := (run lf id id (fun _ => 1) hyp2 lInit ops).base
private def recomputed (lf : List (Option ℚ) → List (Option (List ℚ)) → L1D.Loss ℚ) (b : L1D.State ℚ) :
    List (L1D.Loss ℚ) := b.losses.map (fun e => L1D.getLoss lf b e.1.1 e.1.2)

/-! ### COUNTEREXAMPLE 1 (re-sample path, average_learner1D.py lines 448-450)

`tell((0,0),-4); tell((1,1),0); tell((2,1/4),-4); tell((3,1/2),-2); tell((4,0),0); tell((5,1),3)`
with `loss_per_interval = lossInc`, `_recompute_losses_factor = 1` (set after construction).
The last `tell` re-samples `x = 1` (mean `0 → 3/2`), `_update_scale(1, 3)` grows the y-scale `4 → 7`,
the live loop fires; the re-inserted entry of `(1/4, 1/2)` grows (`1/5 → 49/212`) and moves towards
the front, so the reverse iterator never reaches `(0, 1/4)`: its stored loss stays `1/5` although the
loss function on the current means at the current scale is `49/212`. -/
set_option quotPrecheck false in
local notation "ceOps1" =>
  ([Op.tell 0 0 (-4), Op.tell 1 1 0, Op.tell 2 (1 / 4) (-4), Op.tell 3 (1 / 2) (-2), Op.tell 4 0 0,
    Op.tell 5 1 3] : List (Op ℚ))

example : (lRun lossInc ceOps1).losses =
    [((1 / 2, 1), .fin (2 / 5)), ((1 / 4, 1 / 2), .fin (49 / 212)), ((0, 1 / 4), .fin (1 / 5))] := by
  decide +kernel
example : recomputed lossInc (lRun lossInc ceOps1) = [.fin (2 / 5), .fin (49 / 212), .fin (49 / 212)] := by
  decide +kernel
example : (lRun lossInc ceOps1).scaleY = 7 ∧ (lRun lossInc ceOps1).oldScaleY = 7 ∧
    (lRun lossInc ceOps1).factor = 1 := by decide +kernel
/-- before the last `tell` every stored loss was exact (scale 4) -/
example : (lRun lossInc (List.take 5 ceOps1)).losses.map Prod.snd = recomputed lossInc (lRun lossInc (List.take 5 ceOps1)) ∧
    (lRun lossInc (List.take 5 ceOps1)).scaleY = 4 := by decide +kernel

/-! ### COUNTEREXAMPLE 2 ("new" path inside `tell_many_at_point`, lines 399-401 via 551)

`tell_many_at_point(0, {0: 0, 100: 4}); tell((1,1/2),4); tell((2,1/4),3);
tell_many_at_point(1, {3: -1, 103: 0})`: the new abscissa `1` arrives with `y = -1`, the y-scale
grows `4 → 5`, the live loop skips `(0, 1/4)`: stored `4/17`, recomputed `25/104`. -/
set_option quotPrecheck false in
local notation "ceOps2" =>
  ([Op.tellManyAtPoint 0 [(0, 0), (100, 4)], Op.tell 1 (1 / 2) 4, Op.tell 2 (1 / 4) 3,
    Op.tellManyAtPoint 1 [(3, -1), (103, 0)]] : List (Op ℚ))

example : (lRun lossInc ceOps2).losses =
    [((1 / 2, 1), .fin (50 / 181)), ((1 / 4, 1 / 2), .fin (25 / 104)), ((0, 1 / 4), .fin (4 / 17))] := by
  decide +kernel
example : recomputed lossInc (lRun lossInc ceOps2) = [.fin (50 / 181), .fin (25 / 104), .fin (25 / 104)] := by
  decide +kernel

/-! ### the same histories with a loss that decreases with the scale: everything exact -/
example : (lRun lossDec ceOps1).losses.map Prod.snd = recomputed lossDec (lRun lossDec ceOps1) := by
  decide +kernel
example : (lRun lossDec ceOps2).losses.map Prod.snd = recomputed lossDec (lRun lossDec ceOps2) := by
  decide +kernel

/-! ### NON-VACUITY: new points, two re-samples that move the mean at `1/2` (`1 → 2 → 1`), a pending
mark, a `tell_many` with a batch at `0` and a single sample at `1`, a committing `ask` -/
set_option quotPrecheck false in
local notation "nvOps" =>
  ([Op.tell 0 0 0, Op.tell 0 1 2, Op.tell 0 (1 / 2) 1, Op.tell 1 (1 / 2) 3, Op.tell 2 (1 / 2) (-1),
    Op.tellPending 7 (1 / 4), Op.tellMany [((1, 0), 1), ((2, 0), 2), ((1, 1), 4)],
    Op.ask 2 0 true] : List (Op ℚ))

example : (lRun lossDec nvOps).data = [(0, [1]), (1, [3]), (1 / 2, [1])] := by decide +kernel
example : (lRun lossDec nvOps).xs = [0, 1 / 2, 1] ∧ (lRun lossDec nvOps).xsC = [0, 1 / 4, 1 / 2, 1] := by
  decide +kernel
example : (lRun lossDec nvOps).losses.map Prod.snd = recomputed lossDec (lRun lossDec nvOps) := by
  decide +kernel
example : (lRun lossDec nvOps).losses.map Prod.fst = [(1 / 2, 1), (0, 1 / 2)] ∧
    (lRun lossDec nvOps).lossesC.map Prod.fst = [(1 / 2, 1), (0, 1 / 4), (1 / 4, 1 / 2)] := by
  decide +kernel
/-- `loss()` = the first (largest) entry of `losses` -/
example : loss (run lossDec id id (fun _ => 1) hyp2 lInit nvOps) true = .fin (41 / 100) ∧
    (lRun lossDec nvOps).losses.head? = some ((1 / 2, 1), .fin (41 / 100)) := by decide +kernel

end C16LossExamples
