import AdaptiveProofs.Lemmas.PrimsCirc
import AdaptiveProofs.Lemmas.PrimsMisc
import Mathlib.LinearAlgebra.Matrix.Determinant.Basic
import Mathlib.LinearAlgebra.Matrix.Notation
import Mathlib.Algebra.Order.Ring.Abs
import Mathlib.Analysis.Real.Sqrt

/-!
# C20 — Geometric and loss primitives compute what their names say

Every theorem below is about a definition of `AdaptiveModel/Gen/Prims.lean`, which
`harness/translate.py` regenerates from the repository's source on every run; a change of a formula
in the repository changes the definition and the theorem about it no longer checks.

Theorems hold over every linearly ordered field `α` (ℚ, ℝ; commutative rings where enough) — IEEE
rounding is outside (DESIGN.md 2.2).  `sqrt` and `abs` are parameters of the generated definitions:
`sqrt` is any function with `Prims.SqrtLaw` (non-negative, squares back on non-negative arguments;
`Real.sqrt` is one), `abs` is instantiated with the order-theoretic `|·|` where its properties matter.
Non-degenerate input = non-zero determinant of the edge vectors (`Prims.cross2`, `Prims.cross3`).
-/
set_option linter.unusedSectionVars false
set_option linter.unusedVariables false

namespace C20
open Gen.Prims Prims

/-! ## determinant shortcuts -/
section det
variable {R : Type} [CommRing R]

/-- C20.det2  `fast_det` on 2×2 input is the determinant -/
theorem fast_det2_eq_det (a b c d : R) : fast_det2 a b c d = Matrix.det !![a, b; c, d] := by
  simp only [fast_det2, Matrix.det_fin_two_of]; ring

/-- C20.det3  `fast_det` on 3×3 input is the determinant -/
theorem fast_det3_eq_det (a b c d e f g h i : R) :
    fast_det3 a b c d e f g h i = Matrix.det !![a, b, c; d, e, f; g, h, i] := by
  simp [fast_det3, Matrix.det_fin_three]; ring

/-- homogeneity of degree 2 / 3 -/
theorem fast_det2_scale (k a b c d : R) : fast_det2 (k * a) (k * b) (k * c) (k * d) = k ^ 2 * fast_det2 a b c d := by
  simp only [fast_det2]; ring

theorem fast_det3_scale (k a b c d e f g h i : R) :
    fast_det3 (k * a) (k * b) (k * c) (k * d) (k * e) (k * f) (k * g) (k * h) (k * i)
      = k ^ 3 * fast_det3 a b c d e f g h i := by
  simp only [fast_det3]; ring

/-- relabelling: exchanging two rows flips the sign -/
theorem fast_det2_swap (a b c d : R) : fast_det2 c d a b = -fast_det2 a b c d := by
  simp only [fast_det2]; ring

theorem fast_det3_swap01 (a b c d e f g h i : R) : fast_det3 d e f a b c g h i = -fast_det3 a b c d e f g h i := by
  simp only [fast_det3]; ring

theorem fast_det3_swap12 (a b c d e f g h i : R) : fast_det3 a b c g h i d e f = -fast_det3 a b c d e f g h i := by
  simp only [fast_det3]; ring

end det

variable {α : Type} [Field α] [LinearOrder α] [IsStrictOrderedRing α]

/-! ## norm shortcuts -/

/-- C20.norm2  `fast_norm` of a 2-vector squares to the dot product -/
theorem fast_norm2_sq (sqrt : α → α) (hs : SqrtLaw sqrt) (a b : α) :
    fast_norm2 sqrt a b = sqrt (fast_norm2_radicand a b) ∧ fast_norm2_radicand a b = a * a + b * b ∧
    0 ≤ fast_norm2 sqrt a b ∧ fast_norm2 sqrt a b * fast_norm2 sqrt a b = a * a + b * b :=
  ⟨rfl, rfl, (hs _ (add_nonneg (mul_self_nonneg a) (mul_self_nonneg b))).1,
    (hs _ (add_nonneg (mul_self_nonneg a) (mul_self_nonneg b))).2⟩

/-- C20.norm3 -/
theorem fast_norm3_sq (sqrt : α → α) (hs : SqrtLaw sqrt) (a b c : α) :
    fast_norm3 sqrt a b c = sqrt (fast_norm3_radicand a b c) ∧ fast_norm3_radicand a b c = a * a + b * b + c * c ∧
    0 ≤ fast_norm3 sqrt a b c ∧ fast_norm3 sqrt a b c * fast_norm3 sqrt a b c = a * a + b * b + c * c :=
  ⟨rfl, rfl, (hs _ (add_nonneg (add_nonneg (mul_self_nonneg a) (mul_self_nonneg b)) (mul_self_nonneg c))).1,
    (hs _ (add_nonneg (add_nonneg (mul_self_nonneg a) (mul_self_nonneg b)) (mul_self_nonneg c))).2⟩

/-! ## simplex volume (`learnerND.volume`) -/

/-- C20.vol2  area of a triangle = |det of the edge vectors| / 2! (for every `abs`) -/
theorem nd_volume2_eq_abs_det_div_fact (abs : α → α) (x0 y0 x1 y1 x2 y2 : α) :
    nd_volume2 abs x0 y0 x1 y1 x2 y2 =
      abs (Matrix.det !![x0 - x2, y0 - y2; x1 - x2, y1 - y2]) / ((Nat.factorial 2 : ℕ) : α) := by
  simp only [nd_volume2, Matrix.det_fin_two_of, Nat.factorial]
  norm_num
  congr 1; ring

/-- C20.vol3  volume of a tetrahedron = |det of the edge vectors| / 3! -/
theorem nd_volume3_eq_abs_det_div_fact (abs : α → α) (x0 y0 z0 x1 y1 z1 x2 y2 z2 x3 y3 z3 : α) :
    nd_volume3 abs x0 y0 z0 x1 y1 z1 x2 y2 z2 x3 y3 z3 =
      abs (Matrix.det !![x0 - x3, y0 - y3, z0 - z3; x1 - x3, y1 - y3, z1 - z3; x2 - x3, y2 - y3, z2 - z3])
        / ((Nat.factorial 3 : ℕ) : α) := by
  have e : Matrix.det !![x0 - x3, y0 - y3, z0 - z3; x1 - x3, y1 - y3, z1 - z3; x2 - x3, y2 - y3, z2 - z3]
      = fast_det3 (x0 - x3) (y0 - y3) (z0 - z3) (x1 - x3) (y1 - y3) (z1 - z3) (x2 - x3) (y2 - y3) (z2 - z3) :=
    (fast_det3_eq_det _ _ _ _ _ _ _ _ _).symm
  rw [e]
  simp only [nd_volume3, fast_det3, Nat.factorial]
  norm_num

/-- the same volumes through the orientation determinants used elsewhere in this file -/
theorem nd_volume2_eq_cross2 (abs : α → α) (x0 y0 x1 y1 x2 y2 : α) :
    nd_volume2 abs x0 y0 x1 y1 x2 y2 = abs (cross2 x0 y0 x1 y1 x2 y2) / 2 := by
  simp only [nd_volume2, cross2]; congr 2; ring

theorem nd_volume3_eq_cross3 (x0 y0 z0 x1 y1 z1 x2 y2 z2 x3 y3 z3 : α) :
    nd_volume3 (fun x => |x|) x0 y0 z0 x1 y1 z1 x2 y2 z2 x3 y3 z3
      = |cross3 x0 y0 z0 x1 y1 z1 x2 y2 z2 x3 y3 z3| / 6 := by
  simp only [nd_volume3, cross3]; congr 1; rw [← abs_neg]; congr 1; ring

/-- `learnerND.uniform_loss` is the volume -/
theorem nd_uniform_loss_eq_volume (abs : α → α) (x0 y0 x1 y1 x2 y2 v0 v1 v2 sc : α) :
    nd_uniform_loss2 abs x0 y0 x1 y1 x2 y2 v0 v1 v2 sc = nd_volume2 abs x0 y0 x1 y1 x2 y2 := rfl

theorem nd_uniform_loss3_eq_volume (abs : α → α) (x0 y0 z0 x1 y1 z1 x2 y2 z2 x3 y3 z3 v0 v1 v2 v3 sc : α) :
    nd_uniform_loss3 abs x0 y0 z0 x1 y1 z1 x2 y2 z2 x3 y3 z3 v0 v1 v2 v3 sc
      = nd_volume3 abs x0 y0 z0 x1 y1 z1 x2 y2 z2 x3 y3 z3 := rfl

/-- translation invariance -/
theorem nd_volume2_translate (abs : α → α) (s t x0 y0 x1 y1 x2 y2 : α) :
    nd_volume2 abs (x0 + s) (y0 + t) (x1 + s) (y1 + t) (x2 + s) (y2 + t) = nd_volume2 abs x0 y0 x1 y1 x2 y2 := by
  simp only [nd_volume2]; congr 2; ring

theorem nd_volume3_translate (abs : α → α) (s t r x0 y0 z0 x1 y1 z1 x2 y2 z2 x3 y3 z3 : α) :
    nd_volume3 abs (x0 + s) (y0 + t) (z0 + r) (x1 + s) (y1 + t) (z1 + r) (x2 + s) (y2 + t) (z2 + r)
        (x3 + s) (y3 + t) (z3 + r) = nd_volume3 abs x0 y0 z0 x1 y1 z1 x2 y2 z2 x3 y3 z3 := by
  simp only [nd_volume3]; congr 2; ring

/-- relabelling of vertices (adjacent transpositions generate all relabellings) -/
theorem nd_volume2_swap01 (x0 y0 x1 y1 x2 y2 : α) :
    nd_volume2 (fun x => |x|) x1 y1 x0 y0 x2 y2 = nd_volume2 (fun x => |x|) x0 y0 x1 y1 x2 y2 := by
  simp only [nd_volume2]; congr 1; rw [← abs_neg]; congr 1; ring

theorem nd_volume2_swap12 (x0 y0 x1 y1 x2 y2 : α) :
    nd_volume2 (fun x => |x|) x0 y0 x2 y2 x1 y1 = nd_volume2 (fun x => |x|) x0 y0 x1 y1 x2 y2 := by
  simp only [nd_volume2]; congr 1; rw [← abs_neg]; congr 1; ring

theorem nd_volume3_swap01 (x0 y0 z0 x1 y1 z1 x2 y2 z2 x3 y3 z3 : α) :
    nd_volume3 (fun x => |x|) x1 y1 z1 x0 y0 z0 x2 y2 z2 x3 y3 z3
      = nd_volume3 (fun x => |x|) x0 y0 z0 x1 y1 z1 x2 y2 z2 x3 y3 z3 := by
  simp only [nd_volume3]; congr 1; rw [← abs_neg]; congr 1; ring

theorem nd_volume3_swap12 (x0 y0 z0 x1 y1 z1 x2 y2 z2 x3 y3 z3 : α) :
    nd_volume3 (fun x => |x|) x0 y0 z0 x2 y2 z2 x1 y1 z1 x3 y3 z3
      = nd_volume3 (fun x => |x|) x0 y0 z0 x1 y1 z1 x2 y2 z2 x3 y3 z3 := by
  simp only [nd_volume3]; congr 1; rw [← abs_neg]; congr 1; ring

theorem nd_volume3_swap23 (x0 y0 z0 x1 y1 z1 x2 y2 z2 x3 y3 z3 : α) :
    nd_volume3 (fun x => |x|) x0 y0 z0 x1 y1 z1 x3 y3 z3 x2 y2 z2
      = nd_volume3 (fun x => |x|) x0 y0 z0 x1 y1 z1 x2 y2 z2 x3 y3 z3 := by
  simp only [nd_volume3]; congr 1; rw [← abs_neg]; congr 1; ring

/-- homogeneity: scaling all points by `k` scales the volume by `|k|^d` (`k^d` for `k ≥ 0`) -/
theorem nd_volume2_scale (k x0 y0 x1 y1 x2 y2 : α) :
    nd_volume2 (fun x => |x|) (k * x0) (k * y0) (k * x1) (k * y1) (k * x2) (k * y2)
      = |k| ^ 2 * nd_volume2 (fun x => |x|) x0 y0 x1 y1 x2 y2 := by
  simp only [nd_volume2]
  rw [← mul_div_assoc, ← abs_pow, ← abs_mul]; congr 2; ring

theorem nd_volume3_scale (k x0 y0 z0 x1 y1 z1 x2 y2 z2 x3 y3 z3 : α) :
    nd_volume3 (fun x => |x|) (k * x0) (k * y0) (k * z0) (k * x1) (k * y1) (k * z1) (k * x2) (k * y2) (k * z2)
        (k * x3) (k * y3) (k * z3)
      = |k| ^ 3 * nd_volume3 (fun x => |x|) x0 y0 z0 x1 y1 z1 x2 y2 z2 x3 y3 z3 := by
  simp only [nd_volume3]
  rw [← mul_div_assoc, ← abs_pow, ← abs_mul]; congr 2; ring

/-- rigid motions of the plane: any orthogonal matrix `(a b; c d)` (rotations and reflections) -/
theorem nd_volume2_orthogonal (a b c d : α) (h1 : a * a + c * c = 1) (h2 : b * b + d * d = 1) (h3 : a * b + c * d = 0)
    (x0 y0 x1 y1 x2 y2 : α) :
    nd_volume2 (fun x => |x|) (a * x0 + b * y0) (c * x0 + d * y0) (a * x1 + b * y1) (c * x1 + d * y1)
        (a * x2 + b * y2) (c * x2 + d * y2) = nd_volume2 (fun x => |x|) x0 y0 x1 y1 x2 y2 := by
  have hk : (a * d - b * c) * (a * d - b * c) = 1 := by
    linear_combination (b * b + d * d) * h1 + (1 : α) * h2 - (a * b + c * d) * h3
  have hk' : |a * d - b * c| = 1 := by
    have := abs_mul_abs_self (a * d - b * c)
    rw [hk] at this
    have h0 : 0 ≤ |a * d - b * c| := abs_nonneg _
    nlinarith [this, h0]
  simp only [nd_volume2]
  congr 1
  have : (a * x0 + b * y0 - (a * x2 + b * y2)) * (c * x1 + d * y1 - (c * x2 + d * y2))
      - (a * x1 + b * y1 - (a * x2 + b * y2)) * (c * x0 + d * y0 - (c * x2 + d * y2))
      = (a * d - b * c) * ((x0 - x2) * (y1 - y2) - (x1 - x2) * (y0 - y2)) := by ring
  rw [this, abs_mul, hk', one_mul]

/-! ## circumcircle of a triangle (`fast_2d_circumcircle`, `circumsphere` for dim 2) -/

/-- C20.circ2.a  the returned centre is equidistant from the three vertices (non-degenerate triangle) -/
theorem circ2_equidistant (sqrt : α → α) (x0 y0 x1 y1 x2 y2 : α) (h : cross2 x0 y0 x1 y1 x2 y2 ≠ 0) :
    let r := fast_2d_circumcircle sqrt x0 y0 x1 y1 x2 y2
    dsq2 r.1.1 r.1.2 x1 y1 = dsq2 r.1.1 r.1.2 x0 y0 ∧ dsq2 r.1.1 r.1.2 x2 y2 = dsq2 r.1.1 r.1.2 x0 y0 := by
  have h2 : (2 : α) * cross2 x0 y0 x1 y1 x2 y2 ≠ 0 := mul_ne_zero two_ne_zero h
  obtain ⟨u, v, e, hu, hv⟩ := circ2_rel sqrt x0 y0 x1 y1 x2 y2 h2
  obtain ⟨k1, k2⟩ := circ2_core h2 hu hv
  simp only [e]
  have k0 : dsq2 (u + x0) (v + y0) x0 y0 = u * u + v * v := by simp only [dsq2]; ring
  exact ⟨k1.trans k0.symm, k2.trans k0.symm⟩

/-- C20.circ2.b  the returned radius is the distance from the centre to the vertices -/
theorem circ2_radius (sqrt : α → α) (hs : SqrtLaw sqrt) (x0 y0 x1 y1 x2 y2 : α) (h : cross2 x0 y0 x1 y1 x2 y2 ≠ 0) :
    let r := fast_2d_circumcircle sqrt x0 y0 x1 y1 x2 y2
    0 ≤ r.2 ∧ r.2 * r.2 = dsq2 r.1.1 r.1.2 x0 y0 := by
  have h2 : (2 : α) * cross2 x0 y0 x1 y1 x2 y2 ≠ 0 := mul_ne_zero two_ne_zero h
  obtain ⟨u, v, e, hu, hv⟩ := circ2_rel sqrt x0 y0 x1 y1 x2 y2 h2
  simp only [e]
  have k0 : dsq2 (u + x0) (v + y0) x0 y0 = u * u + v * v := by simp only [dsq2]; ring
  have := hs (u * u + v * v) (add_nonneg (mul_self_nonneg u) (mul_self_nonneg v))
  exact ⟨this.1, this.2.trans k0.symm⟩

/-- C20.circ2.c  … and it is the only such point -/
theorem circ2_unique_center (sqrt : α → α) (x0 y0 x1 y1 x2 y2 p q : α) (h : cross2 x0 y0 x1 y1 x2 y2 ≠ 0)
    (e1 : dsq2 p q x1 y1 = dsq2 p q x0 y0) (e2 : dsq2 p q x2 y2 = dsq2 p q x0 y0) :
    (fast_2d_circumcircle sqrt x0 y0 x1 y1 x2 y2).1 = (p, q) := by
  have h2 : (2 : α) * cross2 x0 y0 x1 y1 x2 y2 ≠ 0 := mul_ne_zero two_ne_zero h
  obtain ⟨u, v, e, hu, hv⟩ := circ2_rel sqrt x0 y0 x1 y1 x2 y2 h2
  obtain ⟨k1, k2⟩ := circ2_unique h2 hu hv e1.symm e2.symm
  rw [e, k1, k2]

/-- the dimension dispatch of `circumsphere` reaches exactly this function -/
theorem circumsphere2_eq (sqrt : α → α) (x0 y0 x1 y1 x2 y2 : α) :
    circumsphere2 sqrt x0 y0 x1 y1 x2 y2 = fast_2d_circumcircle sqrt x0 y0 x1 y1 x2 y2 := rfl

/-- the radius is a function of the centre: `sqrt` of the squared distance to the first vertex -/
theorem circ2_radius_eq (sqrt : α → α) (x0 y0 x1 y1 x2 y2 : α) :
    (fast_2d_circumcircle sqrt x0 y0 x1 y1 x2 y2).2
      = sqrt (dsq2 (fast_2d_circumcircle sqrt x0 y0 x1 y1 x2 y2).1.1 (fast_2d_circumcircle sqrt x0 y0 x1 y1 x2 y2).1.2 x0 y0) := by
  rw [circ2_closed]; simp only [dsq2]; congr 1; ring

/-- translation invariance: the centre moves with the points, the radius does not change -/
theorem circ2_translate (sqrt : α → α) (s t x0 y0 x1 y1 x2 y2 : α) :
    fast_2d_circumcircle sqrt (x0 + s) (y0 + t) (x1 + s) (y1 + t) (x2 + s) (y2 + t)
      = (((fast_2d_circumcircle sqrt x0 y0 x1 y1 x2 y2).1.1 + s, (fast_2d_circumcircle sqrt x0 y0 x1 y1 x2 y2).1.2 + t),
         (fast_2d_circumcircle sqrt x0 y0 x1 y1 x2 y2).2) := by
  have e1 : c2dx (x0 + s) (y0 + t) (x1 + s) (y1 + t) (x2 + s) (y2 + t) = c2dx x0 y0 x1 y1 x2 y2 := by
    simp only [c2dx]; ring
  have e2 : c2dy (x0 + s) (y0 + t) (x1 + s) (y1 + t) (x2 + s) (y2 + t) = c2dy x0 y0 x1 y1 x2 y2 := by
    simp only [c2dy]; ring
  have e3 : cross2 (x0 + s) (y0 + t) (x1 + s) (y1 + t) (x2 + s) (y2 + t) = cross2 x0 y0 x1 y1 x2 y2 := by
    simp only [cross2]; ring
  rw [circ2_closed, circ2_closed, e1, e2, e3]
  refine Prod.ext (Prod.ext ?_ ?_) rfl <;> simp only <;> ring

/-- a point at equal distance `R` from all vertices determines centre and radius (used for the invariances) -/
theorem circ2_of_equidistant (sqrt : α → α) (x0 y0 x1 y1 x2 y2 p q : α) (h : cross2 x0 y0 x1 y1 x2 y2 ≠ 0)
    (e1 : dsq2 p q x1 y1 = dsq2 p q x0 y0) (e2 : dsq2 p q x2 y2 = dsq2 p q x0 y0) :
    fast_2d_circumcircle sqrt x0 y0 x1 y1 x2 y2 = ((p, q), sqrt (dsq2 p q x0 y0)) := by
  have hc := circ2_unique_center sqrt x0 y0 x1 y1 x2 y2 p q h e1 e2
  refine Prod.ext hc ?_
  rw [circ2_radius_eq, hc]

/-- relabelling of vertices: exchanging `p0, p1` (non-degenerate triangle) -/
theorem circ2_swap01 (sqrt : α → α) (x0 y0 x1 y1 x2 y2 : α) (h : cross2 x0 y0 x1 y1 x2 y2 ≠ 0) :
    fast_2d_circumcircle sqrt x1 y1 x0 y0 x2 y2 = fast_2d_circumcircle sqrt x0 y0 x1 y1 x2 y2 := by
  have h' : cross2 x1 y1 x0 y0 x2 y2 ≠ 0 := by
    have : cross2 x1 y1 x0 y0 x2 y2 = -cross2 x0 y0 x1 y1 x2 y2 := by simp only [cross2]; ring
    rw [this]; exact neg_ne_zero.mpr h
  obtain ⟨k1, k2⟩ := circ2_equidistant sqrt x0 y0 x1 y1 x2 y2 h
  rw [circ2_of_equidistant sqrt x1 y1 x0 y0 x2 y2 _ _ h' k1.symm (k2.trans k1.symm), k1, ← circ2_radius_eq sqrt x0 y0 x1 y1 x2 y2]

/-- relabelling of vertices: exchanging `p1, p2` -/
theorem circ2_swap12 (sqrt : α → α) (x0 y0 x1 y1 x2 y2 : α) (h : cross2 x0 y0 x1 y1 x2 y2 ≠ 0) :
    fast_2d_circumcircle sqrt x0 y0 x2 y2 x1 y1 = fast_2d_circumcircle sqrt x0 y0 x1 y1 x2 y2 := by
  have h' : cross2 x0 y0 x2 y2 x1 y1 ≠ 0 := by
    have : cross2 x0 y0 x2 y2 x1 y1 = -cross2 x0 y0 x1 y1 x2 y2 := by simp only [cross2]; ring
    rw [this]; exact neg_ne_zero.mpr h
  obtain ⟨k1, k2⟩ := circ2_equidistant sqrt x0 y0 x1 y1 x2 y2 h
  rw [circ2_of_equidistant sqrt x0 y0 x2 y2 x1 y1 _ _ h' k2 k1, ← circ2_radius_eq sqrt x0 y0 x1 y1 x2 y2]

/-- homogeneity: scaling all points by `k ≠ 0` scales the centre by `k` and the radius by `|k|` -/
theorem circ2_scale (sqrt : α → α) (hs : SqrtLaw sqrt) (k x0 y0 x1 y1 x2 y2 : α) (hk : k ≠ 0)
    (h : cross2 x0 y0 x1 y1 x2 y2 ≠ 0) :
    let r := fast_2d_circumcircle sqrt x0 y0 x1 y1 x2 y2
    let r' := fast_2d_circumcircle sqrt (k * x0) (k * y0) (k * x1) (k * y1) (k * x2) (k * y2)
    r'.1 = (k * r.1.1, k * r.1.2) ∧ r'.2 = |k| * r.2 := by
  have h' : cross2 (k * x0) (k * y0) (k * x1) (k * y1) (k * x2) (k * y2) ≠ 0 := by
    have : cross2 (k * x0) (k * y0) (k * x1) (k * y1) (k * x2) (k * y2) = k * k * cross2 x0 y0 x1 y1 x2 y2 := by
      simp only [cross2]; ring
    rw [this]; exact mul_ne_zero (mul_ne_zero hk hk) h
  obtain ⟨k1, k2⟩ := circ2_equidistant sqrt x0 y0 x1 y1 x2 y2 h
  obtain ⟨hr0, hr⟩ := circ2_radius sqrt hs x0 y0 x1 y1 x2 y2 h
  have sc : ∀ a b c d : α, dsq2 (k * a) (k * b) (k * c) (k * d) = k * k * dsq2 a b c d := by
    intro a b c d; simp only [dsq2]; ring
  have E := circ2_of_equidistant sqrt (k * x0) (k * y0) (k * x1) (k * y1) (k * x2) (k * y2)
    (k * (fast_2d_circumcircle sqrt x0 y0 x1 y1 x2 y2).1.1) (k * (fast_2d_circumcircle sqrt x0 y0 x1 y1 x2 y2).1.2) h'
    (by rw [sc, sc, k1]) (by rw [sc, sc, k2])
  simp only
  rw [E]
  refine ⟨rfl, ?_⟩
  simp only
  rw [sc]
  have nn : 0 ≤ k * k * dsq2 (fast_2d_circumcircle sqrt x0 y0 x1 y1 x2 y2).1.1 (fast_2d_circumcircle sqrt x0 y0 x1 y1 x2 y2).1.2 x0 y0 :=
    mul_nonneg (mul_self_nonneg k) (dsq2_nonneg _ _ _ _)
  obtain ⟨s0, s1⟩ := hs _ nn
  refine (mul_self_inj s0 (mul_nonneg (abs_nonneg k) hr0)).mp ?_
  rw [s1, ← hr, mul_mul_mul_comm |k| _ |k| _, abs_mul_abs_self]

/-- rigid motions of the plane (any orthogonal matrix: rotations and reflections): the centre is mapped
along, the radius does not change -/
theorem circ2_orthogonal (sqrt : α → α) (a b c d : α) (h1 : a * a + c * c = 1) (h2 : b * b + d * d = 1)
    (h3 : a * b + c * d = 0) (x0 y0 x1 y1 x2 y2 : α) (h : cross2 x0 y0 x1 y1 x2 y2 ≠ 0) :
    let r := fast_2d_circumcircle sqrt x0 y0 x1 y1 x2 y2
    fast_2d_circumcircle sqrt (a * x0 + b * y0) (c * x0 + d * y0) (a * x1 + b * y1) (c * x1 + d * y1)
        (a * x2 + b * y2) (c * x2 + d * y2) = ((a * r.1.1 + b * r.1.2, c * r.1.1 + d * r.1.2), r.2) := by
  have hk : (a * d - b * c) * (a * d - b * c) = 1 := by
    linear_combination (b * b + d * d) * h1 + (1 : α) * h2 - (a * b + c * d) * h3
  have h' : cross2 (a * x0 + b * y0) (c * x0 + d * y0) (a * x1 + b * y1) (c * x1 + d * y1)
      (a * x2 + b * y2) (c * x2 + d * y2) ≠ 0 := by
    have : cross2 (a * x0 + b * y0) (c * x0 + d * y0) (a * x1 + b * y1) (c * x1 + d * y1)
        (a * x2 + b * y2) (c * x2 + d * y2) = (a * d - b * c) * cross2 x0 y0 x1 y1 x2 y2 := by
      simp only [cross2]; ring
    rw [this]
    refine mul_ne_zero ?_ h
    intro h0; rw [h0] at hk; simp at hk
  have iso : ∀ p q r s : α, dsq2 (a * p + b * q) (c * p + d * q) (a * r + b * s) (c * r + d * s) = dsq2 p q r s := by
    intro p q r s; simp only [dsq2]
    linear_combination ((p - r) * (p - r)) * h1 + ((q - s) * (q - s)) * h2 + (2 * (p - r) * (q - s)) * h3
  obtain ⟨k1, k2⟩ := circ2_equidistant sqrt x0 y0 x1 y1 x2 y2 h
  simp only
  rw [circ2_of_equidistant sqrt _ _ _ _ _ _ _ _ h' (by rw [iso, iso, k1]) (by rw [iso, iso, k2]), iso,
    ← circ2_radius_eq sqrt x0 y0 x1 y1 x2 y2]

/-! ## circumsphere of a tetrahedron (`fast_3d_circumcircle`, `circumsphere` for dim 3) -/

/-- C20.circ3.a  the returned centre is equidistant from the four vertices (non-degenerate tetrahedron) -/
theorem circ3_equidistant (sqrt : α → α) (x0 y0 z0 x1 y1 z1 x2 y2 z2 x3 y3 z3 : α)
    (h : cross3 x0 y0 z0 x1 y1 z1 x2 y2 z2 x3 y3 z3 ≠ 0) :
    let r := fast_3d_circumcircle sqrt x0 y0 z0 x1 y1 z1 x2 y2 z2 x3 y3 z3
    dsq3 r.1.1 r.1.2.1 r.1.2.2 x1 y1 z1 = dsq3 r.1.1 r.1.2.1 r.1.2.2 x0 y0 z0 ∧
    dsq3 r.1.1 r.1.2.1 r.1.2.2 x2 y2 z2 = dsq3 r.1.1 r.1.2.1 r.1.2.2 x0 y0 z0 ∧
    dsq3 r.1.1 r.1.2.1 r.1.2.2 x3 y3 z3 = dsq3 r.1.1 r.1.2.1 r.1.2.2 x0 y0 z0 := by
  have h2 : (2 : α) * c3aa x0 y0 z0 x1 y1 z1 x2 y2 z2 x3 y3 z3 ≠ 0 := by
    rw [c3aa_eq_cross3]; exact mul_ne_zero two_ne_zero h
  obtain ⟨u, v, w, e, hu, hv, hw⟩ := circ3_rel x0 y0 z0 x1 y1 z1 x2 y2 z2 x3 y3 z3 sqrt h2
  obtain ⟨k1, k2, k3⟩ := circ3_core h2 hu hv hw
  simp only [e]
  have k0 : dsq3 (u + x0) (v + y0) (w + z0) x0 y0 z0 = u * u + v * v + w * w := by simp only [dsq3]; ring
  exact ⟨k1.trans k0.symm, k2.trans k0.symm, k3.trans k0.symm⟩

/-- C20.circ3.b  the returned radius is the distance from the centre to the vertices -/
theorem circ3_radius (sqrt : α → α) (hs : SqrtLaw sqrt) (x0 y0 z0 x1 y1 z1 x2 y2 z2 x3 y3 z3 : α)
    (h : cross3 x0 y0 z0 x1 y1 z1 x2 y2 z2 x3 y3 z3 ≠ 0) :
    let r := fast_3d_circumcircle sqrt x0 y0 z0 x1 y1 z1 x2 y2 z2 x3 y3 z3
    0 ≤ r.2 ∧ r.2 * r.2 = dsq3 r.1.1 r.1.2.1 r.1.2.2 x0 y0 z0 := by
  have h2 : (2 : α) * c3aa x0 y0 z0 x1 y1 z1 x2 y2 z2 x3 y3 z3 ≠ 0 := by
    rw [c3aa_eq_cross3]; exact mul_ne_zero two_ne_zero h
  obtain ⟨u, v, w, e, hu, hv, hw⟩ := circ3_rel x0 y0 z0 x1 y1 z1 x2 y2 z2 x3 y3 z3 sqrt h2
  simp only [e]
  have k0 : dsq3 (u + x0) (v + y0) (w + z0) x0 y0 z0 = u * u + v * v + w * w := by simp only [dsq3]; ring
  have := hs (u * u + v * v + w * w)
    (add_nonneg (add_nonneg (mul_self_nonneg u) (mul_self_nonneg v)) (mul_self_nonneg w))
  exact ⟨this.1, this.2.trans k0.symm⟩

/-- C20.circ3.c  … and it is the only such point -/
theorem circ3_unique_center (sqrt : α → α) (x0 y0 z0 x1 y1 z1 x2 y2 z2 x3 y3 z3 p q r : α)
    (h : cross3 x0 y0 z0 x1 y1 z1 x2 y2 z2 x3 y3 z3 ≠ 0)
    (e1 : dsq3 p q r x1 y1 z1 = dsq3 p q r x0 y0 z0) (e2 : dsq3 p q r x2 y2 z2 = dsq3 p q r x0 y0 z0)
    (e3 : dsq3 p q r x3 y3 z3 = dsq3 p q r x0 y0 z0) :
    (fast_3d_circumcircle sqrt x0 y0 z0 x1 y1 z1 x2 y2 z2 x3 y3 z3).1 = (p, q, r) := by
  have h2 : (2 : α) * c3aa x0 y0 z0 x1 y1 z1 x2 y2 z2 x3 y3 z3 ≠ 0 := by
    rw [c3aa_eq_cross3]; exact mul_ne_zero two_ne_zero h
  obtain ⟨u, v, w, e, hu, hv, hw⟩ := circ3_rel x0 y0 z0 x1 y1 z1 x2 y2 z2 x3 y3 z3 sqrt h2
  obtain ⟨k1, k2, k3⟩ := circ3_unique h2 hu hv hw e1.symm e2.symm e3.symm
  rw [e, k1, k2, k3]

theorem circumsphere3_eq (sqrt : α → α) (x0 y0 z0 x1 y1 z1 x2 y2 z2 x3 y3 z3 : α) :
    circumsphere3 sqrt x0 y0 z0 x1 y1 z1 x2 y2 z2 x3 y3 z3
      = fast_3d_circumcircle sqrt x0 y0 z0 x1 y1 z1 x2 y2 z2 x3 y3 z3 := rfl

theorem circ3_radius_eq (sqrt : α → α) (x0 y0 z0 x1 y1 z1 x2 y2 z2 x3 y3 z3 : α) :
    (fast_3d_circumcircle sqrt x0 y0 z0 x1 y1 z1 x2 y2 z2 x3 y3 z3).2
      = sqrt (dsq3 (fast_3d_circumcircle sqrt x0 y0 z0 x1 y1 z1 x2 y2 z2 x3 y3 z3).1.1
                   (fast_3d_circumcircle sqrt x0 y0 z0 x1 y1 z1 x2 y2 z2 x3 y3 z3).1.2.1
                   (fast_3d_circumcircle sqrt x0 y0 z0 x1 y1 z1 x2 y2 z2 x3 y3 z3).1.2.2 x0 y0 z0) := by
  rw [circ3_closed]; simp only [dsq3]; congr 1; ring

theorem circ3_of_equidistant (sqrt : α → α) (x0 y0 z0 x1 y1 z1 x2 y2 z2 x3 y3 z3 p q r : α)
    (h : cross3 x0 y0 z0 x1 y1 z1 x2 y2 z2 x3 y3 z3 ≠ 0)
    (e1 : dsq3 p q r x1 y1 z1 = dsq3 p q r x0 y0 z0) (e2 : dsq3 p q r x2 y2 z2 = dsq3 p q r x0 y0 z0)
    (e3 : dsq3 p q r x3 y3 z3 = dsq3 p q r x0 y0 z0) :
    fast_3d_circumcircle sqrt x0 y0 z0 x1 y1 z1 x2 y2 z2 x3 y3 z3 = ((p, q, r), sqrt (dsq3 p q r x0 y0 z0)) := by
  have hc := circ3_unique_center sqrt x0 y0 z0 x1 y1 z1 x2 y2 z2 x3 y3 z3 p q r h e1 e2 e3
  refine Prod.ext hc ?_
  rw [circ3_radius_eq, hc]

/-- translation invariance -/
theorem circ3_translate (sqrt : α → α) (s t m x0 y0 z0 x1 y1 z1 x2 y2 z2 x3 y3 z3 : α)
    (h : cross3 x0 y0 z0 x1 y1 z1 x2 y2 z2 x3 y3 z3 ≠ 0) :
    let r := fast_3d_circumcircle sqrt x0 y0 z0 x1 y1 z1 x2 y2 z2 x3 y3 z3
    fast_3d_circumcircle sqrt (x0 + s) (y0 + t) (z0 + m) (x1 + s) (y1 + t) (z1 + m) (x2 + s) (y2 + t) (z2 + m)
        (x3 + s) (y3 + t) (z3 + m) = ((r.1.1 + s, r.1.2.1 + t, r.1.2.2 + m), r.2) := by
  have h' : cross3 (x0 + s) (y0 + t) (z0 + m) (x1 + s) (y1 + t) (z1 + m) (x2 + s) (y2 + t) (z2 + m)
      (x3 + s) (y3 + t) (z3 + m) ≠ 0 := by
    have : cross3 (x0 + s) (y0 + t) (z0 + m) (x1 + s) (y1 + t) (z1 + m) (x2 + s) (y2 + t) (z2 + m)
        (x3 + s) (y3 + t) (z3 + m) = cross3 x0 y0 z0 x1 y1 z1 x2 y2 z2 x3 y3 z3 := by simp only [cross3]; ring
    rw [this]; exact h
  have tr : ∀ a b c d e f : α, dsq3 (a + s) (b + t) (c + m) (d + s) (e + t) (f + m) = dsq3 a b c d e f := by
    intro a b c d e f; simp only [dsq3]; ring
  obtain ⟨k1, k2, k3⟩ := circ3_equidistant sqrt x0 y0 z0 x1 y1 z1 x2 y2 z2 x3 y3 z3 h
  simp only
  rw [circ3_of_equidistant sqrt _ _ _ _ _ _ _ _ _ _ _ _ _ _ _ h' (by rw [tr, tr, k1]) (by rw [tr, tr, k2])
    (by rw [tr, tr, k3]), tr, ← circ3_radius_eq sqrt x0 y0 z0 x1 y1 z1 x2 y2 z2 x3 y3 z3]

/-- relabelling of vertices (the three adjacent transpositions generate all relabellings) -/
theorem circ3_swap01 (sqrt : α → α) (x0 y0 z0 x1 y1 z1 x2 y2 z2 x3 y3 z3 : α)
    (h : cross3 x0 y0 z0 x1 y1 z1 x2 y2 z2 x3 y3 z3 ≠ 0) :
    fast_3d_circumcircle sqrt x1 y1 z1 x0 y0 z0 x2 y2 z2 x3 y3 z3
      = fast_3d_circumcircle sqrt x0 y0 z0 x1 y1 z1 x2 y2 z2 x3 y3 z3 := by
  have h' : cross3 x1 y1 z1 x0 y0 z0 x2 y2 z2 x3 y3 z3 ≠ 0 := by
    have : cross3 x1 y1 z1 x0 y0 z0 x2 y2 z2 x3 y3 z3 = -cross3 x0 y0 z0 x1 y1 z1 x2 y2 z2 x3 y3 z3 := by
      simp only [cross3]; ring
    rw [this]; exact neg_ne_zero.mpr h
  obtain ⟨k1, k2, k3⟩ := circ3_equidistant sqrt x0 y0 z0 x1 y1 z1 x2 y2 z2 x3 y3 z3 h
  rw [circ3_of_equidistant sqrt x1 y1 z1 x0 y0 z0 x2 y2 z2 x3 y3 z3 _ _ _ h' k1.symm (k2.trans k1.symm)
    (k3.trans k1.symm), k1, ← circ3_radius_eq sqrt x0 y0 z0 x1 y1 z1 x2 y2 z2 x3 y3 z3]

theorem circ3_swap12 (sqrt : α → α) (x0 y0 z0 x1 y1 z1 x2 y2 z2 x3 y3 z3 : α)
    (h : cross3 x0 y0 z0 x1 y1 z1 x2 y2 z2 x3 y3 z3 ≠ 0) :
    fast_3d_circumcircle sqrt x0 y0 z0 x2 y2 z2 x1 y1 z1 x3 y3 z3
      = fast_3d_circumcircle sqrt x0 y0 z0 x1 y1 z1 x2 y2 z2 x3 y3 z3 := by
  have h' : cross3 x0 y0 z0 x2 y2 z2 x1 y1 z1 x3 y3 z3 ≠ 0 := by
    have : cross3 x0 y0 z0 x2 y2 z2 x1 y1 z1 x3 y3 z3 = -cross3 x0 y0 z0 x1 y1 z1 x2 y2 z2 x3 y3 z3 := by
      simp only [cross3]; ring
    rw [this]; exact neg_ne_zero.mpr h
  obtain ⟨k1, k2, k3⟩ := circ3_equidistant sqrt x0 y0 z0 x1 y1 z1 x2 y2 z2 x3 y3 z3 h
  rw [circ3_of_equidistant sqrt x0 y0 z0 x2 y2 z2 x1 y1 z1 x3 y3 z3 _ _ _ h' k2 k1 k3, ← circ3_radius_eq sqrt x0 y0 z0 x1 y1 z1 x2 y2 z2 x3 y3 z3]

theorem circ3_swap23 (sqrt : α → α) (x0 y0 z0 x1 y1 z1 x2 y2 z2 x3 y3 z3 : α)
    (h : cross3 x0 y0 z0 x1 y1 z1 x2 y2 z2 x3 y3 z3 ≠ 0) :
    fast_3d_circumcircle sqrt x0 y0 z0 x1 y1 z1 x3 y3 z3 x2 y2 z2
      = fast_3d_circumcircle sqrt x0 y0 z0 x1 y1 z1 x2 y2 z2 x3 y3 z3 := by
  have h' : cross3 x0 y0 z0 x1 y1 z1 x3 y3 z3 x2 y2 z2 ≠ 0 := by
    have : cross3 x0 y0 z0 x1 y1 z1 x3 y3 z3 x2 y2 z2 = -cross3 x0 y0 z0 x1 y1 z1 x2 y2 z2 x3 y3 z3 := by
      simp only [cross3]; ring
    rw [this]; exact neg_ne_zero.mpr h
  obtain ⟨k1, k2, k3⟩ := circ3_equidistant sqrt x0 y0 z0 x1 y1 z1 x2 y2 z2 x3 y3 z3 h
  rw [circ3_of_equidistant sqrt x0 y0 z0 x1 y1 z1 x3 y3 z3 x2 y2 z2 _ _ _ h' k1 k3 k2, ← circ3_radius_eq sqrt x0 y0 z0 x1 y1 z1 x2 y2 z2 x3 y3 z3]

/-- homogeneity: centre scales by `k`, radius by `|k|` -/
theorem circ3_scale (sqrt : α → α) (hs : SqrtLaw sqrt) (k x0 y0 z0 x1 y1 z1 x2 y2 z2 x3 y3 z3 : α) (hk : k ≠ 0)
    (h : cross3 x0 y0 z0 x1 y1 z1 x2 y2 z2 x3 y3 z3 ≠ 0) :
    let r := fast_3d_circumcircle sqrt x0 y0 z0 x1 y1 z1 x2 y2 z2 x3 y3 z3
    let r' := fast_3d_circumcircle sqrt (k * x0) (k * y0) (k * z0) (k * x1) (k * y1) (k * z1) (k * x2) (k * y2) (k * z2)
      (k * x3) (k * y3) (k * z3)
    r'.1 = (k * r.1.1, k * r.1.2.1, k * r.1.2.2) ∧ r'.2 = |k| * r.2 := by
  have h' : cross3 (k * x0) (k * y0) (k * z0) (k * x1) (k * y1) (k * z1) (k * x2) (k * y2) (k * z2)
      (k * x3) (k * y3) (k * z3) ≠ 0 := by
    have : cross3 (k * x0) (k * y0) (k * z0) (k * x1) (k * y1) (k * z1) (k * x2) (k * y2) (k * z2)
        (k * x3) (k * y3) (k * z3) = k * k * k * cross3 x0 y0 z0 x1 y1 z1 x2 y2 z2 x3 y3 z3 := by
      simp only [cross3]; ring
    rw [this]; exact mul_ne_zero (mul_ne_zero (mul_ne_zero hk hk) hk) h
  obtain ⟨k1, k2, k3⟩ := circ3_equidistant sqrt x0 y0 z0 x1 y1 z1 x2 y2 z2 x3 y3 z3 h
  obtain ⟨hr0, hr⟩ := circ3_radius sqrt hs x0 y0 z0 x1 y1 z1 x2 y2 z2 x3 y3 z3 h
  have sc : ∀ a b c d e f : α, dsq3 (k * a) (k * b) (k * c) (k * d) (k * e) (k * f) = k * k * dsq3 a b c d e f := by
    intro a b c d e f; simp only [dsq3]; ring
  have E := circ3_of_equidistant sqrt (k * x0) (k * y0) (k * z0) (k * x1) (k * y1) (k * z1) (k * x2) (k * y2) (k * z2)
    (k * x3) (k * y3) (k * z3)
    (k * (fast_3d_circumcircle sqrt x0 y0 z0 x1 y1 z1 x2 y2 z2 x3 y3 z3).1.1)
    (k * (fast_3d_circumcircle sqrt x0 y0 z0 x1 y1 z1 x2 y2 z2 x3 y3 z3).1.2.1)
    (k * (fast_3d_circumcircle sqrt x0 y0 z0 x1 y1 z1 x2 y2 z2 x3 y3 z3).1.2.2) h'
    (by rw [sc, sc, k1]) (by rw [sc, sc, k2]) (by rw [sc, sc, k3])
  simp only
  rw [E]
  refine ⟨rfl, ?_⟩
  simp only
  rw [sc]
  have nn : 0 ≤ k * k * dsq3 (fast_3d_circumcircle sqrt x0 y0 z0 x1 y1 z1 x2 y2 z2 x3 y3 z3).1.1
      (fast_3d_circumcircle sqrt x0 y0 z0 x1 y1 z1 x2 y2 z2 x3 y3 z3).1.2.1
      (fast_3d_circumcircle sqrt x0 y0 z0 x1 y1 z1 x2 y2 z2 x3 y3 z3).1.2.2 x0 y0 z0 :=
    mul_nonneg (mul_self_nonneg k) (dsq3_nonneg _ _ _ _ _ _)
  obtain ⟨s0, s1⟩ := hs _ nn
  refine (mul_self_inj s0 (mul_nonneg (abs_nonneg k) hr0)).mp ?_
  rw [s1, ← hr, mul_mul_mul_comm |k| _ |k| _, abs_mul_abs_self]

/-- rigid motions of space (any orthogonal matrix `m`, `mᵀ m = 1`): the centre is mapped along, the radius does not change -/
theorem circ3_orthogonal (sqrt : α → α) (m11 m12 m13 m21 m22 m23 m31 m32 m33 : α)
    (hm : Orth3 m11 m12 m13 m21 m22 m23 m31 m32 m33) (x0 y0 z0 x1 y1 z1 x2 y2 z2 x3 y3 z3 : α)
    (h : cross3 x0 y0 z0 x1 y1 z1 x2 y2 z2 x3 y3 z3 ≠ 0) :
    let r := fast_3d_circumcircle sqrt x0 y0 z0 x1 y1 z1 x2 y2 z2 x3 y3 z3
    fast_3d_circumcircle sqrt
        (m11 * x0 + m12 * y0 + m13 * z0) (m21 * x0 + m22 * y0 + m23 * z0) (m31 * x0 + m32 * y0 + m33 * z0)
        (m11 * x1 + m12 * y1 + m13 * z1) (m21 * x1 + m22 * y1 + m23 * z1) (m31 * x1 + m32 * y1 + m33 * z1)
        (m11 * x2 + m12 * y2 + m13 * z2) (m21 * x2 + m22 * y2 + m23 * z2) (m31 * x2 + m32 * y2 + m33 * z2)
        (m11 * x3 + m12 * y3 + m13 * z3) (m21 * x3 + m22 * y3 + m23 * z3) (m31 * x3 + m32 * y3 + m33 * z3)
      = ((m11 * r.1.1 + m12 * r.1.2.1 + m13 * r.1.2.2, m21 * r.1.1 + m22 * r.1.2.1 + m23 * r.1.2.2,
          m31 * r.1.1 + m32 * r.1.2.1 + m33 * r.1.2.2), r.2) := by
  have h' := mul_ne_zero (det3_ne_zero_of_orth hm) h
  rw [← cross3_linear] at h'
  have iso := dsq3_orth hm
  obtain ⟨k1, k2, k3⟩ := circ3_equidistant sqrt x0 y0 z0 x1 y1 z1 x2 y2 z2 x3 y3 z3 h
  simp only
  rw [circ3_of_equidistant sqrt _ _ _ _ _ _ _ _ _ _ _ _ _ _ _ h' (by rw [iso, iso, k1]) (by rw [iso, iso, k2])
    (by rw [iso, iso, k3]), iso, ← circ3_radius_eq sqrt x0 y0 z0 x1 y1 z1 x2 y2 z2 x3 y3 z3]

/-- the volume of a tetrahedron is invariant under rigid motions of space -/
theorem nd_volume3_orthogonal (m11 m12 m13 m21 m22 m23 m31 m32 m33 : α)
    (hm : Orth3 m11 m12 m13 m21 m22 m23 m31 m32 m33) (x0 y0 z0 x1 y1 z1 x2 y2 z2 x3 y3 z3 : α) :
    nd_volume3 (fun x => |x|)
        (m11 * x0 + m12 * y0 + m13 * z0) (m21 * x0 + m22 * y0 + m23 * z0) (m31 * x0 + m32 * y0 + m33 * z0)
        (m11 * x1 + m12 * y1 + m13 * z1) (m21 * x1 + m22 * y1 + m23 * z1) (m31 * x1 + m32 * y1 + m33 * z1)
        (m11 * x2 + m12 * y2 + m13 * z2) (m21 * x2 + m22 * y2 + m23 * z2) (m31 * x2 + m32 * y2 + m33 * z2)
        (m11 * x3 + m12 * y3 + m13 * z3) (m21 * x3 + m22 * y3 + m23 * z3) (m31 * x3 + m32 * y3 + m33 * z3)
      = nd_volume3 (fun x => |x|) x0 y0 z0 x1 y1 z1 x2 y2 z2 x3 y3 z3 := by
  rw [nd_volume3_eq_cross3, nd_volume3_eq_cross3, cross3_linear, abs_mul, abs_det3_of_orth hm, one_mul]

/-! ## point in triangle (`fast_2d_point_in_simplex`, `point_in_simplex` for dim 2) -/

/-- C20.pis.a  what the test computes for any tolerance: the barycentric coordinates of the vertices `p1`, `p2`
and (through their sum) `p0`, each allowed to leave `[0, 1]` by `eps` -/
theorem point_in_simplex2_iff_eps (px py x0 y0 x1 y1 x2 y2 eps : α) :
    fast_2d_point_in_simplex px py x0 y0 x1 y1 x2 y2 eps = true ↔
      (-eps ≤ bary1 px py x0 y0 x1 y1 x2 y2 ∧ bary1 px py x0 y0 x1 y1 x2 y2 ≤ 1 + eps) ∧
      -eps ≤ bary2 px py x0 y0 x1 y1 x2 y2 ∧
      bary1 px py x0 y0 x1 y1 x2 y2 + bary2 px py x0 y0 x1 y1 x2 y2 ≤ 1 + eps := by
  rw [pis_iff, pisS_eq_bary1, pisT_eq_bary2]

/-- C20.pis.b  with `eps = 0` (non-degenerate triangle, either orientation): true exactly when all three
barycentric coordinates lie in `[0, 1]` -/
theorem point_in_simplex2_iff_bary (px py x0 y0 x1 y1 x2 y2 : α) (h : cross2 x0 y0 x1 y1 x2 y2 ≠ 0) :
    fast_2d_point_in_simplex px py x0 y0 x1 y1 x2 y2 0 = true ↔
      (0 ≤ bary0 px py x0 y0 x1 y1 x2 y2 ∧ bary0 px py x0 y0 x1 y1 x2 y2 ≤ 1) ∧
      (0 ≤ bary1 px py x0 y0 x1 y1 x2 y2 ∧ bary1 px py x0 y0 x1 y1 x2 y2 ≤ 1) ∧
      (0 ≤ bary2 px py x0 y0 x1 y1 x2 y2 ∧ bary2 px py x0 y0 x1 y1 x2 y2 ≤ 1) := by
  rw [point_in_simplex2_iff_eps]
  have hs := bary_sum px py x0 y0 x1 y1 x2 y2 h
  simp only [neg_zero, add_zero]
  constructor
  · rintro ⟨⟨a, b⟩, c, d⟩
    exact ⟨⟨by linarith, by linarith⟩, ⟨a, b⟩, c, by linarith⟩
  · rintro ⟨⟨a, b⟩, ⟨c, d⟩, e, f⟩
    exact ⟨⟨c, d⟩, e, by linarith⟩

/-- C20.pis.c  … equivalently: the point is a convex combination of the vertices -/
theorem point_in_simplex2_iff_convex (px py x0 y0 x1 y1 x2 y2 : α) (h : cross2 x0 y0 x1 y1 x2 y2 ≠ 0) :
    fast_2d_point_in_simplex px py x0 y0 x1 y1 x2 y2 0 = true ↔
      ∃ l0 l1 l2 : α, 0 ≤ l0 ∧ 0 ≤ l1 ∧ 0 ≤ l2 ∧ l0 + l1 + l2 = 1 ∧
        px = l0 * x0 + l1 * x1 + l2 * x2 ∧ py = l0 * y0 + l1 * y1 + l2 * y2 := by
  rw [point_in_simplex2_iff_bary px py x0 y0 x1 y1 x2 y2 h]
  have hs := bary_sum px py x0 y0 x1 y1 x2 y2 h
  constructor
  · rintro ⟨⟨a, _⟩, ⟨c, _⟩, e, _⟩
    exact ⟨_, _, _, a, c, e, hs, (bary_combination px py x0 y0 x1 y1 x2 y2 h).1,
      (bary_combination px py x0 y0 x1 y1 x2 y2 h).2⟩
  · rintro ⟨l0, l1, l2, a, b, c, s, ex, ey⟩
    obtain ⟨e0, e1, e2⟩ := bary_unique h s ex ey
    rw [← e0, ← e1, ← e2]
    exact ⟨⟨a, by linarith⟩, ⟨b, by linarith⟩, c, by linarith⟩

/-- C20.pis.d  a larger tolerance accepts more -/
theorem point_in_simplex2_mono_eps (px py x0 y0 x1 y1 x2 y2 eps eps' : α) (he : eps ≤ eps')
    (h : fast_2d_point_in_simplex px py x0 y0 x1 y1 x2 y2 eps = true) :
    fast_2d_point_in_simplex px py x0 y0 x1 y1 x2 y2 eps' = true := by
  rw [point_in_simplex2_iff_eps] at h ⊢
  obtain ⟨⟨a, b⟩, c, d⟩ := h
  exact ⟨⟨by linarith, by linarith⟩, by linarith, by linarith⟩

/-- the dimension dispatch of `point_in_simplex` reaches exactly this function -/
theorem point_in_simplex2_eq (px py x0 y0 x1 y1 x2 y2 eps : α) :
    point_in_simplex2 px py x0 y0 x1 y1 x2 y2 eps = fast_2d_point_in_simplex px py x0 y0 x1 y1 x2 y2 eps := rfl

/-- translation invariance (any tolerance) -/
theorem point_in_simplex2_translate (s t px py x0 y0 x1 y1 x2 y2 eps : α) :
    fast_2d_point_in_simplex (px + s) (py + t) (x0 + s) (y0 + t) (x1 + s) (y1 + t) (x2 + s) (y2 + t) eps
      = fast_2d_point_in_simplex px py x0 y0 x1 y1 x2 y2 eps := by
  have tr : ∀ a b c d e f : α, cross2 (a + s) (b + t) (c + s) (d + t) (e + s) (f + t) = cross2 a b c d e f := by
    intro a b c d e f; simp only [cross2]; ring
  rw [Bool.eq_iff_iff, point_in_simplex2_iff_eps, point_in_simplex2_iff_eps]
  simp only [bary1, bary2, tr]

/-- scale invariance (barycentric coordinates have degree 0; the tolerance is relative) -/
theorem point_in_simplex2_scale (k px py x0 y0 x1 y1 x2 y2 eps : α) (hk : k ≠ 0) :
    fast_2d_point_in_simplex (k * px) (k * py) (k * x0) (k * y0) (k * x1) (k * y1) (k * x2) (k * y2) eps
      = fast_2d_point_in_simplex px py x0 y0 x1 y1 x2 y2 eps := by
  have sc : ∀ a b c d e f : α, cross2 (k * a) (k * b) (k * c) (k * d) (k * e) (k * f) = k * k * cross2 a b c d e f := by
    intro a b c d e f; simp only [cross2]; ring
  rw [Bool.eq_iff_iff, point_in_simplex2_iff_eps, point_in_simplex2_iff_eps]
  simp only [bary1, bary2, sc, mul_div_mul_left _ _ (mul_ne_zero hk hk)]

/-- rigid motions of the plane fixing the origin (orthogonal matrices), any tolerance -/
theorem point_in_simplex2_orthogonal (a b c d : α) (h1 : a * a + c * c = 1) (h2 : b * b + d * d = 1) (h3 : a * b + c * d = 0)
    (px py x0 y0 x1 y1 x2 y2 eps : α) :
    fast_2d_point_in_simplex (a * px + b * py) (c * px + d * py) (a * x0 + b * y0) (c * x0 + d * y0)
        (a * x1 + b * y1) (c * x1 + d * y1) (a * x2 + b * y2) (c * x2 + d * y2) eps
      = fast_2d_point_in_simplex px py x0 y0 x1 y1 x2 y2 eps := by
  have hk : (a * d - b * c) * (a * d - b * c) = 1 := by
    linear_combination (b * b + d * d) * h1 + (1 : α) * h2 - (a * b + c * d) * h3
  have k0 : a * d - b * c ≠ 0 := by intro h0; rw [h0] at hk; simp at hk
  have lin : ∀ p q r s t u : α, cross2 (a * p + b * q) (c * p + d * q) (a * r + b * s) (c * r + d * s)
      (a * t + b * u) (c * t + d * u) = (a * d - b * c) * cross2 p q r s t u := by
    intro p q r s t u; simp only [cross2]; ring
  rw [Bool.eq_iff_iff, point_in_simplex2_iff_eps, point_in_simplex2_iff_eps]
  simp only [bary1, bary2, lin, mul_div_mul_left _ _ k0]

/-- relabelling of vertices at `eps = 0`: the answer does not depend on the order (or orientation) of the vertices -/
theorem point_in_simplex2_swap01 (px py x0 y0 x1 y1 x2 y2 : α) (h : cross2 x0 y0 x1 y1 x2 y2 ≠ 0) :
    fast_2d_point_in_simplex px py x1 y1 x0 y0 x2 y2 0 = fast_2d_point_in_simplex px py x0 y0 x1 y1 x2 y2 0 := by
  have h' : cross2 x1 y1 x0 y0 x2 y2 ≠ 0 := by
    have : cross2 x1 y1 x0 y0 x2 y2 = -cross2 x0 y0 x1 y1 x2 y2 := by simp only [cross2]; ring
    rw [this]; exact neg_ne_zero.mpr h
  rw [Bool.eq_iff_iff, point_in_simplex2_iff_convex _ _ _ _ _ _ _ _ h, point_in_simplex2_iff_convex _ _ _ _ _ _ _ _ h']
  constructor
  · rintro ⟨l0, l1, l2, a, b, c, s, ex, ey⟩
    exact ⟨l1, l0, l2, b, a, c, by linarith, by linarith, by linarith⟩
  · rintro ⟨l0, l1, l2, a, b, c, s, ex, ey⟩
    exact ⟨l1, l0, l2, b, a, c, by linarith, by linarith, by linarith⟩

theorem point_in_simplex2_swap12 (px py x0 y0 x1 y1 x2 y2 : α) (h : cross2 x0 y0 x1 y1 x2 y2 ≠ 0) :
    fast_2d_point_in_simplex px py x0 y0 x2 y2 x1 y1 0 = fast_2d_point_in_simplex px py x0 y0 x1 y1 x2 y2 0 := by
  have h' : cross2 x0 y0 x2 y2 x1 y1 ≠ 0 := by
    have : cross2 x0 y0 x2 y2 x1 y1 = -cross2 x0 y0 x1 y1 x2 y2 := by simp only [cross2]; ring
    rw [this]; exact neg_ne_zero.mpr h
  rw [Bool.eq_iff_iff, point_in_simplex2_iff_convex _ _ _ _ _ _ _ _ h, point_in_simplex2_iff_convex _ _ _ _ _ _ _ _ h']
  constructor
  · rintro ⟨l0, l1, l2, a, b, c, s, ex, ey⟩
    exact ⟨l0, l2, l1, a, c, b, by linarith, by linarith, by linarith⟩
  · rintro ⟨l0, l1, l2, a, b, c, s, ex, ey⟩
    exact ⟨l0, l2, l1, a, c, b, by linarith, by linarith, by linarith⟩

/-! ## volume through distances (Heron branch of `simplex_volume_in_embedding`) -/

/-- C20.heron.a  Heron's radicand equals the Gram-determinant expression of the squared area,
`(|u|²|v|² − (u·v)²)/4 = det(u, v)²/4` -/
theorem heron_radicand_eq_gram (sqrt : α → α) (hs : SqrtLaw sqrt) (x0 y0 x1 y1 x2 y2 : α) :
    simplex_volume_heron_radicand sqrt x0 y0 x1 y1 x2 y2
      = cross2 x0 y0 x1 y1 x2 y2 * cross2 x0 y0 x1 y1 x2 y2 / 4 := by
  rw [heron_closed, heron_poly, (hs _ (dsq2_nonneg x0 y0 x1 y1)).2, (hs _ (dsq2_nonneg x0 y0 x2 y2)).2,
    (hs _ (dsq2_nonneg x1 y1 x2 y2)).2, gram_poly]

/-- C20.heron.b  the value returned is the square root of that radicand -/
theorem heron_eq_sqrt_radicand (sqrt : α → α) (x0 y0 x1 y1 x2 y2 : α) :
    simplex_volume_heron sqrt x0 y0 x1 y1 x2 y2 = sqrt (simplex_volume_heron_radicand sqrt x0 y0 x1 y1 x2 y2) := rfl

/-- C20.heron.c  volume via distances = volume via the determinant (`learnerND.volume`) -/
theorem heron_eq_volume (sqrt : α → α) (hs : SqrtLaw sqrt) (x0 y0 x1 y1 x2 y2 : α) :
    simplex_volume_heron sqrt x0 y0 x1 y1 x2 y2 = nd_volume2 (fun x => |x|) x0 y0 x1 y1 x2 y2 := by
  rw [heron_eq_sqrt_radicand, heron_radicand_eq_gram sqrt hs, nd_volume2_eq_cross2]
  have nn : 0 ≤ cross2 x0 y0 x1 y1 x2 y2 * cross2 x0 y0 x1 y1 x2 y2 / 4 :=
    div_nonneg (mul_self_nonneg _) (by norm_num)
  obtain ⟨s0, s1⟩ := hs _ nn
  refine (mul_self_inj s0 (div_nonneg (abs_nonneg _) (by norm_num))).mp ?_
  rw [s1, div_mul_div_comm, abs_mul_abs_self]; norm_num

/-! ## one-dimensional losses and `linspace` -/

/-- C20.l1d.a  `uniform_loss` is the interval width -/
theorem l1d_uniform_loss_eq (x0 x1 y0 y1 : α) : l1d_uniform_loss x0 x1 y0 y1 = x1 - x0 := rfl

/-- C20.l1d.b  `default_loss` squares to `dx² + dy²` (scalar values) -/
theorem l1d_default_loss_sq (sqrt : α → α) (hs : SqrtLaw sqrt) (x0 x1 y0 y1 : α) :
    l1d_default_loss sqrt x0 x1 y0 y1 = sqrt (l1d_default_loss_radicand x0 x1 y0 y1) ∧
    l1d_default_loss_radicand x0 x1 y0 y1 = (x1 - x0) * (x1 - x0) + (y1 - y0) * (y1 - y0) ∧
    0 ≤ l1d_default_loss sqrt x0 x1 y0 y1 ∧
    l1d_default_loss sqrt x0 x1 y0 y1 * l1d_default_loss sqrt x0 x1 y0 y1
      = (x1 - x0) * (x1 - x0) + (y1 - y0) * (y1 - y0) :=
  ⟨rfl, rfl, (hs _ (add_nonneg (mul_self_nonneg _) (mul_self_nonneg _))).1,
    (hs _ (add_nonneg (mul_self_nonneg _) (mul_self_nonneg _))).2⟩

/-- translation invariance and homogeneity (degree 1 for `uniform_loss`, degree 2 for the radicand of `default_loss`) -/
theorem l1d_losses_invariance (k s t x0 x1 y0 y1 : α) :
    l1d_uniform_loss (x0 + s) (x1 + s) (y0 + t) (y1 + t) = l1d_uniform_loss x0 x1 y0 y1 ∧
    l1d_default_loss_radicand (x0 + s) (x1 + s) (y0 + t) (y1 + t) = l1d_default_loss_radicand x0 x1 y0 y1 ∧
    l1d_uniform_loss (k * x0) (k * x1) (k * y0) (k * y1) = k * l1d_uniform_loss x0 x1 y0 y1 ∧
    l1d_default_loss_radicand (k * x0) (k * x1) (k * y0) (k * y1) = k ^ 2 * l1d_default_loss_radicand x0 x1 y0 y1 := by
  simp only [l1d_uniform_loss, l1d_default_loss_radicand]
  refine ⟨by ring, by ring, by ring, by ring⟩

/-- C20.l1d.b'  vector-valued `default_loss`: the largest of the per-component distances -/
theorem l1d_default_loss_vec2_eq_max (sqrt abs : α → α) (x0 x1 a0 a1 b0 b1 : α) :
    l1d_default_loss_vec2 sqrt abs x0 x1 a0 a1 b0 b1 =
      max (sqrt ((x1 - x0) * (x1 - x0) + abs (a0 - b0) * abs (a0 - b0)))
          (sqrt ((x1 - x0) * (x1 - x0) + abs (a1 - b1) * abs (a1 - b1))) := by
  simp only [l1d_default_loss_vec2, max_def]
  split_ifs with h1 h2 h2
  · rfl
  · exact absurd (le_of_lt h1) h2
  · exact le_antisymm h2 (not_lt.mp h1)
  · rfl

theorem l1d_default_loss_vec3_eq_max (sqrt abs : α → α) (x0 x1 a0 a1 a2 b0 b1 b2 : α) :
    l1d_default_loss_vec3 sqrt abs x0 x1 a0 a1 a2 b0 b1 b2 =
      max (max (sqrt ((x1 - x0) * (x1 - x0) + abs (a0 - b0) * abs (a0 - b0)))
               (sqrt ((x1 - x0) * (x1 - x0) + abs (a1 - b1) * abs (a1 - b1))))
          (sqrt ((x1 - x0) * (x1 - x0) + abs (a2 - b2) * abs (a2 - b2))) := by
  have key : ∀ a b : α, (if a < b then b else a) = max a b := by
    intro a b; rw [max_def]; split_ifs with h1 h2 h2
    · rfl
    · exact absurd (le_of_lt h1) h2
    · exact le_antisymm h2 (not_lt.mp h1)
    · rfl
  simp only [l1d_default_loss_vec3, key]

/-- … and its square is `dx² + max_i dy_i²` -/
theorem l1d_default_loss_vec2_sq (sqrt : α → α) (hs : SqrtLaw sqrt) (x0 x1 a0 a1 b0 b1 : α) :
    l1d_default_loss_vec2 sqrt (fun x => |x|) x0 x1 a0 a1 b0 b1 * l1d_default_loss_vec2 sqrt (fun x => |x|) x0 x1 a0 a1 b0 b1
      = (x1 - x0) * (x1 - x0) + max ((a0 - b0) * (a0 - b0)) ((a1 - b1) * (a1 - b1)) := by
  rw [l1d_default_loss_vec2_eq_max]
  simp only [abs_mul_abs_self]
  have n0 : 0 ≤ (x1 - x0) * (x1 - x0) + (a0 - b0) * (a0 - b0) := add_nonneg (mul_self_nonneg _) (mul_self_nonneg _)
  have n1 : 0 ≤ (x1 - x0) * (x1 - x0) + (a1 - b1) * (a1 - b1) := add_nonneg (mul_self_nonneg _) (mul_self_nonneg _)
  obtain ⟨p0, q0⟩ := hs _ n0
  obtain ⟨p1, q1⟩ := hs _ n1
  rcases le_total ((a0 - b0) * (a0 - b0)) ((a1 - b1) * (a1 - b1)) with h | h
  · have : sqrt ((x1 - x0) * (x1 - x0) + (a0 - b0) * (a0 - b0)) ≤ sqrt ((x1 - x0) * (x1 - x0) + (a1 - b1) * (a1 - b1)) := by
      rw [mul_self_le_mul_self_iff p0 p1, q0, q1]; linarith
    rw [max_eq_right this, max_eq_right h, q1]
  · have : sqrt ((x1 - x0) * (x1 - x0) + (a1 - b1) * (a1 - b1)) ≤ sqrt ((x1 - x0) * (x1 - x0) + (a0 - b0) * (a0 - b0)) := by
      rw [mul_self_le_mul_self_iff p1 p0, q0, q1]; linarith
    rw [max_eq_left this, max_eq_left h, q0]

/-- C20.l1d.t  `triangle_loss` (scalar values): the mean area of the triangles of adjacent point triples; with a
missing outer neighbour one triangle, with both missing the interval width -/
theorem l1d_triangle_loss_eq (abs : α → α) (x0 x1 x2 x3 y0 y1 y2 y3 : α) :
    l1d_triangle_loss4 abs x0 x1 x2 x3 y0 y1 y2 y3
      = (0 + nd_volume2 abs x0 y0 x1 y1 x2 y2 + nd_volume2 abs x1 y1 x2 y2 x3 y3) / 2 ∧
    l1d_triangle_loss3l abs x1 x2 x3 y1 y2 y3 = (0 + nd_volume2 abs x1 y1 x2 y2 x3 y3) / 1 ∧
    l1d_triangle_loss3r abs x0 x1 x2 y0 y1 y2 = (0 + nd_volume2 abs x0 y0 x1 y1 x2 y2) / 1 ∧
    l1d_triangle_loss2 x1 x2 y1 y2 = x2 - x1 :=
  ⟨rfl, rfl, rfl, rfl⟩

/-- the same with the areas spelled out -/
theorem l1d_triangle_loss4_eq_mean_area (x0 x1 x2 x3 y0 y1 y2 y3 : α) :
    l1d_triangle_loss4 (fun x => |x|) x0 x1 x2 x3 y0 y1 y2 y3
      = (|cross2 x0 y0 x1 y1 x2 y2| / 2 + |cross2 x1 y1 x2 y2 x3 y3| / 2) / 2 := by
  rw [(l1d_triangle_loss_eq (fun x => |x|) x0 x1 x2 x3 y0 y1 y2 y3).1, nd_volume2_eq_cross2, nd_volume2_eq_cross2, zero_add]

/-- `triangle_loss` with one-component vector values goes through Heron's formula and gives the same number -/
theorem l1d_triangle_loss4_vec1_eq (sqrt : α → α) (hs : SqrtLaw sqrt) (x0 x1 x2 x3 y0 y1 y2 y3 : α) :
    l1d_triangle_loss4_vec1 sqrt x0 x1 x2 x3 y0 y1 y2 y3
      = l1d_triangle_loss4 (fun x => |x|) x0 x1 x2 x3 y0 y1 y2 y3 := by
  have e : l1d_triangle_loss4_vec1 sqrt x0 x1 x2 x3 y0 y1 y2 y3
      = (0 + simplex_volume_heron sqrt x0 y0 x1 y1 x2 y2 + simplex_volume_heron sqrt x1 y1 x2 y2 x3 y3) / 2 := rfl
  rw [e, heron_eq_volume sqrt hs, heron_eq_volume sqrt hs, (l1d_triangle_loss_eq (fun x => |x|) x0 x1 x2 x3 y0 y1 y2 y3).1]

/-- C20.l1d.c  `linspace(l, r, n)` is the list of the `n − 1` interior points `l + (r − l)/n · i`, `i = 1 … n−1` -/
theorem l1d_linspace_eq (l r : α) (n : Nat) :
    l1d_linspace l r n = (List.range (n - 1)).map (fun i : Nat => l + (r - l) / (n : α) * ((i + 1 : Nat) : α)) := by
  rw [linspace_closed]
  split
  · rename_i h; subst h; rfl
  · rw [List.range'_eq_map_range, List.map_map]
    apply List.map_congr_left
    intro i _
    simp only [Function.comp, Nat.add_comm]

theorem l1d_linspace_length (l r : α) (n : Nat) : (l1d_linspace l r n).length = n - 1 := by
  rw [l1d_linspace_eq]; simp

theorem l1d_linspace_get (l r : α) (n i : Nat) (h : i + 1 < n) :
    (l1d_linspace l r n)[i]? = some (l + (r - l) / (n : α) * ((i + 1 : Nat) : α)) := by
  rw [l1d_linspace_eq, List.getElem?_map, List.getElem?_range (by omega)]; rfl

/-! ## constants the primitives and learners use (read from the live modules) -/
open Gen.Constants in
/-- C20.const  tolerances are small and positive, the two in-simplex defaults agree, the cut-offs are negative,
the loss-recomputation factors are at least one -/
theorem constants_sane :
    0 < fast_2d_point_in_simplex_eps.val ∧ fast_2d_point_in_simplex_eps.val < 1 / 1000000 ∧
    point_in_simplex_eps = fast_2d_point_in_simplex_eps ∧ tri_point_in_simplex_eps = point_in_simplex_eps ∧
    0 < point_in_circumcircle_eps.val ∧ point_in_circumcircle_eps.val < 1 / 1000000 ∧
    orientation_logdet_cut.val < 0 ∧
    volume_embedding_neg_tol.val < 0 ∧ -(1 / 1000000000000 : ℚ) < volume_embedding_neg_tol.val ∧
    1 ≤ l1d_recompute_losses_factor.val ∧ 1 ≤ lnd_recompute_losses_factor.val ∧
    0 < l1d_round_fac.val ∧ 0 < l1d_dx_eps_unit_bounds.val := by
  refine ⟨?_, ?_, ?_, ?_, ?_, ?_, ?_, ?_, ?_, ?_, ?_, ?_, ?_⟩ <;>
    first
    | rfl
    | (simp only [Dbl.val, fast_2d_point_in_simplex_eps, point_in_circumcircle_eps, orientation_logdet_cut,
        volume_embedding_neg_tol, l1d_recompute_losses_factor, lnd_recompute_losses_factor, l1d_round_fac,
        l1d_dx_eps_unit_bounds]; norm_num)

/-- `Real.sqrt` satisfies the law assumed of `sqrt` (the theorems above are not vacuous) -/
theorem real_sqrt_law : SqrtLaw Real.sqrt :=
  fun x hx => ⟨Real.sqrt_nonneg x, Real.mul_self_sqrt hx⟩

/-! ## non-vacuity: the hypotheses are satisfiable and the generated definitions compute (at ℚ) -/
example : cross2 (0 : ℚ) 0 1 0 0 1 ≠ 0 := by norm_num [cross2]
example : cross3 (0 : ℚ) 0 0 1 0 0 0 1 0 0 0 1 ≠ 0 := by norm_num [cross3]
example : Orth3 (0 : ℚ) (-1) 0 1 0 0 0 0 1 := by norm_num [Orth3]
example : (3 / 5 : ℚ) * (3 / 5) + (4 / 5) * (4 / 5) = 1 ∧ (-4 / 5 : ℚ) * (-4 / 5) + (3 / 5) * (3 / 5) = 1 ∧
    (3 / 5 : ℚ) * (-4 / 5) + (4 / 5) * (3 / 5) = 0 := by norm_num
example : fast_det3 (1 : ℚ) 2 3 4 5 6 7 8 10 = -3 := by norm_num [fast_det3]
example : (fast_2d_circumcircle id (0 : ℚ) 0 1 0 0 1).1 = (1 / 2, 1 / 2) := by norm_num [fast_2d_circumcircle]
example : (fast_3d_circumcircle id (0 : ℚ) 0 0 1 0 0 0 1 0 0 0 1).1 = (1 / 2, 1 / 2, 1 / 2) := by
  norm_num [fast_3d_circumcircle]
example : fast_2d_point_in_simplex (1 / 4 : ℚ) (1 / 4) 0 0 1 0 0 1 0 = true := by
  rw [point_in_simplex2_iff_eps]; norm_num [bary1, bary2, cross2]
example : fast_2d_point_in_simplex (1 : ℚ) 1 0 0 1 0 0 1 0 = false := by
  rw [Bool.eq_false_iff, Ne, point_in_simplex2_iff_eps]; norm_num [bary1, bary2, cross2]
example : nd_volume3 (fun x : ℚ => |x|) 0 0 0 1 0 0 0 1 0 0 0 1 = 1 / 6 := by norm_num [nd_volume3]
example : l1d_linspace (0 : ℚ) 1 4 = [1 / 4, 1 / 2, 3 / 4] := by
  rw [l1d_linspace_eq]; norm_num [List.range, List.range.loop]

end C20

/-! ## appended: where the circumcentre lies (used for `choose_point_in_simplex`, `Lemmas/Choose.lean`)

`choose_point_in_simplex` takes the centroid exactly when `point_in_simplex(circumcentre, simplex)` holds.  The
barycentric coordinates of the circumcentre are `a²(b² + c² − a²) / (16 area²)` (`a` the edge opposite the vertex), so
for tolerance `0` the test says: no angle of the triangle is obtuse. -/
namespace C20
open Gen.Prims Prims
variable {α : Type} [Field α] [LinearOrder α] [IsStrictOrderedRing α]

/-- C20.circ2.h  barycentric coordinates of the returned circumcentre (non-degenerate triangle): with
`A = |p1 p2|²`, `B = |p0 p2|²`, `C = |p0 p1|²` (squared edge lengths, each opposite the vertex of the same index) they
are `A (B + C − A)`, `B (A + C − B)`, `C (A + B − C)` over `4 cross2² = 16 area²` -/
theorem circ2_bary (sqrt : α → α) (x0 y0 x1 y1 x2 y2 : α) (h : cross2 x0 y0 x1 y1 x2 y2 ≠ 0) :
    bary0 (fast_2d_circumcircle sqrt x0 y0 x1 y1 x2 y2).1.1 (fast_2d_circumcircle sqrt x0 y0 x1 y1 x2 y2).1.2 x0 y0 x1 y1 x2 y2
      = dsq2 x1 y1 x2 y2 * (dsq2 x0 y0 x2 y2 + dsq2 x0 y0 x1 y1 - dsq2 x1 y1 x2 y2)
          / (4 * (cross2 x0 y0 x1 y1 x2 y2 * cross2 x0 y0 x1 y1 x2 y2)) ∧
    bary1 (fast_2d_circumcircle sqrt x0 y0 x1 y1 x2 y2).1.1 (fast_2d_circumcircle sqrt x0 y0 x1 y1 x2 y2).1.2 x0 y0 x1 y1 x2 y2
      = dsq2 x0 y0 x2 y2 * (dsq2 x1 y1 x2 y2 + dsq2 x0 y0 x1 y1 - dsq2 x0 y0 x2 y2)
          / (4 * (cross2 x0 y0 x1 y1 x2 y2 * cross2 x0 y0 x1 y1 x2 y2)) ∧
    bary2 (fast_2d_circumcircle sqrt x0 y0 x1 y1 x2 y2).1.1 (fast_2d_circumcircle sqrt x0 y0 x1 y1 x2 y2).1.2 x0 y0 x1 y1 x2 y2
      = dsq2 x0 y0 x1 y1 * (dsq2 x1 y1 x2 y2 + dsq2 x0 y0 x2 y2 - dsq2 x0 y0 x1 y1)
          / (4 * (cross2 x0 y0 x1 y1 x2 y2 * cross2 x0 y0 x1 y1 x2 y2)) := by
  have h2 : (2 : α) * cross2 x0 y0 x1 y1 x2 y2 ≠ 0 := mul_ne_zero two_ne_zero h
  obtain ⟨u, v, e, hu, hv⟩ := circ2_rel sqrt x0 y0 x1 y1 x2 y2 h2
  rw [e]
  simp only [bary0, bary1, bary2]
  have h4 : (4 : α) * (cross2 x0 y0 x1 y1 x2 y2 * cross2 x0 y0 x1 y1 x2 y2) ≠ 0 :=
    mul_ne_zero (by norm_num) (mul_ne_zero h h)
  refine ⟨?_, ?_, ?_⟩ <;> rw [div_eq_div_iff h h4]
  · simp only [dsq2, cross2, c2dx, c2dy] at hu hv ⊢
    linear_combination (2 * (y1 - y2) * ((x1 - x0) * (y2 - y0) - (x2 - x0) * (y1 - y0))) * hu
      + (2 * (x2 - x1) * ((x1 - x0) * (y2 - y0) - (x2 - x0) * (y1 - y0))) * hv
  · simp only [dsq2, cross2, c2dx, c2dy] at hu hv ⊢
    linear_combination (2 * (y2 - y0) * ((x1 - x0) * (y2 - y0) - (x2 - x0) * (y1 - y0))) * hu
      - (2 * (x2 - x0) * ((x1 - x0) * (y2 - y0) - (x2 - x0) * (y1 - y0))) * hv
  · simp only [dsq2, cross2, c2dx, c2dy] at hu hv ⊢
    linear_combination (-2 * (y1 - y0) * ((x1 - x0) * (y2 - y0) - (x2 - x0) * (y1 - y0))) * hu
      + (2 * (x1 - x0) * ((x1 - x0) * (y2 - y0) - (x2 - x0) * (y1 - y0))) * hv

/-- a non-degenerate triangle has no two coinciding vertices -/
theorem dsq2_pos_of_cross2 (x0 y0 x1 y1 x2 y2 : α) (h : cross2 x0 y0 x1 y1 x2 y2 ≠ 0) :
    0 < dsq2 x1 y1 x2 y2 ∧ 0 < dsq2 x0 y0 x2 y2 ∧ 0 < dsq2 x0 y0 x1 y1 := by
  have key : ∀ a b c d : α, dsq2 a b c d = 0 → a = c ∧ b = d := by
    intro a b c d e
    simp only [dsq2] at e
    have h1 : (a - c) * (a - c) = 0 := by nlinarith [mul_self_nonneg (a - c), mul_self_nonneg (b - d)]
    have h2 : (b - d) * (b - d) = 0 := by nlinarith [mul_self_nonneg (a - c), mul_self_nonneg (b - d)]
    exact ⟨sub_eq_zero.1 (mul_self_eq_zero.1 h1), sub_eq_zero.1 (mul_self_eq_zero.1 h2)⟩
  refine ⟨?_, ?_, ?_⟩ <;> refine lt_of_le_of_ne (dsq2_nonneg _ _ _ _) (fun e => h ?_)
  · obtain ⟨rfl, rfl⟩ := key _ _ _ _ e.symm; simp only [cross2]; ring
  · obtain ⟨rfl, rfl⟩ := key _ _ _ _ e.symm; simp only [cross2]; ring
  · obtain ⟨rfl, rfl⟩ := key _ _ _ _ e.symm; simp only [cross2]; ring

/-- C20.circ2.i  `point_in_simplex(circumcentre, triangle)` with tolerance `0`, non-degenerate triangle: true exactly
when NO ANGLE IS OBTUSE — each squared edge length is at most the sum of the other two (right angles included: the
circumcentre of a right triangle is the midpoint of the hypotenuse, on the boundary) -/
theorem circ2_inside_iff_not_obtuse (sqrt : α → α) (x0 y0 x1 y1 x2 y2 : α) (h : cross2 x0 y0 x1 y1 x2 y2 ≠ 0) :
    fast_2d_point_in_simplex (fast_2d_circumcircle sqrt x0 y0 x1 y1 x2 y2).1.1 (fast_2d_circumcircle sqrt x0 y0 x1 y1 x2 y2).1.2
        x0 y0 x1 y1 x2 y2 0 = true ↔
      dsq2 x1 y1 x2 y2 ≤ dsq2 x0 y0 x2 y2 + dsq2 x0 y0 x1 y1 ∧
      dsq2 x0 y0 x2 y2 ≤ dsq2 x1 y1 x2 y2 + dsq2 x0 y0 x1 y1 ∧
      dsq2 x0 y0 x1 y1 ≤ dsq2 x1 y1 x2 y2 + dsq2 x0 y0 x2 y2 := by
  obtain ⟨pA, pB, pC⟩ := dsq2_pos_of_cross2 x0 y0 x1 y1 x2 y2 h
  obtain ⟨b0, b1, b2⟩ := circ2_bary sqrt x0 y0 x1 y1 x2 y2 h
  have hs := bary_sum (fast_2d_circumcircle sqrt x0 y0 x1 y1 x2 y2).1.1 (fast_2d_circumcircle sqrt x0 y0 x1 y1 x2 y2).1.2
    x0 y0 x1 y1 x2 y2 h
  have h4 : (0 : α) < 4 * (cross2 x0 y0 x1 y1 x2 y2 * cross2 x0 y0 x1 y1 x2 y2) :=
    mul_pos (by norm_num) (mul_self_pos.2 h)
  have dn : ∀ a : α, 0 ≤ a / (4 * (cross2 x0 y0 x1 y1 x2 y2 * cross2 x0 y0 x1 y1 x2 y2)) ↔ 0 ≤ a :=
    fun a => by rw [le_div_iff₀ h4, zero_mul]
  have k0 := dn (dsq2 x1 y1 x2 y2 * (dsq2 x0 y0 x2 y2 + dsq2 x0 y0 x1 y1 - dsq2 x1 y1 x2 y2))
  have k1 := dn (dsq2 x0 y0 x2 y2 * (dsq2 x1 y1 x2 y2 + dsq2 x0 y0 x1 y1 - dsq2 x0 y0 x2 y2))
  have k2 := dn (dsq2 x0 y0 x1 y1 * (dsq2 x1 y1 x2 y2 + dsq2 x0 y0 x2 y2 - dsq2 x0 y0 x1 y1))
  rw [← b0, mul_nonneg_iff_of_pos_left pA, sub_nonneg] at k0
  rw [← b1, mul_nonneg_iff_of_pos_left pB, sub_nonneg] at k1
  rw [← b2, mul_nonneg_iff_of_pos_left pC, sub_nonneg] at k2
  rw [point_in_simplex2_iff_bary _ _ _ _ _ _ _ _ h, ← k0, ← k1, ← k2]
  constructor
  · rintro ⟨⟨a, _⟩, ⟨b, _⟩, c, _⟩; exact ⟨a, b, c⟩
  · rintro ⟨a, b, c⟩; exact ⟨⟨a, by linarith⟩, ⟨b, by linarith⟩, c, by linarith⟩

/-- C20.circ2.j  … and with a tolerance `eps`: each barycentric coordinate of the circumcentre (`circ2_bary`) may be
as small as `-eps`, i.e. `A (B + C − A) ≥ −eps · 16 area²` for each vertex (a SLIGHTLY obtuse triangle still passes),
and the coordinate of `p1` must not exceed `1 + eps` -/
theorem circ2_inside_iff_eps (sqrt : α → α) (x0 y0 x1 y1 x2 y2 eps : α) (h : cross2 x0 y0 x1 y1 x2 y2 ≠ 0) :
    fast_2d_point_in_simplex (fast_2d_circumcircle sqrt x0 y0 x1 y1 x2 y2).1.1 (fast_2d_circumcircle sqrt x0 y0 x1 y1 x2 y2).1.2
        x0 y0 x1 y1 x2 y2 eps = true ↔
      -eps * (4 * (cross2 x0 y0 x1 y1 x2 y2 * cross2 x0 y0 x1 y1 x2 y2))
        ≤ dsq2 x1 y1 x2 y2 * (dsq2 x0 y0 x2 y2 + dsq2 x0 y0 x1 y1 - dsq2 x1 y1 x2 y2) ∧
      -eps * (4 * (cross2 x0 y0 x1 y1 x2 y2 * cross2 x0 y0 x1 y1 x2 y2))
        ≤ dsq2 x0 y0 x2 y2 * (dsq2 x1 y1 x2 y2 + dsq2 x0 y0 x1 y1 - dsq2 x0 y0 x2 y2) ∧
      -eps * (4 * (cross2 x0 y0 x1 y1 x2 y2 * cross2 x0 y0 x1 y1 x2 y2))
        ≤ dsq2 x0 y0 x1 y1 * (dsq2 x1 y1 x2 y2 + dsq2 x0 y0 x2 y2 - dsq2 x0 y0 x1 y1) ∧
      dsq2 x0 y0 x2 y2 * (dsq2 x1 y1 x2 y2 + dsq2 x0 y0 x1 y1 - dsq2 x0 y0 x2 y2)
        ≤ (1 + eps) * (4 * (cross2 x0 y0 x1 y1 x2 y2 * cross2 x0 y0 x1 y1 x2 y2)) := by
  obtain ⟨b0, b1, b2⟩ := circ2_bary sqrt x0 y0 x1 y1 x2 y2 h
  have hs := bary_sum (fast_2d_circumcircle sqrt x0 y0 x1 y1 x2 y2).1.1 (fast_2d_circumcircle sqrt x0 y0 x1 y1 x2 y2).1.2
    x0 y0 x1 y1 x2 y2 h
  have h4 : (0 : α) < 4 * (cross2 x0 y0 x1 y1 x2 y2 * cross2 x0 y0 x1 y1 x2 y2) :=
    mul_pos (by norm_num) (mul_self_pos.2 h)
  rw [point_in_simplex2_iff_eps, ← le_div_iff₀ h4, ← le_div_iff₀ h4, ← le_div_iff₀ h4, ← div_le_iff₀ h4,
    ← b0, ← b1, ← b2]
  constructor
  · rintro ⟨⟨a, b⟩, c, d⟩; exact ⟨by linarith, a, c, b⟩
  · rintro ⟨a, b, c, d⟩; exact ⟨⟨b, d⟩, c, by linarith⟩

end C20
