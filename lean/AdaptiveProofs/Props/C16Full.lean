import AdaptiveProofs.Props.C16
import AdaptiveProofs.Lemmas.Avg1DFullInv
import Mathlib.Algebra.Order.Field.Rat

/-!
# C16 (extension) — the complete AverageLearner1D

Theorems about `AdaptiveModel/Avg1DFull.lean` (the AverageLearner1D of /repo with the inherited
Learner1D loss machinery, `_distances`, `rescaled_error` and all three branches of `ask`), over any
linearly ordered field `α`, EVERY loss function `lossFn`, rounding `r12`, `sqrt`, Student-t
quantile `tq` and `hypot`, every finite operation list.  IEEE rounding is outside (DESIGN.md 2.2).
-/
set_option linter.unusedVariables false
set_option linter.unusedSectionVars false

namespace Avg1DFull
open L1D (Loss)
variable {α : Type} [Field α] [LinearOrder α] [IsStrictOrderedRing α]
variable (lossFn : List (Option α) → List (Option (List α)) → Loss α) (r12 : α → α)
variable (sqrt : α → α) (tq : Nat → α) (hypot : α → α → α)

/-! ## (a) where a request goes -/

/-- C16F.a1  `ask` in EVERY state: while some abscissa is under-sampled the request re-samples the
member of the under-sampled set the code's set iteration yields (any member is possible, a
non-member is not); otherwise, with at least two evaluated abscissae and the first entry of
`rescaled_error` above `delta`, it re-samples that abscissa; otherwise it is the request for a new
abscissa of the inherited Learner1D rule. -/
theorem ask_rule (s : State α) (n : Nat) (c : α) :
    (s.samp.under ≠ [] → c ∈ s.samp.under → askPts r12 sqrt s n c = some (askMore sqrt s c n)) ∧
    (s.samp.under ≠ [] → c ∉ s.samp.under → askPts r12 sqrt s n c = none) ∧
    (s.samp.under = [] → ∀ x re rest, 2 ≤ s.base.data.length → s.resc = (x, re) :: rest →
        lossLt (.fin s.delta) re = true → askPts r12 sqrt s n c = some (askMore sqrt s x n)) ∧
    (s.samp.under = [] →
        (s.base.data.length ≤ 1 ∨ s.resc = [] ∨
          ∃ x re rest, s.resc = (x, re) :: rest ∧ lossLt (.fin s.delta) re = false) →
        askPts r12 sqrt s n c = some (askNew r12 s n)) := by
  refine ⟨?_, ?_, ?_, ?_⟩
  · intro hne hc
    have he : s.samp.under.isEmpty = false := by
      cases hu : s.samp.under with
      | nil => exact absurd hu hne
      | cons a r => rfl
    simp [askPts, askBranch, he, hc]
  · intro hne hc
    have he : s.samp.under.isEmpty = false := by
      cases hu : s.samp.under with
      | nil => exact absurd hu hne
      | cons a r => rfl
    simp [askPts, askBranch, he, hc]
  · intro hu x re rest h2 hr hlt
    have hnle : ¬ s.base.data.length ≤ 1 := by omega
    simp [askPts, askBranch, hu, hnle, hr, hlt]
  · intro hu h
    rcases h with h | h | ⟨x, re, rest, hr, hlt⟩
    · simp [askPts, askBranch, hu, h]
    · by_cases h1 : s.base.data.length ≤ 1
      · simp [askPts, askBranch, hu, h1]
      · simp [askPts, askBranch, hu, h1, h]
    · by_cases h1 : s.base.data.length ≤ 1
      · simp [askPts, askBranch, hu, h1]
      · simp [askPts, askBranch, hu, h1, hr, hlt]

/-- C16F.a2  a re-sampling request for `x` consists of `n` samples of `x` with the seeds
`n_x, n_x + 1, …` (`n_x` = samples held at `x`) -/
theorem askMore_requests (s : State α) (x : α) (n : Nat) :
    (askMore sqrt s x n).1 = (List.range n).map (fun i => (i + nOf s x, x)) ∧
    (askMore sqrt s x n).2.length = n := by
  exact ⟨rfl, List.length_replicate⟩

/-- C16F.a3  a request for a new abscissa is the single point `Learner1D._ask_points_without_adding(1)`
proposes on the inherited state, handed out `n` times with the seeds `0 … n-1`, each carrying
an `n`-th of its loss improvement -/
theorem askNew_requests (s : State α) (n : Nat) (p : α) (imp : Loss α)
    (h : L1D.askPoints r12 s.base 1 = ([p], [imp])) :
    askNew r12 s n = ((List.range n).map (fun i => (i, p)), List.replicate n (L1D.Loss.divNat imp n)) := by
  unfold askNew
  rw [h]

/-- C16F.a4  after every history `rescaled_error` is in descending order, so its first entry —
the one `ask` compares with `delta` — carries the LARGEST rescaled error, and every abscissa
occurs at most once -/
theorem resc_head_largest (lo hi factor dxEps : α) (nn : Nat) (delta minError : α) (minS maxS : Nat)
    (ns : α) (ops : List (Op α)) :
    let s := run lossFn r12 sqrt tq hypot (init lo hi factor dxEps nn delta minError minS maxS ns) ops
    Desc s.resc ∧ (rkeys s.resc).Nodup ∧
      ∀ e rest, s.resc = e :: rest → ∀ f ∈ s.resc, lossLt e.2 f.2 = false := by
  intro s
  have hd : Desc s.resc := desc_run lossFn r12 sqrt tq hypot ops _ List.Pairwise.nil
  refine ⟨hd, nodup_rkeys_run lossFn r12 sqrt tq hypot ops _ List.nodup_nil, ?_⟩
  intro e rest he f hf
  rw [he] at hd hf
  exact desc_head_largest hd f hf

/-- C16F.a5  `ask(n, tell_pending=False)` returns the requests of C16F.a1 and leaves the state
untouched; `ask(n)` returns the same requests and marks exactly them pending
(`tell_pending` of each, in order) -/
theorem ask_commit (s : State α) (n : Nat) (c : α) :
    ask lossFn r12 sqrt s n c false = (askPts r12 sqrt s n c).map (fun r => (r, s)) ∧
    ask lossFn r12 sqrt s n c true = (askPts r12 sqrt s n c).map
      (fun r => (r, r.1.foldl (fun s p => tellPending lossFn r12 s p.1 p.2) s)) := by
  constructor <;> (unfold ask; cases askPts r12 sqrt s n c <;> rfl)

/-! ## (b) the per-abscissa statistics of `Props/C16.lean` carry over -/

/-- C16F.b1  `tell_many` is the sequence of single tells and per-abscissa batches of its mapping -/
theorem tellMany_is_run (s : State α) (pts : List ((Nat × α) × α)) :
    step lossFn r12 sqrt tq hypot s (.tellMany pts) = run lossFn r12 sqrt tq hypot s (groupOps pts) ∧
    NoTellMany (groupOps pts) :=
  ⟨tellMany_eq_run lossFn r12 sqrt tq hypot s pts, noTellMany_groupOps pts⟩

/-- C16F.b2  the sampling part (`_data_samples`, running means, `_number_samples`, `error`,
`_undersampled_points`) of the full model after ANY history is the state of the sampling model
`Avg1D.lean` after the same tells: the inherited loss machinery, distances, rescaled errors,
pending marks, discards and asks never touch it.  Hence C16.g – C16.k apply verbatim. -/
theorem samp_is_avg1d_run (s : State α) (ops : List (Op α)) :
    (run lossFn r12 sqrt tq hypot s ops).samp = (expandOps ops).foldl (sampStep sqrt tq) s.samp := by
  rw [run_expandOps]
  exact run_samp lossFn r12 sqrt tq hypot s _ (noTellMany_expandOps ops)

/-- C16F.b3  after every history whose batches carry distinct seeds not yet held at their abscissa
(`ValidFrom`, the hypothesis of C16.j): at every abscissa the count is the number of samples, each
seed occurs once, the value is the mean of the samples, and every abscissa with fewer than
`min_samples` samples is in the under-sampled set (`Avg1D.Inv` of `Props/C16.lean`). -/
theorem samp_inv (lo hi factor dxEps : α) (nn : Nat) (delta minError : α) (minS maxS : Nat) (ns : α)
    (ops : List (Op α))
    (hv : ValidFrom sqrt tq (init lo hi factor dxEps nn delta minError minS maxS ns).samp (expandOps ops)) :
    Avg1D.Inv (run lossFn r12 sqrt tq hypot (init lo hi factor dxEps nn delta minError minS maxS ns) ops).samp := by
  rw [samp_is_avg1d_run]
  refine stGood_foldl_sampStep sqrt tq _ _ ?_ hv
  exact ⟨List.nodup_nil, fun p hp => (by cases hp), fun p hp => (by cases hp)⟩

/-- C16F.b4  the error the full model stores by a re-sampling `tell` is the Student-t half-width of
the samples then held (C16.h through the projection) -/
theorem tell_error_formula (s : State α) (h : Avg1D.Inv s.samp) (seed : Nat) (x y : α) (p : Avg1D.Pt α)
    (hp : Avg1D.find? s.samp x = some p) (hseed : seed ∉ p.samples.map Prod.fst) :
    ∃ q, Avg1D.find? (tell lossFn r12 sqrt tq hypot s seed x y).samp x = some q ∧ q.n = p.n + 1 ∧
      q.samples = p.samples ++ [(seed, y)] ∧
      q.err = some (tq (q.n - 1) * sqrt ((((q.samples.map Prod.snd).map
        (fun v => (v - q.mean) * (v - q.mean))).sum / ((q.n - 1 : Nat) : α)) / (q.n : α))) := by
  rw [tell_samp]
  exact Avg1D.avg1d_error_formula sqrt tq s.samp h seed x y p hp hseed

/-! ## (c) what `rescaled_error` holds -/

/-- C16F.c1  after EVERY history (no hypothesis on the operations): each entry `(x, v)` of
`rescaled_error` belongs to an evaluated abscissa `x` and
`v = error[x] / min( hypot(x - l, data[x] - data[l]), hypot(r - x, data[r] - data[x]) )`
for the neighbouring evaluated abscissae `l < x < r` (the one distance if `x` has one neighbour),
`v = inf` while `error[x]` is infinite (a single sample) or `x` is the only abscissa
(`rescIdeal`; `data` = the running means, `hypot` = `math.hypot`). -/
theorem rescaled_error_spec (lo hi factor dxEps : α) (nn : Nat) (delta minError : α) (minS maxS : Nat)
    (ns : α) (ops : List (Op α)) :
    let s := run lossFn r12 sqrt tq hypot (init lo hi factor dxEps nn delta minError minS maxS ns) ops
    ∀ e ∈ s.resc, e.1 ∈ s.base.xs ∧ e.2 = rescIdeal hypot s e.1 := by
  intro s e he
  have h : FInv hypot s :=
    finv_run lossFn r12 sqrt tq hypot (finv_init hypot lo hi factor dxEps nn delta minError minS maxS ns) ops
  exact ⟨h.resc_mem e he, (h.resc_ok e he).trans (rescSpec_eq_ideal hypot h (h.resc_mem e he))⟩

/-- C16F.c2  after every history the evaluated abscissae are strictly sorted and are exactly the
abscissae holding samples, `data[x]` is the running mean kept by the sampling part (the mean of
the samples by C16F.b3), and `_distances[a]` is the distance between the means at `a` and at its
right neighbour for every pair of neighbouring abscissae -/
theorem data_and_distances_spec (lo hi factor dxEps : α) (nn : Nat) (delta minError : α) (minS maxS : Nat)
    (ns : α) (ops : List (Op α)) :
    let s := run lossFn r12 sqrt tq hypot (init lo hi factor dxEps nn delta minError minS maxS ns) ops
    s.base.xs.Pairwise (· < ·) ∧
    (∀ x, x ∈ s.base.xs ↔ (Avg1D.find? s.samp x).isSome = true) ∧
    (∀ x, L1D.dataGet s.base.data x = (Avg1D.find? s.samp x).map (fun p => [p.mean])) ∧
    (∀ a b, (a, b) ∈ L1D.pairs s.base.xs →
      dget a s.dist = some (hypot (b - a) (yOf s b - yOf s a))) := by
  intro s
  have h : FInv hypot s :=
    finv_run lossFn r12 sqrt tq hypot (finv_init hypot lo hi factor dxEps nn delta minError minS maxS ns) ops
  exact ⟨h.xs_sorted, h.xs_mem, h.data_sync, h.dist_ok⟩

/-- C16F.c3  after every history an abscissa listed in `rescaled_error` (the only ones `ask` can
choose for re-sampling once nothing is under-sampled) has fewer than `max_samples` samples — or
exactly its first one -/
theorem rescaled_error_below_max_samples (lo hi factor dxEps : α) (nn : Nat) (delta minError : α)
    (minS maxS : Nat) (ns : α) (ops : List (Op α)) :
    let s := run lossFn r12 sqrt tq hypot (init lo hi factor dxEps nn delta minError minS maxS ns) ops
    ∀ e ∈ s.resc, nOf s e.1 < s.samp.maxSamples ∨ nOf s e.1 = 1 := by
  intro s
  exact (finv_run lossFn r12 sqrt tq hypot
    (finv_init hypot lo hi factor dxEps nn delta minError minS maxS ns) ops).resc_cnt

end Avg1DFull

/-! Non-vacuity: a concrete history over ℚ (`lossFn := 1`, `r12 := id`, `sqrt := id`, `tq := 1`,
`hypot a b := a² + b²`) reaches each branch of `ask`; the states are reachable, so every theorem
above applies to them. -/
section Avg1DFullExamples
open Avg1DFull

private def exLoss : List (Option ℚ) → List (Option (List ℚ)) → L1D.Loss ℚ := fun _ _ => .fin 1
private def exHyp : ℚ → ℚ → ℚ := fun a b => a * a + b * b
private def exInit (delta : ℚ) : State ℚ := init 0 1 2 0 0 delta 0 1 5 (1 / 2)
private def exRun (delta : ℚ) (ops : List (Op ℚ)) : State ℚ :=
  run exLoss id id (fun _ => 1) exHyp (exInit delta) ops

set_option quotPrecheck false in
local notation "exOps" =>
  ([Op.tell 0 0 1, Op.tell 1 0 3, Op.tellPending 7 (1 / 2), Op.tellMany [((0, 1), 2), ((1, 1), 4)],
    Op.removeUnfinished] : List (Op ℚ))

/-- after the first sample `x = 0` is under-sampled: the request goes there, with seed 1 -/
example : askBranch (exRun (1 / 5) [.tell 0 0 1]) 0 = some (.under, 0) ∧
    (askMore id (exRun (1 / 5) [.tell 0 0 1]) 0 2).1 = [(1, 0), (2, 0)] ∧
    askBranch (exRun (1 / 5) [.tell 0 0 1]) 1 = none := by decide +kernel

/-- two abscissae with two samples each: `rescaled_error = {0: 1/2, 1: 1/2}` (error 1, distance
`(1-0)² + (3-2)² = 2`), in insertion order for equal values; above `delta = 1/5`: re-sample `x = 0`
(one `example` per fact: the kernel evaluates the whole history for each) -/
example : (exRun (1 / 5) exOps).resc = [(0, L1D.Loss.fin (1 / 2)), (1, L1D.Loss.fin (1 / 2))] := by
  decide +kernel
example : (exRun (1 / 5) exOps).samp.under = [] := by decide +kernel
example : askBranch (exRun (1 / 5) exOps) 0 = some (.resample, 0) := by decide +kernel
example : (askMore id (exRun (1 / 5) exOps) 0 2).1 = [(2, 0), (3, 0)] := by decide +kernel

/-- the same history with `delta = 1`: nothing exceeds it, the request is Learner1D's new point
(the midpoint of the only interval), seeds `0, 1` -/
example : askBranch (exRun 1 exOps) 0 = some (.newPoint, 0) := by decide +kernel
example : (askNew id (exRun 1 exOps) 2).1 = [(0, 1 / 2), (1, 1 / 2)] := by decide +kernel

/-- the batch of the example is valid in the sense of C16F.b3 -/
example : ValidFrom id (fun _ => 1) (exInit (1 / 5)).samp (expandOps exOps) := by
  simp [expandOps, groupOps, groupPts, groupOp, ValidFrom, ValidOp, Avg1D.dictUpdate]
  intro p hp
  have hnone : Avg1D.find? (sampStep id (fun _ => (1 : ℚ)) (sampStep id (fun _ => 1)
      (sampStep id (fun _ => 1) (exInit 5⁻¹).samp (Op.tell 0 0 1)) (Op.tell 1 0 3)) (Op.tellPending 7 2⁻¹)) 1 =
      none := by decide +kernel
  rw [hnone] at hp
  cases hp

end Avg1DFullExamples
