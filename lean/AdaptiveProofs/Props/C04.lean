import AdaptiveProofs.Lemmas.LNDAsk
import AdaptiveProofs.Lemmas.LNDPop
import AdaptiveProofs.Lemmas.LNDExample
import AdaptiveProofs.Lemmas.LNDVerts
import AdaptiveProofs.Lemmas.LNDSubSound
import AdaptiveProofs.Lemmas.LNDSubVerts
import AdaptiveProofs.Lemmas.LNDDead
import AdaptiveProofs.Lemmas.LNDFresh
import AdaptiveProofs.Lemmas.Choose
import AdaptiveProofs.Lemmas.ChooseGeom2

/-!
# C04 — LearnerND: one loss per simplex of the data, and ask refines the worst simplex

Property theorems only (helper lemmas: `Lemmas/LND*.lean`).  The model is `AdaptiveModel/LND.lean`: the
bookkeeping of `LearnerND` (`data`, `pending_points`, `_losses`, `_subtriangulations`, `_pending_to_simplex`,
`_simplex_queue` with lazy deletion, the output-range state, the bootstrap phase, the roll-back of a
non-committing `ask`) over an ABSTRACT triangulation.  Everything geometric or numeric is an oracle, a field of
`Env`: the triangulation's answers, sub-triangulation updates, the loss function, volumes, the chosen point,
`inside_bounds`, the random bootstrap points, `round(loss, 8)`.  Every theorem holds for EVERY `Env`
(whatever the numerics answer) and every finite list of operations; where a clause needs the geometry to be
truthful, that is an explicit hypothesis on `Env`:

* `ReportExact env` — `tri.add_point` reports `(deleted, added)` exactly (C03 `tri_report_exact`);
* `TriGeom env` — `ReportExact`, vertex indices of simplices in range, every added simplex contains the new vertex;
* `SubGeom env` — one inclusion of the exact report for sub-triangulations, the first point put into a simplex'
  sub-triangulation replaces its only simplex, simplices have `dim+1` vertices;
* `SubIdxGeom env` — local vertex indices of sub-simplices in range, reported-added sub-simplices are present;
* `InDomain env ops` — told points lie inside the domain (the property's quantifier);
* `ChooseGeom env` (completeness of the queue; replaces the former ghost flag `geomOK`) — truthfulness of the oracles
  around `choose_point_in_simplex`: the chosen point lies in the domain; `point_in_simplex` accepts it for the simplex
  it was chosen in, and — chosen in a simplex of a sub-triangulation — for the simplex owning the sub-triangulation
  (= the first `dim+1` vertices of the sub-triangulation, `lnd_subtri_vertices`); inserting it into the
  sub-triangulation removes the sub-simplex it was chosen in; `tri.simplices` has no duplicates.  From these (and
  `AskNew`, next item) `lnd_chosen_subdivided` PROVES what the ghost recorded (every (sub)simplex `_ask_best_point`
  chose for subdivision is no longer a live queue key afterwards), and `lnd_ghost_true` that the ghost flag of the
  model — still computed and reported by the correspondence run — is `true` in every reachable state; conversely
  `lnd_queue_complete_of_ghost` needs nothing but a `true` ghost flag in the state at hand;
* `AskNew env ops` (completeness of the queue; NEW with the repair `fix: LearnerND.tell_pending marked an already
  evaluated point as pending`) — in every state from which a committing `ask` of the history calls `_ask_best_point`,
  the point `choose_point_in_simplex` returns for the popped (sub)simplex has NO VALUE (`ChooseNewAt`, the data third
  of `ChooseFreshAt`).  Before the repair `tell_pending` of an evaluated point went on into the sub-triangulation
  (real code: `ValueError('Point already in triangulation.')`, an `.error` outcome outside every `.ok` premise); since
  the repair it is a silent no-op, so `_ask_best_point` — which has already popped the queue entry — would leave the
  (sub)simplex live WITHOUT a queue entry: `lnd_queue_complete_needs_askNew` is a kernel-checked history (truthful
  `TriGeom`/`SubGeom`/`ChooseGeom` oracles whose `choose` returns a corner) in which exactly that happens.  The
  hypothesis is true of the real code (a chosen point is interior to its simplex or the midpoint of an edge; a valid
  triangulation has no vertex there): `lnd_askNew_of_bound` reduces it to `ChooseLocal` and `DataBound` (an evaluated
  point lying in a simplex is a vertex of its sub-triangulation — the half of `PointsBound` that does not fail), and it
  is checkable on a recorded run (`askNew_of_check`);
* `ChooseFresh env n s` (freshness of `ask(n)` in state `s`) — in every state from which one of the `n` calls of
  `_ask` starts, the point `choose_point_in_simplex` returns for the popped (sub)simplex (and the random bootstrap
  point) is neither evaluated nor pending and lies in the domain.  This is a hypothesis about states, not only about
  oracles, and the real code VIOLATES it: `lnd_ask_fresh_of_bound` reduces it to local truthfulness of `choose`
  (`ChooseLocal`: the chosen point is no vertex of the (sub)triangulation it was chosen in) plus the bookkeeping fact
  `PointsBound` (every evaluated or pending point lying in a simplex is a vertex of that simplex'
  sub-triangulation), and `PointsBound` fails in the real code for pending points outside the hull of the data or
  on a hull face (known finding `C04.exception:ask:ValueError(Point already in triangulation)`: the simplex a later
  hull extension creates across that face proposes the pending point a second time) and for points told pending
  before the triangulation exists.
-/
set_option linter.unusedSectionVars false
namespace LND

section tables
variable {α : Type} [Sub α] [Mul α] [Div α] [LT α] [DecidableLT α]

/-- C04.a  `lnd_losses_keys`.  One loss per simplex: after every operation of every history the keys of
`_losses` are exactly the simplices of the triangulation (and the table is empty while there is none),
GIVEN that every triangulation update reports `(deleted, added)` exactly. -/
theorem lnd_losses_keys (env : Env α) (hR : ReportExact env) (ops : List (Op α)) {s : State α}
    (h : run env (init env) ops = .ok s) :
    (s.tri = none → s.losses = []) ∧
    (∀ vs, s.tri = some vs → ∀ x, x ∈ keys s.losses ↔ x ∈ env.triSimps vs.length) := by
  have hk := run_keys env hR ops (init_keys env) h
  constructor
  · intro ht
    cases hl : s.losses with
    | nil => rfl
    | cons e l =>
      have := (hk e.1).1 (by simp [keys, hl])
      simp [ht, simplices] at this
  · intro vs ht x
    have := hk x
    simp only [ht, simplices] at this
    exact this

/-- C04.a'  `lnd_vertices_eq_data`.  For histories whose told points lie inside the domain: once the
triangulation exists, its vertex list is the list of evaluated points (same points, same order, none twice
unless told twice — which `tell` ignores), after every operation. -/
theorem lnd_vertices_eq_data (env : Env α) (ops : List (Op α)) (hin : InDomain env ops) {s : State α}
    (h : run env (init env) ops = .ok s) : ∀ vs, s.tri = some vs → vs = s.data :=
  run_vinv env ops hin (init_vinv env) h

/-- C04.e  `lnd_bounds_first`.  While a corner of the domain is neither evaluated nor pending, `ask(n)` returns
the missing corners first, in `_bounds_points` order, each with improvement `inf` — whatever else is going on. -/
theorem lnd_bounds_first (env : Env α) (hin : ∀ p ∈ env.boundsPts, env.inside p = true)
    (hnd : env.boundsPts.Nodup) (s : State α) (n : Nat) (commit : Bool) {rs : List (Pt × α)} {s' : State α}
    (h : ask env s n commit = .ok (rs, s')) :
    ∃ rest, rs = ((missing env s).take n).map (fun p => (p, env.inf)) ++ rest := by
  unfold ask at h
  split at h
  · exact absurd h (by simp)
  · rename_i rs' s1 h1
    simp only [Except.ok.injEq, Prod.mk.injEq] at h
    rw [← h.1]
    exact askLoop_bounds_first env hin hnd n h1

/-- `ask(n)` returns exactly `n` points (and `n` improvements) whenever it returns. -/
theorem lnd_ask_count (env : Env α) (s : State α) (n : Nat) (commit : Bool) {rs : List (Pt × α)} {s' : State α}
    (h : ask env s n commit = .ok (rs, s')) : rs.length = n := by
  unfold ask at h
  split at h
  · exact absurd h (by simp)
  · rename_i rs' s1 h1
    simp only [Except.ok.injEq, Prod.mk.injEq] at h
    rw [← h.1]
    exact askLoop_length env n h1

/-- the full strength of the freshness clause of C04: the points `ask(n)` returns are distinct and none of them is
evaluated or pending.  NOT a theorem of the bookkeeping for arbitrary oracles (it needs the chosen point of a
(sub)simplex to be a new point), and not even for geometrically truthful oracles: it is proved below
(`lnd_ask_fresh`, `lnd_ask_fresh_statement_of_chooseFresh`) under the hypothesis `ChooseFresh`, which the real code
violates — a pending point that lies outside the hull of the data, on a hull face, or that was told pending before
the triangulation existed is not a vertex of the sub-triangulation of the simplices created around it later
(`PointsBound` fails), and such a simplex can propose that very point again.  On the real code the clause then fails
either silently (reproduced: `tell_pending` of the centroid of a future initial simplex, then `tell` of the corners,
then `ask(1)` returns that pending point — an `.ok` counterexample, so the statement is FALSE for the real oracles and
cannot be proved without a hypothesis like `ChooseFresh`) or by an exception — the recorded finding
`C04.exception:ask:ValueError(Point already in triangulation)` (a pending point on a hull face is proposed a second
time by the simplex a later hull extension creates across that face; the neighbour that already holds it raises); in
the model that exception is an `.error` outcome of `ask`, outside the `.ok` premise below. -/
def lnd_ask_fresh_statement (env : Env α) : Prop :=
  ∀ (ops : List (Op α)) (s s' : State α) (n : Nat) (c : Bool) (rs : List (Pt × α)),
    run env (init env) ops = .ok s → ask env s n c = .ok (rs, s') →
    (rs.map (·.1)).Nodup ∧ ∀ p ∈ rs.map (·.1), p ∉ s.data ∧ p ∉ s.pending

/-- what is proved of `lnd_ask_fresh_statement`: the prefix of corner points that `ask(n)` returns (all of the
result while at least `n` corners are missing) is distinct, not evaluated and not pending — for every state,
reachable or not, and without any hypothesis on `choose` / `randPt`.  The points chosen inside (sub)simplices and the
random bootstrap points are covered by `lnd_ask_fresh` below, under `ChooseFresh`. -/
theorem lnd_ask_fresh_partial (env : Env α) (hin : ∀ p ∈ env.boundsPts, env.inside p = true)
    (hnd : env.boundsPts.Nodup) (s : State α) (n : Nat) (commit : Bool) {rs : List (Pt × α)} {s' : State α}
    (h : ask env s n commit = .ok (rs, s')) :
    ∃ k rest, k = min n (missing env s).length ∧ (rs.map (·.1)) = (missing env s).take n ++ rest ∧
      ((missing env s).take n).Nodup ∧ ∀ p ∈ (missing env s).take n, p ∉ s.data ∧ p ∉ s.pending := by
  obtain ⟨rest, hr⟩ := lnd_bounds_first env hin hnd s n commit h
  obtain ⟨hn, hf⟩ := missing_fresh env hnd s
  refine ⟨_, rest.map (·.1), rfl, ?_, hn.sublist (List.take_sublist _ _), ?_⟩
  · rw [hr]; simp [List.map_append, List.map_map, Function.comp_def]
  · intro p hp; exact hf p (List.mem_of_mem_take hp)

/-- C04.f  `lnd_ask_fresh`.  The freshness clause, for EVERY state `s` (reachable or not): the points `ask(n)` returns
are pairwise distinct and none of them is evaluated or pending in `s`, GIVEN `ChooseFresh env n s` — in every state
from which one of the `n` calls of `_ask` starts (after the missing corners are used up), the point the oracle
`choose_point_in_simplex` returns for the (sub)simplex popped there, resp. the random bootstrap point, is neither
evaluated nor pending and lies in the domain — and that the corners lie in the domain.  Covers the corner prefix
(`lnd_ask_fresh_partial`), the bootstrap phase and the points chosen inside (sub)simplices, committing or not. -/
theorem lnd_ask_fresh (env : Env α) (hin : ∀ p ∈ env.boundsPts, env.inside p = true) (s : State α) (n : Nat)
    (commit : Bool) {rs : List (Pt × α)} {s' : State α} (h : ask env s n commit = .ok (rs, s'))
    (hF : ChooseFresh env n s) :
    (rs.map (·.1)).Nodup ∧ ∀ p ∈ rs.map (·.1), p ∉ s.data ∧ p ∉ s.pending := by
  unfold ask at h
  split at h
  · exact absurd h (by simp)
  · rename_i rs' s1 h1
    simp only [Except.ok.injEq, Prod.mk.injEq] at h
    rw [← h.1]
    exact askLoop_fresh env hin n hF h1

/-- `lnd_ask_fresh_statement` holds for every environment whose oracles satisfy `ChooseFresh` in every reachable
state (the real code's do not, see `lnd_ask_fresh_statement`). -/
theorem lnd_ask_fresh_statement_of_chooseFresh (env : Env α) (hin : ∀ p ∈ env.boundsPts, env.inside p = true)
    (hF : ∀ (ops : List (Op α)) (s : State α) (n : Nat), run env (init env) ops = .ok s → ChooseFresh env n s) :
    lnd_ask_fresh_statement env :=
  fun ops s _ n c _ hrun ha => lnd_ask_fresh env hin s n c ha (hF ops s n hrun)

/-- C04.f  `lnd_ask_fresh_of_bound`: where `ChooseFresh` comes from.  In a reachable state, `ask(n)` returns distinct
points none of which is evaluated or pending, GIVEN the truthful oracles (`TriGeom`, `SubGeom`, `ChooseGeom`), the
LOCAL freshness of `choose_point_in_simplex` (`ChooseLocal`: the chosen point is no corner of its simplex, and chosen
in a simplex of a sub-triangulation it is no vertex of that sub-triangulation — neither a corner of the owning
simplex nor a point already pending there), fresh random bootstrap points, and — in every state from which one of
the `n` calls of `_ask` starts — the bookkeeping fact `PointsBound`: every evaluated or pending point that
`point_in_simplex` accepts for a simplex is a vertex of that simplex' sub-triangulation (a corner if it has none).
`PointsBound` is NOT an invariant of the real code (hull extension across a face carrying a pending point, pending
points told before the triangulation exists): that is the recorded finding. -/
theorem lnd_ask_fresh_of_bound (env : Env α) (hT : TriGeom env) (hG : SubGeom env) (hC : ChooseGeom env)
    (hL : ChooseLocal env) (hin : ∀ p ∈ env.boundsPts, env.inside p = true) (ops : List (Op α)) {s : State α}
    (hrun : run env (init env) ops = .ok s) (n : Nat) (commit : Bool) {rs : List (Pt × α)} {s' : State α}
    (h : ask env s n commit = .ok (rs, s'))
    (hB : Along env (fun t => PointsBound env t ∧ RandFreshAt env t) n s) :
    (rs.map (·.1)).Nodup ∧ ∀ p ∈ rs.map (·.1), p ∉ s.data ∧ p ∉ s.pending :=
  lnd_ask_fresh env hin s n commit h
    (chooseFresh_of_bound env hT hG hC hL n (run_subVerts env hT ops hrun) hB)

/-- C04.c'  `lnd_subtri_vertices`.  In every reachable state every key of `_subtriangulations` is a simplex of the
triangulation, and the vertex list of its sub-triangulation is the list of the simplex' corners (in the simplex'
order) followed by the points put into it — so `sv.take (dim+1)` are the corners of the owning simplex. -/
theorem lnd_subtri_vertices (env : Env α) (hT : TriGeom env) (ops : List (Op α)) {s : State α}
    (h : run env (init env) ops = .ok s) :
    (s.tri = none → s.book.subs = []) ∧
    ∀ vs, s.tri = some vs → ∀ x sv, get? x s.book.subs = some sv →
      x ∈ env.triSimps vs.length ∧ ∃ pend, sv = ptsOf vs x ++ pend :=
  run_subVerts env hT ops h

/-- C04.c  `lnd_chosen_subdivided` — the former ghost, proved.  In a reachable state, when `_ask_best_point` returns,
the (sub)simplex it popped for subdivision is not a live queue key of the new state any more: a simplex got a
sub-triangulation, a sub-simplex disappeared from its sub-triangulation — given the truthful oracles
(`TriGeom`, `SubGeom`, `ChooseGeom`) and that the chosen point has no value (`ChooseNewAt env s`; needed since the
repair of `tell_pending`, which ignores a point that has a value). -/
theorem lnd_chosen_subdivided (env : Env α) (hT : TriGeom env) (hG : SubGeom env) (hC : ChooseGeom env)
    (ops : List (Op α)) {s : State α} (h : run env (init env) ops = .ok s) (hN : ChooseNewAt env s)
    {vs : List Pt} (ht : s.tri = some vs)
    {r : Pt × α} {s' : State α} (ha : askBest env s vs = .ok (r, s')) :
    ∀ e q, popHighest env (env.triSimps vs.length) s.book.subs s.book.queue = some (e, q) →
      s'.tri = some vs ∧ live env (env.triSimps vs.length) s'.book.subs e = false := by
  intro e q hp
  obtain ⟨e', q', s2, hp', _, h2, rfl⟩ := askBest_form env ha
  rw [hp] at hp'
  simp only [Option.some.injEq, Prod.mk.injEq] at hp'
  obtain ⟨rfl, rfl⟩ := hp'
  have hr1 := askBest_point env hp ha
  rw [hr1] at h2
  have hd := chosen_dead env hG hC ht (run_subVerts env hT ops h) hp (hN vs e q ht hp) h2
  have t2 : s2.tri = some vs := by
    obtain ⟨_, _, _, _, _, f⟩ := tellPending_frame env _ _ h2
    rcases f with f | ⟨f, _⟩
    · rw [f]; exact ht
    · have f' : s.tri = none := f
      rw [ht] at f'; exact absurd f' (by simp)
  refine ⟨t2, ?_⟩
  rw [t2] at hd
  exact hd

/-- the ghost flag `geomOK` of the model (which the correspondence run still reports for every model operation) is
`true` in every reachable state, given the truthful oracles and `AskNew` — so a `false` ghost in a run pinpoints an
oracle answer that violates `ChooseGeom` (or `TriGeom` / `SubGeom`), or a chosen point that already had a value. -/
theorem lnd_ghost_true (env : Env α) (hT : TriGeom env) (hG : SubGeom env) (hC : ChooseGeom env)
    (ops : List (Op α)) (hN : AskNew env ops) {s : State α} (h : run env (init env) ops = .ok s) :
    s.book.geomOK = true :=
  run_geomOK env hT hG hC ops hN h

/-- C04.c  `lnd_queue_complete` (completeness).  For every history (`remove_unfinished` included — since fix e79ba45 it
rebuilds the queue from `_losses`), given the truthful oracles (`TriGeom`, `SubGeom`, `ChooseGeom` — no ghost) and that
the points `_ask_best_point` chose had no value (`AskNew`, see the module comment): every
simplex of the triangulation that has no sub-triangulation has a queue entry carrying its current loss, and every
simplex of every live sub-triangulation has a queue entry. -/
theorem lnd_queue_complete (env : Env α) (hT : TriGeom env) (hG : SubGeom env) (hC : ChooseGeom env)
    (ops : List (Op α)) (hN : AskNew env ops) {s : State α} (h : run env (init env) ops = .ok s) :
    ∀ vs, s.tri = some vs → ∀ x ∈ env.triSimps vs.length,
      (get? x s.book.subs = none →
        ∃ e ∈ s.book.queue, e.simplex = x ∧ e.sub = none ∧ get? x s.losses = some e.loss) ∧
      (∀ sv, get? x s.book.subs = some sv → ∀ ss ∈ env.subSimps sv,
        ∃ e ∈ s.book.queue, e.simplex = x ∧ e.sub = some ss) := by
  have hq : Cover env s := run_cover env hT hG hC ops hN h
  intro vs ht x hx
  have hc := hq x (by simp only [ht, simplices]; exact hx)
  constructor
  · intro hn; exact hc none hn
  · intro sv hsv ss hss; exact hc (some ss) ⟨sv, hsv, hss⟩

/-- C04.c  `lnd_queue_complete`, ghost form: for EVERY history (no `ChooseGeom`, no `AskNew`), given exact reports and
`SubGeom`: if the ghost flag `geomOK` of the reached state is `true` — every (sub)simplex `_ask_best_point` chose so far
was really subdivided; the correspondence run reports the flag after every operation — the queue is complete.
(`lnd_ghost_true` derives the flag from `ChooseGeom` and `AskNew`; `lnd_queue_complete_needs_askNew` is a history in
which it is `false`.) -/
theorem lnd_queue_complete_of_ghost (env : Env α) (hR : ReportExact env) (hG : SubGeom env) (ops : List (Op α))
    {s : State α} (h : run env (init env) ops = .ok s) (hg : s.book.geomOK = true) :
    ∀ vs, s.tri = some vs → ∀ x ∈ env.triSimps vs.length,
      (get? x s.book.subs = none →
        ∃ e ∈ s.book.queue, e.simplex = x ∧ e.sub = none ∧ get? x s.losses = some e.loss) ∧
      (∀ sv, get? x s.book.subs = some sv → ∀ ss ∈ env.subSimps sv,
        ∃ e ∈ s.book.queue, e.simplex = x ∧ e.sub = some ss) := by
  have hq : Cover env s :=
    run_qinv env hR hG ops (init_keys env) (fun _ => (init_qfull env).2.2) h hg
  intro vs ht x hx
  have hc := hq x (by simp only [ht, simplices]; exact hx)
  constructor
  · intro hn; exact hc none hn
  · intro sv hsv ss hss; exact hc (some ss) ⟨sv, hsv, hss⟩

/-- C04.c  `lnd_queue_complete` (the pop).  In a reachable state (truthful oracles, `AskNew`, no ghost) `_pop_highest_existing_simplex` returns a live entry
whose rounded loss is at least the rounded (sub)loss entry of EVERY live queue key; it cannot raise the
`AssertionError` while a live key exists; and with nothing pending (no sub-triangulation) the entry is a
simplex of the triangulation whose rounded loss is at least the rounded current loss of every simplex — so the
improvement `_ask_best_point` reports, `abs(entry.loss)`, is at least the largest simplex loss up to the
`1e-8` rounding of the priorities. -/
theorem lnd_pop_highest (env : Env α) (hT : TriGeom env) (hG : SubGeom env) (hC : ChooseGeom env)
    (ops : List (Op α)) (hN : AskNew env ops) {s : State α} (h : run env (init env) ops = .ok s)
    {vs : List Pt} (ht : s.tri = some vs) :
    (∀ pr : Pair, pr.1 ∈ env.triSimps vs.length → liveSub env s.book.subs pr →
      (popHighest env (env.triSimps vs.length) s.book.subs s.book.queue).isSome = true) ∧
    (∀ e q, popHighest env (env.triSimps vs.length) s.book.subs s.book.queue = some (e, q) →
      live env (env.triSimps vs.length) s.book.subs e = true ∧
      (∀ pr : Pair, pr.1 ∈ env.triSimps vs.length → liveSub env s.book.subs pr →
        ∃ w ∈ s.book.queue, pairOf w = pr ∧ (pr.2 = none → get? pr.1 s.losses = some w.loss) ∧
          env.rnd w.loss ≤ env.rnd e.loss) ∧
      (s.book.subs = [] → e.sub = none ∧ e.simplex ∈ env.triSimps vs.length ∧
        ∀ x ∈ env.triSimps vs.length, ∀ L, get? x s.losses = some L → env.rnd L ≤ env.rnd e.loss)) := by
  have hc : Cover env s := run_cover env hT hG hC ops hN h
  have hs : QSorted env s.book.queue := run_sorted env ops (init_sorted env) h
  refine ⟨fun pr hpr hl => pop_succeeds env ht hc hpr hl, ?_⟩
  intro e q hp
  obtain ⟨a, b⟩ := pop_max_over_cover env ht hc hs hp
  exact ⟨a, b, fun hsub => pop_max_nothing_pending env ht hc hs hsub hp⟩

/-- C04.c  every queue entry for a SIMPLEX that currently is a simplex of the triangulation carries that simplex'
current stored loss — in every reachable state of every history (including `remove_unfinished`), given the
truthful combinatorics of the triangulation (`TriGeom`: exact reports, vertex indices in range, every added
simplex contains the new vertex — C03). -/
theorem lnd_queue_sound_real (env : Env α) (hT : TriGeom env) (ops : List (Op α)) {s : State α}
    (h : run env (init env) ops = .ok s) :
    ∀ vs, s.tri = some vs → ∀ e ∈ s.book.queue, e.sub = none → e.simplex ∈ env.triSimps vs.length →
      get? e.simplex s.losses = some e.loss :=
  fun vs ht => ((run_realSound env hT ops (init_keys env) (init_realSound env) h).2 vs ht).2

/-- C04.c  "ask refines the worst simplex".  In a reachable state of any history (`remove_unfinished` included), with
truthful oracles (`TriGeom`, `SubGeom`, `ChooseGeom` — no ghost), chosen points that had no value (`AskNew`), and NOTHING pending (no sub-triangulation): the queue is not
exhausted (no `AssertionError`), and whenever `_ask_best_point` returns, the point is the oracle's choice
(`choose_point_in_simplex`) inside a simplex `x` of the triangulation, the reported improvement is `abs` of the
current stored loss of `x`, and no simplex of the triangulation has a larger loss than `x` up to the `1e-8`
rounding of the priorities. -/
theorem lnd_ask_refines_worst (env : Env α) (hT : TriGeom env) (hG : SubGeom env) (hC : ChooseGeom env)
    (ops : List (Op α)) (hN : AskNew env ops) {s : State α} (h : run env (init env) ops = .ok s)
    {vs : List Pt} (ht : s.tri = some vs) (hsub : s.book.subs = []) (hne : env.triSimps vs.length ≠ []) :
    (popHighest env (env.triSimps vs.length) s.book.subs s.book.queue).isSome = true ∧
    ∀ r s', askBest env s vs = .ok (r, s') →
      ∃ x ∈ env.triSimps vs.length, ∃ L, get? x s.losses = some L ∧
        r.1 = env.choose (ptsOf vs x) ∧ r.2 = env.abs L ∧
        ∀ y ∈ env.triSimps vs.length, ∀ L', get? y s.losses = some L' → env.rnd L' ≤ env.rnd L := by
  have hc : Cover env s := run_cover env hT hG hC ops hN h
  have hs : QSorted env s.book.queue := run_sorted env ops (init_sorted env) h
  have hr := lnd_queue_sound_real env hT ops h vs ht
  constructor
  · obtain ⟨y, hy⟩ := List.exists_mem_of_ne_nil _ hne
    have hl : liveSub env s.book.subs (y, none) := by simp [liveSub, hsub, get?]
    exact pop_succeeds env ht hc (pr := (y, none)) hy hl
  · intro r s' ha
    obtain ⟨e, q, hp, hr2, hr1⟩ := askBest_result env ha
    obtain ⟨hsubn, hmem, hmax⟩ := pop_max_nothing_pending env ht hc hs hsub hp
    have hL := hr e (popHighest_mem env _ _ hp).1 hsubn hmem
    refine ⟨e.simplex, hmem, e.loss, hL, ?_, hr2, hmax⟩
    rw [hr1, hsubn]

/-- C04.c  `lnd_queue_sound`.  Every queue entry whose simplex currently is a simplex of the triangulation carries
the CURRENT (sub)loss of its key — a simplex entry the simplex' stored loss; a sub-simplex entry (its simplex
then has a sub-triangulation and the entry's local indices are in range) the simplex' stored loss times
`vol(sub) / vol(simplex)` in the model's operation order `vol(sub) · (loss / vol(simplex))` — in every reachable
state of every history (`remove_unfinished` included), given the truthful combinatorics of the triangulation and
of the sub-triangulations (`TriGeom`, `SubIdxGeom`: C03).  No ghost, and not only for live entries. -/
theorem lnd_queue_sound (env : Env α) (hT : TriGeom env) (hS : SubIdxGeom env) (ops : List (Op α)) {s : State α} (h : run env (init env) ops = .ok s) :
    ∀ vs, s.tri = some vs → ∀ e ∈ s.book.queue, e.simplex ∈ env.triSimps vs.length →
      match e.sub with
      | none => get? e.simplex s.losses = some e.loss
      | some ss => ∃ L sv, get? e.simplex s.losses = some L ∧ get? e.simplex s.book.subs = some sv ∧
          (∀ i ∈ ss, i < sv.length) ∧
          e.loss = env.vol (ptsOf sv ss) * (L / env.vol (ptsOf vs e.simplex)) := by
  intro vs ht e he hmem
  cases ho : e.sub with
  | none => exact lnd_queue_sound_real env hT ops h vs ht e he ho hmem
  | some ss =>
    have hs := run_subSound env hT hS ops (init_keys env) (init_realSound env) (init_subSound env) h
    obtain ⟨sv, L, a, b, c, d⟩ := hs vs ht e he ss ho hmem
    exact ⟨L, sv, c, a, b, d⟩

/-- the queue is in `SortedKeyList` order in every reachable state (so the first live entry is the one of highest
priority), for every history incl. `remove_unfinished` -/
theorem lnd_queue_sorted (env : Env α) (ops : List (Op α)) {s : State α}
    (h : run env (init env) ops = .ok s) : QSorted env s.book.queue :=
  run_sorted env ops (init_sorted env) h

/-! Non-vacuity: the hypotheses of the theorems above hold for a concrete environment and history
(`Lemmas/LNDExample.lean`: a square of four points triangulated into two triangles, then one `ask`; the
reached state has a triangulation, a pending point inside a sub-triangulated simplex, and `geomOK = true`); the oracles
`choose` / `pis` of the example are total and satisfy `ChooseGeom` and `ChooseLocal`. -/
example : ReportExact exEnv ∧ TriGeom exEnv ∧ SubGeom exEnv ∧ SubIdxGeom exEnv ∧ ChooseGeom exEnv ∧
    ChooseLocal exEnv ∧ InDomain exEnv exOps ∧ AskNew exEnv exOps ∧
    (∀ p ∈ exEnv.boundsPts, exEnv.inside p = true) ∧ exEnv.boundsPts.Nodup ∧
    ∃ s, run exEnv (init exEnv) exOps = .ok s ∧ s.book.geomOK = true ∧ s.tri = some [0, 1, 2, 3] ∧
      s.pending = [4] ∧ s.book.subs = [([0, 1, 2], [0, 1, 2, 4])] :=
  ⟨exEnv_report, exEnv_triGeom, exEnv_subGeom, exEnv_subIdx, exEnv_chooseGeom, exEnv_chooseLocal,
    ⟨rfl, rfl, rfl, rfl, trivial⟩, exOps_askNew, fun _ _ => rfl, by decide, exRun⟩

/-- the conclusion of `lnd_queue_complete` is not vacuous either: in the example the simplex `[1,2,3]` is queued
with its loss and the three sub-simplices of `[0,1,2]` are queued -/
example : ∃ s, run exEnv (init exEnv) exOps = .ok s ∧
    (∃ e ∈ s.book.queue, e.simplex = [1, 2, 3] ∧ e.sub = none ∧ get? [1, 2, 3] s.losses = some e.loss) ∧
    (∀ ss ∈ exEnv.subSimps [0, 1, 2, 4], ∃ e ∈ s.book.queue, e.simplex = [0, 1, 2] ∧ e.sub = some ss) := by
  obtain ⟨s, h, hg, ht, _, hsub⟩ := exRun
  have := lnd_queue_complete exEnv exEnv_triGeom exEnv_subGeom exEnv_chooseGeom exOps exOps_askNew h _ ht
  refine ⟨s, h, ?_, ?_⟩
  · exact (this [1, 2, 3] (by decide)).1 (by rw [hsub]; rfl)
  · exact (this [0, 1, 2] (by decide)).2 [0, 1, 2, 4] (by rw [hsub]; rfl)

/-- a history WITH `remove_unfinished` (then another `ask`): the queue theorems apply to it as well — after the
discard and the new `ask` the simplex `[1,2,3]` and the three sub-simplices of `[0,1,2]` are queued again -/
example : ∃ s, run exEnv (init exEnv) exOps2 = .ok s ∧
    (∃ e ∈ s.book.queue, e.simplex = [1, 2, 3] ∧ e.sub = none ∧ get? [1, 2, 3] s.losses = some e.loss) ∧
    (∀ ss ∈ exEnv.subSimps [0, 1, 2, 4], ∃ e ∈ s.book.queue, e.simplex = [0, 1, 2] ∧ e.sub = some ss) := by
  obtain ⟨s, h, hg, ht, _, hsub⟩ := exRun2
  have := lnd_queue_complete exEnv exEnv_triGeom exEnv_subGeom exEnv_chooseGeom exOps2 exOps2_askNew h _ ht
  refine ⟨s, h, ?_, ?_⟩
  · exact (this [1, 2, 3] (by decide)).1 (by rw [hsub]; rfl)
  · exact (this [0, 1, 2] (by decide)).2 [0, 1, 2, 4] (by rw [hsub]; rfl)

/-- `lnd_ask_refines_worst` in the example: with nothing pending `_ask_best_point` returns the chosen point of
the simplex `[0,1,2]`, whose loss 6 is the largest, and reports 6 -/
example : ∃ s s', run exEnv (init exEnv) exOps0 = .ok s ∧ askBest exEnv s [0, 1, 2, 3] = .ok ((4, 6), s') ∧
    ∃ x ∈ exEnv.triSimps 4, ∃ L, get? x s.losses = some L ∧ (6 : Int) = exEnv.abs L ∧
      ∀ y ∈ exEnv.triSimps 4, ∀ L', get? y s.losses = some L' → L' ≤ L := by
  obtain ⟨s, h, hg, ht, hsub, s', ha⟩ := exRun0
  obtain ⟨_, hw⟩ := lnd_ask_refines_worst exEnv exEnv_triGeom exEnv_subGeom exEnv_chooseGeom exOps0 exOps0_askNew h ht hsub (by decide)
  obtain ⟨x, hx, L, hL, _, hr, hmax⟩ := hw _ _ ha
  exact ⟨s, s', h, ha, x, hx, L, hL, hr, hmax⟩

/-- `ChooseFresh` is satisfiable and `lnd_ask_fresh` not vacuous: after the four `tell`s of the example
`ChooseFresh exEnv 1 s` holds (through `PointsBound`, the second layer), `ask(1)` returns the point 4, and 4 is
neither evaluated nor pending before -/
example : ∃ s s', run exEnv (init exEnv) exOps0 = .ok s ∧ ChooseFresh exEnv 1 s ∧
    ask exEnv s 1 true = .ok ([(4, 6)], s') ∧ 4 ∉ s.data ∧ 4 ∉ s.pending := by
  obtain ⟨s, h, hF, _, _, s', ha⟩ := exFresh
  have := (lnd_ask_fresh exEnv (fun _ _ => rfl) s 1 true ha hF).2 4 (by simp)
  exact ⟨s, s', h, hF, ha, this⟩

/-- `lnd_chosen_subdivided` in the example: the simplex `[0,1,2]` popped by `_ask_best_point` has a sub-triangulation
afterwards and is not a live queue key any more -/
example : ∃ s s' e q, run exEnv (init exEnv) exOps0 = .ok s ∧ askBest exEnv s [0, 1, 2, 3] = .ok ((4, 6), s') ∧
    popHighest exEnv (exEnv.triSimps 4) s.book.subs s.book.queue = some (e, q) ∧ e.simplex = [0, 1, 2] ∧
    live exEnv (exEnv.triSimps 4) s'.book.subs e = false := by
  obtain ⟨s, h, _, ht, _, s', ha⟩ := exRun0
  obtain ⟨e, q, hp, hs⟩ : ∃ e q, popHighest exEnv (exEnv.triSimps 4) s.book.subs s.book.queue = some (e, q) ∧
      e.simplex = [0, 1, 2] := exPop0 h
  exact ⟨s, s', e, q, h, ha, hp, hs,
    (lnd_chosen_subdivided exEnv exEnv_triGeom exEnv_subGeom exEnv_chooseGeom exOps0 h (exNew0 h) ht ha e q hp).2⟩

/-- `AskNew` is NECESSARY for `lnd_queue_complete` / `lnd_ghost_true` since the repair of `tell_pending` (kernel-checked):
for the segment environment `cxEnv` — truthful in the sense of `TriGeom`, `SubGeom`, `ChooseGeom`, but `choose` returns
a corner — the history `tell 0, tell 1, ask(1)` succeeds, `ask` returns the evaluated point 0, and afterwards the
simplex `[0,1]` of the triangulation has no sub-triangulation and NO queue entry (the conclusion of
`lnd_queue_complete` fails), the ghost flag is `false`; accordingly `AskNew` fails for this history.  (Before the
repair the `tell_pending(0)` inside `_ask_best_point` went on to `subtri.add_point`, which raises for a vertex — an
`.error` outcome.) -/
theorem lnd_queue_complete_needs_askNew :
    TriGeom cxEnv ∧ SubGeom cxEnv ∧ ChooseGeom cxEnv ∧ ¬ AskNew cxEnv cxOps ∧
    ∃ s, run cxEnv (init cxEnv) cxOps = .ok s ∧ s.tri = some [0, 1] ∧ [0, 1] ∈ cxEnv.triSimps 2 ∧
      get? [0, 1] s.book.subs = none ∧ (¬ ∃ e ∈ s.book.queue, e.simplex = [0, 1]) ∧ s.book.geomOK = false := by
  obtain ⟨s, _, _, _, _, _, _, hrun, ht, _, hx, hsub, hq, hg⟩ := cxRun
  refine ⟨cxEnv_triGeom, cxEnv_subGeom, cxEnv_chooseGeom, ?_, s, hrun, ht, hx, hsub, ?_, hg⟩
  · intro hN
    have := lnd_ghost_true cxEnv cxEnv_triGeom cxEnv_subGeom cxEnv_chooseGeom cxOps hN hrun
    rw [hg] at this; exact absurd this (by simp)
  · rintro ⟨e, he, _⟩
    rw [List.length_eq_zero_iff.1 hq] at he
    exact absurd he (by simp)

/-- where `AskNew` comes from: local truthfulness of `choose_point_in_simplex` (`ChooseLocal`) and, in the states
`_ask_best_point` starts from, `DataBound` — every EVALUATED point that `point_in_simplex` accepts for a simplex is a
vertex of that simplex' sub-triangulation (a corner if it has none).  `DataBound` is the half of `PointsBound` that
concerns evaluated points; it holds for a valid triangulation (whereas `PointsBound` fails for pending points). -/
theorem lnd_askNew_of_bound (env : Env α) (hT : TriGeom env) (hG : SubGeom env) (hC : ChooseGeom env)
    (hL : ChooseLocal env) (ops : List (Op α)) (h : AlongRun env (DataBound env) (init env) ops) : AskNew env ops :=
  askNew_of_bound env hT hG hC hL ops h

end tables

section ordered
variable {α : Type} [Field α] [LinearOrder α] [IsStrictOrderedRing α]

/-- C04.b  `lnd_loss_is_max`.  `loss()` is `inf` while there is no triangulation (or no simplex); otherwise it
is one of the stored simplex losses and no stored loss exceeds it. -/
theorem lnd_loss_is_max (env : Env α) (s : State α) {v : α} {s' : State α} (h : lossOp env s = .ok (v, s')) :
    ((s'.tri = none ∨ s'.losses = []) → v = env.inf) ∧
    (s'.tri ≠ none → s'.losses ≠ [] → v ∈ s'.losses.map (·.2) ∧ ∀ x ∈ s'.losses.map (·.2), x ≤ v) := by
  unfold lossOp at h
  split at h
  · exact absurd h (by simp)
  · rename_i s1 h1
    split at h
    · rename_i hn
      simp only [Except.ok.injEq, Prod.mk.injEq] at h
      obtain ⟨hv, hs⟩ := h
      subst hs hv
      exact ⟨fun _ => rfl, fun hne => absurd hn hne⟩
    · rename_i vs hvs
      simp only [Except.ok.injEq, Prod.mk.injEq] at h
      obtain ⟨hv, hs⟩ := h
      subst hs hv
      constructor
      · rintro (hn | hl)
        · rw [hvs] at hn; exact absurd hn (by simp)
        · simp [hl, maxOf]
      · intro _ hne
        exact maxOf_spec env.inf _ (by simpa using hne)

/-- C04.d  `lnd_subloss_proportional`.  `_update_subsimplex_losses` queues exactly the given sub-simplices, each
with `vol(sub) / vol(simplex) · loss(simplex)` (the model computes `vol(sub) · (loss / vol(simplex))`). -/
theorem lnd_subloss_proportional (env : Env α) (vs : List Pt) (losses : List (Simplex × α)) {b b' : Book α}
    (sx : Simplex) (news : List Simplex) {L : α} {sv : List Pt} (hL : get? sx losses = some L)
    (hsv : get? sx b.subs = some sv) (h : updateSubLosses env vs losses b sx news = .ok b') :
    (∀ ss ∈ news, (⟨env.vol (ptsOf sv ss) / env.vol (ptsOf vs sx) * L, sx, some ss⟩ : QE α) ∈ b'.queue) ∧
    (∀ e ∈ b'.queue, e ∈ b.queue ∨
      ∃ ss ∈ news, e = ⟨env.vol (ptsOf sv ss) / env.vol (ptsOf vs sx) * L, sx, some ss⟩) :=
  updateSubLosses_proportional env vs losses sx news hL hsv h

/-- C04.d  `lnd_subloss_proportional` in every reachable state: every queued sub-simplex entry of a current simplex
carries `vol(sub) / vol(simplex) · loss(simplex)` for the simplex' CURRENT stored loss and the sub-simplex' current
vertices (every history; truthful combinatorics of triangulation and sub-triangulations). -/
theorem lnd_subloss_proportional_reachable (env : Env α) (hT : TriGeom env) (hS : SubIdxGeom env)
    (ops : List (Op α)) {s : State α} (h : run env (init env) ops = .ok s) :
    ∀ vs, s.tri = some vs → ∀ e ∈ s.book.queue, ∀ ss, e.sub = some ss → e.simplex ∈ env.triSimps vs.length →
      ∃ L sv, get? e.simplex s.losses = some L ∧ get? e.simplex s.book.subs = some sv ∧
        e.loss = env.vol (ptsOf sv ss) / env.vol (ptsOf vs e.simplex) * L := by
  intro vs ht e he ss ho hmem
  have := lnd_queue_sound env hT hS ops h vs ht e he hmem
  rw [ho] at this
  obtain ⟨L, sv, a, b, _, d⟩ := this
  refine ⟨L, sv, a, b, ?_⟩
  rw [d]; ring

/-- C04.d, second half: pieces whose volumes add up to the simplex' volume (C03 `simplex_split_volume` for a
once-split simplex) share its loss exactly — the queued sub-losses add up to the simplex loss. -/
theorem lnd_sublosses_sum (V L : α) (vols : List α) (hV : V ≠ 0) (hsum : vols.sum = V) :
    (vols.map (fun v => v / V * L)).sum = L :=
  sublosses_sum V L vols hV hsum

/-- C04.b with C04.a: in every reachable state (exact reports) the reported loss is the largest of the losses
held for the simplices of the triangulation: it is the stored loss of a simplex of the triangulation, and the
stored loss of no simplex exceeds it. -/
theorem lnd_loss_is_max_over_simplices (env : Env α) (hR : ReportExact env) (ops : List (Op α)) {s : State α}
    (h : run env (init env) ops = .ok s) {v : α} {s' : State α} (hl : lossOp env s = .ok (v, s'))
    {vs : List Pt} (ht : s'.tri = some vs) (hne : env.triSimps vs.length ≠ []) :
    (∃ x ∈ env.triSimps vs.length, (x, v) ∈ s'.losses) ∧
    (∀ x ∈ env.triSimps vs.length, ∀ L, get? x s'.losses = some L → L ≤ v) := by
  have hk' : KeysInv env s' := lossOp_keys env (run_keys env hR ops (init_keys env) h) hl
  have hkeys : ∀ x, x ∈ keys s'.losses ↔ x ∈ env.triSimps vs.length := by
    intro x; have := hk' x; simp only [ht, simplices] at this; exact this
  have hne' : s'.losses ≠ [] := by
    intro c
    obtain ⟨x, hx⟩ := List.exists_mem_of_ne_nil _ hne
    have := (hkeys x).2 hx
    simp [c, keys] at this
  obtain ⟨hmem, hmax⟩ := (lnd_loss_is_max env s hl).2 (by rw [ht]; simp) hne'
  constructor
  · simp only [List.mem_map] at hmem
    obtain ⟨e, he, rfl⟩ := hmem
    have hk : e.1 ∈ keys s'.losses := by simp only [keys, List.mem_map]; exact ⟨e, he, rfl⟩
    exact ⟨e.1, (hkeys e.1).1 hk, he⟩
  · intro x _ L hL
    exact hmax L (List.mem_map.2 ⟨_, get?_mem hL, rfl⟩)

end ordered
end LND

/-! ## appended: `choose_point_in_simplex` for triangles — the oracle `Env.choose` opened up (dimension 2)

Above, `choose_point_in_simplex` is the oracle `Env.choose`, and the clause "ask proposes a point inside the simplex with
the largest loss (its centroid, or the midpoint of its longest edge in normalised coordinates)" rests on the hypothesis
`ChooseGeom`.  `AdaptiveModel/Choose.lean` models the function itself for triangles (`Choose.choosePoint2`, line by
line, bit-for-bit equal to the real function on 24000 generated cases: `corr_choose.py`); the theorems are proved in
`Lemmas/Choose.lean` over ordered fields with the `SqrtLaw` of `Props/C20.lean` and re-exported here.  `P2 α = α × α`;
`scaleT t0 t1 p = (p.1 * t0, p.2 * t1)` is the transform `diag(t0, t1)` (LearnerND passes `diag(1 / width)`);
`IsLongestEdgeMid m a b c`: `m = (a + b) / 2` and no edge of `a b c` is longer than `a b`. -/
namespace LND
section choose2
open Choose Gen.Prims Prims
variable {α : Type} [Field α] [LinearOrder α] [IsStrictOrderedRing α]

/-- C04.choose.a  "its centroid, or the midpoint of its longest edge in normalised coordinates": in transformed
coordinates the chosen point is the centroid of the transformed triangle, or the midpoint of an edge of the transformed
triangle at least as long as the other two (first/second/third alternative of the edge: `p0 p1`, `p0 p2`, `p1 p2`). -/
theorem choose2_centroid_or_longest_edge_midpoint (sqrt : α → α) (hs : SqrtLaw sqrt) (eps : α) (p0 p1 p2 : P2 α)
    (t0 t1 : α) (h0 : t0 ≠ 0) (h1 : t1 ≠ 0) :
    scaleT t0 t1 (choosePoint2 sqrt eps p0 p1 p2 (some (t0, t1)))
      = centroid (scaleT t0 t1 p0) (scaleT t0 t1 p1) (scaleT t0 t1 p2) ∨
    IsLongestEdgeMid (scaleT t0 t1 (choosePoint2 sqrt eps p0 p1 p2 (some (t0, t1))))
      (scaleT t0 t1 p0) (scaleT t0 t1 p1) (scaleT t0 t1 p2) ∨
    IsLongestEdgeMid (scaleT t0 t1 (choosePoint2 sqrt eps p0 p1 p2 (some (t0, t1))))
      (scaleT t0 t1 p0) (scaleT t0 t1 p2) (scaleT t0 t1 p1) ∨
    IsLongestEdgeMid (scaleT t0 t1 (choosePoint2 sqrt eps p0 p1 p2 (some (t0, t1))))
      (scaleT t0 t1 p1) (scaleT t0 t1 p2) (scaleT t0 t1 p0) :=
  Choose.choose2_centroid_or_longest_edge_midpoint sqrt hs eps p0 p1 p2 t0 t1 h0 h1

/-- C04.choose.a'  the same without a transform -/
theorem choose2_centroid_or_longest_edge_midpoint_none (sqrt : α → α) (hs : SqrtLaw sqrt) (eps : α) (p0 p1 p2 : P2 α) :
    choosePoint2 sqrt eps p0 p1 p2 none = centroid p0 p1 p2 ∨
    IsLongestEdgeMid (choosePoint2 sqrt eps p0 p1 p2 none) p0 p1 p2 ∨
    IsLongestEdgeMid (choosePoint2 sqrt eps p0 p1 p2 none) p0 p2 p1 ∨
    IsLongestEdgeMid (choosePoint2 sqrt eps p0 p1 p2 none) p1 p2 p0 :=
  Choose.choose2_centroid_or_longest_edge_midpoint_none sqrt hs eps p0 p1 p2

/-- C04.choose.b  in ORIGINAL coordinates, every triangle: the chosen point is `(p0 + p1 + p2) / 3` or the midpoint of
two vertices -/
theorem choose2_weights (sqrt : α → α) (hs : SqrtLaw sqrt) (eps : α) (p0 p1 p2 : P2 α) (t : Option (P2 α))
    (ht : ∀ t0 t1, t = some (t0, t1) → t0 ≠ 0 ∧ t1 ≠ 0) :
    ∃ l : α × α × α, ChoiceWeights l ∧ choosePoint2 sqrt eps p0 p1 p2 t = comb l p0 p1 p2 :=
  Choose.choose2_weights sqrt hs eps p0 p1 p2 t ht

/-- C04.choose.c  "a point inside the simplex": for a non-degenerate triangle the chosen point is accepted by
`point_in_simplex` for its own simplex, with every tolerance `eps' ≥ 0` -/
theorem choose2_in_closed_triangle (sqrt : α → α) (hs : SqrtLaw sqrt) (eps : α) (p0 p1 p2 : P2 α) (t : Option (P2 α))
    (ht : ∀ t0 t1, t = some (t0, t1) → t0 ≠ 0 ∧ t1 ≠ 0) (hA : crossP p0 p1 p2 ≠ 0) (eps' : α) (he : 0 ≤ eps') :
    point_in_simplex2 (choosePoint2 sqrt eps p0 p1 p2 t).1 (choosePoint2 sqrt eps p0 p1 p2 t).2
      p0.1 p0.2 p1.1 p1.2 p2.1 p2.2 eps' = true :=
  Choose.choose2_in_closed_triangle sqrt hs eps p0 p1 p2 t ht hA eps' he

/-- C04.choose.d  the clause `ChooseGeom.inSimplex` DERIVED for dimension 2: if the oracles `choose` / `pis` of an `Env`
answer, on triangles, what `choose_point_in_simplex` / `point_in_simplex` compute from the coordinates `coord` of the
points (transform `t`, tolerances `eps`, `eps' ≥ 0`), then `point_in_simplex` accepts the point chosen in a
non-degenerate triangle for that triangle. -/
theorem chooseGeom_inSimplex_dim2 {β : Type} (env : Env β) (coord : Pt → P2 α) (sqrt : α → α) (hs : SqrtLaw sqrt)
    (eps eps' : α) (he : 0 ≤ eps') (t : Option (P2 α)) (ht : ∀ t0 t1, t = some (t0, t1) → t0 ≠ 0 ∧ t1 ≠ 0)
    (hchoose : ∀ a b c, coord (env.choose [a, b, c]) = choosePoint2 sqrt eps (coord a) (coord b) (coord c) t)
    (hpis : ∀ q a b c, env.pis q [a, b, c] = point_in_simplex2 (coord q).1 (coord q).2 (coord a).1 (coord a).2
      (coord b).1 (coord b).2 (coord c).1 (coord c).2 eps')
    (a b c : Pt) (hA : crossP (coord a) (coord b) (coord c) ≠ 0) :
    env.pis (env.choose [a, b, c]) [a, b, c] = true := by
  rw [hpis, hchoose]
  exact Choose.choose2_in_closed_triangle sqrt hs eps _ _ _ t ht hA eps' he

/-- C04.choose.e  which of the two: (non-degenerate triangle, tolerance `0`) the centroid — of the ORIGINAL triangle —
exactly when the TRANSFORMED triangle has no obtuse angle; with the code's tolerance `eps ≥ 0` "no obtuse angle" still
implies the centroid (`Choose.choose2_centroid_of_not_obtuse`), the exact condition is `Choose.centerInside_iff_eps` -/
theorem choose2_centroid_iff_not_obtuse (sqrt : α → α) (hs : SqrtLaw sqrt) (p0 p1 p2 : P2 α) (t0 t1 : α)
    (h0 : t0 ≠ 0) (h1 : t1 ≠ 0) (hA : crossP p0 p1 p2 ≠ 0) :
    choosePoint2 sqrt 0 p0 p1 p2 (some (t0, t1)) = centroid p0 p1 p2 ↔
      NotObtuse (scaleT t0 t1 p0) (scaleT t0 t1 p1) (scaleT t0 t1 p2) :=
  Choose.choose2_centroid_iff_not_obtuse sqrt hs p0 p1 p2 t0 t1 h0 h1 hA

end choose2
end LND

/-! ## appended: the GEOMETRIC fields of `ChooseGeom` derived in dimension 2 (helpers: `Lemmas/ChooseGeom2.lean`)

`ChooseGeom` has three geometric fields (`inside`, `inSimplex`, `inOwner`) and two combinatorial ones (`split`, `nodup`).
For an `Env` whose oracles `choose` / `pis` / `inside` compute `choose_point_in_simplex` / `point_in_simplex` /
the rectangular `inside_bounds` from point coordinates (`CoordEnv2`, the phrasing of `chooseGeom_inSimplex_dim2`) the
geometric fields are THEOREMS:

* `pis2_convex` — the accepted set of `point_in_simplex(·, triangle, eps)` is convex (every `eps`, every triangle; the
  2-D test is `-eps ≤ s`, `s ≤ 1 + eps`, `-eps ≤ t`, `s + t ≤ 1 + eps`, all non-strict);
* `choose2_in_owner` — a point chosen in a sub-triangle whose vertices the owner accepts is accepted by the owner;
* `choose2_in_box` — a point chosen in a triangle with vertices in the (tolerance-enlarged) box lies in it;
* `chooseGeom_inOwner_dim2`, `chooseGeom_inside_rect_dim2`, `chooseGeom_inSimplex_dim2'` (in `Lemmas/ChooseGeom2.lean`) —
  the three fields per (sub)triangle; `SubVertsInOwner` is the invariant of `_try_adding_pending_point_to_simplex`
  (`subVertsInOwner_of_pending`: corners are accepted, the rest was accepted when it was put in);
* `chooseGeom_dim2_of_coords` — `ChooseGeom env` literally.  Because `ChooseGeom.inside` / `.inSimplex` quantify over ALL
  point lists this needs (and, `inside_all_of_chooseGeom`, FORCES) every point id to lie in the domain, and a default for
  lists that are no triangles;
* `chooseGeomDom_dim2_of_coords` — the restricted `ChooseGeomDom env` (simplices with vertices in the domain) with NO such
  extra hypothesis; the C04 queue theorems hold with `ChooseGeomDom` and `AskDom` (`AskNew` + the vertices of the popped
  (sub)simplex are points of the domain): `lnd_chosen_subdivided_dom`, `lnd_ghost_true_dom`, `lnd_queue_complete_dom`,
  and for coordinate-computed environments `lnd_*_dim2`. -/
namespace LND
section geom2
open Choose Gen.Prims Prims
variable {α : Type} [Field α] [LinearOrder α] [IsStrictOrderedRing α]

/-- C04.geom.1  `pis2_convex`: convex combinations of accepted points are accepted (same `eps`; every `eps`, every
triangle — degenerate or not) -/
theorem pis2_convex (x0 y0 x1 y1 x2 y2 eps : α) (l0 l1 l2 : α) (h0 : 0 ≤ l0) (h1 : 0 ≤ l1) (h2 : 0 ≤ l2)
    (hs : l0 + l1 + l2 = 1) (ax ay bx by' cx cy : α)
    (ha : point_in_simplex2 ax ay x0 y0 x1 y1 x2 y2 eps = true)
    (hb : point_in_simplex2 bx by' x0 y0 x1 y1 x2 y2 eps = true)
    (hc : point_in_simplex2 cx cy x0 y0 x1 y1 x2 y2 eps = true) :
    point_in_simplex2 (l0 * ax + l1 * bx + l2 * cx) (l0 * ay + l1 * by' + l2 * cy) x0 y0 x1 y1 x2 y2 eps = true :=
  Choose.pis2_convex x0 y0 x1 y1 x2 y2 eps l0 l1 l2 h0 h1 h2 hs ax ay bx by' cx cy ha hb hc

/-- C04.geom.2  `choose2_in_owner` -/
theorem choose2_in_owner (sqrt : α → α) (hs : SqrtLaw sqrt) (eps' : α) (s0 s1 s2 : P2 α) (t : Option (P2 α))
    (ht : ∀ t0 t1, t = some (t0, t1) → t0 ≠ 0 ∧ t1 ≠ 0) (o0 o1 o2 : P2 α) (eps : α)
    (h0 : point_in_simplex2 s0.1 s0.2 o0.1 o0.2 o1.1 o1.2 o2.1 o2.2 eps = true)
    (h1 : point_in_simplex2 s1.1 s1.2 o0.1 o0.2 o1.1 o1.2 o2.1 o2.2 eps = true)
    (h2 : point_in_simplex2 s2.1 s2.2 o0.1 o0.2 o1.1 o1.2 o2.1 o2.2 eps = true) :
    point_in_simplex2 (choosePoint2 sqrt eps' s0 s1 s2 t).1 (choosePoint2 sqrt eps' s0 s1 s2 t).2
      o0.1 o0.2 o1.1 o1.2 o2.1 o2.2 eps = true :=
  Choose.choose2_in_owner sqrt hs eps' s0 s1 s2 t ht o0 o1 o2 eps h0 h1 h2

/-- C04.geom.4  `choose2_in_box` (rectangular `inside_bounds`, absolute tolerance `epsb`) -/
theorem choose2_in_box (sqrt : α → α) (hs : SqrtLaw sqrt) (eps : α) (p0 p1 p2 : P2 α) (t : Option (P2 α))
    (ht : ∀ t0 t1, t = some (t0, t1) → t0 ≠ 0 ∧ t1 ≠ 0) (a0 b0 a1 b1 epsb : α)
    (h0 : insideRect a0 b0 a1 b1 epsb p0 = true) (h1 : insideRect a0 b0 a1 b1 epsb p1 = true)
    (h2 : insideRect a0 b0 a1 b1 epsb p2 = true) :
    insideRect a0 b0 a1 b1 epsb (choosePoint2 sqrt eps p0 p1 p2 t) = true :=
  Choose.choose2_in_box sqrt hs eps p0 p1 p2 t ht a0 b0 a1 b1 epsb h0 h1 h2

end geom2

section queueDom
variable {α : Type} [Sub α] [Mul α] [Div α] [LT α] [DecidableLT α]

/-- C04.c  `lnd_chosen_subdivided` with `ChooseGeomDom` (geometric fields only for simplices with vertices in the
domain) and `AskOkAt env s` (the chosen point has no value, the vertices of the popped (sub)simplex lie in the domain) -/
theorem lnd_chosen_subdivided_dom (env : Env α) (hT : TriGeom env) (hG : SubGeom env) (hC : ChooseGeomDom env)
    (ops : List (Op α)) {s : State α} (h : run env (init env) ops = .ok s) (hN : AskOkAt env s)
    {vs : List Pt} (ht : s.tri = some vs)
    {r : Pt × α} {s' : State α} (ha : askBest env s vs = .ok (r, s')) :
    ∀ e q, popHighest env (env.triSimps vs.length) s.book.subs s.book.queue = some (e, q) →
      s'.tri = some vs ∧ live env (env.triSimps vs.length) s'.book.subs e = false := by
  intro e q hp
  obtain ⟨e', q', s2, hp', _, h2, rfl⟩ := askBest_form env ha
  rw [hp] at hp'
  simp only [Option.some.injEq, Prod.mk.injEq] at hp'
  obtain ⟨rfl, rfl⟩ := hp'
  have hr1 := askBest_point env hp ha
  rw [hr1] at h2
  have hd := chosen_dead_dom env hG hC ht (run_subVerts env hT ops h) hp (hN.1 vs e q ht hp) (hN.2 vs e q ht hp) h2
  have t2 : s2.tri = some vs := by
    obtain ⟨_, _, _, _, _, f⟩ := tellPending_frame env _ _ h2
    rcases f with f | ⟨f, _⟩
    · rw [f]; exact ht
    · have f' : s.tri = none := f
      rw [ht] at f'; exact absurd f' (by simp)
  refine ⟨t2, ?_⟩
  rw [t2] at hd
  exact hd

/-- C04.c  `lnd_ghost_true` with `ChooseGeomDom` / `AskDom` -/
theorem lnd_ghost_true_dom (env : Env α) (hT : TriGeom env) (hG : SubGeom env) (hC : ChooseGeomDom env)
    (ops : List (Op α)) (hN : AskDom env ops) {s : State α} (h : run env (init env) ops = .ok s) :
    s.book.geomOK = true :=
  run_geomOK_dom env hT hG hC ops hN h

/-- C04.c  `lnd_queue_complete` with `ChooseGeomDom` / `AskDom` -/
theorem lnd_queue_complete_dom (env : Env α) (hT : TriGeom env) (hG : SubGeom env) (hC : ChooseGeomDom env)
    (ops : List (Op α)) (hN : AskDom env ops) {s : State α} (h : run env (init env) ops = .ok s) :
    ∀ vs, s.tri = some vs → ∀ x ∈ env.triSimps vs.length,
      (get? x s.book.subs = none →
        ∃ e ∈ s.book.queue, e.simplex = x ∧ e.sub = none ∧ get? x s.losses = some e.loss) ∧
      (∀ sv, get? x s.book.subs = some sv → ∀ ss ∈ env.subSimps sv,
        ∃ e ∈ s.book.queue, e.simplex = x ∧ e.sub = some ss) := by
  have hq : Cover env s := run_cover_dom env hT hG hC ops hN h
  intro vs ht x hx
  have hc := hq x (by simp only [ht, simplices]; exact hx)
  constructor
  · intro hn; exact hc none hn
  · intro sv hsv ss hss; exact hc (some ss) ⟨sv, hsv, hss⟩

end queueDom

section queueDim2
open Choose Gen.Prims Prims
variable {α : Type} [Field α] [LinearOrder α] [IsStrictOrderedRing α]
variable {β : Type} [Sub β] [Mul β] [Div β] [LT β] [DecidableLT β]

/-- the hypotheses left, in dimension 2, once the geometric fields are derived: the environment is computed from
coordinates over a rectangular domain (`CoordEnv2`), and — COMBINATORICS of the sub-triangulations — sub-simplices are
triangles, `split`, `nodup`, plus the sub-vertex invariant `SubVertsInOwner` (see there) -/
structure Dim2Hyps (env : Env β) (coord : Pt → P2 α) (sqrt : α → α) (eps eps' epsb : α) (t : Option (P2 α))
    (a0 b0 a1 b1 : α) : Prop where
  coords : CoordEnv2 env coord sqrt eps eps' epsb t a0 b0 a1 b1
  subSize : ∀ sv, ∀ ss ∈ env.subSimps sv, ss.length = 3
  subVerts : SubVertsInOwner env
  split : ∀ sv, ∀ ss ∈ env.subSimps sv, ∀ D A, env.subAdd sv (env.choose (ptsOf sv ss)) = some (D, A) →
    ss ∉ env.subSimps (sv ++ [env.choose (ptsOf sv ss)])
  nodup : ∀ n, (env.triSimps n).Nodup

variable {env : Env β} {coord : Pt → P2 α} {sqrt : α → α} {eps eps' epsb : α} {t : Option (P2 α)} {a0 b0 a1 b1 : α}

/-- C04.geom.5  `ChooseGeomDom` for a coordinate-computed 2-D environment over a rectangular domain -/
theorem Dim2Hyps.chooseGeomDom (hD : Dim2Hyps env coord sqrt eps eps' epsb t a0 b0 a1 b1) : ChooseGeomDom env :=
  chooseGeomDom_dim2_of_coords env coord sqrt eps eps' epsb t a0 b0 a1 b1 hD.coords hD.subSize hD.subVerts hD.split
    hD.nodup

/-- C04.geom.5  `ChooseGeom` literally: additionally every point id lies in the domain (forced by `ChooseGeom.inside`,
`inside_all_of_chooseGeom`), `point_in_simplex` defaults to `True` on lists that are no triangles, and a sub-triangulation
that has a simplex has at least 3 vertices -/
theorem Dim2Hyps.chooseGeom (hD : Dim2Hyps env coord sqrt eps eps' epsb t a0 b0 a1 b1)
    (hlen : ∀ sv, env.subSimps sv ≠ [] → 3 ≤ sv.length) (hdom : ∀ p, env.inside p = true)
    (hpisD : ∀ q pts, pts.length ≠ 3 → env.pis q pts = true) : ChooseGeom env :=
  chooseGeom_dim2_of_coords env coord sqrt eps eps' epsb t a0 b0 a1 b1 hD.coords ⟨hD.subSize, hlen⟩ hD.subVerts hdom
    hpisD hD.split hD.nodup

/-- C04.c in dimension 2, `lnd_chosen_subdivided`: no geometric hypothesis left -/
theorem lnd_chosen_subdivided_dim2 (hD : Dim2Hyps env coord sqrt eps eps' epsb t a0 b0 a1 b1)
    (hT : TriGeom env) (hG : SubGeom env)
    (ops : List (Op β)) {s : State β} (h : run env (init env) ops = .ok s) (hN : AskOkAt env s)
    {vs : List Pt} (ht : s.tri = some vs)
    {r : Pt × β} {s' : State β} (ha : askBest env s vs = .ok (r, s')) :
    ∀ e q, popHighest env (env.triSimps vs.length) s.book.subs s.book.queue = some (e, q) →
      s'.tri = some vs ∧ live env (env.triSimps vs.length) s'.book.subs e = false :=
  lnd_chosen_subdivided_dom env hT hG hD.chooseGeomDom ops h hN ht ha

/-- C04.c in dimension 2, `lnd_ghost_true` -/
theorem lnd_ghost_true_dim2 (hD : Dim2Hyps env coord sqrt eps eps' epsb t a0 b0 a1 b1)
    (hT : TriGeom env) (hG : SubGeom env) (ops : List (Op β)) (hN : AskDom env ops) {s : State β}
    (h : run env (init env) ops = .ok s) : s.book.geomOK = true :=
  lnd_ghost_true_dom env hT hG hD.chooseGeomDom ops hN h

/-- C04.c in dimension 2, `lnd_queue_complete`: for a coordinate-computed environment over a rectangular domain the
queue is complete in every reachable state of every history in which `_ask_best_point` chose points without a value in
(sub)simplices with vertices in the domain — given only COMBINATORIAL facts about the (sub)triangulations and the
sub-vertex invariant -/
theorem lnd_queue_complete_dim2 (hD : Dim2Hyps env coord sqrt eps eps' epsb t a0 b0 a1 b1)
    (hT : TriGeom env) (hG : SubGeom env) (ops : List (Op β)) (hN : AskDom env ops) {s : State β}
    (h : run env (init env) ops = .ok s) :
    ∀ vs, s.tri = some vs → ∀ x ∈ env.triSimps vs.length,
      (get? x s.book.subs = none →
        ∃ e ∈ s.book.queue, e.simplex = x ∧ e.sub = none ∧ get? x s.losses = some e.loss) ∧
      (∀ sv, get? x s.book.subs = some sv → ∀ ss ∈ env.subSimps sv,
        ∃ e ∈ s.book.queue, e.simplex = x ∧ e.sub = some ss) :=
  lnd_queue_complete_dom env hT hG hD.chooseGeomDom ops hN h

/-- the same through the literal `ChooseGeom` (so with `AskNew` only), when every point id lies in the domain -/
theorem lnd_queue_complete_dim2' (hD : Dim2Hyps env coord sqrt eps eps' epsb t a0 b0 a1 b1)
    (hlen : ∀ sv, env.subSimps sv ≠ [] → 3 ≤ sv.length) (hdom : ∀ p, env.inside p = true)
    (hpisD : ∀ q pts, pts.length ≠ 3 → env.pis q pts = true)
    (hT : TriGeom env) (hG : SubGeom env) (ops : List (Op β)) (hN : AskNew env ops) {s : State β}
    (h : run env (init env) ops = .ok s) :
    ∀ vs, s.tri = some vs → ∀ x ∈ env.triSimps vs.length,
      (get? x s.book.subs = none →
        ∃ e ∈ s.book.queue, e.simplex = x ∧ e.sub = none ∧ get? x s.losses = some e.loss) ∧
      (∀ sv, get? x s.book.subs = some sv → ∀ ss ∈ env.subSimps sv,
        ∃ e ∈ s.book.queue, e.simplex = x ∧ e.sub = some ss) :=
  lnd_queue_complete env hT hG (hD.chooseGeom hlen hdom hpisD) ops hN h

/-- … and `lnd_ghost_true` -/
theorem lnd_ghost_true_dim2' (hD : Dim2Hyps env coord sqrt eps eps' epsb t a0 b0 a1 b1)
    (hlen : ∀ sv, env.subSimps sv ≠ [] → 3 ≤ sv.length) (hdom : ∀ p, env.inside p = true)
    (hpisD : ∀ q pts, pts.length ≠ 3 → env.pis q pts = true)
    (hT : TriGeom env) (hG : SubGeom env) (ops : List (Op β)) (hN : AskNew env ops) {s : State β}
    (h : run env (init env) ops = .ok s) : s.book.geomOK = true :=
  lnd_ghost_true env hT hG (hD.chooseGeom hlen hdom hpisD) ops hN h

end queueDim2
end LND

/-- non-vacuity of `Dim2Hyps` (hence of `lnd_*_dim2`): the environment `Wit.wEnv` over `ℝ` (`Lemmas/ChooseGeom2.lean`: point
ids enumerate the rational points of the plane, `choose` / `pis` / `inside` are the modelled functions with `Real.sqrt`
over the unit square, every vertex list with at least 3 points carries the sub-triangulation made of its first three
points) satisfies it for all tolerances with `eps' ≥ 0`, so `ChooseGeomDom` holds for it -/
example (eps eps' epsb : ℝ) (he : 0 ≤ eps') :
    LND.Dim2Hyps (Wit.wEnv eps eps' epsb) Wit.coord Real.sqrt eps eps' epsb none 0 1 0 1 ∧
    LND.ChooseGeomDom (Wit.wEnv eps eps' epsb) := by
  have h : LND.Dim2Hyps (Wit.wEnv eps eps' epsb) Wit.coord Real.sqrt eps eps' epsb none 0 1 0 1 :=
    ⟨Wit.wEnv_coords eps eps' epsb he, Wit.wEnv_subSize eps eps' epsb, Wit.wEnv_subVerts eps eps' epsb he,
      by intro sv ss _ D A hadd; simp [Wit.wEnv] at hadd, by intro n; exact List.nodup_nil⟩
  exact ⟨h, h.chooseGeomDom⟩

/-- non-vacuity of the `…_dom` theorems on a run: the example environment `exEnv` (`inside _ = true`) satisfies
`ChooseGeomDom`, the example history satisfies `AskDom`, and `lnd_queue_complete_dom` / `lnd_ghost_true_dom` apply to the
state it reaches (a pending point inside a sub-triangulated simplex) -/
example : LND.ChooseGeomDom LND.exEnv ∧ LND.AskDom LND.exEnv LND.exOps ∧
    ∃ s, LND.run LND.exEnv (LND.init LND.exEnv) LND.exOps = .ok s ∧ s.book.geomOK = true ∧
      (∀ ss ∈ LND.exEnv.subSimps [0, 1, 2, 4], ∃ e ∈ s.book.queue, e.simplex = [0, 1, 2] ∧ e.sub = some ss) := by
  have hsz : ∀ sv, ∀ ss ∈ LND.exEnv.subSimps sv, ss.length = LND.exEnv.dim + 1 := by
    intro sv ss hss
    simp only [LND.exEnv] at hss ⊢
    split at hss
    · simp only [List.mem_cons, List.not_mem_nil, or_false] at hss; subst hss; rfl
    · split at hss
      · simp only [List.mem_cons, List.not_mem_nil, or_false] at hss
        rcases hss with rfl | rfl | rfl <;> rfl
      · exact absurd hss (by simp)
  have hC := LND.ChooseGeom.toDom LND.exEnv_chooseGeom hsz
  have hN : LND.AskDom LND.exEnv LND.exOps := LND.askDom_of_askNew (fun _ => rfl) LND.exOps_askNew
  obtain ⟨s, h, _, ht, _, hsub⟩ := LND.exRun
  refine ⟨hC, hN, s, h, LND.lnd_ghost_true_dom LND.exEnv LND.exEnv_triGeom LND.exEnv_subGeom hC LND.exOps hN h, ?_⟩
  have := LND.lnd_queue_complete_dom LND.exEnv LND.exEnv_triGeom LND.exEnv_subGeom hC LND.exOps hN h _ ht
  exact (this [0, 1, 2] (by decide)).2 [0, 1, 2, 4] (by rw [hsub]; rfl)

/-! ## appended: the state-level hypotheses of `lnd_*_dim2` are invariants of the reachable states

`SubVertsInOwner env` (field `subVerts` of `Dim2Hyps`) and `AskDom env ops` (`ChosenInDomainAt`) are hypotheses about the
STATES a run goes through.  `Props/C04Reach.lean` (helpers `Lemmas/LNDAccept.lean`, `Lemmas/LNDReach.lean`; it imports
this file, so the theorems live there) proves them as invariants of the model's reachable states and restates the three
headline theorems without them:

* `LND.lnd_subs_accepted` — `SubsAccepted`: every stored sub-triangulation's vertex list is the owner's corners followed by
  points `point_in_simplex` accepted for the owner (every history);
* `LND.lnd_verts_in_domain` — `VertsInDomain`: evaluated / pending points and all (sub)triangulation vertices lie in the
  domain (histories whose told points lie in the domain; `tell_pending` of arbitrary points allowed);
* `LND.lnd_subVertsInOwner_reach`, `LND.lnd_askDom_of_inDomain` — (A) state-relative and (B) derived;
* `LND.lnd_chosen_subdivided_reach`, `LND.lnd_ghost_true_reach`, `LND.lnd_queue_complete_reach` — hypotheses: `Dim2HypsR`
  (= `Dim2Hyps` without `subVerts`, plus the index range of sub-simplices), `TriGeom`, `SubGeom`, `InDomain env ops`,
  `AskNew env ops`.  The theorems `lnd_*_dim2` above are kept.  Non-vacuity on a real run of a coordinate-computed
  environment: `Examples/C04Reach.lean` (`Wit2.gRun_reach`); `LND.lnd_verts_in_domain_needs_inDomain`: `InDomain` is needed. -/
