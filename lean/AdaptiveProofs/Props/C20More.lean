import AdaptiveProofs.Lemmas.Prims2
import AdaptiveProofs.Props.C20

/-!
# C20, continued — the primitives that `harness/translate.py` does not generate

Hand models (`AdaptiveModel/Prims2.lean`, tied to the real functions bit for bit by `harness/prims2_corr.py`):
Learner2D per-triangle `areas`, `uniform_loss`, `minimize_triangle_surface_loss`, `choose_point_in_triangle`;
Learner1D `resolution_loss_function`, `curvature_loss_function`; LearnerND `default_loss` on a 2-D domain;
`triangulation.orientation`.  The headline statements are collected here; the proofs are in
`AdaptiveProofs/Lemmas/Prims2.lean` (namespace `Prims2`).

As in `Props/C20.lean`: every linearly ordered field, `sqrt` any function with `Prims.SqrtLaw`, `abs = |·|`.
-/
set_option linter.unusedSectionVars false
set_option linter.unusedVariables false

namespace C20
open Gen.Prims Prims Prims2

variable {α : Type} [Field α] [LinearOrder α] [IsStrictOrderedRing α]

/-! ## Learner2D: area of a triangle, uniform loss -/

/-- C20.l2d.area  `learner2D.areas` (one triangle) is `|det of the edge vectors| / 2`, the same number as the generated
`learnerND.volume`; it does not depend on the order of the vertices, is invariant under translations and rigid
motions, and homogeneous of degree 2; `uniform_loss` is its square root, homogeneous of degree 1 -/
theorem l2d_area_headline (sqrt : α → α) (hs : SqrtLaw sqrt) (x0 y0 x1 y1 x2 y2 : α) :
    l2d_area (fun x => |x|) x0 y0 x1 y1 x2 y2 = |Matrix.det !![x0 - x2, y0 - y2; x1 - x2, y1 - y2]| / 2 ∧
    l2d_area (fun x => |x|) x0 y0 x1 y1 x2 y2 = nd_volume2 (fun x => |x|) x0 y0 x1 y1 x2 y2 ∧
    (l2d_area (fun x => |x|) x1 y1 x0 y0 x2 y2 = l2d_area (fun x => |x|) x0 y0 x1 y1 x2 y2 ∧
     l2d_area (fun x => |x|) x0 y0 x2 y2 x1 y1 = l2d_area (fun x => |x|) x0 y0 x1 y1 x2 y2 ∧
     l2d_area (fun x => |x|) x2 y2 x1 y1 x0 y0 = l2d_area (fun x => |x|) x0 y0 x1 y1 x2 y2 ∧
     l2d_area (fun x => |x|) x1 y1 x2 y2 x0 y0 = l2d_area (fun x => |x|) x0 y0 x1 y1 x2 y2 ∧
     l2d_area (fun x => |x|) x2 y2 x0 y0 x1 y1 = l2d_area (fun x => |x|) x0 y0 x1 y1 x2 y2) ∧
    (∀ s t : α, l2d_area (fun x => |x|) (x0 + s) (y0 + t) (x1 + s) (y1 + t) (x2 + s) (y2 + t)
      = l2d_area (fun x => |x|) x0 y0 x1 y1 x2 y2) ∧
    (∀ a b c d : α, a * a + c * c = 1 → b * b + d * d = 1 → a * b + c * d = 0 →
      l2d_area (fun x => |x|) (a * x0 + b * y0) (c * x0 + d * y0) (a * x1 + b * y1) (c * x1 + d * y1)
        (a * x2 + b * y2) (c * x2 + d * y2) = l2d_area (fun x => |x|) x0 y0 x1 y1 x2 y2) ∧
    (∀ k : α, l2d_area (fun x => |x|) (k * x0) (k * y0) (k * x1) (k * y1) (k * x2) (k * y2)
      = k ^ 2 * l2d_area (fun x => |x|) x0 y0 x1 y1 x2 y2) ∧
    (0 ≤ l2d_uniform_loss sqrt (fun x => |x|) x0 y0 x1 y1 x2 y2 ∧
     l2d_uniform_loss sqrt (fun x => |x|) x0 y0 x1 y1 x2 y2 * l2d_uniform_loss sqrt (fun x => |x|) x0 y0 x1 y1 x2 y2
       = l2d_area (fun x => |x|) x0 y0 x1 y1 x2 y2) ∧
    (∀ k : α, l2d_uniform_loss sqrt (fun x => |x|) (k * x0) (k * y0) (k * x1) (k * y1) (k * x2) (k * y2)
      = |k| * l2d_uniform_loss sqrt (fun x => |x|) x0 y0 x1 y1 x2 y2) :=
  ⟨l2d_area_eq_abs_det _ _ _ _ _ _, l2d_area_eq_nd_volume2 _ _ _ _ _ _ _, l2d_area_perm _ _ _ _ _ _,
    fun s t => l2d_area_translate _ s t _ _ _ _ _ _,
    fun a b c d h1 h2 h3 => l2d_area_orthogonal a b c d h1 h2 h3 _ _ _ _ _ _,
    fun k => l2d_area_scale k _ _ _ _ _ _, l2d_uniform_loss_sq sqrt hs _ _ _ _ _ _,
    fun k => l2d_uniform_loss_scale sqrt hs k _ _ _ _ _ _⟩

/-! ## Learner2D: `choose_point_in_triangle` -/

/-- C20.l2d.choose  the point is the centroid (badness `≤ max_badness`) or the midpoint of the FIRST longest edge in
the order `ca, ab, bc` (badness `> max_badness`); in both cases a convex combination of the vertices; the badness is
`longest² / area · sqrt 3 / 4` -/
theorem l2d_choose_headline (sqrt : α → α) (hs : SqrtLaw sqrt) (mb ax ay bx by' cx cy : α) :
    ((l2d_badness sqrt (fun x => |x|) ax ay bx by' cx cy ≤ mb ∧
        l2d_choose sqrt (fun x => |x|) mb ax ay bx by' cx cy
          = (((ax + bx) + cx) / 3, ((ay + by') + cy) / 3)) ∨
     (mb < l2d_badness sqrt (fun x => |x|) ax ay bx by' cx cy ∧
        ((dsq2 bx by' ax ay ≤ dsq2 ax ay cx cy ∧ dsq2 cx cy bx by' ≤ dsq2 ax ay cx cy ∧
            l2d_choose sqrt (fun x => |x|) mb ax ay bx by' cx cy = ((cx + ax) / 2, (cy + ay) / 2)) ∨
         (dsq2 ax ay cx cy < dsq2 bx by' ax ay ∧ dsq2 cx cy bx by' ≤ dsq2 bx by' ax ay ∧
            l2d_choose sqrt (fun x => |x|) mb ax ay bx by' cx cy = ((ax + bx) / 2, (ay + by') / 2)) ∨
         (dsq2 ax ay cx cy < dsq2 cx cy bx by' ∧ dsq2 bx by' ax ay < dsq2 cx cy bx by' ∧
            l2d_choose sqrt (fun x => |x|) mb ax ay bx by' cx cy = ((bx + cx) / 2, (by' + cy) / 2))))) ∧
    (∃ l0 l1 l2 : α, 0 ≤ l0 ∧ 0 ≤ l1 ∧ 0 ≤ l2 ∧ l0 + l1 + l2 = 1 ∧
      (l2d_choose sqrt (fun x => |x|) mb ax ay bx by' cx cy).1 = l0 * ax + l1 * bx + l2 * cx ∧
      (l2d_choose sqrt (fun x => |x|) mb ax ay bx by' cx cy).2 = l0 * ay + l1 * by' + l2 * cy) ∧
    l2d_badness sqrt (fun x => |x|) ax ay bx by' cx cy
      = max (max (dsq2 ax ay cx cy) (dsq2 bx by' ax ay)) (dsq2 cx cy bx by') / (|cross2 ax ay bx by' cx cy| / 2)
          * (sqrt 3 / 4) := by
  refine ⟨?_, l2d_choose_convex _ _ _ _ _ _ _ _ _, l2d_badness_eq sqrt hs _ _ _ _ _ _⟩
  rcases l2d_choose_cases sqrt (fun x => |x|) mb ax ay bx by' cx cy with ⟨h, e⟩ | ⟨h, e⟩
  · left; exact ⟨h, e⟩
  · right; refine ⟨h, ?_⟩
    rcases l2d_longest_spec sqrt hs ax ay bx by' cx cy with ⟨i, a, b⟩ | ⟨i, a, b⟩ | ⟨i, a, b⟩ <;> rw [i] at e
    · left; exact ⟨a, b, e⟩
    · right; left; exact ⟨a, b, e⟩
    · right; right; exact ⟨a, b, e⟩

/-- C20.l2d.choose.equivariance  the chosen point moves with a translation and scales with a positive factor (the
badness has degree 0) -/
theorem l2d_choose_equivariant (sqrt : α → α) (hs : SqrtLaw sqrt) (mb ax ay bx by' cx cy : α) :
    (∀ s t : α, l2d_choose sqrt (fun x => |x|) mb (ax + s) (ay + t) (bx + s) (by' + t) (cx + s) (cy + t)
      = ((l2d_choose sqrt (fun x => |x|) mb ax ay bx by' cx cy).1 + s,
         (l2d_choose sqrt (fun x => |x|) mb ax ay bx by' cx cy).2 + t)) ∧
    (∀ k : α, 0 < k → l2d_choose sqrt (fun x => |x|) mb (k * ax) (k * ay) (k * bx) (k * by') (k * cx) (k * cy)
      = (k * (l2d_choose sqrt (fun x => |x|) mb ax ay bx by' cx cy).1,
         k * (l2d_choose sqrt (fun x => |x|) mb ax ay bx by' cx cy).2)) :=
  ⟨fun s t => l2d_choose_translate _ _ mb s t _ _ _ _ _ _, fun k hk => l2d_choose_scale sqrt hs k hk mb _ _ _ _ _ _⟩

/-- C20.l2d.choose.threshold  which branch, as a function of `max_badness` (non-degenerate triangle); an equilateral
triangle has badness `1` -/
theorem l2d_choose_threshold (sqrt : α → α) (hs : SqrtLaw sqrt) (mb ax ay bx by' cx cy : α)
    (h : cross2 ax ay bx by' cx cy ≠ 0) :
    (l2d_choose sqrt (fun x => |x|) mb ax ay bx by' cx cy
        = l2d_edge_mid (l2d_longest sqrt ax ay bx by' cx cy) ax ay bx by' cx cy ∧
      mb * (2 * |cross2 ax ay bx by' cx cy|)
        < max (max (dsq2 ax ay cx cy) (dsq2 bx by' ax ay)) (dsq2 cx cy bx by') * sqrt 3) ∨
    (l2d_choose sqrt (fun x => |x|) mb ax ay bx by' cx cy = l2d_centroid ax ay bx by' cx cy ∧
      max (max (dsq2 ax ay cx cy) (dsq2 bx by' ax ay)) (dsq2 cx cy bx by') * sqrt 3
        ≤ mb * (2 * |cross2 ax ay bx by' cx cy|)) := by
  have k := l2d_choose_edge_iff sqrt hs mb ax ay bx by' cx cy h
  rcases l2d_choose_cases sqrt (fun x => |x|) mb ax ay bx by' cx cy with ⟨hb, e⟩ | ⟨hb, e⟩
  · right; exact ⟨e, not_lt.1 (fun c => absurd (k.2 c) (not_lt.2 hb))⟩
  · left; exact ⟨e, k.1 hb⟩

/-! ## Learner2D: `minimize_triangle_surface_loss` -/

/-- C20.l2d.surface  the loss is half the norm of the cross product of the embedded edges (its square is the Gram
determinant over 4), independent of the order of the vertices, homogeneous of degree 2 when `x`, `y` and the values
are scaled together (normalisation constant fixed), unchanged when values and normalisation constant are scaled
together; with constant values it is the area of the triangle -/
theorem l2d_surface_loss_headline (sqrt : α → α) (hs : SqrtLaw sqrt) (x0 y0 x1 y1 x2 y2 v0 v1 v2 c : α) :
    (0 ≤ l2d_surface_loss sqrt x0 y0 x1 y1 x2 y2 v0 v1 v2 c ∧
     l2d_surface_loss sqrt x0 y0 x1 y1 x2 y2 v0 v1 v2 c * l2d_surface_loss sqrt x0 y0 x1 y1 x2 y2 v0 v1 v2 c
       = gram3 (x0 - x2) (y0 - y2) (v0 / c - v2 / c) (x1 - x2) (y1 - y2) (v1 / c - v2 / c) / 4) ∧
    (l2d_surface_loss sqrt x1 y1 x0 y0 x2 y2 v1 v0 v2 c = l2d_surface_loss sqrt x0 y0 x1 y1 x2 y2 v0 v1 v2 c ∧
     l2d_surface_loss sqrt x0 y0 x2 y2 x1 y1 v0 v2 v1 c = l2d_surface_loss sqrt x0 y0 x1 y1 x2 y2 v0 v1 v2 c ∧
     l2d_surface_loss sqrt x2 y2 x1 y1 x0 y0 v2 v1 v0 c = l2d_surface_loss sqrt x0 y0 x1 y1 x2 y2 v0 v1 v2 c ∧
     l2d_surface_loss sqrt x1 y1 x2 y2 x0 y0 v1 v2 v0 c = l2d_surface_loss sqrt x0 y0 x1 y1 x2 y2 v0 v1 v2 c ∧
     l2d_surface_loss sqrt x2 y2 x0 y0 x1 y1 v2 v0 v1 c = l2d_surface_loss sqrt x0 y0 x1 y1 x2 y2 v0 v1 v2 c) ∧
    (∀ k : α, l2d_surface_loss sqrt (k * x0) (k * y0) (k * x1) (k * y1) (k * x2) (k * y2) (k * v0) (k * v1) (k * v2) c
      = k ^ 2 * l2d_surface_loss sqrt x0 y0 x1 y1 x2 y2 v0 v1 v2 c) ∧
    (∀ k : α, k ≠ 0 → l2d_surface_loss sqrt x0 y0 x1 y1 x2 y2 (k * v0) (k * v1) (k * v2) (k * c)
      = l2d_surface_loss sqrt x0 y0 x1 y1 x2 y2 v0 v1 v2 c) ∧
    l2d_surface_loss sqrt x0 y0 x1 y1 x2 y2 v0 v0 v0 c = l2d_area (fun x => |x|) x0 y0 x1 y1 x2 y2 ∧
    l2d_area (fun x => |x|) x0 y0 x1 y1 x2 y2 ≤ l2d_surface_loss sqrt x0 y0 x1 y1 x2 y2 v0 v1 v2 c :=
  ⟨l2d_surface_loss_sq sqrt hs _ _ _ _ _ _ _ _ _ _, l2d_surface_loss_perm sqrt _ _ _ _ _ _ _ _ _ _,
    fun k => l2d_surface_loss_scale sqrt hs k _ _ _ _ _ _ _ _ _ _,
    fun k hk => l2d_surface_loss_value_scale sqrt k hk _ _ _ _ _ _ _ _ _ _,
    l2d_surface_loss_flat sqrt hs _ _ _ _ _ _ _ _, l2d_area_le_surface_loss sqrt hs _ _ _ _ _ _ _ _ _ _⟩

/-! ## Learner1D: resolution cut-offs and curvature loss -/

/-- C20.l1d.resolution  the result is `0`, `inf` or the default loss: `0` iff `width < min_length`; `inf` iff
`min_length ≤ width` and `width > max_length` (both comparisons strict: an interval of width exactly `min_length` or
`max_length` keeps its loss); the loss itself iff `min_length ≤ width ≤ max_length`; widening the band keeps a loss -/
theorem l1d_resolution_headline (sqrt : α → α) (lo hi x0 x1 y0 y1 : α) :
    (l1d_resolution_cut sqrt lo hi x0 x1 y0 y1 = Cut.zero ↔ x1 - x0 < lo) ∧
    (l1d_resolution_cut sqrt lo hi x0 x1 y0 y1 = Cut.infinite ↔ lo ≤ x1 - x0 ∧ hi < x1 - x0) ∧
    (lo ≤ hi → (l1d_resolution_cut sqrt lo hi x0 x1 y0 y1 = Cut.infinite ↔ hi < x1 - x0)) ∧
    (l1d_resolution_cut sqrt lo hi x0 x1 y0 y1 = Cut.loss (l1d_default_loss sqrt x0 x1 y0 y1) ↔
      lo ≤ x1 - x0 ∧ x1 - x0 ≤ hi) ∧
    (∀ lo' hi' : α, lo' ≤ lo → hi ≤ hi' →
      l1d_resolution_cut sqrt lo hi x0 x1 y0 y1 = Cut.loss (l1d_default_loss sqrt x0 x1 y0 y1) →
      l1d_resolution_cut sqrt lo' hi' x0 x1 y0 y1 = Cut.loss (l1d_default_loss sqrt x0 x1 y0 y1)) :=
  ⟨l1d_resolution_cut_zero_iff _ _ _ _ _ _ _, l1d_resolution_cut_inf_iff _ _ _ _ _ _ _,
    l1d_resolution_cut_inf_iff' _ _ _ _ _ _ _, l1d_resolution_cut_loss_iff _ _ _ _ _ _ _,
    fun lo' hi' h1 h2 h => l1d_resolution_cut_mono _ _ _ lo' hi' _ _ _ _ h1 h2 h⟩

/-- with inconsistent thresholds (`min_length > max_length`) an interval wider than `max_length` can still get `0` -/
example : l1d_resolution_cut (fun x : ℚ => x) 3 1 0 2 0 0 = Cut.zero := by
  rw [l1d_resolution_cut_zero_iff]; norm_num

/-- C20.l1d.curvature  `area_factor · sqrt(triangle_loss) + euclid_factor · default_loss + horizontal_factor · dx`; the
three ingredients have degrees 2, 1, 1, the whole loss degree 1 -/
theorem l1d_curvature_headline (sqrt : α → α) (hs : SqrtLaw sqrt) (af ef hf x0 x1 x2 x3 y0 y1 y2 y3 : α) :
    l1d_curvature_loss4 sqrt (fun x => |x|) af ef hf x0 x1 x2 x3 y0 y1 y2 y3
      = af * sqrt (l1d_triangle_loss4 (fun x => |x|) x0 x1 x2 x3 y0 y1 y2 y3) + ef * l1d_default_loss sqrt x1 x2 y1 y2
        + hf * (x2 - x1) ∧
    (∀ k : α, l1d_triangle_loss4 (fun x => |x|) (k * x0) (k * x1) (k * x2) (k * x3) (k * y0) (k * y1) (k * y2) (k * y3)
        = k ^ 2 * l1d_triangle_loss4 (fun x => |x|) x0 x1 x2 x3 y0 y1 y2 y3 ∧
      l1d_default_loss sqrt (k * x1) (k * x2) (k * y1) (k * y2) = |k| * l1d_default_loss sqrt x1 x2 y1 y2 ∧
      l1d_uniform_loss (k * x1) (k * x2) (k * y1) (k * y2) = k * l1d_uniform_loss x1 x2 y1 y2) ∧
    (∀ k : α, 0 ≤ k →
      l1d_curvature_loss4 sqrt (fun x => |x|) af ef hf (k * x0) (k * x1) (k * x2) (k * x3) (k * y0) (k * y1) (k * y2) (k * y3)
        = k * l1d_curvature_loss4 sqrt (fun x => |x|) af ef hf x0 x1 x2 x3 y0 y1 y2 y3) :=
  ⟨rfl, fun k => l1d_curvature_parts_scale sqrt hs k _ _ _ _ _ _ _ _,
    fun k hk => l1d_curvature_loss4_scale sqrt hs k hk _ _ _ _ _ _ _ _ _ _ _⟩

/-! ## LearnerND: `default_loss` on a 2-D domain, scalar values -/

/-- C20.nd.default2  the loss is the area of the embedded triangle `(x, y, value)`: never rejected in exact
arithmetic, non-negative, its square is the Gram determinant of the embedded edges over 4; the same number as
Learner2D's surface loss with normalisation 1; independent of the order of the vertices; homogeneous of degree 2
under joint scaling; with constant values the area of the triangle of the plane -/
theorem nd_default_loss2_headline (sqrt : α → α) (hs : SqrtLaw sqrt) (negtol x0 y0 x1 y1 x2 y2 v0 v1 v2 sc : α) :
    (∃ r : α, nd_default_loss2 sqrt negtol x0 y0 x1 y1 x2 y2 v0 v1 v2 sc = some r ∧ 0 ≤ r ∧
      r * r = gram3 (x1 - x0) (y1 - y0) (v1 - v0) (x2 - x0) (y2 - y0) (v2 - v0) / 4) ∧
    nd_default_loss2 sqrt negtol x0 y0 x1 y1 x2 y2 v0 v1 v2 sc = some (l2d_surface_loss sqrt x0 y0 x1 y1 x2 y2 v0 v1 v2 1) ∧
    (nd_default_loss2 sqrt negtol x1 y1 x0 y0 x2 y2 v1 v0 v2 sc = nd_default_loss2 sqrt negtol x0 y0 x1 y1 x2 y2 v0 v1 v2 sc ∧
     nd_default_loss2 sqrt negtol x0 y0 x2 y2 x1 y1 v0 v2 v1 sc = nd_default_loss2 sqrt negtol x0 y0 x1 y1 x2 y2 v0 v1 v2 sc ∧
     nd_default_loss2 sqrt negtol x2 y2 x1 y1 x0 y0 v2 v1 v0 sc = nd_default_loss2 sqrt negtol x0 y0 x1 y1 x2 y2 v0 v1 v2 sc ∧
     nd_default_loss2 sqrt negtol x1 y1 x2 y2 x0 y0 v1 v2 v0 sc = nd_default_loss2 sqrt negtol x0 y0 x1 y1 x2 y2 v0 v1 v2 sc ∧
     nd_default_loss2 sqrt negtol x2 y2 x0 y0 x1 y1 v2 v0 v1 sc = nd_default_loss2 sqrt negtol x0 y0 x1 y1 x2 y2 v0 v1 v2 sc) ∧
    (∀ k sc' : α,
      nd_default_loss2 sqrt negtol (k * x0) (k * y0) (k * x1) (k * y1) (k * x2) (k * y2) (k * v0) (k * v1) (k * v2) sc'
        = (nd_default_loss2 sqrt negtol x0 y0 x1 y1 x2 y2 v0 v1 v2 sc).map (fun r => k ^ 2 * r)) ∧
    nd_default_loss2 sqrt negtol x0 y0 x1 y1 x2 y2 v0 v0 v0 sc = some (nd_volume2 (fun x => |x|) x0 y0 x1 y1 x2 y2) :=
  ⟨nd_default_loss2_sq sqrt hs _ _ _ _ _ _ _ _ _ _ _, nd_default_loss2_eq_surface_loss sqrt _ _ _ _ _ _ _ _ _ _ _,
    nd_default_loss2_perm sqrt _ _ _ _ _ _ _ _ _ _ _,
    fun k sc' => nd_default_loss2_scale sqrt hs negtol k _ _ _ _ _ _ _ _ _ sc sc',
    nd_default_loss2_flat sqrt hs _ _ _ _ _ _ _ _ _⟩

/-! ## `triangulation.orientation` -/

/-- C20.orientation  the sign of the determinant of the rows `face_i − origin` from the cut on, `0` below it;
antisymmetric in the face points; invariant under a common translation of face and origin -/
theorem orientation_headline (thr f0x f0y f1x f1y ox oy : α) :
    (|orientation_det2 f0x f0y f1x f1y ox oy| < thr → orientation2 (fun x => |x|) thr f0x f0y f1x f1y ox oy = 0) ∧
    (thr ≤ |orientation_det2 f0x f0y f1x f1y ox oy| →
      orientation2 (fun x => |x|) thr f0x f0y f1x f1y ox oy = sgn (cross2 ox oy f0x f0y f1x f1y)) ∧
    orientation_det2 f0x f0y f1x f1y ox oy = Matrix.det !![f0x - ox, f0y - oy; f1x - ox, f1y - oy] ∧
    orientation2 (fun x => |x|) thr f1x f1y f0x f0y ox oy = -orientation2 (fun x => |x|) thr f0x f0y f1x f1y ox oy ∧
    (∀ s t : α, orientation2 (fun x => |x|) thr (f0x + s) (f0y + t) (f1x + s) (f1y + t) (ox + s) (oy + t)
      = orientation2 (fun x => |x|) thr f0x f0y f1x f1y ox oy) :=
  ⟨(orientation_of_det_eq thr _).1, orientation2_sign thr _ _ _ _ _ _, orientation_det2_eq_det _ _ _ _ _ _,
    orientation2_swap thr _ _ _ _ _ _, fun s t => orientation2_translate _ thr s t _ _ _ _ _ _⟩

theorem orientation3_headline (thr f0x f0y f0z f1x f1y f1z f2x f2y f2z ox oy oz : α) :
    (|orientation_det3 f0x f0y f0z f1x f1y f1z f2x f2y f2z ox oy oz| < thr →
      orientation3 (fun x => |x|) thr f0x f0y f0z f1x f1y f1z f2x f2y f2z ox oy oz = 0) ∧
    (thr ≤ |orientation_det3 f0x f0y f0z f1x f1y f1z f2x f2y f2z ox oy oz| →
      orientation3 (fun x => |x|) thr f0x f0y f0z f1x f1y f1z f2x f2y f2z ox oy oz
        = sgn (cross3 ox oy oz f0x f0y f0z f1x f1y f1z f2x f2y f2z)) ∧
    orientation_det3 f0x f0y f0z f1x f1y f1z f2x f2y f2z ox oy oz
      = Matrix.det !![f0x - ox, f0y - oy, f0z - oz; f1x - ox, f1y - oy, f1z - oz; f2x - ox, f2y - oy, f2z - oz] ∧
    orientation3 (fun x => |x|) thr f1x f1y f1z f0x f0y f0z f2x f2y f2z ox oy oz
      = -orientation3 (fun x => |x|) thr f0x f0y f0z f1x f1y f1z f2x f2y f2z ox oy oz ∧
    orientation3 (fun x => |x|) thr f0x f0y f0z f2x f2y f2z f1x f1y f1z ox oy oz
      = -orientation3 (fun x => |x|) thr f0x f0y f0z f1x f1y f1z f2x f2y f2z ox oy oz ∧
    orientation3 (fun x => |x|) thr f2x f2y f2z f1x f1y f1z f0x f0y f0z ox oy oz
      = -orientation3 (fun x => |x|) thr f0x f0y f0z f1x f1y f1z f2x f2y f2z ox oy oz ∧
    (∀ s t r : α, orientation3 (fun x => |x|) thr (f0x + s) (f0y + t) (f0z + r) (f1x + s) (f1y + t) (f1z + r)
        (f2x + s) (f2y + t) (f2z + r) (ox + s) (oy + t) (oz + r)
      = orientation3 (fun x => |x|) thr f0x f0y f0z f1x f1y f1z f2x f2y f2z ox oy oz) :=
  ⟨(orientation_of_det_eq thr _).1, orientation3_sign thr _ _ _ _ _ _ _ _ _ _ _ _,
    orientation_det3_eq_det _ _ _ _ _ _ _ _ _ _ _ _, orientation3_swap01 thr _ _ _ _ _ _ _ _ _ _ _ _,
    orientation3_swap12 thr _ _ _ _ _ _ _ _ _ _ _ _, orientation3_swap02 thr _ _ _ _ _ _ _ _ _ _ _ _,
    fun s t r => orientation3_translate _ thr s t r _ _ _ _ _ _ _ _ _ _ _ _⟩

/-- C20.orientation.scale  NOT scale invariant: the cut is on the ABSOLUTE value of the determinant, so for every
positive cut every configuration — also a non-degenerate one with orientation `±1` — reports `0` once scaled down
far enough (the recorded finding about the absolute log-det cut); scaling UP keeps a non-zero answer -/
theorem orientation_not_scale_invariant (thr f0x f0y f1x f1y ox oy : α) (ht : 0 < thr) :
    (∃ k : α, 0 < k ∧ k ≤ 1 ∧
      orientation2 (fun x => |x|) thr (k * f0x) (k * f0y) (k * f1x) (k * f1y) (k * ox) (k * oy) = 0) ∧
    (∀ k : α, 1 ≤ k → thr ≤ |orientation_det2 f0x f0y f1x f1y ox oy| →
      orientation2 (fun x => |x|) thr (k * f0x) (k * f0y) (k * f1x) (k * f1y) (k * ox) (k * oy)
        = orientation2 (fun x => |x|) thr f0x f0y f1x f1y ox oy) :=
  ⟨orientation2_not_scale_invariant thr _ _ _ _ _ _ ht, fun k hk h => orientation2_scale_up thr k _ _ _ _ _ _ hk h⟩

/-- the double `exp(-50) = 1.9287498479639178e-22` the driver uses as the cut, exactly -/
def orientationCut : ℚ := 8203994543294527 / 42535295865117307932921825928971026432

/-- KERNEL-CHECKED COUNTEREXAMPLE with the real cut: the face `(1,0), (0,1)` seen from the origin has orientation `1`;
the same configuration scaled by `2⁻⁴⁰` (determinant `2⁻⁸⁰ ≈ 8.3e-25`, a perfectly well-shaped right triangle with legs
`≈ 9.1e-13`) has orientation `0`; in space already the scale `2⁻²⁵ ≈ 3e-8` is enough -/
example : orientation2 (fun x : ℚ => |x|) orientationCut 1 0 0 1 0 0 = 1 ∧
    orientation2 (fun x : ℚ => |x|) orientationCut (1 / 2 ^ 40) 0 0 (1 / 2 ^ 40) 0 0 = 0 ∧
    orientation3 (fun x : ℚ => |x|) orientationCut 1 0 0 0 1 0 0 0 1 0 0 0 = 1 ∧
    orientation3 (fun x : ℚ => |x|) orientationCut (1 / 2 ^ 25) 0 0 0 (1 / 2 ^ 25) 0 0 0 (1 / 2 ^ 25) 0 0 0 = 0 := by
  refine ⟨?_, ?_, ?_, ?_⟩ <;>
    norm_num [orientation2, orientation3, orientation_of_det, orientation_det2, orientation_det3, fast_det2, fast_det3,
      sgn, orientationCut]

/-! ## non-vacuity over ℚ: every branch is taken

`qsqrt` is exact on the perfect squares that occur (and `7/4` for `sqrt 3`, which only enters the badness). -/

def qsqrt (x : ℚ) : ℚ :=
  if x = 25 then 5 else if x = 16 then 4 else if x = 9 then 3 else if x = 4 then 2 else if x = 1 then 1
  else if x = 3 then 7 / 4 else if x = 20 then 9 / 2 else 0

example : l2d_area (fun x : ℚ => |x|) 0 0 1 0 0 1 = 1 / 2 := by norm_num [l2d_area]
example : l2d_area (fun x : ℚ => |x|) 0 0 1 1 2 2 = 0 := by norm_num [l2d_area]
example : l2d_uniform_loss qsqrt (fun x : ℚ => |x|) 0 0 4 0 0 2 = 2 := by norm_num [l2d_uniform_loss, l2d_area, qsqrt]
example : l2d_surface_loss qsqrt (0 : ℚ) 0 4 0 0 2 7 7 7 1 = 4 := by
  norm_num [l2d_surface_loss, l2d_surface_loss_radicand, l2d_surface_cross, qsqrt]
example : l2d_surface_loss qsqrt (2 : ℚ) 0 0 2 0 0 2 4 0 2 = 3 := by
  norm_num [l2d_surface_loss, l2d_surface_loss_radicand, l2d_surface_cross, qsqrt]
example : l2d_value_scale (3 : ℚ) 5 = 2 ∧ l2d_value_scale (3 : ℚ) 3 = 1 := by norm_num [l2d_value_scale]

/-- the 3-4-5 triangle: edges `|a−c| = 3`, `|b−a| = 4`, `|c−b| = 5`, area 6, badness `25/6 · 7/16 ≈ 1.82` -/
example : l2d_longest qsqrt (0 : ℚ) 0 4 0 0 3 = 2 ∧
    l2d_badness qsqrt (fun x : ℚ => |x|) 0 0 4 0 0 3 = 175 / 96 ∧
    l2d_choose qsqrt (fun x : ℚ => |x|) 5 0 0 4 0 0 3 = (4 / 3, 1) ∧
    l2d_choose qsqrt (fun x : ℚ => |x|) 1 0 0 4 0 0 3 = (2, 3 / 2) := by
  refine ⟨?_, ?_, ?_, ?_⟩ <;>
    norm_num [l2d_choose, l2d_badness, l2d_longest, l2d_edge_lengths, l2d_choose_area, l2d_edge_mid, l2d_centroid,
      argmax3, sel3, qsqrt]

/-- the other two edges selected (relabelled 3-4-5 triangle), and a TIE (`|a−c| = |b−a| = 5 > |c−b|`): the first wins -/
example : l2d_choose qsqrt (fun x : ℚ => |x|) 1 0 3 0 0 4 0 = (2, 3 / 2) ∧
    l2d_longest qsqrt (0 : ℚ) 3 0 0 4 0 = 0 ∧
    l2d_choose qsqrt (fun x : ℚ => |x|) 1 4 0 0 3 0 0 = (2, 3 / 2) ∧
    l2d_longest qsqrt (4 : ℚ) 0 0 3 0 0 = 1 ∧
    l2d_longest qsqrt (0 : ℚ) 0 3 4 5 0 = 0 ∧
    l2d_choose qsqrt (fun x : ℚ => |x|) 1 0 0 3 4 5 0 = (5 / 2, 0) := by
  refine ⟨?_, ?_, ?_, ?_, ?_, ?_⟩ <;>
    norm_num [l2d_choose, l2d_badness, l2d_longest, l2d_edge_lengths, l2d_choose_area, l2d_edge_mid, l2d_centroid,
      argmax3, sel3, qsqrt]

/-- resolution cut-offs: below, inside (including both end points), above the band -/
example : l1d_resolution_cut qsqrt (1 : ℚ) 4 0 (1 / 2) 0 0 = Cut.zero ∧
    l1d_resolution_cut qsqrt (1 : ℚ) 4 0 1 0 0 = Cut.loss 1 ∧
    l1d_resolution_cut qsqrt (1 : ℚ) 4 0 3 0 4 = Cut.loss 5 ∧
    l1d_resolution_cut qsqrt (1 : ℚ) 4 0 4 0 3 = Cut.loss 5 ∧
    l1d_resolution_cut qsqrt (1 : ℚ) 4 0 5 0 0 = Cut.infinite ∧
    l1d_resolution_loss qsqrt 1000 (1 : ℚ) 4 0 5 0 0 = 1000 ∧
    l1d_resolution_loss qsqrt 1000 (1 : ℚ) 4 0 (1 / 2) 0 0 = 0 := by
  refine ⟨?_, ?_, ?_, ?_, ?_, ?_, ?_⟩ <;>
    norm_num [l1d_resolution_loss, l1d_resolution_cut, Cut.toScalar, l1d_uniform_loss, l1d_default_loss, qsqrt]

/-- curvature loss: `xs = 0,1,2,3`, `ys = 0,0,8,8`: both triangles have area 4, `default_loss = sqrt 65 ↦ 0` under `qsqrt` -/
example : l1d_curvature_loss4 qsqrt (fun x : ℚ => |x|) 1 0 (1 / 2) 0 1 2 3 0 0 8 8 = 5 / 2 := by
  norm_num [l1d_curvature_loss4, l1d_curvature_combine, l1d_triangle_loss4, l1d_default_loss, qsqrt]

/-- LearnerND default loss: constant values (legs 4 and 2: area 4), a tilted triangle (`|u × v|² / 4 = 17/4`), three
collinear embedded points (`vol_square = 0`) -/
example : nd_default_loss2 qsqrt (-(1 / 1000000000000000) : ℚ) 0 0 4 0 0 2 7 7 7 1 = some 4 ∧
    nd_default_loss2_volsq (0 : ℚ) 0 1 0 0 1 0 4 0 = 17 / 4 ∧
    nd_default_loss2_volsq (0 : ℚ) 0 1 1 2 2 0 1 2 = 0 := by
  refine ⟨?_, ?_, ?_⟩ <;>
    norm_num [nd_default_loss2, nd_default_loss2_of_volsq, nd_default_loss2_volsq, cayleyMenger3, det4, fast_det3, sqeuclid3, qsqrt]

/-- orientation: both signs, exactly degenerate, below the cut -/
example : orientation2 (fun x : ℚ => |x|) orientationCut 1 0 0 1 0 0 = 1 ∧
    orientation2 (fun x : ℚ => |x|) orientationCut 0 1 1 0 0 0 = -1 ∧
    orientation2 (fun x : ℚ => |x|) orientationCut 1 1 2 2 0 0 = 0 ∧
    orientation3 (fun x : ℚ => |x|) orientationCut 0 1 0 1 0 0 0 0 1 0 0 0 = -1 := by
  refine ⟨?_, ?_, ?_, ?_⟩ <;>
    norm_num [orientation2, orientation3, orientation_of_det, orientation_det2, orientation_det3, fast_det2, fast_det3,
      sgn, orientationCut]

/-- `Real.sqrt` satisfies `SqrtLaw` (`C20.real_sqrt_law`): the theorems above are not vacuous -/
example : SqrtLaw Real.sqrt := real_sqrt_law

end C20
