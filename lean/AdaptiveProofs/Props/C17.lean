import AdaptiveProofs.Lemmas.SeqInv

/-!
# C17 — SequenceLearner: every element handed out once, in order; results in order

Property theorems only (helper lemmas are in `Lemmas/Seq*.lean`).  All theorems
quantify over every sequence length, every value type, every request size and
every finite list of operations (`ask n commit`, `tell i v` with `i < ntotal`, explicit
`tell_pending i` of an element without result, `remove_unfinished`); nothing is bounded.
-/
namespace Seq
variable {β : Type}

/-- C17.a  In every reachable state the to-do indices, the pending indices and the
evaluated indices are pairwise disjoint and together are exactly `range ntotal`. -/
theorem seq_partition_inv (n : Nat) (ops : List (Op β)) (hv : ValidOps (init n) ops) :
    Inv (run (init n) ops) :=
  inv_run ops _ (inv_init n) hv

/-- C17.b  `ask n` hands out the `min n |todo|` smallest indices that are neither
evaluated nor pending, in increasing order. -/
theorem seq_ask_order {s : State β} (h : Inv s) (n : Nat) (c : Bool) :
    let pts := (ask s n c).1
    pts.Pairwise (· < ·) ∧
    pts.length = min n s.todo.length ∧
    (∀ i ∈ pts, i < s.ntotal ∧ i ∉ s.pending ∧ i ∉ keys s) ∧
    (∀ j, j < s.ntotal → j ∉ s.pending → j ∉ keys s → j ∉ pts → ∀ i ∈ pts, i < j) := by
  simp only [ask, askPoints]
  refine ⟨h.todo_sorted.sublist (List.take_sublist _ _), List.length_take, ?_, ?_⟩
  · intro i hi
    have hi' := List.mem_of_mem_take hi
    exact ⟨(h.cover i).2 (Or.inl hi'), h.disj_tp i hi', h.disj_td i hi'⟩
  · intro j hj hjp hjd hjn i hi
    have hjt : j ∈ s.todo := by
      rcases (h.cover j).1 hj with x | x | x
      · exact x
      · exact absurd x hjp
      · exact absurd x hjd
    have hjdrop : j ∈ s.todo.drop n := by
      have := List.take_append_drop n s.todo
      rw [← this] at hjt
      rcases List.mem_append.1 hjt with x | x
      · exact absurd x hjn
      · exact x
    have hs := h.todo_sorted
    rw [← List.take_append_drop n s.todo, List.pairwise_append] at hs
    exact hs.2.2 i hi j hjdrop

/-- C17.c  Fewer points than requested only when nothing is left: after a committing
ask that returned fewer than `n` points the to-do set is empty. -/
theorem seq_short_only_if_exhausted {s : State β} (h : Inv s) (n : Nat)
    (hlt : (ask s n true).1.length < n) : (ask s n true).2.todo = [] := by
  simp only [ask, askPoints, if_true] at hlt ⊢
  have hspec := (foldl_tellPending_spec (s.todo.take n) s h
    (take_sorted_nodup h.todo_sorted n) (fun i hi => List.mem_of_mem_take hi)).2.2.2.1
  rw [List.length_take] at hlt
  have hle : s.todo.length ≤ n := by omega
  rw [List.take_of_length_le hle] at hspec ⊢
  apply List.eq_nil_iff_forall_not_mem.2
  intro j hj
  exact ((hspec j).1 hj).2 ((hspec j).1 hj).1

/-- C17.d  Between two discards no index is handed out twice, and an index that has a
result is never handed out again (even after a discard): along any valid run without
`remove_unfinished` the indices returned by committing asks are pairwise distinct and
never have data at the time they are returned. -/
theorem seq_no_repeat :
    ∀ (ops : List (Op β)) (s : State β), Inv s → ValidOps s ops →
      (∀ op ∈ ops, op ≠ Op.removeUnfinished) →
      (handedOut s ops).Nodup ∧ ∀ i ∈ handedOut s ops, i ∈ s.todo := by
  intro ops
  induction ops with
  | nil => intro s _ _ _; simp [handedOut]
  | cons op ops ih =>
    intro s h hv hnr
    have hnr' : ∀ op' ∈ ops, op' ≠ Op.removeUnfinished := fun o ho => hnr o (by simp [ho])
    obtain ⟨ihnd, ihmem⟩ := ih (step s op) (inv_step h op hv.1) hv.2 hnr'
    cases op with
    | removeUnfinished => exact absurd rfl (hnr _ (by simp))
    | tell i v =>
      simp only [handedOut, List.nil_append]
      refine ⟨ihnd, fun j hj => ?_⟩
      have := ihmem j hj
      simp only [step, tell, mem_erase_sorted h.todo_sorted] at this
      exact this.2
    | tellPending i =>
      simp only [handedOut, List.nil_append]
      refine ⟨ihnd, fun j hj => ?_⟩
      have := ihmem j hj
      simp only [step, tellPending, mem_erase_sorted h.todo_sorted] at this
      exact this.2
    | ask n c =>
      cases c with
      | false =>
        simp only [handedOut, List.nil_append]
        refine ⟨ihnd, fun j hj => ?_⟩
        simpa [step, ask] using ihmem j hj
      | true =>
        simp only [handedOut]
        have hspec := (foldl_tellPending_spec (askPoints s n) s h
          (take_sorted_nodup h.todo_sorted n) (fun i hi => List.mem_of_mem_take hi)).2.2.2.1
        have hstep : ∀ j, j ∈ (step s (Op.ask n true)).todo ↔ j ∈ s.todo ∧ j ∉ askPoints s n := by
          intro j; simpa [step, ask] using hspec j
        refine ⟨?_, ?_⟩
        · refine List.nodup_append.2 ⟨take_sorted_nodup h.todo_sorted n, ihnd, ?_⟩
          intro a ha b hb hab
          subst hab
          exact ((hstep a).1 (ihmem a hb)).2 ha
        · intro j hj
          rcases List.mem_append.1 hj with x | x
          · exact List.mem_of_mem_take x
          · exact ((hstep j).1 (ihmem j x)).1

/-- C17.e  `done()` holds exactly when every element has a result; then the keys of
`data` are `0,1,…,ntotal-1` in this order. -/
theorem seq_done_iff {s : State β} (h : Inv s) :
    (done s = true ↔ ∀ i, i < s.ntotal → i ∈ keys s) ∧
    (done s = true → keys s = List.range s.ntotal) := by
  have hd : done s = true ↔ s.todo = [] ∧ s.pending = [] := by
    simp [done, List.isEmpty_iff]
  have hfwd : done s = true → ∀ i, i < s.ntotal → i ∈ keys s := by
    intro hdn i hi
    obtain ⟨a, b⟩ := hd.1 hdn
    have := (h.cover i).1 hi
    simpa [a, b] using this
  refine ⟨⟨hfwd, ?_⟩, ?_⟩
  · intro hall
    rw [hd]
    constructor
    · apply List.eq_nil_iff_forall_not_mem.2
      intro j hj
      exact h.disj_td j hj (hall j ((h.cover j).2 (Or.inl hj)))
    · apply List.eq_nil_iff_forall_not_mem.2
      intro j hj
      exact h.disj_pd j hj (hall j ((h.cover j).2 (Or.inr (Or.inl hj))))
  · intro hdn
    have hperm : List.Perm (keys s) (List.range s.ntotal) := by
      rw [List.perm_ext_iff_of_nodup (lt_pairwise_nodup h.data_sorted)
        (lt_pairwise_nodup List.pairwise_lt_range)]
      intro a
      simp only [List.mem_range]
      constructor
      · intro ha; exact (h.cover a).2 (Or.inr (Or.inr ha))
      · exact hfwd hdn a
    exact List.Perm.eq_of_pairwise (le := (· < ·))
      (fun a b _ _ hab hba => absurd hab (Nat.lt_asymm hba))
      h.data_sorted List.pairwise_lt_range hperm

/-- C17.f  The loss is the fraction still missing: its numerator (denominator `ntotal`)
is the number of elements without a result (`real`), respectively the number neither
evaluated nor pending (`real = false`); it is `0` exactly when done. -/
theorem seq_loss_fraction {s : State β} (h : Inv s) :
    lossNum s true = s.ntotal - npoints s ∧
    lossNum s true = s.todo.length + s.pending.length ∧
    lossNum s false = s.todo.length ∧
    (lossNum s true = 0 ↔ done s = true) := by
  have hc := seq_count h
  have hd : done s = true ↔ s.todo = [] ∧ s.pending = [] := by
    simp [done, List.isEmpty_iff]
  by_cases hdn : done s = true
  · obtain ⟨a, b⟩ := hd.1 hdn
    simp only [a, b, List.length_nil] at hc
    simp [lossNum, hdn, a, b]; omega
  · have : s.todo.length + s.pending.length ≠ 0 := by
      intro h0
      apply hdn; rw [hd]
      exact ⟨List.eq_nil_of_length_eq_zero (by omega), List.eq_nil_of_length_eq_zero (by omega)⟩
    have e1 : lossNum s true = s.ntotal - npoints s := by simp [lossNum, hdn]
    have e2 : lossNum s false = s.ntotal - (npoints s + s.pending.length) := by
      simp [lossNum, hdn]
    exact ⟨e1, by omega, by omega, ⟨fun h0 => by omega, fun hx => absurd hx hdn⟩⟩

/-- C17.g  The result list is in sequence order whatever order the values arrived in:
when a run from the initial state ends done, `result()` has one entry per element and
entry `i` is the value of the last `tell` for index `i`. -/
theorem seq_result_sorted (n : Nat) (ops : List (Op β)) (hv : ValidOps (init n) ops)
    (hd : done (run (init n) ops) = true) :
    ∃ vs, result (run (init n) ops) = some vs ∧ vs.length = n ∧
      ∀ i, i < n → vs[i]? = lastTold ops i := by
  have hinv := seq_partition_inv n ops hv
  have hnt : (run (init n) ops).ntotal = n := by
    have : ∀ (ops : List (Op β)) (s : State β), (run s ops).ntotal = s.ntotal := by
      intro ops; induction ops with
      | nil => intro s; rfl
      | cons op ops ih => intro s; simp only [run, List.foldl_cons]; exact (ih _).trans (ntotal_step s op)
    simpa [init] using this ops (init n)
  have hkeys := (seq_done_iff hinv).2 hd
  rw [hnt] at hkeys
  refine ⟨(run (init n) ops).data.map Prod.snd, by simp [result, hd], ?_, ?_⟩
  · have := congrArg List.length hkeys
    simpa [keys] using this
  · intro i hi
    have hl := lookup_run ops (init n) i (inv_init n) hv
    have h0 : lookup i (init n : State β).data = none := by simp [init, lookup]
    rw [h0] at hl
    unfold lastTold
    rw [← hl]
    -- lookup in a dict whose keys are `range n` is positional
    simp only [keys] at hkeys
    generalize (run (init n) ops).data = d at hkeys ⊢
    have key : ∀ (d : List (Nat × β)) (k : Nat), d.map Prod.fst = List.range' k d.length →
        ∀ i, (d.map Prod.snd)[i]? = lookup (k + i) d := by
      intro d
      induction d with
      | nil => intro k _ i; simp [lookup]
      | cons kv r ihd =>
        intro k hk i
        obtain ⟨k', v'⟩ := kv
        simp only [List.map_cons, List.length_cons, List.range'_succ, List.cons.injEq] at hk
        obtain ⟨rfl, hr⟩ := hk
        cases i with
        | zero => simp [lookup]
        | succ i =>
          have := ihd (k' + 1) hr i
          simp only [List.map_cons, List.getElem?_cons_succ, lookup]
          rw [this]
          have hne : k' + (i + 1) ≠ k' := by omega
          rw [if_neg hne]; congr 1; omega
    have hlen : d.length = n := by
      have := congrArg List.length hkeys; simpa using this
    have := key d 0 (by rw [hkeys, hlen, List.range_eq_range']) i
    simpa using this

/-! ## Non-vacuity: concrete reachable states meet the hypotheses -/

/-- a run with out-of-order delivery and a discard: all ops valid, ends done,
results come out in sequence order -/
def exampleOps : List (Op Nat) :=
  [.ask 2 true, .tell 1 11, .ask 5 true, .removeUnfinished, .tell 3 13, .ask 1 false,
   .tell 0 10, .ask 9 true, .tell 2 12]

example : ValidOps (init 4) exampleOps := by decide
example : done (run (init 4) exampleOps) = true := by decide
example : result (run (init 4) exampleOps) = some [10, 11, 12, 13] := by decide
example : (handedOut (init 4) exampleOps) = [0, 1, 2, 3, 2] := by decide
example : (ask (run (init 5) [Op.tell 1 (7 : Nat), .ask 1 true]) 9 true).1 = [2, 3, 4] := by decide

end Seq
