import AdaptiveProofs.Lemmas.L1DAsk
import AdaptiveProofs.Lemmas.BalancingInv
import AdaptiveModel.Seq
import AdaptiveModel.Avg
import AdaptiveModel.DataSaver
import AdaptiveModel.SeqLearner

/-!
# C09 — asking without committing leaves a learner unchanged; committing is the same ask

Property theorems, one group per learner model.  "No observable effect" is proved in its strongest form:
the state returned by `ask n false` IS the state it was given (so data, pending points, both losses and
every later answer coincide trivially), and `ask n true` returns the same points/improvements and its
state is `tell_pending` folded over them.  For the wrappers the statement is generic over the wrapped
learner.  LearnerND and IntegratorLearner roll back with `utils.restore` (a snapshot of the attribute
dictionary); they have no Lean model here and are covered by the twin oracle of `harness/props/c09.py`.
-/
set_option linter.unusedSectionVars false
namespace C09

/-! ### Learner1D -/
section l1d
open L1D
variable {α : Type} [Field α] [LinearOrder α] [IsStrictOrderedRing α]
variable (lossFn : List (Option α) → List (Option (List α)) → Loss α) (r12 : α → α)

theorem l1d_ask_nocommit_noop (s : State α) (n : Nat) :
    (ask lossFn r12 s n false).2 = s ∧ (ask lossFn r12 s n false).1 = (ask lossFn r12 s n true).1 :=
  ⟨rfl, rfl⟩

theorem l1d_ask_repeat (s : State α) (n : Nat) :
    (ask lossFn r12 (ask lossFn r12 s n false).2 n false).1 = (ask lossFn r12 s n false).1 := rfl

/-- every later operation sequence behaves as if the non-committing ask had not happened -/
theorem l1d_later_unchanged (s : State α) (n : Nat) (ops : List (Op α)) :
    run lossFn r12 (step lossFn r12 s (.ask n false)) ops = run lossFn r12 s ops := rfl

theorem l1d_ask_commit_eq (s : State α) (n : Nat) :
    (ask lossFn r12 s n true).2 = ((ask lossFn r12 s n false).1.1).foldl (tellPending lossFn r12) s :=
  rfl
end l1d

/-! ### SequenceLearner -/
section seq
variable {β : Type}
theorem seq_ask_nocommit_noop (s : Seq.State β) (n : Nat) :
    (Seq.ask s n false).2 = s ∧ (Seq.ask s n false).1 = (Seq.ask s n true).1 := ⟨rfl, rfl⟩

theorem seq_later_unchanged (s : Seq.State β) (n : Nat) (ops : List (Seq.Op β)) :
    Seq.run (Seq.step s (.ask n false)) ops = Seq.run s ops := rfl

theorem seq_ask_commit_eq (s : Seq.State β) (n : Nat) :
    (Seq.ask s n true).2 = (Seq.ask s n false).1.foldl Seq.tellPending s := rfl
end seq

/-! ### AverageLearner: `ask` computes its points from the state without changing it (`askPoints` is a
pure function); committing is `tell_pending` of each returned seed (`Op.askCommit`). -/
section avg
variable {α : Type} [Add α] [Mul α]
theorem avg_ask_commit_eq (s : Avg.State α) (pts : List Nat) :
    Avg.step s (.askCommit pts) = pts.foldl Avg.tellPending s := rfl
end avg

/-! ### wrappers, generic over the wrapped learner -/
section wrappers
variable {σ P V R : Type} [DecidableEq P]

/-- DataSaver: if the wrapped learner's non-committing ask is a no-op, so is the wrapper's, and it
returns the wrapped learner's points in both modes. -/
theorem datasaver_ask_nocommit_noop (Lr : Learner σ P V) (pick : R → V)
    (h : ∀ c n, (Lr.ask c n false).2 = c) (s : DataSaver.State σ P R) (n : Nat) :
    ((DataSaver.wrap Lr pick).ask s n false).2 = s ∧
    ((DataSaver.wrap Lr pick).ask s n false).1 = (Lr.ask s.child n false).1 := by
  constructor
  · show ({ s with child := (Lr.ask s.child n false).2 } : DataSaver.State σ P R) = s
    rw [h]
  · rfl

/-- any learner whose non-committing ask returns its state: all later answers are unchanged -/
theorem learner_later_answers (Lr : Learner σ P V) (h : ∀ c n, (Lr.ask c n false).2 = c) (s : σ)
    (n : Nat) (ops : List (Learner.Op P V)) :
    Lr.answers (Lr.step s (.ask n false)) ops = Lr.answers s ops ∧
    Lr.run (Lr.step s (.ask n false)) ops = Lr.run s ops := by
  have e : Lr.step s (.ask n false) = s := by simp only [Learner.step, h]
  rw [e]
  exact ⟨rfl, rfl⟩

/-- BalancingLearner over lawful children: the non-committing ask restores children, caches and
rotation, and returns the committing ask's points. -/
theorem balancing_ask_nocommit_noop {L : Type} [LinearOrder L] (C : Balancing.Child σ P V L)
    (hL : Balancing.Lawful C) (s : Balancing.State σ P L) (n : Nat) :
    (Balancing.ask C s n false).2 = s ∧ (Balancing.ask C s n false).1 = (Balancing.ask C s n true).1 :=
  ⟨Balancing.ask_nocommit_noop hL s n, Balancing.ask_nocommit_points C s n⟩
end wrappers

end C09
