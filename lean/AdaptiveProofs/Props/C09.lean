import AdaptiveProofs.Lemmas.L1DAsk
import AdaptiveProofs.Lemmas.BalancingInv
import AdaptiveModel.Seq
import AdaptiveModel.Avg
import AdaptiveModel.DataSaver
import AdaptiveModel.SeqLearner
import AdaptiveModel.LND
import AdaptiveModel.Integ
import AdaptiveProofs.Props.C16Full
import AdaptiveProofs.Lemmas.L2D

/-!
# C09 — asking without committing leaves a learner unchanged; committing is the same ask

Property theorems, one group per learner model.  "No observable effect" is proved in its strongest form:
the state returned by `ask n false` IS the state it was given (so data, pending points, both losses and
every later answer coincide trivially), and `ask n true` returns the same points/improvements and its
state is `tell_pending` folded over them.  For the wrappers the statement is generic over the wrapped
learner.  LearnerND and IntegratorLearner roll back with `utils.restore` (a snapshot of the attribute
dictionary): their models (`LND.lean`, `Integ.lean`, tied to the code by the lock-step checks C04 / C07) return the
state they were given, also when the request fails; the committing half ("equivalent to marking each returned point
pending") is not proved for these two and is covered by the twin oracle of `harness/props/c09.py`.  Learner2D: see the
section `l2d` at the end of this file (bookkeeping model `AdaptiveModel/L2D.lean`, tied to the code by the lock-step check
`harness/l2d_drive.py`): its non-committing ask leaves `data` and `pending_points` exactly as they were, gives the committing
answer, and is a complete no-op when the request fails - but it REWRITES the private suggestion stack when it returns.
-/
set_option linter.unusedSectionVars false
namespace C09

/-! ### Learner1D -/
section l1d
open L1D
variable {α : Type} [Field α] [LinearOrder α] [IsStrictOrderedRing α]
variable (lossFn : List (Option α) → List (Option (List α)) → Loss α) (r12 : α → α)

theorem l1d_ask_nocommit_noop (s : State α) (n : Nat) :
    (ask lossFn r12 s n false).2 = s ∧ (ask lossFn r12 s n false).1 = (ask lossFn r12 s n true).1 :=
  ⟨rfl, rfl⟩

theorem l1d_ask_repeat (s : State α) (n : Nat) :
    (ask lossFn r12 (ask lossFn r12 s n false).2 n false).1 = (ask lossFn r12 s n false).1 := rfl

/-- every later operation sequence behaves as if the non-committing ask had not happened -/
theorem l1d_later_unchanged (s : State α) (n : Nat) (ops : List (Op α)) :
    run lossFn r12 (step lossFn r12 s (.ask n false)) ops = run lossFn r12 s ops := rfl

theorem l1d_ask_commit_eq (s : State α) (n : Nat) :
    (ask lossFn r12 s n true).2 = ((ask lossFn r12 s n false).1.1).foldl (tellPending lossFn r12) s :=
  rfl
end l1d

/-! ### SequenceLearner -/
section seq
variable {β : Type}
theorem seq_ask_nocommit_noop (s : Seq.State β) (n : Nat) :
    (Seq.ask s n false).2 = s ∧ (Seq.ask s n false).1 = (Seq.ask s n true).1 := ⟨rfl, rfl⟩

theorem seq_later_unchanged (s : Seq.State β) (n : Nat) (ops : List (Seq.Op β)) :
    Seq.run (Seq.step s (.ask n false)) ops = Seq.run s ops := rfl

theorem seq_ask_commit_eq (s : Seq.State β) (n : Nat) :
    (Seq.ask s n true).2 = (Seq.ask s n false).1.foldl Seq.tellPending s := rfl
end seq

/-! ### AverageLearner: `ask` computes its points from the state without changing it (`askPoints` is a
pure function); committing is `tell_pending` of each returned seed (`Op.askCommit`). -/
section avg
variable {α : Type} [Add α] [Mul α]
theorem avg_ask_commit_eq (s : Avg.State α) (pts : List Nat) :
    Avg.step s (.askCommit pts) = pts.foldl Avg.tellPending s := rfl
end avg

/-! ### wrappers, generic over the wrapped learner -/
section wrappers
variable {σ P V R : Type} [DecidableEq P]

/-- DataSaver: if the wrapped learner's non-committing ask is a no-op, so is the wrapper's, and it
returns the wrapped learner's points in both modes. -/
theorem datasaver_ask_nocommit_noop (Lr : Learner σ P V) (pick : R → V)
    (h : ∀ c n, (Lr.ask c n false).2 = c) (s : DataSaver.State σ P R) (n : Nat) :
    ((DataSaver.wrap Lr pick).ask s n false).2 = s ∧
    ((DataSaver.wrap Lr pick).ask s n false).1 = (Lr.ask s.child n false).1 := by
  constructor
  · show ({ s with child := (Lr.ask s.child n false).2 } : DataSaver.State σ P R) = s
    rw [h]
  · rfl

/-- any learner whose non-committing ask returns its state: all later answers are unchanged -/
theorem learner_later_answers (Lr : Learner σ P V) (h : ∀ c n, (Lr.ask c n false).2 = c) (s : σ)
    (n : Nat) (ops : List (Learner.Op P V)) :
    Lr.answers (Lr.step s (.ask n false)) ops = Lr.answers s ops ∧
    Lr.run (Lr.step s (.ask n false)) ops = Lr.run s ops := by
  have e : Lr.step s (.ask n false) = s := by simp only [Learner.step, h]
  rw [e]
  exact ⟨rfl, rfl⟩

/-- BalancingLearner over lawful children: the non-committing ask restores children, caches and
rotation, and returns the committing ask's points. -/
theorem balancing_ask_nocommit_noop {L : Type} [LinearOrder L] (C : Balancing.Child σ P V L)
    (hL : Balancing.Lawful C) (s : Balancing.State σ P L) (n : Nat) :
    (Balancing.ask C s n false).2 = s ∧ (Balancing.ask C s n false).1 = (Balancing.ask C s n true).1 :=
  ⟨Balancing.ask_nocommit_noop hL s n, Balancing.ask_nocommit_points C s n⟩
end wrappers

/-! ### LearnerND (model of C04; every geometric answer is an oracle `env`) -/
section lnd
variable {α : Type} [Sub α] [Mul α] [Div α] [LT α] [DecidableLT α]

/-- a non-committing ask that succeeds returns the state it was given and the points of the committing ask;
one that fails (e.g. `ValueError` from the triangulation) fails in both modes -/
theorem lnd_ask_nocommit_noop (env : LND.Env α) (s : LND.State α) (n : Nat) :
    (∀ rs s', LND.ask env s n false = .ok (rs, s') → s' = s ∧ ∃ s'', LND.ask env s n true = .ok (rs, s'')) ∧
    (∀ e, LND.ask env s n false = .error e ↔ LND.ask env s n true = .error e) := by
  unfold LND.ask
  cases LND.askLoop env n s with
  | error e => exact ⟨fun _ _ h' => (by cases h'), fun e' => Iff.rfl⟩
  | ok r =>
    obtain ⟨rs, s1⟩ := r
    refine ⟨fun rs' s' h' => ?_, fun e' => ⟨fun h' => (by cases h'), fun h' => (by cases h')⟩⟩
    simp only [Bool.false_eq_true, if_false, Except.ok.injEq, Prod.mk.injEq] at h'
    obtain ⟨rfl, rfl⟩ := h'
    exact ⟨rfl, s1, rfl⟩

/-- every later history behaves as if the non-committing ask had not happened -/
theorem lnd_later_unchanged (env : LND.Env α) (s s' : LND.State α) (n : Nat) (ops : List (LND.Op α))
    (h : LND.step env s (.ask n false) = .ok s') : LND.run env s' ops = LND.run env s ops := by
  have h2 : (LND.ask env s n false).map (·.2) = .ok s' := h
  cases h1 : LND.ask env s n false with
  | error e => rw [h1] at h2; cases h2
  | ok r =>
    obtain ⟨rs, s1⟩ := r
    rw [h1] at h2
    have e1 : s1 = s' := by cases h2; rfl
    obtain ⟨e2, -⟩ := (lnd_ask_nocommit_noop env s n).1 rs s1 h1
    rw [← e1, e2]

/-- repeating the call gives the same answer -/
theorem lnd_ask_repeat (env : LND.Env α) (s s' : LND.State α) (n : Nat) (rs : List (LND.Pt × α))
    (h : LND.ask env s n false = .ok (rs, s')) : LND.ask env s' n false = .ok (rs, s') := by
  obtain ⟨rfl, -⟩ := (lnd_ask_nocommit_noop env s n).1 rs s' h
  exact h
end lnd

/-! ### IntegratorLearner (model of C07; abscissae and numeric outcomes are oracles) -/
section integ
variable {α : Type} [OfNat α 0] [DecidableEq α] [Div α] [OfNat α 2] [LT α] [DecidableLT α] [Sub α] [Mul α]
  [Add α] [Neg α]

/-- the non-committing ask returns the state it was given - also when it raises (`restore` is a
`try/finally`) - together with the points, improvements and error class of the committing ask -/
theorem integ_ask_nocommit_noop (O : Integ.Oracle α) (P : Integ.Params α) (fuel : Nat) (s : Integ.St α)
    (n : Nat) :
    (Integ.ask O P fuel s n false).1 = s ∧
    (Integ.ask O P fuel s n false).2 = (Integ.ask O P fuel s n true).2 := by
  unfold Integ.ask
  rcases Integ.askCommit O P fuel s n with ⟨s', _ | e, pts, imps⟩ <;> exact ⟨rfl, rfl⟩

theorem integ_ask_repeat (O : Integ.Oracle α) (P : Integ.Params α) (fuel : Nat) (s : Integ.St α) (n : Nat) :
    Integ.ask O P fuel (Integ.ask O P fuel s n false).1 n false = Integ.ask O P fuel s n false := by
  rw [(integ_ask_nocommit_noop O P fuel s n).1]
end integ

/-! ### AverageLearner1D (the complete model of C16) -/
section avg1dfull
open Avg1DFull
open L1D (Loss)
variable {α : Type} [Field α] [LinearOrder α] [IsStrictOrderedRing α]
variable (lossFn : List (Option α) → List (Option (List α)) → Loss α) (r12 sqrt : α → α)

/-- for every admissible resolution `r` of the set-iteration choice: `ask(n, False)` returns the state it was
given, `ask(n)` returns the same request and marks exactly it pending, in order -/
theorem avg1d_ask_nocommit_noop (s : State α) (n : Nat) (c : α) :
    ask lossFn r12 sqrt s n c false = (askPts r12 sqrt s n c).map (fun r => (r, s)) ∧
    ask lossFn r12 sqrt s n c true = (askPts r12 sqrt s n c).map
      (fun r => (r, r.1.foldl (fun s p => tellPending lossFn r12 s p.1 p.2) s)) :=
  Avg1DFull.ask_commit lossFn r12 sqrt s n c
end avg1dfull

end C09

/-! ### Learner2D (bookkeeping model `AdaptiveModel/L2D.lean`; the geometry is an oracle; proofs in `Lemmas/L2D.lean`).
Learner2D is the one learner whose non-committing `ask` is NOT a no-op: it rewrites the private suggestion stack.  The model
follows the code after the two repairs of `ask(n, tell_pending=False)` (e806eb2: points that were pending before the call stay
pending; 844d031: a request that raises takes back its marks and puts the stack entries back), so `pending_points` is
untouched for EVERY oracle and state, and a failed request is a no-op. -/
namespace C09
section l2d
open L2D
variable {V L : Type}

/-- `ask` never touches `data`/`npoints` (committing or not, returning or raising), and the two flavours return the same
points and loss improvements. -/
theorem l2d_ask_data_and_answer (c : Cfg L) (cands : Oracle V L) (s : State V L) (n : Nat) (commit : Bool) :
    (ask c cands s n commit).1.data = s.data ∧ npoints (ask c cands s n commit).1 = npoints s ∧
    (ask c cands s n false).2 = (ask c cands s n true).2 :=
  ⟨ask_data c cands s n commit, ask_npoints c cands s n commit, ask_ret_eq c cands s n⟩

/-- a non-committing `ask` that returns leaves the pending set EXACTLY as it was - every state, every oracle (no hypothesis on
stack or candidates any more: `L2D.Ex.nocommit_ask_keeps_prior_pending` is the former counterexample). -/
theorem l2d_ask_nocommit_pending (c : Cfg L) (cands : Oracle V L) (s : State V L) (n : Nat)
    {s' : State V L} {ret : List (Nat × L)}
    (h : ask c cands s n false = (s', .ok ret)) : s'.pending = s.pending :=
  ask_false_pending c cands s n h

/-- … and so does one that raises (`too few points`); with `l2d_ask_data_and_answer` and the previous theorem: whenever a
non-committing `ask` comes back - with an answer or with an exception - `data` and `pending_points` are what they were. -/
theorem l2d_ask_nocommit_pending_failed (c : Cfg L) (cands : Oracle V L) (s : State V L) (n : Nat)
    {s' : State V L} (h : ask c cands s n false = (s', .tooFew)) : s'.pending = s.pending :=
  ask_false_pending_failed c cands s n h

/-- both outcomes in one statement: unless the loop is stuck for ever (`diverge`: the real call never comes back), the pending
set after `ask n false` is the pending set before -/
theorem l2d_ask_nocommit_pending_all (c : Cfg L) (cands : Oracle V L) (s : State V L) (n : Nat)
    (h : (ask c cands s n false).2 ≠ .diverge) : (ask c cands s n false).1.pending = s.pending := by
  rcases hr : ask c cands s n false with ⟨s', o⟩
  cases o with
  | ok ret => exact ask_false_pending c cands s n hr
  | tooFew => exact ask_false_pending_failed c cands s n hr
  | diverge => rw [hr] at h; exact absurd rfl h

/-- … in particular along every history (any oracles) -/
theorem l2d_ask_nocommit_pending_reach (c : Cfg L) (ops : List (Op V L))
    (cands : Oracle V L) (n : Nat) {s' : State V L} {ret : List (Nat × L)}
    (h : ask c cands (run c (init c) ops) n false = (s', .ok ret)) :
    s'.pending = (run c (init c) ops).pending ∧ s'.data = (run c (init c) ops).data :=
  ⟨ask_false_pending c cands _ n h,
   by have := ask_data c cands (run c (init c) ops) n false; rw [h] at this; exact this⟩

/-- a non-committing `ask` that raises (`too few points`) is a NO-OP: the state afterwards is the state before - `data`,
`pending_points` and `_stack` (same entries, same order).  Every oracle; the stack has one entry per key (what an
`OrderedDict` is; every reachable state: next theorem).  `L2D.Ex.too_few_points_unwound` is the former counterexample; the
committing `ask` that raises still keeps its marks. -/
theorem l2d_ask_nocommit_failed_noop (c : Cfg L) (cands : Oracle V L) (s : State V L) (n : Nat)
    (hnd : (keys s.stack).Nodup) {s' : State V L} (h : ask c cands s n false = (s', .tooFew)) : s' = s :=
  ask_false_failed_noop c cands s n hnd h

/-- … along every history, any oracles, no hypothesis -/
theorem l2d_ask_nocommit_failed_noop_reach (c : Cfg L) (ops : List (Op V L)) (cands : Oracle V L) (n : Nat)
    {s' : State V L} (h : ask c cands (run c (init c) ops) n false = (s', .tooFew)) : s' = run c (init c) ops :=
  ask_false_failed_noop c cands _ n (inv0_run (inv0_init c) ops).stackNodup h

/-- THE MECHANISM, for every oracle and state: the non-committing `ask` gives the answer of the committing one and rewrites
the stack with `OrderedDict(zip(points[:stack_size], loss_improvements))`, `points` being everything the call collected. -/
theorem l2d_ask_nocommit_rewrites_stack (c : Cfg L) (cands : Oracle V L) (s : State V L) (n : Nat) {s' : State V L}
    {ret : List (Nat × L)} (h : ask c cands s n false = (s', .ok ret)) :
    ∃ s2 pts, askCore c cands s n = (s2, .ok pts) ∧ ask c cands s n true = (s2, .ok ret) ∧ ret = pts.take n ∧
      s'.stack = ofPairs (pts.take c.stackSize) ∧ s'.data = s.data :=
  ask_false_vs_true c cands s n h

/-- characterisation for well-behaved geometry (candidates fresh, distinct, in bounds; stack keys distinct, in bounds, not
pending): the stack after `ask n false` is exactly the first `stack_size` entries of (returned points ++ the stack the
committing `ask` leaves). -/
theorem l2d_ask_nocommit_stack_char (c : Cfg L) (cands : Oracle V L) (hc : CandsGood c cands) (s : State V L)
    (hs : StackGood c s) (n : Nat) {s' : State V L} {ret : List (Nat × L)}
    (h : ask c cands s n false = (s', .ok ret)) :
    ∃ s2, ask c cands s n true = (s2, .ok ret) ∧ s'.stack = (ret ++ s2.stack).take c.stackSize :=
  ask_false_stack_char c cands hc s hs n h

/-- … along every history of a learner whose corners are in bounds, with well-behaved geometry throughout -/
theorem l2d_ask_nocommit_stack_char_reach (c : Cfg L) (hcor : ∀ p ∈ c.corners, c.inB p = true) (ops : List (Op V L))
    (hops : ∀ op ∈ ops, OpGood c op) (cands : Oracle V L) (hc : CandsGood c cands) (n : Nat) {s' : State V L}
    {ret : List (Nat × L)} (h : ask c cands (run c (init c) ops) n false = (s', .ok ret)) :
    ∃ s2, ask c cands (run c (init c) ops) n true = (s2, .ok ret) ∧
      s'.stack = (ret ++ s2.stack).take c.stackSize :=
  ask_false_stack_char_reach c hcor ops hops cands hc n h

/-- when the stack already holds the `n` requested entries and is not longer than `stack_size`, the non-committing `ask`
returns the state it was given - also when some of these entries are pending (`L2D.Ex.nocommit_truncates_long_stack` without
the `stack_size` guard; `L2D.Ex.nocommit_rewrites_stack` / `nocommit_changes_later_answers` when `n` exceeds the stack). -/
theorem l2d_ask_nocommit_noop (c : Cfg L) (cands : Oracle V L) (s : State V L) (n : Nat) (hn : n ≤ s.stack.length)
    (hk : s.stack.length ≤ c.stackSize) (hnd : (keys s.stack).Nodup) :
    ask c cands s n false = (s, .ok (s.stack.take n)) :=
  ask_false_noop c cands s n hn hk hnd
end l2d
end C09
