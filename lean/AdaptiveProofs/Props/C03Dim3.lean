import AdaptiveProofs.Props.C03
import AdaptiveProofs.Lemmas.TriDelaunay3
import AdaptiveProofs.Lemmas.TriDelaunay3Model
import AdaptiveProofs.Lemmas.TriDelaunay3Circ
import Mathlib.Tactic.NormNum

/-!
# C03.g  The Delaunay cavity is star-shaped in DIMENSION 3: `hstar` of `cavity_volume_conserved_3d` PROVED from the in-sphere test

Property C03 (Bowyer–Watson insertion of `adaptive/learner/triangulation.py: Triangulation` keeps a simplicial tiling),
the dimension-3 analogue of section C03.f of `Props/C03.lean`.  Helper lemmas: `Lemmas/TriDelaunay3.lean` (predicates,
pencil of spheres through a triangle, key lemma, list level), `Lemmas/TriDelaunay3Model.lean` (the model's `bowyerWatson`
/ `addPoint`, truthful answers via the dimension-generic work-list invariant `bowyer_watson_neighbours_asked`),
`Lemmas/TriDelaunay3Circ.lean` (bridge to the generated `circumsphere3`).

Exact polynomial predicates over any ordered commutative ring (ℚ, ℝ, …), points `α × α × α`:
`sideP a b c x = vol6 a b c x` (signed side of the plane `abc`: the determinant of `(b-a, c-a, x-a)`),
`power3 a b c d x` (orientation × power of `x` w.r.t. the circumsphere of `abcd`: the lifted 5×5 in-sphere determinant,
written as the 4×4 determinant of the rows `(p-a, |p-a|²)`, `p = b, c, d, x`),
`InSphere a b c d x := sideP a b c d * power3 a b c d x < 0` (`x` STRICTLY inside, invariant under all permutations of
`a b c d`), `InSphere3 x t q` the same for a tetrahedron given by its index list (`sv3 x t * pwT3 x t q < 0`).
"Not strictly inside" (`¬ InSphere`) is the right weak notion: cospherical points are allowed everywhere.
-/
namespace Tri

/-- C03.g (1a)  The power function is antisymmetric under the exchange of two vertices (three generators of `S₄`; hence it
is, up to the sign of the permutation, THE SAME quadratic for the four faces of the tetrahedron — a tetrahedron may own
several hole faces), vanishes at the four vertices, is the lifted in-sphere determinant, and `sideP` is `vol6`. -/
theorem insphere_power_symmetric {α : Type} [CommRing α] (a b c d x : α × α × α) :
    power3 b a c d x = -power3 a b c d x ∧ power3 a c b d x = -power3 a b c d x ∧
    power3 a b d c x = -power3 a b c d x ∧
    power3 a c d b x = power3 a b c d x ∧ power3 b c d a x = -power3 a b c d x ∧
    power3 a b c d a = 0 ∧ power3 a b c d b = 0 ∧ power3 a b c d c = 0 ∧ power3 a b c d d = 0 ∧
    power3 a b c d x = inSphereDet a b c d x ∧ sideP a b c x = vol6 a b c x :=
  ⟨power3_swap12 a b c d x, power3_swap23 a b c d x, power3_swap34 a b c d x, power3_face_acd a b c d x,
    power3_face_bcd a b c d x, power3_a a b c d, power3_b a b c d, power3_c a b c d, power3_d a b c d,
    power3_eq_inSphereDet a b c d x, rfl⟩

/-- C03.g (1a')  The predicate `InSphere` does not depend on the order of the four vertices (generators of `S₄`), no
vertex is strictly inside, nothing is strictly inside a degenerate tetrahedron. -/
theorem insphere_permutation_invariant {α : Type} [CommRing α] [LinearOrder α] [IsStrictOrderedRing α]
    (a b c d x : α × α × α) :
    (InSphere b a c d x ↔ InSphere a b c d x) ∧ (InSphere a c b d x ↔ InSphere a b c d x) ∧
    (InSphere a b d c x ↔ InSphere a b c d x) ∧
    ¬ InSphere a b c d a ∧ ¬ InSphere a b c d b ∧ ¬ InSphere a b c d c ∧ ¬ InSphere a b c d d ∧
    (sideP a b c d = 0 → ¬ InSphere a b c d x) :=
  ⟨inSphere_swap12 a b c d x, inSphere_swap23 a b c d x, inSphere_swap34 a b c d x,
    (not_inSphere_vertex a b c d).1, (not_inSphere_vertex a b c d).2.1, (not_inSphere_vertex a b c d).2.2.1,
    (not_inSphere_vertex a b c d).2.2.2, not_inSphere_degenerate a b c d x⟩

/-- C03.g (1b)  PENCIL OF SPHERES through `a b c`, division-free (any commutative ring).  (i) the circumspheres of `abcd`
and `abce` differ by a multiple of the plane `abc`, the multiple being the power of `e` w.r.t. `abcd` (a Grassmann–Plücker
relation); (ii) for EVERY sphere `S(x) = |x-m|² - r2` through `a, b, c` the power function of `abcd` is
`sideP a b c d * S(x) - S(d) * sideP a b c x`; (iii) centre form: if `m` is equidistant (`r2`) from the four vertices
`power3 a b c d x = sideP a b c d * (|x-m|² - r2)`. -/
theorem sphere_pencil_3d {α : Type} [CommRing α] (a b c d : α × α × α) :
    (∀ e x : α × α × α,
      sideP a b c e * power3 a b c d x - sideP a b c d * power3 a b c e x = power3 a b c d e * sideP a b c x) ∧
    (∀ (m : α × α × α) (r2 : α), dist3 a m = r2 → dist3 b m = r2 → dist3 c m = r2 → ∀ x : α × α × α,
      power3 a b c d x = sideP a b c d * (dist3 x m - r2) - (dist3 d m - r2) * sideP a b c x) ∧
    (∀ (m : α × α × α) (r2 : α), dist3 a m = r2 → dist3 b m = r2 → dist3 c m = r2 → dist3 d m = r2 →
      ∀ x : α × α × α, power3 a b c d x = sideP a b c d * (dist3 x m - r2)) :=
  ⟨fun e x => power3_pencil a b c d e x, fun m r2 ha hb hc x => power3_eq_pencil a b c d x m r2 ha hb hc,
    fun m r2 ha hb hc hd x => power3_eq_dist a b c d x m r2 ha hb hc hd⟩

/-- C03.g (1b')  for a non-degenerate tetrahedron with circumcentre `m`, squared circumradius `r2`: `InSphere` ⟺
`|x - m|² < r2` -/
theorem insphere_iff_dist_lt {α : Type} [CommRing α] [LinearOrder α] [IsStrictOrderedRing α]
    (a b c d x m : α × α × α) (r2 : α) (hnd : sideP a b c d ≠ 0)
    (ha : dist3 a m = r2) (hb : dist3 b m = r2) (hc : dist3 c m = r2) (hd : dist3 d m = r2) :
    InSphere a b c d x ↔ dist3 x m < r2 :=
  inSphere_iff_dist a b c d x m r2 hnd ha hb hc hd

/-- C03.g (1c)  KEY LEMMA `far_side_in_neighbour_sphere` / `not_far_side3` (any ordered commutative ring).  Tetrahedra `abcd`,
`abce` strictly on opposite sides of the plane `abc`; `p` strictly inside `sphere(abcd)`; `e` not strictly inside
`sphere(abcd)` (the pair is locally Delaunay).  Then: `p` strictly on the far side of `abc` ⇒ `p` strictly inside
`sphere(abce)`; hence if `p` is NOT strictly inside `sphere(abce)` (the neighbour is not deleted) `p` is on the side of
`d` — even strictly: the new tetrahedron `abcp` is not flat. -/
theorem delaunay_far_side_3d {α : Type} [CommRing α] [LinearOrder α] [IsStrictOrderedRing α] {a b c d e p : α × α × α}
    (hopp : sideP a b c d * sideP a b c e < 0) (hp : InSphere a b c d p) (hdel : ¬ InSphere a b c d e) :
    (sideP a b c d * sideP a b c p < 0 → InSphere a b c e p) ∧
    (¬ InSphere a b c e p → 0 ≤ sideP a b c d * sideP a b c p) ∧
    (¬ InSphere a b c e p → 0 < sideP a b c d * sideP a b c p) :=
  ⟨far_side_in_neighbour_sphere hopp hp hdel, not_far_side3 hopp hp hdel, strictly_near_side3 hopp hp hdel⟩

/-- C03.g (2)  THE DELAUNAY CAVITY IS STAR-SHAPED, dimension 3.  `bad`: sorted tetrahedra; (i) `x pt` strictly inside the
circumsphere of every `t ∈ bad` (this also makes them non-degenerate: `hnd` FOLLOWS); (ii) for every hole face `e` of
the model's hole list, owner `T = owner 3 bad e`: EITHER a sorted tetrahedron `t'` with the face `e` whose fourth vertex
is strictly on the other side of `e` (the `OppositeSides3` clause for the pair `T`, `t'`), with `x pt` NOT strictly inside
`sphere(t')` and the fourth vertex of `t'` NOT strictly inside `sphere(T)` (local Delaunay), OR (hull face) `x pt` not
strictly outside `e`.  Conclusion: exactly the hypotheses `hnd` and `hstar` of `cavity_volume_conserved_3d`. -/
theorem cavity_star_shaped_3d {α : Type} [CommRing α] [LinearOrder α] [IsStrictOrderedRing α]
    (x : ℕ → α × α × α) (bad : List Simplex) (pt : ℕ)
    (hS : ∀ t ∈ bad, t.length = 4 ∧ t.Pairwise (· < ·))
    (hin : ∀ t ∈ bad, InSphere3 x t (x pt))
    (hface : ∀ e ∈ hole 3 bad,
      (∃ t' : Simplex, (t'.length = 4 ∧ t'.Pairwise (· < ·)) ∧ e ∈ combos 3 t' ∧
        (∀ c' ∈ t', c' ∉ e → sve3 x (owner 3 bad e) e (x c') * sv3 x (owner 3 bad e) < 0) ∧
        ¬ InSphere3 x t' (x pt) ∧
        (∀ c' ∈ t', c' ∉ e → ¬ InSphere3 x (owner 3 bad e) (x c'))) ∨
      0 ≤ sve3 x (owner 3 bad e) e (x pt) * sv3 x (owner 3 bad e)) :
    (∀ t ∈ bad, sv3 x t ≠ 0) ∧
    ∀ e ∈ hole 3 bad, 0 ≤ osign (sv3 x (owner 3 bad e)) * sve3 x (owner 3 bad e) e (x pt) :=
  ⟨fun t ht => sv3_ne_zero_of_inSphere3 x (hin t ht), cavity_star_3d x bad pt hS hin hface⟩

/-- C03.g (2')  … hence the volume of a Delaunay cavity is conserved (C03.e (4), dimension 3, without the star-shapedness
and non-degeneracy hypotheses). -/
theorem delaunay_cavity_volume_conserved_3d {α : Type} [CommRing α] [LinearOrder α] [IsStrictOrderedRing α]
    (x : ℕ → α × α × α) (bad : List Simplex) (pt : ℕ) (hN : bad.Nodup)
    (hS : ∀ t ∈ bad, t.length = 4 ∧ t.Pairwise (· < ·)) (hO : OppositeSides3 x bad)
    (hin : ∀ t ∈ bad, InSphere3 x t (x pt))
    (hface : ∀ e ∈ hole 3 bad,
      (∃ t' : Simplex, (t'.length = 4 ∧ t'.Pairwise (· < ·)) ∧ e ∈ combos 3 t' ∧
        (∀ c' ∈ t', c' ∉ e → sve3 x (owner 3 bad e) e (x c') * sv3 x (owner 3 bad e) < 0) ∧
        ¬ InSphere3 x t' (x pt) ∧
        (∀ c' ∈ t', c' ∉ e → ¬ InSphere3 x (owner 3 bad e) (x c'))) ∨
      0 ≤ sve3 x (owner 3 bad e) e (x pt) * sv3 x (owner 3 bad e)) :
    (bad.map (fun t => |sv3 x t|)).sum = ((hole 3 bad).map (fun e => |sv3 x (e ++ [pt])|)).sum :=
  let h := cavity_star_shaped_3d x bad pt hS hin hface
  cavity_volume_conserved_3d x bad pt hN hS hO h.1 h.2

/-- C03.g (2'')  the hole faces that HAVE a neighbour give a non-flat new tetrahedron (strict inequality); only hull faces
can give a flat one. -/
theorem delaunay_hole_face_strict_3d {α : Type} [CommRing α] [LinearOrder α] [IsStrictOrderedRing α]
    (x : ℕ → α × α × α) {t t' e : Simplex} (p : α × α × α)
    (hS : t.length = 4 ∧ t.Pairwise (· < ·)) (hS' : t'.length = 4 ∧ t'.Pairwise (· < ·))
    (he : e ∈ combos 3 t) (he' : e ∈ combos 3 t')
    (hopp : ∀ c' ∈ t', c' ∉ e → sve3 x t e (x c') * sv3 x t < 0)
    (hin : InSphere3 x t p) (hnin : ¬ InSphere3 x t' p)
    (hdel : ∀ c' ∈ t', c' ∉ e → ¬ InSphere3 x t (x c')) :
    0 < sve3 x t e p * sv3 x t :=
  star_face_3d_strict x p hS hS' he he' hopp hin hnin hdel

/-- C03.g (3)  ONE ACCEPTED INTERIOR `bowyer_watson` WHOSE DELETED SET IS A DELAUNAY CAVITY CONSERVES THE VOLUME (dimension 3) —
star-shapedness and non-degeneracy are no longer hypotheses.  Code-path hypotheses as in C03.e (5): index invariant,
fresh last vertex index, no new tetrahedron reported almost flat.  REMAINING geometric hypotheses:
* `hin` — every deleted tetrahedron has `x pt` strictly inside its circumsphere (the `True` answers of
  `point_in_cicumcircle` are truthful for the exact test, `point_in_circumsphere_exact_iff` below);
* `hface` (`HoleFacesDelaunay x s.simplices deleted (x pt)`) — for every hole face `e` with owner `T`: either a
  tetrahedron `t'` of the triangulation BEFORE the insertion has the face `e`, on the other side of `e` from `T`,
  `x pt` is not strictly inside `sphere(t')`, and the apex of `t'` is not strictly inside `sphere(T)` (LOCALLY DELAUNAY
  across the cavity boundary before the insertion); or `e` is a hull face and `x pt` is not strictly outside it;
* `hO` (`OppositeSides3 x deleted`) — inside the cavity: neighbours on opposite sides of their common face, no face in
  more than two deleted tetrahedra (a genuine triangulation). -/
theorem bowyer_watson_delaunay_preserves_volume_3d {α : Type} [CommRing α] [LinearOrder α] [IsStrictOrderedRing α]
    (x : ℕ → α × α × α) {s s' : State} {pt : ℕ} {start : Option Simplex}
    {circ fl fl' : List (Simplex × Bool)} {deleted added : List Simplex}
    (hI : Inv s) (hdim : s.dim = 3) (hpt : s.nVerts = pt + 1)
    (hfresh : ∀ t ∈ s.simplices, ∀ v ∈ t, v < pt)
    (hstart : ∀ c, start = some c → c ∈ s.simplices) (hfl : ∀ r ∈ fl, r.2 = false)
    (hok : bowyerWatson s pt start circ fl = .ok (s', deleted, added, fl'))
    (hO : OppositeSides3 x deleted)
    (hin : ∀ t ∈ deleted, InSphere3 x t (x pt))
    (hface : ∀ e ∈ hole 3 deleted,
      (∃ t' ∈ s.simplices, e ∈ combos 3 t' ∧
        (∀ c' ∈ t', c' ∉ e → sve3 x (owner 3 deleted e) e (x c') * sv3 x (owner 3 deleted e) < 0) ∧
        ¬ InSphere3 x t' (x pt) ∧
        (∀ c' ∈ t', c' ∉ e → ¬ InSphere3 x (owner 3 deleted e) (x c'))) ∨
      0 ≤ sve3 x (owner 3 deleted e) e (x pt) * sv3 x (owner 3 deleted e)) :
    (added.map (fun t => |sv3 x t|)).sum = (deleted.map (fun t => |sv3 x t|)).sum ∧
    (s.simplices.Nodup →
      (s'.simplices.map (fun t => |sv3 x t|)).sum = (s.simplices.map (fun t => |sv3 x t|)).sum) :=
  bowyerWatson_delaunay_volume_3d x hI hdim hpt hfresh hstart hfl hok hO hin hface

/-- C03.g (3')  The same at the level of `add_point` (accepted insertion that does not go through `_extend_hull`; new
point `x s.nVerts`; freshness follows from the invariant). -/
theorem add_point_delaunay_preserves_volume_3d {α : Type} [CommRing α] [LinearOrder α] [IsStrictOrderedRing α]
    (x : ℕ → α × α × α) {s s' : State} {hint : Option Simplex} {o : Oracle}
    {D A : List Simplex} (hI : Inv s) (hdim : s.dim = 3) (hv : ValidHint s hint) (hh : hint ≠ some [])
    (hl : o.locate ≠ some []) (hfl : ∀ r ∈ o.flat, r.2 = false)
    (hok : addPoint s hint o = .ok (s', D, A))
    (hO : OppositeSides3 x D)
    (hin : ∀ t ∈ D, InSphere3 x t (x s.nVerts))
    (hface : ∀ e ∈ hole 3 D,
      (∃ t' ∈ s.simplices, e ∈ combos 3 t' ∧
        (∀ c' ∈ t', c' ∉ e → sve3 x (owner 3 D e) e (x c') * sv3 x (owner 3 D e) < 0) ∧
        ¬ InSphere3 x t' (x s.nVerts) ∧
        (∀ c' ∈ t', c' ∉ e → ¬ InSphere3 x (owner 3 D e) (x c'))) ∨
      0 ≤ sve3 x (owner 3 D e) e (x s.nVerts) * sv3 x (owner 3 D e)) :
    (A.map (fun t => |sv3 x t|)).sum = (D.map (fun t => |sv3 x t|)).sum ∧
    (s.simplices.Nodup →
      (s'.simplices.map (fun t => |sv3 x t|)).sum = (s.simplices.map (fun t => |sv3 x t|)).sum) :=
  addPoint_delaunay_volume_3d x hI hdim hv hh hl hfl hok hO hin hface

/-- C03.g (3b)  TRUTHFUL IN-SPHERE ANSWERS + LOCALLY DELAUNAY ACROSS THE CAVITY BOUNDARY ⇒ the cavity is a Delaunay cavity, it is
star-shaped, and the insertion conserves the volume (dimension 3).  Compared with (3): `hin` and the clause "`x pt` not
strictly inside `sphere(t')`" are no longer hypotheses — they follow from `htruth` (every recorded answer of
`point_in_cicumcircle` equals the exact strict predicate `InSphere3`) by the dimension-generic work-list invariant
`bowyer_watson_neighbours_asked` (C03.f (3a)): every deleted simplex was answered `True`, every non-deleted simplex of
the old triangulation sharing a facet (here: 3 vertices, `sharedCount_common_face`) with a deleted one was asked and
answered `False`.  What remains: `htruth`; `hO` (genuine triangulation inside the cavity); and for every hole face
either a non-deleted tetrahedron `t'` of the old triangulation across it, on the other side, whose apex is not strictly
inside the owner's circumsphere (old triangulation locally Delaunay there), or a hull face with `x pt` not strictly
outside. -/
theorem bowyer_watson_truthful_preserves_volume_3d {α : Type} [CommRing α] [LinearOrder α] [IsStrictOrderedRing α]
    (x : ℕ → α × α × α) {s s' : State} {pt : ℕ} {start : Option Simplex}
    {circ fl fl' : List (Simplex × Bool)} {deleted added : List Simplex}
    (hI : Inv s) (hdim : s.dim = 3) (hpt : s.nVerts = pt + 1)
    (hfresh : ∀ t ∈ s.simplices, ∀ v ∈ t, v < pt)
    (hstart : ∀ c, start = some c → c ∈ s.simplices) (hfl : ∀ r ∈ fl, r.2 = false)
    (hok : bowyerWatson s pt start circ fl = .ok (s', deleted, added, fl'))
    (htruth : ∀ r ∈ circ, (r.2 = true ↔ InSphere3 x r.1 (x pt)))
    (hO : OppositeSides3 x deleted)
    (hface : ∀ e ∈ hole 3 deleted,
      (∃ t' ∈ s.simplices, t' ∉ deleted ∧ e ∈ combos 3 t' ∧
        (∀ c' ∈ t', c' ∉ e → sve3 x (owner 3 deleted e) e (x c') * sv3 x (owner 3 deleted e) < 0) ∧
        (∀ c' ∈ t', c' ∉ e → ¬ InSphere3 x (owner 3 deleted e) (x c'))) ∨
      0 ≤ sve3 x (owner 3 deleted e) e (x pt) * sv3 x (owner 3 deleted e)) :
    (∀ t ∈ deleted, InSphere3 x t (x pt)) ∧
    (∀ e ∈ hole 3 deleted, 0 ≤ osign (sv3 x (owner 3 deleted e)) * sve3 x (owner 3 deleted e) e (x pt)) ∧
    (added.map (fun t => |sv3 x t|)).sum = (deleted.map (fun t => |sv3 x t|)).sum ∧
    (s.simplices.Nodup →
      (s'.simplices.map (fun t => |sv3 x t|)).sum = (s.simplices.map (fun t => |sv3 x t|)).sum) :=
  bowyerWatson_truthful_volume_3d x hI hdim hpt hfresh hstart hfl hok htruth hO hface

/-- C03.g (3b'), at the level of `add_point` (`o.circ` the recorded `point_in_cicumcircle` answers). -/
theorem add_point_truthful_preserves_volume_3d {α : Type} [CommRing α] [LinearOrder α] [IsStrictOrderedRing α]
    (x : ℕ → α × α × α) {s s' : State} {hint : Option Simplex} {o : Oracle}
    {D A : List Simplex} (hI : Inv s) (hdim : s.dim = 3) (hv : ValidHint s hint) (hh : hint ≠ some [])
    (hl : o.locate ≠ some []) (hfl : ∀ r ∈ o.flat, r.2 = false)
    (hok : addPoint s hint o = .ok (s', D, A))
    (htruth : ∀ r ∈ o.circ, (r.2 = true ↔ InSphere3 x r.1 (x s.nVerts)))
    (hO : OppositeSides3 x D)
    (hface : ∀ e ∈ hole 3 D,
      (∃ t' ∈ s.simplices, t' ∉ D ∧ e ∈ combos 3 t' ∧
        (∀ c' ∈ t', c' ∉ e → sve3 x (owner 3 D e) e (x c') * sv3 x (owner 3 D e) < 0) ∧
        (∀ c' ∈ t', c' ∉ e → ¬ InSphere3 x (owner 3 D e) (x c'))) ∨
      0 ≤ sve3 x (owner 3 D e) e (x s.nVerts) * sv3 x (owner 3 D e)) :
    (∀ t ∈ D, InSphere3 x t (x s.nVerts)) ∧
    (∀ e ∈ hole 3 D, 0 ≤ osign (sv3 x (owner 3 D e)) * sve3 x (owner 3 D e) e (x s.nVerts)) ∧
    (A.map (fun t => |sv3 x t|)).sum = (D.map (fun t => |sv3 x t|)).sum ∧
    (s.simplices.Nodup →
      (s'.simplices.map (fun t => |sv3 x t|)).sum = (s.simplices.map (fun t => |sv3 x t|)).sum) :=
  addPoint_truthful_volume_3d x hI hdim hv hh hl hfl hok htruth hO hface

/-- C03.g (4)  BRIDGE TO THE IMPLEMENTATION'S TEST, dimension 3.  `point_in_cicumcircle` computes
`center, radius = circumsphere(vertices)` (`circumsphere3` = `fast_3d_circumcircle`, generated) and answers
`norm(center - pt) < radius * (1 + eps)`.  For a non-degenerate tetrahedron and any `sqrt` with `SqrtLaw`: with `eps = 0`
the answer IS the polynomial predicate `InSphere` (also in squared form `dist² < radius²`), and for every `eps ≥ 0` a point
strictly inside is answered `True`, i.e. a `False` answer of the real test implies "not strictly inside". -/
theorem point_in_circumsphere_exact_iff {α : Type} [Field α] [LinearOrder α] [IsStrictOrderedRing α]
    (sqrt : α → α) (hs : Prims.SqrtLaw sqrt) (a b c d p : α × α × α) (h : sideP a b c d ≠ 0) :
    (sphTest sqrt 0 a b c d p ↔ InSphere a b c d p) ∧
    (Prims.dsq3 (Gen.Prims.circumsphere3 sqrt a.1 a.2.1 a.2.2 b.1 b.2.1 b.2.2 c.1 c.2.1 c.2.2 d.1 d.2.1 d.2.2).1.1
        (Gen.Prims.circumsphere3 sqrt a.1 a.2.1 a.2.2 b.1 b.2.1 b.2.2 c.1 c.2.1 c.2.2 d.1 d.2.1 d.2.2).1.2.1
        (Gen.Prims.circumsphere3 sqrt a.1 a.2.1 a.2.2 b.1 b.2.1 b.2.2 c.1 c.2.1 c.2.2 d.1 d.2.1 d.2.2).1.2.2
        p.1 p.2.1 p.2.2
      < (Gen.Prims.circumsphere3 sqrt a.1 a.2.1 a.2.2 b.1 b.2.1 b.2.2 c.1 c.2.1 c.2.2 d.1 d.2.1 d.2.2).2 *
        (Gen.Prims.circumsphere3 sqrt a.1 a.2.1 a.2.2 b.1 b.2.1 b.2.2 c.1 c.2.1 c.2.2 d.1 d.2.1 d.2.2).2
      ↔ InSphere a b c d p) ∧
    (∀ eps : α, 0 ≤ eps → ¬ sphTest sqrt eps a b c d p → ¬ InSphere a b c d p) :=
  ⟨sphTest_zero_iff_inSphere sqrt hs a b c d p h, circumsphere3_sq_test_iff_inSphere sqrt hs a b c d p h,
    fun eps he hn hin => hn (inSphere_imp_sphTest sqrt hs a b c d p h eps he hin)⟩

/-! ### Non-vacuity (6): the bipyramid over `(0,0,0) (4,0,0) (0,4,0)` with apexes `(1,1,±4)` plus the tetrahedron `[0,1,3,5]`
(apex `(2,-8,0)`) beyond the face `[0,1,3]`; new point `(1,1,1)`.  The cavity is the two tetrahedra of the bipyramid, the hole
face `[0,1,3]` has the NON-deleted neighbour `[0,1,3,5]`, the other five hole faces are hull faces -/

example : init 3 6 [[0, 1, 2, 3], [0, 1, 2, 4], [0, 1, 3, 5]] = .ok exT := by decide

theorem exT_run : addPoint exT (some [0, 1, 2, 3]) exOT =
    .ok (exT1, [[0, 1, 2, 3], [0, 1, 2, 4]],
      [[0, 1, 3, 6], [0, 2, 3, 6], [1, 2, 3, 6], [0, 1, 4, 6], [0, 2, 4, 6], [1, 2, 4, 6]]) := by decide

theorem exT_inv : Inv exT := by
  refine init_inv (dim := 3) (n := 6) (initial := [[0, 1, 2, 3], [0, 1, 2, 4], [0, 1, 3, 5]]) ?_ (by decide)
  intro t ht
  simp only [List.mem_cons, List.not_mem_nil, or_false] at ht
  rcases ht with rfl | rfl | rfl <;> exact ⟨rfl, by decide, by decide⟩

theorem exT_opposite : OppositeSides3 exXT [[0, 1, 2, 3], [0, 1, 2, 4]] := by
  refine ⟨?_, count_le_two_of_mem (by decide)⟩
  intro t ht t' ht' hne e he he' c' hc' hce'
  simp only [List.mem_cons, List.not_mem_nil, or_false] at ht ht'
  have hcase : (t = [0, 1, 2, 3] ∧ t' = [0, 1, 2, 4] ∧ e = [0, 1, 2] ∧ c' = 4) ∨
      (t = [0, 1, 2, 4] ∧ t' = [0, 1, 2, 3] ∧ e = [0, 1, 2] ∧ c' = 3) := by
    rcases ht with rfl | rfl <;> rcases ht' with rfl | rfl
    · exact absurd rfl hne
    · simp only [combos, List.map_cons, List.map_nil, List.append_nil, List.cons_append, List.nil_append,
        List.mem_cons, List.not_mem_nil, or_false] at he he' hc'
      rcases he with rfl | rfl | rfl | rfl <;> simp at he'
      rcases hc' with rfl | rfl | rfl | rfl <;> simp at hce'
      exact Or.inl ⟨rfl, rfl, rfl, rfl⟩
    · simp only [combos, List.map_cons, List.map_nil, List.append_nil, List.cons_append, List.nil_append,
        List.mem_cons, List.not_mem_nil, or_false] at he he' hc'
      rcases he with rfl | rfl | rfl | rfl <;> simp at he'
      rcases hc' with rfl | rfl | rfl | rfl <;> simp at hce'
      exact Or.inr ⟨rfl, rfl, rfl, rfl⟩
    · exact absurd rfl hne
  rcases hcase with ⟨rfl, rfl, rfl, rfl⟩ | ⟨rfl, rfl, rfl, rfl⟩
  · norm_num [sve3, sv3, vol6, exXT]
  · norm_num [sve3, sv3, vol6, exXT]

/-- (i): the new point is strictly inside the circumsphere of both deleted tetrahedra, and NOT strictly inside that of
the third one — the recorded answers `exOT.circ` are the truthful ones -/
theorem exT_answers : InSphere3 exXT [0, 1, 2, 3] (exXT 6) ∧ InSphere3 exXT [0, 1, 2, 4] (exXT 6) ∧
    ¬ InSphere3 exXT [0, 1, 3, 5] (exXT 6) := by
  norm_num [InSphere3, sv3, pwT3, power3, pow0, det3, nsq, vol6, exXT]

/-- (ii): the hole faces -/
theorem exT_faces : ∀ e ∈ hole 3 [[0, 1, 2, 3], [0, 1, 2, 4]],
    (∃ t' ∈ exT.simplices, e ∈ combos 3 t' ∧
      (∀ c' ∈ t', c' ∉ e → sve3 exXT (owner 3 [[0, 1, 2, 3], [0, 1, 2, 4]] e) e (exXT c') *
        sv3 exXT (owner 3 [[0, 1, 2, 3], [0, 1, 2, 4]] e) < 0) ∧
      ¬ InSphere3 exXT t' (exXT exT.nVerts) ∧
      (∀ c' ∈ t', c' ∉ e → ¬ InSphere3 exXT (owner 3 [[0, 1, 2, 3], [0, 1, 2, 4]] e) (exXT c'))) ∨
    0 ≤ sve3 exXT (owner 3 [[0, 1, 2, 3], [0, 1, 2, 4]] e) e (exXT exT.nVerts) *
      sv3 exXT (owner 3 [[0, 1, 2, 3], [0, 1, 2, 4]] e) := by
  have h0 : hole 3 [[0, 1, 2, 3], [0, 1, 2, 4]] =
      [[0, 1, 3], [0, 2, 3], [1, 2, 3], [0, 1, 4], [0, 2, 4], [1, 2, 4]] := by decide
  have h1 : owner 3 [[0, 1, 2, 3], [0, 1, 2, 4]] [0, 1, 3] = [0, 1, 2, 3] := by decide
  have h2 : owner 3 [[0, 1, 2, 3], [0, 1, 2, 4]] [0, 2, 3] = [0, 1, 2, 3] := by decide
  have h3 : owner 3 [[0, 1, 2, 3], [0, 1, 2, 4]] [1, 2, 3] = [0, 1, 2, 3] := by decide
  have h4 : owner 3 [[0, 1, 2, 3], [0, 1, 2, 4]] [0, 1, 4] = [0, 1, 2, 4] := by decide
  have h5 : owner 3 [[0, 1, 2, 3], [0, 1, 2, 4]] [0, 2, 4] = [0, 1, 2, 4] := by decide
  have h6 : owner 3 [[0, 1, 2, 3], [0, 1, 2, 4]] [1, 2, 4] = [0, 1, 2, 4] := by decide
  have hn : exT.nVerts = 6 := rfl
  rw [h0]
  simp only [List.forall_mem_cons, h1, h2, h3, h4, h5, h6, hn]
  refine ⟨Or.inl ⟨[0, 1, 3, 5], by decide, by decide, ?_, exT_answers.2.2, ?_⟩, Or.inr ?_, Or.inr ?_, Or.inr ?_,
    Or.inr ?_, Or.inr ?_, ?_⟩
  · norm_num [sve3, sv3, vol6, exXT]
  · norm_num [InSphere3, sv3, pwT3, power3, pow0, det3, nsq, vol6, exXT]
  · norm_num [sve3, sv3, vol6, exXT]
  · norm_num [sve3, sv3, vol6, exXT]
  · norm_num [sve3, sv3, vol6, exXT]
  · norm_num [sve3, sv3, vol6, exXT]
  · norm_num [sve3, sv3, vol6, exXT]
  · intro e he; simp at he

/-- all hypotheses of `add_point_delaunay_preserves_volume_3d` hold for this run (no star-shapedness, no non-degeneracy
assumed), so its conclusion does: the six new tetrahedra have the volume of the two deleted ones … -/
example :
    (([[0, 1, 3, 6], [0, 2, 3, 6], [1, 2, 3, 6], [0, 1, 4, 6], [0, 2, 4, 6], [1, 2, 4, 6]] : List Simplex).map
      (fun t => |sv3 exXT t|)).sum =
      (([[0, 1, 2, 3], [0, 1, 2, 4]] : List Simplex).map (fun t => |sv3 exXT t|)).sum :=
  (add_point_delaunay_preserves_volume_3d exXT exT_inv rfl
    (by intro h hh; cases hh; exact Or.inr (by decide)) (by decide) (by decide) (by decide) exT_run
    exT_opposite
    (by
      intro t ht
      simp only [List.mem_cons, List.not_mem_nil, or_false] at ht
      rcases ht with rfl | rfl
      · exact exT_answers.1
      · exact exT_answers.2.1)
    exT_faces).1

/-- … (both sides are `128 = 6 · 64/3`: the bipyramid has volume `64/3`) … -/
example : (([[0, 1, 2, 3], [0, 1, 2, 4]] : List Simplex).map (fun t => |sv3 exXT t|)).sum = 128 := by
  norm_num [sv3, vol6, exXT, abs_of_nonneg, abs_of_nonpos]

/-- … and the star-shapedness and non-degeneracy DERIVED by `cavity_star_shaped_3d` for this cavity -/
example : (∀ t ∈ ([[0, 1, 2, 3], [0, 1, 2, 4]] : List Simplex), sv3 exXT t ≠ 0) ∧
    ∀ e ∈ hole 3 [[0, 1, 2, 3], [0, 1, 2, 4]],
      0 ≤ osign (sv3 exXT (owner 3 [[0, 1, 2, 3], [0, 1, 2, 4]] e)) *
        sve3 exXT (owner 3 [[0, 1, 2, 3], [0, 1, 2, 4]] e) e (exXT 6) :=
  cavity_star_shaped_3d exXT _ 6
    (by
      intro t ht
      simp only [List.mem_cons, List.not_mem_nil, or_false] at ht
      rcases ht with rfl | rfl <;> exact ⟨rfl, by decide⟩)
    (by
      intro t ht
      simp only [List.mem_cons, List.not_mem_nil, or_false] at ht
      rcases ht with rfl | rfl
      · exact exT_answers.1
      · exact exT_answers.2.1)
    (by
      intro e he
      rcases exT_faces e he with ⟨t', ht', h1, h2, h3, h4⟩ | h
      · refine Or.inl ⟨t', ?_, h1, h2, h3, h4⟩
        have := exT_inv.valid t' ht'
        exact ⟨this.1, this.2.1⟩
      · exact Or.inr h)

/-- the recorded answers `exOT.circ` are truthful for the coordinates `exXT` … -/
theorem exT_truthful : ∀ r ∈ exOT.circ, (r.2 = true ↔ InSphere3 exXT r.1 (exXT exT.nVerts)) := by
  have hn : exT.nVerts = 6 := rfl
  simp only [exOT, List.forall_mem_cons, hn]
  refine ⟨?_, ?_, ?_, ?_⟩
  · simpa using exT_answers.1
  · simpa using exT_answers.2.1
  · simpa using exT_answers.2.2
  · intro r hr; cases hr

/-- … so `add_point_truthful_preserves_volume_3d` applies (hypotheses: truthful answers, genuine triangulation, locally
Delaunay across `[0,1,3]`, hull faces): in-sphere facts, star-shapedness and volume conservation are all CONCLUSIONS -/
example :
    (∀ t ∈ ([[0, 1, 2, 3], [0, 1, 2, 4]] : List Simplex), InSphere3 exXT t (exXT 6)) ∧
    (∀ e ∈ hole 3 [[0, 1, 2, 3], [0, 1, 2, 4]],
      0 ≤ osign (sv3 exXT (owner 3 [[0, 1, 2, 3], [0, 1, 2, 4]] e)) *
        sve3 exXT (owner 3 [[0, 1, 2, 3], [0, 1, 2, 4]] e) e (exXT 6)) ∧
    (([[0, 1, 3, 6], [0, 2, 3, 6], [1, 2, 3, 6], [0, 1, 4, 6], [0, 2, 4, 6], [1, 2, 4, 6]] : List Simplex).map
      (fun t => |sv3 exXT t|)).sum =
      (([[0, 1, 2, 3], [0, 1, 2, 4]] : List Simplex).map (fun t => |sv3 exXT t|)).sum := by
  have h := add_point_truthful_preserves_volume_3d exXT exT_inv rfl
    (by intro h hh; cases hh; exact Or.inr (by decide)) (by decide) (by decide) (by decide) exT_run
    exT_truthful exT_opposite
    (by
      intro e he
      rcases exT_faces e he with ⟨t', ht', h1, h2, h3, h4⟩ | h
      · refine Or.inl ⟨t', ht', ?_, h1, h2, h4⟩
        intro hd
        simp only [List.mem_cons, List.not_mem_nil, or_false] at hd
        rcases hd with rfl | rfl
        · exact h3 exT_answers.1
        · exact h3 exT_answers.2.1
      · exact Or.inr h)
  exact ⟨h.1, h.2.1, h.2.2.1⟩

/-- COUNTEREXAMPLE: the LOCAL DELAUNAY clause cannot be dropped.  `a = (0,0,0)`, `b = (4,0,0)`, `c = (0,4,0)`, `d = (2,2,1)`,
`e = (2,2,-1)` (so `e` IS strictly inside `sphere(abcd)`), `p = (2,2,-7/2)`: `abcd`, `abce` on opposite sides of `abc`,
`p` strictly inside `sphere(abcd)`, `p` not strictly inside `sphere(abce)` — and `p` is strictly on the far side of `abc`. -/
example :
    let a : ℚ × ℚ × ℚ := (0, 0, 0); let b : ℚ × ℚ × ℚ := (4, 0, 0); let c : ℚ × ℚ × ℚ := (0, 4, 0)
    let d : ℚ × ℚ × ℚ := (2, 2, 1); let e : ℚ × ℚ × ℚ := (2, 2, -1); let p : ℚ × ℚ × ℚ := (2, 2, -7 / 2)
    sideP a b c d * sideP a b c e < 0 ∧ InSphere a b c d p ∧ ¬ InSphere a b c e p ∧ InSphere a b c d e ∧
      sideP a b c d * sideP a b c p < 0 := by
  norm_num [InSphere, power3, sideP, pow0, det3, nsq]

/-- COSPHERICAL POINTS are covered by the weak notion "not strictly inside": `a = (-4,-3,0)`, `b = (4,-3,0)`, `c = (0,-3,4)`,
`e = (0,-5,0)` on the sphere of radius 5 about the origin, `d = (0,7,0)`, and the new point `p = (3,4,0)` exactly ON
`sphere(abce)` (so `abce` is not deleted by the exact strict test), strictly inside `sphere(abcd)`: all hypotheses of the
key lemma hold and so does its conclusion. -/
example :
    let a : ℚ × ℚ × ℚ := (-4, -3, 0); let b : ℚ × ℚ × ℚ := (4, -3, 0); let c : ℚ × ℚ × ℚ := (0, -3, 4)
    let d : ℚ × ℚ × ℚ := (0, 7, 0); let e : ℚ × ℚ × ℚ := (0, -5, 0); let p : ℚ × ℚ × ℚ := (3, 4, 0)
    power3 a b c e p = 0 ∧ sideP a b c d * sideP a b c e < 0 ∧ InSphere a b c d p ∧ ¬ InSphere a b c d e ∧
      ¬ InSphere a b c e p ∧ 0 < sideP a b c d * sideP a b c p := by
  norm_num [InSphere, power3, sideP, pow0, det3, nsq]

end Tri
