import AdaptiveProofs.Lemmas.IntegAnalysis
import AdaptiveProofs.Lemmas.QuadTablesLeg
import AdaptiveProofs.Lemmas.QuadTablesXi
import AdaptiveProofs.Lemmas.QuadTablesBdef

/-!
# C08 — IntegratorLearner: converged integrals are right and match Gonnet's algorithm 4   (PARTIAL)

Property (properties.jsonl): when `done()` holds for an integrand with a closed-form integral, the reported
`igral` differs from the exact integral by at most `max(err, tol·|exact|)` (plus rounding), for every delivery
order; fed sequentially the learner reproduces `igral`/`err` of the reference `algorithm_4`.

What is proved here is the *real-analysis skeleton* of that claim and nothing more:

* the approximating intervals partition `[a, b]` (this is C07's coverage theorem, here the hypothesis
  `x 0 = a`, `x n = b` with adjacent pieces `[x k, x (k+1)]`),
* `IntegratorLearner.igral = Σ ival.igral` and `IntegratorLearner.err = Σ ival.err` over those intervals
  (plus the `_igral_excess/_err_excess` of removed intervals, which are simply further pieces of the partition),
* **hypothesis** `hloc`: on every piece the local estimate is valid, `|∫_I f − igral_I| ≤ err_I`.

`hloc` is exactly the part that is NOT proved and cannot be proved for arbitrary integrands: Gonnet's estimator
(`_Interval.calc_err`: L2 norm of the difference of two successive Legendre interpolants, scaled by the width)
is a heuristic; it is a bound only under smoothness assumptions on `f` that the code never checks.  Also not
covered: floating point (everything below is over `ℝ`), the down-date for non-finite values, the floating-point
tables of `integrator_coeffs.py` (`V`, `V_inv`, `T_left`, `T_right`, `alpha`, `gamma`, the `sqrt` factor of `b_def`), and the
fact that `done()` compares with `|igral|`, not with `|exact|` (the corollary below is therefore stated with `|Σ q|`;
`integ_done_bound_exact_partial` converts).  The *exact* tables of `integrator_coeffs.py` are proved correct in the second
half of this file (section "coefficient tables").
Those parts are covered only by testing: `harness/props/c08.py` (closed-form families, differential run
against `adaptive/tests/algorithm_4.py`).

The full statement of C08 over the reals is kept visible as `integ_converged_right_statement`; it is **not**
proved (it is false for a heuristic estimator without the hypothesis `hloc`).
-/
namespace C08
open MeasureTheory intervalIntegral IntegAnalysis

/-- The full C08 claim (over ℝ, no rounding), as a proposition about an abstract "integrator outcome":
for every integrand, partition, local estimates and local error estimates *produced by the estimator `est`*
(`est f u v = (q, e)`), if the `done()` disjunct `Σe < |Σq|·tol` holds then the global value is within
`max(Σe, tol·|Σq|)` of the integral.  NOT proved: it needs `∀ f u v, |∫_u^v f − (est f u v).1| ≤ (est f u v).2`,
which no finite-sample estimator satisfies for all integrable `f`. -/
def integ_converged_right_statement (est : (ℝ → ℝ) → ℝ → ℝ → ℝ × ℝ) : Prop :=
  ∀ (f : ℝ → ℝ) (a b tol : ℝ) (n : ℕ) (x : ℕ → ℝ),
    x 0 = a → x n = b → (∀ k < n, IntervalIntegrable f volume (x k) (x (k + 1))) →
    (∑ k ∈ Finset.range n, (est f (x k) (x (k + 1))).2)
        < |∑ k ∈ Finset.range n, (est f (x k) (x (k + 1))).1| * tol →
    |∫ t in a..b, f t - ∑ k ∈ Finset.range n, (est f (x k) (x (k + 1))).1|
      ≤ max (∑ k ∈ Finset.range n, (est f (x k) (x (k + 1))).2)
            (tol * |∑ k ∈ Finset.range n, (est f (x k) (x (k + 1))).1|)

/-- C08 (partial, the global bound).  If the pieces `[x k, x (k+1)]`, `k < n`, are adjacent and run from `a` to `b`
(C07: the intervals cover the domain without gaps), `f` is interval-integrable on each, and every local estimate
`q k` (`ival.igral`) is within its local error estimate `e k` (`ival.err`) of the local integral — the unproved
validity of Gonnet's estimator — then the reported total `Σ q` is within the reported total error `Σ e` of
`∫_a^b f`.  No order assumption on the break points is needed. -/
theorem integ_global_bound_partial (f : ℝ → ℝ) (a b : ℝ) (n : ℕ) (x : ℕ → ℝ) (q e : ℕ → ℝ)
    (h0 : x 0 = a) (hn : x n = b)
    (hint : ∀ k < n, IntervalIntegrable f volume (x k) (x (k + 1)))
    (hloc : ∀ k < n, |(∫ t in (x k)..(x (k + 1)), f t) - q k| ≤ e k) :
    |(∫ t in a..b, f t) - ∑ k ∈ Finset.range n, q k| ≤ ∑ k ∈ Finset.range n, e k := by
  subst h0 hn
  rw [integral_eq_sum_pieces f x n hint]
  exact abs_sum_sub_le _ q e hloc

/-- C08 (partial, with the `done()` disjunct).  Same hypotheses plus `done()`'s first non-trivial disjunct
`err < |igral|·tol`: the deviation is at most `max(err, tol·|igral|)` — and in fact strictly below `tol·|igral|`. -/
theorem integ_done_bound_partial (f : ℝ → ℝ) (a b tol : ℝ) (n : ℕ) (x : ℕ → ℝ) (q e : ℕ → ℝ)
    (h0 : x 0 = a) (hn : x n = b)
    (hint : ∀ k < n, IntervalIntegrable f volume (x k) (x (k + 1)))
    (hloc : ∀ k < n, |(∫ t in (x k)..(x (k + 1)), f t) - q k| ≤ e k)
    (_hdone : ∑ k ∈ Finset.range n, e k < |∑ k ∈ Finset.range n, q k| * tol) :
    |(∫ t in a..b, f t) - ∑ k ∈ Finset.range n, q k|
      ≤ max (∑ k ∈ Finset.range n, e k) (tol * |∑ k ∈ Finset.range n, q k|) :=
  (integ_global_bound_partial f a b n x q e h0 hn hint hloc).trans (le_max_left _ _)

/-- the strict form: under `done()` the deviation is below `tol·|igral|` -/
theorem integ_done_rel_bound_partial (f : ℝ → ℝ) (a b tol : ℝ) (n : ℕ) (x : ℕ → ℝ) (q e : ℕ → ℝ)
    (h0 : x 0 = a) (hn : x n = b)
    (hint : ∀ k < n, IntervalIntegrable f volume (x k) (x (k + 1)))
    (hloc : ∀ k < n, |(∫ t in (x k)..(x (k + 1)), f t) - q k| ≤ e k)
    (hdone : ∑ k ∈ Finset.range n, e k < |∑ k ∈ Finset.range n, q k| * tol) :
    |(∫ t in a..b, f t) - ∑ k ∈ Finset.range n, q k| < tol * |∑ k ∈ Finset.range n, q k| := by
  have h := integ_global_bound_partial f a b n x q e h0 hn hint hloc
  calc _ ≤ ∑ k ∈ Finset.range n, e k := h
    _ < |∑ k ∈ Finset.range n, q k| * tol := hdone
    _ = tol * |∑ k ∈ Finset.range n, q k| := mul_comm _ _

/-- The python oracle compares with `tol·|exact|`, the code with `tol·|igral|`.  Conversion: under the hypotheses
above and `0 ≤ tol`, `(1−tol)·deviation ≤ tol·|exact|`, i.e. for `tol < 1` the deviation is at most `tol/(1−tol)·|exact|`. -/
theorem integ_done_bound_exact_partial (f : ℝ → ℝ) (a b tol : ℝ) (n : ℕ) (x : ℕ → ℝ) (q e : ℕ → ℝ)
    (h0 : x 0 = a) (hn : x n = b)
    (hint : ∀ k < n, IntervalIntegrable f volume (x k) (x (k + 1)))
    (hloc : ∀ k < n, |(∫ t in (x k)..(x (k + 1)), f t) - q k| ≤ e k)
    (hdone : ∑ k ∈ Finset.range n, e k < |∑ k ∈ Finset.range n, q k| * tol)
    (ht0 : 0 ≤ tol) :
    (1 - tol) * |(∫ t in a..b, f t) - ∑ k ∈ Finset.range n, q k| ≤ tol * |∫ t in a..b, f t| := by
  have h := integ_done_rel_bound_partial f a b tol n x q e h0 hn hint hloc hdone
  set J := ∫ t in a..b, f t
  set Q := ∑ k ∈ Finset.range n, q k
  have htri : |Q| ≤ |J| + |J - Q| := by
    have : Q = J - (J - Q) := by ring
    calc |Q| = |J - (J - Q)| := by rw [← this]
      _ ≤ |J| + |J - Q| := abs_sub _ _
  have : tol * |Q| ≤ tol * (|J| + |J - Q|) := mul_le_mul_of_nonneg_left htri ht0
  nlinarith [abs_nonneg (J - Q), abs_nonneg J]

/-- The full statement follows for any estimator that is locally valid on the integrand at hand —
i.e. `integ_converged_right_statement` restricted to integrands on which `est` is a bound. -/
theorem integ_converged_right_of_valid_estimator (est : (ℝ → ℝ) → ℝ → ℝ → ℝ × ℝ) (f : ℝ → ℝ) (a b tol : ℝ)
    (n : ℕ) (x : ℕ → ℝ) (h0 : x 0 = a) (hn : x n = b)
    (hint : ∀ k < n, IntervalIntegrable f volume (x k) (x (k + 1)))
    (hvalid : ∀ k < n, |(∫ t in (x k)..(x (k + 1)), f t) - (est f (x k) (x (k + 1))).1|
        ≤ (est f (x k) (x (k + 1))).2)
    (hdone : (∑ k ∈ Finset.range n, (est f (x k) (x (k + 1))).2)
        < |∑ k ∈ Finset.range n, (est f (x k) (x (k + 1))).1| * tol) :
    |(∫ t in a..b, f t) - ∑ k ∈ Finset.range n, (est f (x k) (x (k + 1))).1|
      ≤ max (∑ k ∈ Finset.range n, (est f (x k) (x (k + 1))).2)
            (tol * |∑ k ∈ Finset.range n, (est f (x k) (x (k + 1))).1|) :=
  integ_done_bound_partial f a b tol n x (fun k => (est f (x k) (x (k + 1))).1)
    (fun k => (est f (x k) (x (k + 1))).2) h0 hn hint hvalid hdone

/-!
## Coefficient tables of `integrator_coeffs.py`

`harness/integ_tables.py` dumps the exact tables of the LIVE module into `AdaptiveModel/Gen/QuadTables.lean` (integers);
`AdaptiveModel/QuadPoly.lean` reads them as rationals (`legP n` = `legendre(34)[n]`, `newtonP r` = `newton(ns[r])`,
`xiRow r` = exact values of the doubles `xi[r]`, `bdefRow r` = `scalar_product(newton(ns[r]), P_k)`) and defines the list
polynomial operations.  Every theorem below is a statement about those generated tables, proved by exact computation in the
Lean kernel (`decide +kernel` in `Lemmas/QuadTables{Leg,Xi,Bdef}.lean`, no `native_decide`) combined with generic lemmas
(`Lemmas/QuadTablesPoly.lean`).  A change of the source changes the generated file and these theorems stop type-checking.

What is exact and what is not: `legendre` works with `Fraction`s, `newton` with integers divided by powers of two (it
asserts exactness itself), `scalar_product` on `Fraction`s is exact; the nodes `xi` are doubles (`-cos(kπ/(n−1))` rounded and
then antisymmetrised): about them only what holds exactly for the doubles is proved (antisymmetry, nesting, order, end
points, bit patterns) plus a residual bound against the exact nodal polynomial.  `b_def = sqrt((2k+1)/2)·bdefRow`, `V`, `V_inv`,
`T_left/right`, `alpha`, `gamma` are floating point and are NOT covered.
-/
open QuadPoly Gen.QuadTables

/-- (a) The rows of `legendre(34)` are orthogonal with the standard normalisation: `∫_{-1}^{1} P_i P_j = 2/(2i+1)·δ_ij`
for all `0 ≤ i, j ≤ 33`, the integral computed exactly from the coefficient lists (`QuadPoly.inner`). -/
theorem legendre_table_orthogonal (i j : ℕ) (hi : i < 34) (hj : j < 34) :
    QuadPoly.inner (legP i) (legP j) = if i = j then 2 / (2 * (i : ℚ) + 1) else 0 :=
  legP_inner hi hj

/-- (a′) The same as a statement about real integrals of the polynomial functions. -/
theorem legendre_table_orthogonal_integral (i j : ℕ) (hi : i < 34) (hj : j < 34) :
    ∫ x in (-1 : ℝ)..1, peval ((legP i).map ((↑) : ℚ → ℝ)) x * peval ((legP j).map ((↑) : ℚ → ℝ)) x
      = if i = j then 2 / (2 * (i : ℝ) + 1) else 0 := by
  have h := integral_peval_mul_peval (legP i) (legP j)
  simp only [Rat.coe_castHom] at h
  rw [h, legP_inner hi hj]
  split_ifs <;> simp

/-- `QuadPoly.inner`, the exact scalar product the theorems are stated with, is the integral over `[-1, 1]` of the product
of the two polynomial functions, for all coefficient lists. -/
theorem inner_is_integral (p q : List ℚ) :
    ∫ x in (-1 : ℝ)..1, peval (p.map ((↑) : ℚ → ℝ)) x * peval (q.map ((↑) : ℚ → ℝ)) x = ((QuadPoly.inner p q : ℚ) : ℝ) := by
  have h := integral_peval_mul_peval p q
  simpa only [Rat.coe_castHom] using h

/-- … and it is the integral of the product polynomial, the way `scalar_product` computes it. -/
theorem inner_is_integ_pmul (p q : List ℚ) : QuadPoly.inner p q = integ (pmul p q) :=
  inner_eq_integ_pmul p q

/-- (b) The table satisfies Bonnet's recursion `(n+1) P_{n+1} = (2n+1) X P_n − n P_{n−1}` with `P_0 = 1`, `P_1 = X`
(identities of coefficient lists), it has 34 rows and row `n` has `n+1` coefficients. -/
theorem legendre_table_recurrence :
    legCount = 34 ∧ legP 0 = [1] ∧ legP 1 = [0, 1] ∧
    (∀ n : ℕ, n < 34 → (legP n).length = n + 1) ∧
    ∀ n : ℕ, 1 ≤ n → n + 1 < 34 →
      pscale ((n : ℚ) + 1) (legP (n + 1))
        = padd (pscale (2 * (n : ℚ) + 1) (pshift (legP n))) (pscale (-(n : ℚ)) (legP (n - 1))) := by
  refine ⟨legCount_check.1, ?_, ?_, fun n hn => legP_length hn, fun n h1 hn => legP_bonnet h1 hn⟩
  · rw [legP_eq_legRec (by norm_num)]; rfl
  · rw [legP_eq_legRec (by norm_num)]; rfl

/-- (b′) Hence the table *is* the sequence of classical Legendre polynomials generated by the recursion
(`QuadPoly.legRec`). -/
theorem legendre_table_eq_classical (n : ℕ) (hn : n < 34) : legP n = legRec n :=
  legP_eq_legRec hn

/-- (b″) The recursion for the values: `(n+1) P_{n+1}(x) = (2n+1) x P_n(x) − n P_{n−1}(x)` for every real `x`. -/
theorem legendre_table_recurrence_eval (n : ℕ) (h1 : 1 ≤ n) (hn : n + 1 < 34) (x : ℝ) :
    ((n : ℝ) + 1) * peval ((legP (n + 1)).map ((↑) : ℚ → ℝ)) x
      = (2 * (n : ℝ) + 1) * x * peval ((legP n).map ((↑) : ℚ → ℝ)) x
        - (n : ℝ) * peval ((legP (n - 1)).map ((↑) : ℚ → ℝ)) x := by
  have h := congrArg (fun l => peval (l.map (Rat.castHom ℝ)) x) (legP_bonnet h1 hn)
  simp only [map_padd, map_pscale, map_pshift, peval_padd, peval_pscale, peval_pshift] at h
  simp only [Rat.coe_castHom] at h
  push_cast at h
  linarith

/-- (c) Every node table is antisymmetric: reversed = negated (exact values of the doubles). -/
theorem xi_antisymmetric (r : ℕ) (hr : r < 4) : (xiRow r).reverse = (xiRow r).map (fun x => -x) := by
  have := all_range xi_antisymm_check r hr
  simpa using this

/-- (c) The rules are nested: node `k` of rule `r` is node `2k` of rule `r+1`, as exact dyadic rationals (hence as doubles). -/
theorem xi_nested (r : ℕ) (hr : r < 3) (k : ℕ) (hk : k < nsAt r) :
    (xiRow r).getD k 0 = (xiRow (r + 1)).getD (2 * k) 0 := by
  have := all_range (all_range xi_nested_check r hr) k hk
  simpa using this

/-- (c) Every node table is strictly increasing. -/
theorem xi_sorted (r : ℕ) (hr : r < 4) : (xiRow r).Pairwise (· < ·) :=
  strictIncr_pairwise (all_range xi_sorted_check r hr)

/-- (c) Shape: `ns = (5, 9, 17, 33)`, `ns[r+1] = 2·ns[r] − 1`, table `r` has `ns[r]` nodes, runs from `−1` to `1` and its
middle node is `0`. -/
theorem xi_shape (r : ℕ) (hr : r < 4) :
    ns = [5, 9, 17, 33] ∧ (xiRow r).length = nsAt r ∧ (xiRow r).head? = some (-1) ∧ (xiRow r).getLast? = some 1 ∧
    (xiRow r).getD (nsAt r / 2) 7 = 0 := by
  have h1 := all_range xi_shape_check.2.2.2.2 r hr
  have h2 := all_range xi_ends_check r hr
  simp only [Bool.and_eq_true, beq_iff_eq] at h1 h2
  exact ⟨ns_check.1, h1.1, h2.1.1, h2.1.2, h2.2⟩

/-- (c) The rationals the theorems speak about are the exact values of the doubles of the live table (bit patterns
`xiBits`, decoded by `QuadPoly.bitsValue`: IEEE-754 binary64). -/
theorem xi_bits_exact (r : ℕ) (hr : r < 4) : (xiBits.getD r []).map bitsValue = xiRow r := by
  have := all_range xi_bits_check r hr
  simpa using this

/-- (d) `newton(n)` is, coefficient by coefficient, the monic polynomial `(X² − 1)·U_{n−2}(X) / 2^{n−2}` (`U` = Chebyshev
polynomial of the second kind, built by its recursion over ℤ), of degree `n`, for the four rule sizes.  This part is
exact: `newton` returns integers divided by powers of two. -/
theorem newton_table_is_cc_nodal_poly (r : ℕ) (hr : r < 4) :
    newtonP r = ccNodal (nsAt r) ∧ (newtonP r).length = nsAt r + 1 ∧ (newtonP r).getLast? = some 1 := by
  have h1 := all_range newton_ccNodal_check r hr
  have h2 := all_range xi_shape_check.2.2.2.2 r hr
  have h3 := all_range newton_monic_check r hr
  simp only [Bool.and_eq_true, beq_iff_eq] at h1 h2 h3
  exact ⟨h1, h2.2, h3⟩

/-- (d) The Newton polynomial vanishes at every node of the `n`-point Clenshaw–Curtis rule, `−cos(kπ/(n−1))`, as a
statement over ℝ about the exact (irrational) nodes; `QuadPoly.chebU` is identified with Mathlib's `Chebyshev.U` and
`U_{n−2}(cos φ)·sin φ = sin((n−1)φ)` is used.  Being monic of degree `n` with these `n` distinct roots, `newton(n)` is
`∏ (X − x_k)`. -/
theorem newton_table_vanishes_on_nodes (r : ℕ) (hr : r < 4) (k : ℤ) :
    peval ((newtonP r).map ((↑) : ℚ → ℝ)) (-Real.cos (k * Real.pi / ((nsAt r : ℝ) - 1))) = 0 := by
  have h1 := all_range newton_ccNodal_check r hr
  simp only [beq_iff_eq] at h1
  have h2 : 2 ≤ nsAt r := by
    have : r = 0 ∨ r = 1 ∨ r = 2 ∨ r = 3 := by omega
    rcases this with rfl | rfl | rfl | rfl <;> decide
  have := peval_ccNodal_node (nsAt r) h2 k
  rw [← h1] at this
  simpa only [Rat.coe_castHom] using this

/-- (d′) What links the double nodes `xi` to the exact nodes: the exact Newton polynomial evaluated at the exact value of
every double node is at most `(n−1)/2^(n−2) · 2⁻⁵²` in absolute value, where `(n−1)/2^(n−2)` is the slope of the nodal
polynomial at its interior roots — to first order every double is within `2⁻⁵²` of a root.  (That the doubles are the
*correctly rounded* cosines is not proved.) -/
theorem xi_newton_residual (r : ℕ) (hr : r < 4) (x : ℚ) (hx : x ∈ xiRow r) :
    |peval (newtonP r) x| ≤ ((nsAt r : ℚ) - 1) / 2 ^ (nsAt r - 2) / 2 ^ 52 := by
  have := all_range newton_residual_check r hr
  simp only [residualOK, List.all_eq_true, decide_eq_true_eq] at this
  exact this x hx

/-- The exact part of `calc_bdef`: the numbers `scalar_product(newton(ns[r]), P_k)`, `k = 0 … ns[r]`, computed by the live
module on `Fraction`s are `∫_{-1}^{1} newton(ns[r])·P_k` (`b_def[r][k]` is `sqrt((2k+1)/2)` times this, in floating point). -/
theorem bdef_integrals_exact (r : ℕ) (hr : r < 4) :
    bdefRow r = (List.range (nsAt r + 1)).map fun k => QuadPoly.inner (newtonP r) (legP k) :=
  bdefRow_eq hr

/-- The scalar constants: `eps = 2⁻⁵²`, `min_sep = 16·eps`, `hint` is the double nearest to `0.1`, `ndiv_max = 20`
(bit patterns decoded by `bitsValue`). -/
theorem quad_constants :
    bitsValue epsBits = 1 / 2 ^ 52 ∧ bitsValue minSepBits = 16 * bitsValue epsBits ∧
    |bitsValue hintBits - 1 / 10| ≤ 1 / 2 ^ 57 ∧ ndivMax = 20 := by
  obtain ⟨h1, h2, h3, h4, h5, h6⟩ := consts_check
  refine ⟨by rw [h1, h2], by rw [h3, h4, h1, h2], by rw [h5]; exact h6, ns_check.2⟩

end C08
