import AdaptiveProofs.Lemmas.IntegAnalysis

/-!
# C08 — IntegratorLearner: converged integrals are right and match Gonnet's algorithm 4   (PARTIAL)

Property (properties.jsonl): when `done()` holds for an integrand with a closed-form integral, the reported
`igral` differs from the exact integral by at most `max(err, tol·|exact|)` (plus rounding), for every delivery
order; fed sequentially the learner reproduces `igral`/`err` of the reference `algorithm_4`.

What is proved here is the *real-analysis skeleton* of that claim and nothing more:

* the approximating intervals partition `[a, b]` (this is C07's coverage theorem, here the hypothesis
  `x 0 = a`, `x n = b` with adjacent pieces `[x k, x (k+1)]`),
* `IntegratorLearner.igral = Σ ival.igral` and `IntegratorLearner.err = Σ ival.err` over those intervals
  (plus the `_igral_excess/_err_excess` of removed intervals, which are simply further pieces of the partition),
* **hypothesis** `hloc`: on every piece the local estimate is valid, `|∫_I f − igral_I| ≤ err_I`.

`hloc` is exactly the part that is NOT proved and cannot be proved for arbitrary integrands: Gonnet's estimator
(`_Interval.calc_err`: L2 norm of the difference of two successive Legendre interpolants, scaled by the width)
is a heuristic; it is a bound only under smoothness assumptions on `f` that the code never checks.  Also not
covered: floating point (everything below is over `ℝ`), the down-date for non-finite values, the correctness of
the coefficient tables in `integrator_coeffs.py`, and the fact that `done()` compares with `|igral|`, not with
`|exact|` (the corollary below is therefore stated with `|Σ q|`; `integ_done_bound_exact_partial` converts).
Those parts are covered only by testing: `harness/props/c08.py` (closed-form families, differential run
against `adaptive/tests/algorithm_4.py`).

The full statement of C08 over the reals is kept visible as `integ_converged_right_statement`; it is **not**
proved (it is false for a heuristic estimator without the hypothesis `hloc`).
-/
namespace C08
open MeasureTheory intervalIntegral IntegAnalysis

/-- The full C08 claim (over ℝ, no rounding), as a proposition about an abstract "integrator outcome":
for every integrand, partition, local estimates and local error estimates *produced by the estimator `est`*
(`est f u v = (q, e)`), if the `done()` disjunct `Σe < |Σq|·tol` holds then the global value is within
`max(Σe, tol·|Σq|)` of the integral.  NOT proved: it needs `∀ f u v, |∫_u^v f − (est f u v).1| ≤ (est f u v).2`,
which no finite-sample estimator satisfies for all integrable `f`. -/
def integ_converged_right_statement (est : (ℝ → ℝ) → ℝ → ℝ → ℝ × ℝ) : Prop :=
  ∀ (f : ℝ → ℝ) (a b tol : ℝ) (n : ℕ) (x : ℕ → ℝ),
    x 0 = a → x n = b → (∀ k < n, IntervalIntegrable f volume (x k) (x (k + 1))) →
    (∑ k ∈ Finset.range n, (est f (x k) (x (k + 1))).2)
        < |∑ k ∈ Finset.range n, (est f (x k) (x (k + 1))).1| * tol →
    |∫ t in a..b, f t - ∑ k ∈ Finset.range n, (est f (x k) (x (k + 1))).1|
      ≤ max (∑ k ∈ Finset.range n, (est f (x k) (x (k + 1))).2)
            (tol * |∑ k ∈ Finset.range n, (est f (x k) (x (k + 1))).1|)

/-- C08 (partial, the global bound).  If the pieces `[x k, x (k+1)]`, `k < n`, are adjacent and run from `a` to `b`
(C07: the intervals cover the domain without gaps), `f` is interval-integrable on each, and every local estimate
`q k` (`ival.igral`) is within its local error estimate `e k` (`ival.err`) of the local integral — the unproved
validity of Gonnet's estimator — then the reported total `Σ q` is within the reported total error `Σ e` of
`∫_a^b f`.  No order assumption on the break points is needed. -/
theorem integ_global_bound_partial (f : ℝ → ℝ) (a b : ℝ) (n : ℕ) (x : ℕ → ℝ) (q e : ℕ → ℝ)
    (h0 : x 0 = a) (hn : x n = b)
    (hint : ∀ k < n, IntervalIntegrable f volume (x k) (x (k + 1)))
    (hloc : ∀ k < n, |(∫ t in (x k)..(x (k + 1)), f t) - q k| ≤ e k) :
    |(∫ t in a..b, f t) - ∑ k ∈ Finset.range n, q k| ≤ ∑ k ∈ Finset.range n, e k := by
  subst h0 hn
  rw [integral_eq_sum_pieces f x n hint]
  exact abs_sum_sub_le _ q e hloc

/-- C08 (partial, with the `done()` disjunct).  Same hypotheses plus `done()`'s first non-trivial disjunct
`err < |igral|·tol`: the deviation is at most `max(err, tol·|igral|)` — and in fact strictly below `tol·|igral|`. -/
theorem integ_done_bound_partial (f : ℝ → ℝ) (a b tol : ℝ) (n : ℕ) (x : ℕ → ℝ) (q e : ℕ → ℝ)
    (h0 : x 0 = a) (hn : x n = b)
    (hint : ∀ k < n, IntervalIntegrable f volume (x k) (x (k + 1)))
    (hloc : ∀ k < n, |(∫ t in (x k)..(x (k + 1)), f t) - q k| ≤ e k)
    (_hdone : ∑ k ∈ Finset.range n, e k < |∑ k ∈ Finset.range n, q k| * tol) :
    |(∫ t in a..b, f t) - ∑ k ∈ Finset.range n, q k|
      ≤ max (∑ k ∈ Finset.range n, e k) (tol * |∑ k ∈ Finset.range n, q k|) :=
  (integ_global_bound_partial f a b n x q e h0 hn hint hloc).trans (le_max_left _ _)

/-- the strict form: under `done()` the deviation is below `tol·|igral|` -/
theorem integ_done_rel_bound_partial (f : ℝ → ℝ) (a b tol : ℝ) (n : ℕ) (x : ℕ → ℝ) (q e : ℕ → ℝ)
    (h0 : x 0 = a) (hn : x n = b)
    (hint : ∀ k < n, IntervalIntegrable f volume (x k) (x (k + 1)))
    (hloc : ∀ k < n, |(∫ t in (x k)..(x (k + 1)), f t) - q k| ≤ e k)
    (hdone : ∑ k ∈ Finset.range n, e k < |∑ k ∈ Finset.range n, q k| * tol) :
    |(∫ t in a..b, f t) - ∑ k ∈ Finset.range n, q k| < tol * |∑ k ∈ Finset.range n, q k| := by
  have h := integ_global_bound_partial f a b n x q e h0 hn hint hloc
  calc _ ≤ ∑ k ∈ Finset.range n, e k := h
    _ < |∑ k ∈ Finset.range n, q k| * tol := hdone
    _ = tol * |∑ k ∈ Finset.range n, q k| := mul_comm _ _

/-- The python oracle compares with `tol·|exact|`, the code with `tol·|igral|`.  Conversion: under the hypotheses
above and `0 ≤ tol`, `(1−tol)·deviation ≤ tol·|exact|`, i.e. for `tol < 1` the deviation is at most `tol/(1−tol)·|exact|`. -/
theorem integ_done_bound_exact_partial (f : ℝ → ℝ) (a b tol : ℝ) (n : ℕ) (x : ℕ → ℝ) (q e : ℕ → ℝ)
    (h0 : x 0 = a) (hn : x n = b)
    (hint : ∀ k < n, IntervalIntegrable f volume (x k) (x (k + 1)))
    (hloc : ∀ k < n, |(∫ t in (x k)..(x (k + 1)), f t) - q k| ≤ e k)
    (hdone : ∑ k ∈ Finset.range n, e k < |∑ k ∈ Finset.range n, q k| * tol)
    (ht0 : 0 ≤ tol) :
    (1 - tol) * |(∫ t in a..b, f t) - ∑ k ∈ Finset.range n, q k| ≤ tol * |∫ t in a..b, f t| := by
  have h := integ_done_rel_bound_partial f a b tol n x q e h0 hn hint hloc hdone
  set J := ∫ t in a..b, f t
  set Q := ∑ k ∈ Finset.range n, q k
  have htri : |Q| ≤ |J| + |J - Q| := by
    have : Q = J - (J - Q) := by ring
    calc |Q| = |J - (J - Q)| := by rw [← this]
      _ ≤ |J| + |J - Q| := abs_sub _ _
  have : tol * |Q| ≤ tol * (|J| + |J - Q|) := mul_le_mul_of_nonneg_left htri ht0
  nlinarith [abs_nonneg (J - Q), abs_nonneg J]

/-- The full statement follows for any estimator that is locally valid on the integrand at hand —
i.e. `integ_converged_right_statement` restricted to integrands on which `est` is a bound. -/
theorem integ_converged_right_of_valid_estimator (est : (ℝ → ℝ) → ℝ → ℝ → ℝ × ℝ) (f : ℝ → ℝ) (a b tol : ℝ)
    (n : ℕ) (x : ℕ → ℝ) (h0 : x 0 = a) (hn : x n = b)
    (hint : ∀ k < n, IntervalIntegrable f volume (x k) (x (k + 1)))
    (hvalid : ∀ k < n, |(∫ t in (x k)..(x (k + 1)), f t) - (est f (x k) (x (k + 1))).1|
        ≤ (est f (x k) (x (k + 1))).2)
    (hdone : (∑ k ∈ Finset.range n, (est f (x k) (x (k + 1))).2)
        < |∑ k ∈ Finset.range n, (est f (x k) (x (k + 1))).1| * tol) :
    |(∫ t in a..b, f t) - ∑ k ∈ Finset.range n, (est f (x k) (x (k + 1))).1|
      ≤ max (∑ k ∈ Finset.range n, (est f (x k) (x (k + 1))).2)
            (tol * |∑ k ∈ Finset.range n, (est f (x k) (x (k + 1))).1|) :=
  integ_done_bound_partial f a b tol n x (fun k => (est f (x k) (x (k + 1))).1)
    (fun k => (est f (x k) (x (k + 1))).2) h0 hn hint hvalid hdone

end C08
