import AdaptiveProofs.Lemmas.RunnerInv

/-!
# C06 — Runners account for every failed evaluation: bounded retries, nothing lost

For every configuration and every event list (every assignment of success/failure to the
successive evaluations of each point, every completion order).
-/
namespace Runner

/-- C06.a  a point is evaluated at most `retries + 1` times -/
theorem retry_bounded (cfg : Cfg) (evs : List Ev) (pid : Nat) :
    nSubmit pid (run (init cfg) evs).trace ≤ cfg.retries + 1 := by
  have h := (inv_run evs _ (inv_init cfg)).1.nSubmit_le pid
  rwa [run_cfg] at h

/-- C06.b  retries come first: when the runner turns to the learner for new points, every
failed point that is not in flight has already been scheduled ahead of them -/
theorem retry_first (cfg : Cfg) (evs : List Ev) (n : Nat) (pids : List Nat) :
    let s := run (init cfg) evs
    s.phase = .head → (step s (.goal false)).phase = .asking n pids →
      pids = retryPids s ∧
      ∀ pts, ∃ tr, (step (step s (.goal false)) (.asked pts)).trace =
        (step s (.goal false)).trace ++ Call.ask (n - pids.length) pts :: tr ∧
        (tr.take pids.length).map (fun c => match c with | .submit _ p _ => p | _ => 0) = pids := by
  intro s hph ha
  exact retry_first_aux hph ha

/-- C06.c  a point is told at most once, and never once it has exceeded its retries -/
theorem tell_once (cfg : Cfg) (evs : List Ev) (pid : Nat) :
    let s := run (init cfg) evs
    nTell pid s.trace ≤ 1 ∧ (pid ∈ failed s → nTell pid s.trace = 0) := by
  intro s
  have h : DInv s := (inv_run evs _ (inv_init cfg)).1
  refine ⟨h.tell_le pid, fun hf => ?_⟩
  obtain ⟨a, b⟩ := mem_failed.1 hf
  exact (h.failed_facts a b).2.2

/-- C06.d  `failed` lists exactly the points that failed more than `retries` times; each
has a traceback and its point is still known; none is in flight or will be retried -/
theorem failed_listed (cfg : Cfg) (evs : List Ev) (pid : Nat) :
    let s := run (init cfg) evs
    (pid ∈ failed s ↔ nFail pid s.trace > cfg.retries) ∧
    (pid ∈ failed s → pid ∈ s.tracebacks ∧ (aget pid s.idToPoint).isSome ∧
      pid ∉ s.pending.map Prod.snd ∧ (aget pid s.toRetry).isNone) ∧
    nFail pid s.trace ≤ cfg.retries + 1 := by
  intro s
  have h : DInv s := (inv_run evs _ (inv_init cfg)).1
  have hcfg : s.cfg = cfg := run_cfg evs (init cfg)
  refine ⟨?_, fun hf => ?_, hcfg ▸ h.nFail_le pid⟩
  · rw [mem_failed, h.failed_iff pid, hcfg]
  · obtain ⟨a, b⟩ := mem_failed.1 hf
    obtain ⟨c, d, _⟩ := h.failed_facts a b
    exact ⟨a, c, d, by rw [b]; rfl⟩

/-- C06.e  the error names the point: a raise happens only with `raise_if_retries_exceeded`,
for a pid that exhausted its retries, with the point the learner handed out for it; a run
that stopped as failed raised for that very point; without the flag the runner never
raises -/
theorem raise_names_point (cfg : Cfg) (evs : List Ev) :
    let s := run (init cfg) evs
    (∀ pid x, Call.raise pid x ∈ s.trace →
      cfg.raiseIf = true ∧ (askedPts s.trace)[pid]? = some x ∧ nFail pid s.trace = cfg.retries + 1) ∧
    (∀ pid x, s.phase = .stopped (.failed pid x) → Call.raise pid x ∈ s.trace) ∧
    (cfg.raiseIf = false → ∀ pid x, Call.raise pid x ∉ s.trace) := by
  intro s
  have h : DInv s := (inv_run evs _ (inv_init cfg)).1
  have hcfg : s.cfg = cfg := run_cfg evs (init cfg)
  have h1 : ∀ pid x, Call.raise pid x ∈ s.trace →
      cfg.raiseIf = true ∧ (askedPts s.trace)[pid]? = some x ∧ nFail pid s.trace = cfg.retries + 1 :=
    fun pid x hm => hcfg ▸ h.raise_spec pid x hm
  refine ⟨h1, fun pid x hph => ?_, fun hr pid x hm => ?_⟩
  · exact (exitInv_run evs _ (exitInv_init cfg) _ (Or.inr hph)).2.2.2.2 pid x rfl
  · have := (h1 pid x hm).1
    rw [hr] at this; cases this

/-! ## Non-vacuity: a blocking run in which a point exhausts its retries and the runner raises -/

def exampleCfg6 : Cfg := { ntasks := 3, retries := 1, raiseIf := true, blocking := true, doLog := false }

def exampleEvs6 : List Ev :=
  [.goal false, .asked [10, 11], .done [(0, .fail)], .goal false, .asked [12],
   .done [(2, .fail)], .remaining [(1, .ok 3)]]

example : (run (init exampleCfg6) exampleEvs6).phase = .stopped (.failed 0 10) := by decide
example : failed (run (init exampleCfg6) exampleEvs6) = [0] := by decide
example : nSubmit 0 (run (init exampleCfg6) exampleEvs6).trace = 2 := by decide
example : (step (run (init exampleCfg6) (exampleEvs6.take 3)) (.goal false)).phase = .asking 2 [0] := by
  decide

end Runner
