import AdaptiveProofs.Lemmas.C10More

/-!
# C10 (continued) — telling is faithful bookkeeping: LearnerND, IntegratorLearner, AverageLearner1D

Property theorems only (helper lemmas: `Lemmas/C10More.lean`).  The first part of C10 (`Props/C10.lean`) covers
Learner1D, SequenceLearner, AverageLearner and the wrappers; this file covers the models
`AdaptiveModel/LND.lean` (A), `AdaptiveModel/Integ.lean` (B) and `AdaptiveModel/Avg1DFull.lean` (C).

All theorems quantify over every environment / oracle, every scalar type, every history; nothing is bounded.
Where a clause of the property is FALSE of a model (because it is false of the code the model mirrors) the
concrete counterexample is given as an `example` next to the closest true statement.
-/
set_option linter.unusedSectionVars false
set_option linter.unusedVariables false
namespace C10More

/-! ## (A) LearnerND -/
section lnd
open LND
variable {α : Type} [Sub α] [Mul α] [Div α] [LT α] [DecidableLT α]

/-- A.1 DATA.  After every history that runs through, `data` holds exactly the points of the `tell` operations
(ALL of them: the code stores a point outside the domain too, it only keeps it out of the triangulation), each
once, in the order in which they were told first; the point count is the number of distinct told points.
(The model carries the keys of `data`; the value of a point only feeds the loss oracle, and the first value wins
because a second `tell` is ignored — A.4.) -/
theorem lnd_data_is_told (env : Env α) (ops : List (Op α)) {s : State α}
    (h : run env (init env) ops = .ok s) :
    s.data = addAll [] (toldPts ops) ∧ (∀ p, p ∈ s.data ↔ p ∈ toldPts ops) ∧ s.data.Nodup ∧
    s.data.length = (toldPts ops).dedup.length := by
  have hd : s.data = addAll [] (toldPts ops) := run_data env ops h
  refine ⟨hd, ?_, ?_, ?_⟩
  · intro p; rw [hd, mem_addAll]; simp
  · rw [hd]; exact nodup_addAll _ List.nodup_nil
  · rw [hd]; exact length_addAll_nil _

/-- A.2 TOLD ⇒ NOT PENDING, per operation.  A `tell` of a point that has no value yet gives it one and removes it
from the pending set. -/
theorem lnd_tell_not_pending (env : Env α) {s s' : State α} (p : Pt) (vmin vmax : α) (hn : p ∉ s.data)
    (h : tell env s p vmin vmax = .ok s') : p ∈ s'.data ∧ p ∉ s'.pending :=
  tell_new_not_pending env p vmin vmax hn h

/-- A.2 as an invariant — UNCONDITIONAL since the repair `fix: LearnerND.tell_pending marked an already evaluated
point as pending`.  `data` and `pending_points` are disjoint in every state reached by ANY history: `tell_pending`
ignores a point that has a value, and `ask` marks the points it hands out through the same function, so neither an
explicit `tell_pending(p)` nor a committing `ask` that returns a known point (the random bootstrap point, the point
chosen in a simplex — the missing corners are unknown by construction) marks a known point.  (Before the repair the
invariant needed the hypothesis `NoRemark` — "no operation marks a point pending that has a value at that moment" —
and was false without it; the two former counterexamples are the positive `example`s below.) -/
theorem lnd_data_pending_disjoint (env : Env α) (ops : List (Op α))
    {s : State α} (h : run env (init env) ops = .ok s) : ∀ p ∈ s.data, p ∉ s.pending :=
  run_disjoint env ops (fun p hp => absurd hp (by simp [init])) h

/-- A.2 from any start state: every operation — and so every history — keeps `data` and `pending_points` disjoint. -/
theorem lnd_disjoint_preserved (env : Env α) (ops : List (Op α)) {s s' : State α}
    (hd : ∀ p ∈ s.data, p ∉ s.pending) (h : run env s ops = .ok s') : ∀ p ∈ s'.data, p ∉ s'.pending :=
  run_disjoint env ops hd h

/-- A.2, the step behind it: a point that has a value and is not pending stays so under EVERY operation (before the
repair: under every operation that does not mark it). -/
theorem lnd_told_stays_not_pending (env : Env α) {s s' : State α} {p : Pt} (op : Op α) (hd : p ∈ s.data)
    (hp : p ∉ s.pending) (h : step env s op = .ok s') :
    p ∈ s'.data ∧ p ∉ s'.pending :=
  ⟨mem_data_step env op hd h, step_told_not_pending env op hd hp h⟩

/-- A.2: `tell_pending` of a point that has a value is a no-op — for every state, every environment, every hint (the
repair itself; as `Learner1D.tell_pending`, C10 `l1d_tellPending_known_noop`). -/
theorem lnd_tellPending_known_noop (env : Env α) (s : State α) (p : Pt) (hint : Option Simplex) (h : p ∈ s.data) :
    tellPending env s p hint = .ok s :=
  tellPending_known env s p hint (List.contains_iff_mem.2 h)

/-- A.2: … and a committing `ask` that returns a point with a value does not mark it either: its membership in the
pending set is what it was. -/
theorem lnd_ask_known_not_marked (env : Env α) {s s' : State α} {rs : List (Pt × α)} (n : Nat) (commit : Bool)
    (h : ask env s n commit = .ok (rs, s')) (p : Pt) (hd : p ∈ s.data) : p ∈ s'.pending ↔ p ∈ s.pending :=
  ask_returned_known env n commit h p hd

/-- What is left of the former proviso.  Before the repair an operation that marked a known in-domain point
(`tell_pending(p)`, a committing `ask` returning `p`) made it pending, and it then stayed evaluated AND pending until
`remove_unfinished`.  Since the repair no operation produces such a point (`lnd_data_pending_disjoint`); the
persistence half is still a fact about the model — about a state that does not come from `init`, e.g. a learner
restored from a file written before the repair: a point that is both evaluated and pending stays both until
`remove_unfinished`, because a further `tell(p, ·)` is ignored (`p` is known), so it does not even discard `p` from the
pending set. -/
theorem lnd_remarked_point_stays_pending (env : Env α) {s s' : State α} {p : Pt}
    (hd : p ∈ s.data) (hp : p ∈ s.pending)
    (ops : List (Op α)) (hk : ∀ o ∈ ops, o ≠ .removeUnfinished) (h' : run env s ops = .ok s') :
    p ∈ s'.data ∧ p ∈ s'.pending :=
  run_known_pending env ops hk hd hp h'

/-- the former counterexample to the unconditional invariant, turned around: `tell(0); tell_pending(0); tell(0)` leaves
0 evaluated and NOT pending (the `tell_pending(0)` in the middle is a no-op) -/
example : ∃ s, run exEnv (init exEnv) [.tell 0 1 1, .tellPending 0, .tell 0 1 1] = .ok s ∧
    0 ∈ s.data ∧ 0 ∉ s.pending ∧ run exEnv (init exEnv) [.tell 0 1 1] = .ok s :=
  ⟨_, rfl, by decide, by decide, rfl⟩

/-- the former counterexample by `ask` alone, turned around: the random bootstrap point (oracle `randPt = 9`) was told
before; `ask(5)` serves the four corners and then hands 9 out again — and does NOT mark it pending -/
example : ∃ s1 rs s, run exEnv (init exEnv) [.tell 9 1 1] = .ok s1 ∧ ask exEnv s1 5 true = .ok (rs, s) ∧
    run exEnv (init exEnv) [.tell 9 1 1, .ask 5 true] = .ok s ∧
    rs.map (·.1) = [0, 1, 2, 3, 9] ∧ 9 ∈ s.data ∧ 9 ∉ s.pending ∧ s.pending = [0, 1, 2, 3] :=
  ⟨_, _, _, rfl, rfl, rfl, rfl, by decide, by decide, rfl⟩

/-- the invariant on a history with explicit re-marks and an `ask`: four tells, `tell_pending` of a known point, an
`ask`, `tell_pending` of the point asked and of another known point -/
example : ∃ s, run exEnv (init exEnv)
    [.tell 0 1 1, .tell 1 2 2, .tell 2 5 5, .tell 3 1 1, .tellPending 2, .ask 1 true, .tellPending 4, .tellPending 0,
      .loss] = .ok s ∧ s.data = [0, 1, 2, 3] ∧ s.pending = [4] ∧ ∀ p ∈ s.data, p ∉ s.pending := by
  refine ⟨_, rfl, rfl, rfl, ?_⟩
  exact lnd_data_pending_disjoint exEnv [.tell 0 1 1, .tell 1 2 2, .tell 2 5 5, .tell 3 1 1, .tellPending 2,
    .ask 1 true, .tellPending 4, .tellPending 0, .loss] rfl

/-- A.3 ASKED ⇒ PENDING.  Every in-domain point WITHOUT A VALUE returned by a committing `ask` is pending afterwards,
and stays pending along every later history that contains no `tell` of it and no `remove_unfinished`.  (`tell_pending`
ignores a point outside the domain and — since the repair — a point that has a value, hence the two hypotheses; the
corners of the domain and the accepted random points are inside in the real code, a point chosen in a simplex is inside
up to rounding; the missing corners have no value by construction, a random point or a chosen point has none unless the
oracle repeats a told point — `ChooseFresh` of C04.) -/
theorem lnd_asked_pending_until_told (env : Env α) {s s' : State α} {rs : List (Pt × α)} (n : Nat)
    (h : ask env s n true = .ok (rs, s')) (p : Pt) (hp : p ∈ rs.map (·.1)) (hnd : p ∉ s.data)
    (hin : env.inside p = true) :
    p ∈ s'.pending ∧
    ∀ (ops : List (Op α)) (s'' : State α), (∀ op ∈ ops, KeepsPending p op) → run env s' ops = .ok s'' →
      p ∈ s''.pending := by
  have hp' : p ∈ s'.pending := ask_returned_pending env n h p hp hnd hin
  exact ⟨hp', fun ops s'' hk hr => run_keeps_pending env ops hk hp' hr⟩

/-- the hypothesis "`p` has no value" of A.3 is needed since the repair: the told random bootstrap point 9 is returned
by `ask(5)`, lies in the domain, and is not pending afterwards -/
example : ∃ s rs s', run exEnv (init exEnv) [.tell 9 1 1] = .ok s ∧ ask exEnv s 5 true = .ok (rs, s') ∧
    9 ∈ rs.map (·.1) ∧ exEnv.inside 9 = true ∧ 9 ∈ s.data ∧ 9 ∉ s'.pending :=
  ⟨_, _, _, rfl, rfl, by decide, rfl, by decide, by decide⟩

/-- the hypothesis `inside` of A.3 is needed: with the corner `0` outside the domain (`Ex.lndEnvOut`) the first `ask`
returns it (`_bounds_points` are served first) and `tell_pending` ignores it -/
example : ∃ rs s, ask Ex.lndEnvOut (init Ex.lndEnvOut) 1 true = .ok (rs, s) ∧ rs.map (·.1) = [0] ∧
    s.pending = [] := ⟨_, _, rfl, rfl, rfl⟩

/-- … and it is satisfiable: in the environment of C04 every point is inside, `ask(1)` after four tells returns the
point 4 chosen in the worst simplex, which is then pending -/
example : ∃ s rs s', run exEnv (init exEnv) exOps0 = .ok s ∧ ask exEnv s 1 true = .ok (rs, s') ∧
    rs.map (·.1) = [4] ∧ exEnv.inside 4 = true ∧ s'.pending = [4] := ⟨_, _, _, rfl, rfl, rfl, rfl, rfl⟩

/-- A.3: the exact pending set after an `ask`: the old one plus the returned in-domain points that have no value (in
order, each once); a non-committing `ask` changes neither `data` nor the pending set. -/
theorem lnd_ask_pending_exact (env : Env α) {s s' : State α} {rs : List (Pt × α)} (n : Nat) (commit : Bool)
    (h : ask env s n commit = .ok (rs, s')) :
    s'.data = s.data ∧
    s'.pending = (if commit then (rs.map (·.1)).foldl (markPending env s.data) s.pending else s.pending) :=
  ask_dp env n commit h

/-- A.4 RE-TELL.  Telling a known point again — with the same or a different value — changes NOTHING: the state
is returned as it is (so the first value wins). -/
theorem lnd_retell_noop (env : Env α) (s : State α) (p : Pt) (vmin vmax : α) (h : p ∈ s.data) :
    tell env s p vmin vmax = .ok s := by
  unfold tell; rw [if_pos (List.contains_iff_mem.2 h)]

/-- A.4 along histories: a point told during a history is known at the end, so telling it again is a no-op. -/
theorem lnd_retell_noop_reachable (env : Env α) (ops : List (Op α)) {s : State α}
    (h : run env (init env) ops = .ok s) (p : Pt) (hp : p ∈ toldPts ops) (vmin vmax : α) :
    tell env s p vmin vmax = .ok s :=
  lnd_retell_noop env s p vmin vmax (((lnd_data_is_told env ops h).2.1 p).2 hp)

/-- A.5 DISCARD.  `remove_unfinished` empties the pending set and the sub-triangulation book, keeps `data`, the
triangulation and the loss table.  `LearnerND.loss(real)` ignores its flag (the model's `loss` has none): the
"expected" loss IS the real loss, always; what can be said is that `loss()` answers the same before and after the
discard, and that the discard cannot make it fail. -/
theorem lnd_removeUnfinished_spec (env : Env α) (s : State α) :
    (removeUnfinished env s).pending = [] ∧ (removeUnfinished env s).data = s.data ∧
    (removeUnfinished env s).tri = s.tri ∧ (removeUnfinished env s).losses = s.losses ∧
    (removeUnfinished env s).book.subs = [] ∧ (removeUnfinished env s).book.p2s = [] ∧
    ∀ v s1, lossOp env s = .ok (v, s1) →
      ∃ s2, lossOp env (removeUnfinished env s) = .ok (v, s2) ∧ s2.losses = s1.losses ∧ s2.pending = [] := by
  refine ⟨rfl, rfl, rfl, rfl, rfl, rfl, ?_⟩
  intro v s1 h
  obtain ⟨s2, a, b, _, _, c⟩ := lossOp_removeUnfinished env s h
  exact ⟨s2, a, b, c⟩

end lnd

/-! ## (B) IntegratorLearner -/
section integ
open Integ Integ.Book
variable {α : Type} [OfNat α 0] [DecidableEq α] [Div α] [OfNat α 2] [LT α] [DecidableLT α] [Sub α] [Mul α] [Add α] [Neg α]

/-- B.1 DATA.  In every reachable state the keys of `data` are exactly the abscissae told AND accepted (`tell` of an
abscissa of no interval raises `ValueError` and leaves the learner unchanged, C07.b), each once, in the order of
their first acceptance; `npoints` is the number of distinct accepted abscissae.  (The model carries the keys; the
values only feed the `complete_process` oracle.  The real `data[x]` holds the value told LAST.) -/
theorem integ_data_is_accepted (O : Oracle α) (P : Params α) (a b errMax : α) (ops : List (Op α)) :
    let s := run O P (start O P a b errMax) ops
    let acc := accepted O P (start O P a b errMax) ops
    s.data = sunion [] acc ∧ (∀ x, x ∈ s.data ↔ x ∈ acc) ∧ s.data.Nodup ∧
    npoints s = acc.dedup.length := by
  intro s acc
  have hd : s.data = sunion [] acc := by
    show (run O P (start O P a b errMax) ops).data = _
    rw [run_data, data_start]
  refine ⟨hd, ?_, ?_, ?_⟩
  · intro x; rw [hd, mem_sunion]; simp
  · rw [hd]; exact nodup_sunion _ List.nodup_nil
  · show s.data.length = _; rw [hd]; exact length_sunion_nil _

/-- B.2 TOLD ⇒ NOT PENDING, per operation (any state): an accepted `tell(x)` puts `x` into `data` and takes it out
of the pending set; nothing else of the abscissa bookkeeping changes. -/
theorem integ_tell_not_pending (O : Oracle α) (P : Params α) (s : St α) (x : α)
    (h : (xmapGet s.xmap x).isSome = true) :
    x ∈ (tell O P s x).1.data ∧ x ∉ (tell O P s x).1.pending ∧
    (tell O P s x).1.pending = s.pending.filter (fun y => y ≠ x) ∧ (tell O P s x).1.data = sadd x s.data := by
  have hd := tell_data O P s x
  have hp := tell_pending O P s x
  rw [if_pos h] at hd hp
  refine ⟨by rw [hd]; exact (mem_sadd x x s.data).2 (Or.inl rfl), ?_, hp, hd⟩
  rw [hp]
  intro c
  have := (List.mem_filter.1 c).2
  simp at this

/-- B.2 as an invariant — here it IS one: in every reachable state `data` and `pending_points` are disjoint (and
both duplicate free), for all histories, including tells of abscissae that were never handed out. -/
theorem integ_data_pending_disjoint (O : Oracle α) (P : Params α) (a b errMax : α) (ops : List (Op α)) :
    let s := run O P (start O P a b errMax) ops
    (∀ x ∈ s.pending, x ∉ s.data) ∧ s.pending.Nodup ∧ s.data.Nodup := by
  intro s
  have h : Good s := good_run O P ops _ (good_start O P a b errMax)
  exact ⟨h.disj, h.pnodup, h.dnodup⟩

/-- B.2: an abscissa that has a value keeps it and is never pending again, whatever happens later. -/
theorem integ_told_never_pending (O : Oracle α) (P : Params α) (a b errMax : α) (ops ops' : List (Op α)) (x : α)
    (h : x ∈ (run O P (start O P a b errMax) ops).data) :
    let s := run O P (run O P (start O P a b errMax) ops) ops'
    x ∈ s.data ∧ x ∉ s.pending := by
  intro s
  have hd : x ∈ s.data := mem_data_run O P x ops' _ h
  have hg : Good s := good_run O P ops' _ (good_run O P ops _ (good_start O P a b errMax))
  exact ⟨hd, fun c => hg.disj x c hd⟩

/-- B.3 ASKED ⇒ PENDING UNTIL TOLD.  In every reachable state, every abscissa returned by a committing `ask` is
afterwards pending or already evaluated (it may have been told while it was still waiting on the stack — the learner
hands it out all the same); if it has no value it is pending, and it stays pending along every later history without
a `tell` of it (`remove_unfinished` is a no-op for this learner and is not an operation of the model). -/
theorem integ_asked_pending_until_told (O : Oracle α) (P : Params α) (a b errMax : α) (ops : List (Op α))
    (fuel n : Nat) :
    let s := run O P (start O P a b errMax) ops
    let r := ask O P fuel s n true
    ∀ x ∈ r.2.2.1, (x ∈ r.1.pending ∨ x ∈ r.1.data) ∧
      (x ∉ s.data → x ∈ r.1.pending ∧
        ∀ ops', (∀ op ∈ ops', NotTell x op) → x ∈ (run O P r.1 ops').pending) := by
  intro s r x hx
  have hpt : PtInv s := ptInv_run O P _ ops (ptInv_start O P a b errMax)
  have hk := ask_returned_known O P fuel s n hpt x hx
  refine ⟨hk, fun hd => ?_⟩
  have hd' : x ∉ r.1.data := by
    show x ∉ (ask O P fuel s n true).1.data
    rw [(ask_bk O P fuel s n true).data]; exact hd
  have hp : x ∈ r.1.pending := by
    rcases hk with h1 | h1
    · exact h1
    · exact absurd h1 hd'
  exact ⟨hp, fun ops' hn => (run_keeps O P x ops' r.1 hn hp hd').1⟩

/-- B.3: "pending" alone would be false — an abscissa told while it was still waiting on the stack (here 3, never
handed out before) is handed out by the next `ask` although it is evaluated and not pending -/
example : let s := Integ.run Ex.intO Ex.intP Ex.intS [.tell 3]
    (ask Ex.intO Ex.intP 10 s 5 true).2.2.1 = [0, 1, 2, 3, 4] ∧ 3 ∈ (ask Ex.intO Ex.intP 10 s 5 true).1.data ∧
    3 ∉ (ask Ex.intO Ex.intP 10 s 5 true).1.pending := by decide

/-- B.3: a non-committing `ask` and the re-ordering event change neither `data` nor the pending set, and a
committing `ask` never changes `data` and never removes an unevaluated abscissa from the pending set. -/
theorem integ_ask_keeps (O : Oracle α) (P : Params α) (fuel : Nat) (s : St α) (n : Nat) (commit : Bool) :
    (ask O P fuel s n commit).1.data = s.data ∧
    (∀ y, y ∉ s.data → y ∈ s.pending → y ∈ (ask O P fuel s n commit).1.pending) ∧
    (commit = false → (ask O P fuel s n false).1 = s) := by
  refine ⟨(ask_bk O P fuel s n commit).data, (ask_bk O P fuel s n commit).pend, ?_⟩
  intro _
  unfold ask
  split <;> rfl

/-- B.4 RE-TELL.  In every reachable state, telling an abscissa that already has a value leaves the whole abscissa
bookkeeping unchanged: `data` (keys), `pending_points`, `_stack`, `x_mapping`, hence `npoints`, and the three ghost
lists.  (The model has no values: in the real code `data[x]` takes the new value, the estimates already computed from
the old one are kept.  This form needs no hypothesis at all; the full-state form is `integ_retell_noop` below.) -/
theorem integ_retell_bookkeeping (O : Oracle α) (P : Params α) (a b errMax : α) (ops : List (Op α)) (x : α)
    (h : x ∈ (run O P (start O P a b errMax) ops).data) :
    let s := run O P (start O P a b errMax) ops
    let s' := (tell O P s x).1
    s'.data = s.data ∧ s'.pending = s.pending ∧ s'.stack = s.stack ∧ s'.xmap = s.xmap ∧ npoints s' = npoints s ∧
    s'.pushed = s.pushed ∧ s'.popped = s.popped ∧ s'.handed = s.handed := by
  intro s s'
  have hg : Good s := good_run O P ops _ (good_start O P a b errMax)
  have hv := retell_view O P s x hg h
  simp only [bView, Prod.mk.injEq] at hv
  obtain ⟨h1, h2, h3, h4, h5, h6, h7⟩ := hv
  exact ⟨h3, h2, h1, h7, by show s'.data.length = s.data.length; rw [h3], h4, h5, h6⟩

/-- B.4 FULL: a re-tell is the identity on the WHOLE state.  In every state reached by a history in which no operation
raised an exception (`Retell.Clean`: every entry of the trace is `none` — an exception leaves a half-updated learner
behind), telling an abscissa that already has a value returns the learner exactly as it was, interval forest, queue of
forced splits and `complete_process` log included, and raises nothing.  Hypotheses on the abscissa oracle: `Nested`
(C07: the abscissae of a rule are among those of the next finer rule) and `Retell.Fresh` (a finer rule, up to depth 3,
has an abscissa the coarser one lacks) — both facts about the Clenshaw–Curtis node tables.  Every other oracle
(`complete_process` outcomes, parameters) is arbitrary. -/
theorem integ_retell_noop (O : Oracle α) (P : Params α) (hN : Nested O) (hF : Retell.Fresh O) (a b errMax : α)
    (ops : List (Op α)) (hc : Retell.Clean O P (start O P a b errMax) ops) (x : α)
    (h : x ∈ (run O P (start O P a b errMax) ops).data) :
    tell O P (run O P (start O P a b errMax) ops) x = (run O P (start O P a b errMax) ops, none) :=
  Retell.retell_noop O P _ x (Retell.rinv_run O P hN hF ops _ (Retell.rinv_start O P hN a b errMax) hc)
    (good_run O P ops _ (good_start O P a b errMax)) h

/-- B.4, the invariant behind it (`Retell.RInv`), in every state reached without an exception: every interval that
`x_mapping` lists for an evaluated abscissa holds its value; no interval has a complete rule that was not processed;
an interval holds values only at abscissae of its current rule; `x_mapping` lists existing intervals; depths are at most
3; live intervals exist; every evaluated abscissa is a key of `x_mapping`. -/
theorem integ_values_distributed (O : Oracle α) (P : Params α) (hN : Nested O) (hF : Retell.Fresh O) (a b errMax : α)
    (ops : List (Op α)) (hc : Retell.Clean O P (start O P a b errMax) ops) :
    Retell.RInv O (fun _ => False) (run O P (start O P a b errMax) ops) :=
  Retell.rinv_run O P hN hF ops _ (Retell.rinv_start O P hN a b errMax) hc

/-- non-vacuity of the hypotheses of B.4: the example oracle (rules `0 … ns d - 1`) is nested and fresh, and a history
with tells in any order, a re-tell, committing and rolled-back asks raises nothing -/
example : Nested Ex.intO ∧ Retell.Fresh Ex.intO ∧
    Retell.Clean Ex.intO Ex.intP Ex.intS
      [.tell 3, .ask 10 2 true, .tell 3, .tell 0, .ask 10 3 false, .tell 16, .tell 1] := by
  refine ⟨Ex.intO_nested, Ex.intO_fresh, ?_⟩
  show ∀ r ∈ trace Ex.intO Ex.intP Ex.intS _, r = none
  decide

end integ

/-! ## (C) AverageLearner1D (full model) -/
section avg1d
open Avg1DFull Avg1DFull.Book
open L1D (Loss)
variable {α : Type} [Field α] [LinearOrder α] [IsStrictOrderedRing α]
variable (lossFn : List (Option α) → List (Option (List α)) → Loss α) (r12 : α → α)
variable (sqrt : α → α) (tq : Nat → α) (hypot : α → α → α)

/-- C.1 DATA (samples).  After every history of tell / tell_many / tell_many_at_point / tell_pending / ask /
remove_unfinished, `_data_samples[x]` holds a sample for seed `k` iff `(k, x)` was told (`toldKeys`: the keys of all
`tell`, `tell_many` and `tell_many_at_point` operations), whether or not the learner had asked for it.  (Which VALUE
is kept: a single `tell` of a known `(seed, x)` is ignored — C.4 —, a batch overwrites; see C16F.b3 for the
statistics under the validity hypothesis on batches.) -/
theorem avg1d_samples_are_told (lo hi factor dxEps : α) (nn : Nat) (delta minError : α) (minS maxS : Nat) (ns : α)
    (ops : List (Op α)) (x : α) (k : Nat) :
    k ∈ sampleKeys (run lossFn r12 sqrt tq hypot (init lo hi factor dxEps nn delta minError minS maxS ns) ops).samp x ↔
      (k, x) ∈ toldKeys ops := by
  rw [mem_sampleKeys_run lossFn r12 sqrt tq hypot]
  simp [sampleKeys, init, Avg1D.find?]

/-- C.1 DATA (abscissae, point count).  After every history the evaluated abscissae (`neighbors`, strictly sorted)
and the keys of `data` are exactly the abscissae of the told keys, `data[x]` is the running mean kept with the
samples, and the point count — the number of distinct keys of `data` — is the number of distinct told abscissae. -/
theorem avg1d_data_is_told (lo hi factor dxEps : α) (nn : Nat) (delta minError : α) (minS maxS : Nat) (ns : α)
    (ops : List (Op α)) :
    let s := run lossFn r12 sqrt tq hypot (init lo hi factor dxEps nn delta minError minS maxS ns) ops
    (∀ x, x ∈ s.base.xs ↔ x ∈ (toldKeys ops).map Prod.snd) ∧
    (∀ x, x ∈ s.base.data.map Prod.fst ↔ x ∈ (toldKeys ops).map Prod.snd) ∧
    (∀ x, L1D.dataGet s.base.data x = (Avg1D.find? s.samp x).map (fun p => [p.mean])) ∧
    s.base.xs.length = ((toldKeys ops).map Prod.snd).dedup.length ∧
    (s.base.data.map Prod.fst).dedup.length = ((toldKeys ops).map Prod.snd).dedup.length := by
  intro s
  have hF : FInv hypot s :=
    finv_run lossFn r12 sqrt tq hypot (finv_init hypot lo hi factor dxEps nn delta minError minS maxS ns) ops
  have hsome : ∀ x, (Avg1D.find? s.samp x).isSome = true ↔ x ∈ (toldKeys ops).map Prod.snd := by
    intro x
    show (Avg1D.find? (run lossFn r12 sqrt tq hypot _ ops).samp x).isSome = true ↔ _
    rw [isSome_run lossFn r12 sqrt tq hypot]
    simp only [init, Avg1D.find?, List.find?_nil, Option.isSome_none, Bool.false_eq_true, false_or, List.mem_map]
    constructor
    · rintro ⟨k, h⟩; exact ⟨(k, x), h, rfl⟩
    · rintro ⟨q, h, rfl⟩; exact ⟨q.1, h⟩
  have hxs : ∀ x, x ∈ s.base.xs ↔ x ∈ (toldKeys ops).map Prod.snd := fun x => (hF.xs_mem x).trans (hsome x)
  have hdata : ∀ x, x ∈ s.base.data.map Prod.fst ↔ x ∈ (toldKeys ops).map Prod.snd := by
    intro x
    rw [← dataGet_isSome_iff, hF.data_sync, Option.isSome_map]
    exact hsome x
  have hnd : s.base.xs.Nodup := hF.xs_sorted.imp (fun h => ne_of_lt h)
  refine ⟨hxs, hdata, hF.data_sync, ?_, ?_⟩
  · apply List.Perm.length_eq
    rw [List.perm_ext_iff_of_nodup hnd (List.nodup_dedup _)]
    intro x; rw [hxs, List.mem_dedup]
  · apply List.Perm.length_eq
    rw [List.perm_ext_iff_of_nodup (List.nodup_dedup _) (List.nodup_dedup _)]
    intro x; rw [List.mem_dedup, List.mem_dedup, hdata]

/-- C.2 TOLD ⇒ NOT PENDING, per operation (any state): after `tell`, `tell_many`, `tell_many_at_point` none of the
`(seed, x)` the operation supplied a value for is pending — also when the sample was already known and the value is
ignored —, and these operations (like `remove_unfinished` and a non-committing `ask`) make nothing pending. -/
theorem avg1d_told_not_pending (s : State α) (op : Op α) (h1 : ∀ seed x, op ≠ .tellPending seed x)
    (h2 : ∀ n c, op ≠ .ask n c true) :
    (∀ q ∈ toldKeysOp op, q ∉ (step lossFn r12 sqrt tq hypot s op).pend) ∧
    ∀ q ∈ (step lossFn r12 sqrt tq hypot s op).pend, q ∈ s.pend :=
  ⟨fun q hq c => (step_told_not_pending lossFn r12 sqrt tq hypot s op h1 h2 q c).2 hq,
   fun q c => (step_told_not_pending lossFn r12 sqrt tq hypot s op h1 h2 q c).1⟩

/-- C.2 for the single `tell`: the exact pending set. -/
theorem avg1d_tell_pending (s : State α) (seed : Nat) (x y : α) :
    (tell lossFn r12 sqrt tq hypot s seed x y).pend = pendErase s.pend seed x ∧
    (seed, x) ∉ (tell lossFn r12 sqrt tq hypot s seed x y).pend := by
  refine ⟨tell_pend lossFn r12 sqrt tq hypot s seed x y, ?_⟩
  rw [tell_pend, mem_pendErase]
  exact fun c => c.2 rfl

/-- C.2 is NOT an invariant ("samples and pending keys are disjoint" fails), as for the other learners:
`tell_pending` of a key that holds a sample makes it pending … -/
example : (0, 0) ∈ (Ex.avRun [.tell 0 0 1, .tellPending 0 0]).pend ∧
    0 ∈ sampleKeys (Ex.avRun [.tell 0 0 1, .tellPending 0 0]).samp 0 := by decide +kernel

/-- … and so does `ask` itself: `_ask_for_more_samples` numbers the new seeds from the NUMBER of samples held, so
after a sample with seed 1 (a key the learner never suggested) it hands out `(1, 0)` again and marks it pending -/
example : askBranch (Ex.avRun [.tell 1 0 5]) 0 = some (.under, 0) ∧
    (askMore id (Ex.avRun [.tell 1 0 5]) 0 1).1 = [(1, 0)] ∧
    1 ∈ sampleKeys (Ex.avRun [.tell 1 0 5]).samp 0 ∧
    (Ex.avRun [.tell 1 0 5, .ask 1 0 true]).pend = [(1, 0)] := by decide +kernel

/-- C.3 ASKED ⇒ PENDING.  Every `(seed, x)` returned by a committing `ask` is pending afterwards and stays pending
along every later history that supplies no value for it (by `tell`, `tell_many` or `tell_many_at_point`) and contains
no `remove_unfinished`. -/
theorem avg1d_asked_pending_until_told (s : State α) (n : Nat) (choice : α)
    (r : (List (Nat × α) × List (Loss α)) × State α) (h : ask lossFn r12 sqrt s n choice true = some r)
    (q : Nat × α) (hq : q ∈ r.1.1) :
    q ∈ r.2.pend ∧
    ∀ ops, (∀ op ∈ ops, KeepsPending q op) → q ∈ (run lossFn r12 sqrt tq hypot r.2 ops).pend := by
  have hp : q ∈ r.2.pend := (mem_ask_pend lossFn r12 sqrt s n choice true r h q).2 (Or.inr ⟨rfl, hq⟩)
  exact ⟨hp, fun ops hk => run_keeps_pending lossFn r12 sqrt tq hypot ops r.2 q hk hp⟩

/-- C.3: the exact pending set after `ask`: the requests are added when committing; a non-committing `ask` leaves
the state as it is. -/
theorem avg1d_ask_pending_exact (s : State α) (n : Nat) (choice : α) (commit : Bool)
    (r : (List (Nat × α) × List (Loss α)) × State α) (h : ask lossFn r12 sqrt s n choice commit = some r) :
    (∀ q, q ∈ r.2.pend ↔ q ∈ s.pend ∨ (commit = true ∧ q ∈ r.1.1)) ∧ (commit = false → r.2 = s) := by
  refine ⟨mem_ask_pend lossFn r12 sqrt s n choice commit r h, ?_⟩
  intro hc
  subst hc
  unfold ask at h
  cases hp : askPts r12 sqrt s n choice with
  | none => rw [hp] at h; cases h
  | some pr =>
    rw [hp] at h
    simp only [Option.map_some, Option.some.injEq] at h
    subst h
    simp

/-- C.4 RE-TELL.  A `tell` for a `(seed, x)` that already holds a sample — with the same or a different value — is
ignored: nothing changes except that `(seed, x)` is discarded from the pending set; if it was not pending the state is
unchanged. -/
theorem avg1d_retell (s : State α) (seed : Nat) (x y : α) (h : seed ∈ sampleKeys s.samp x) :
    tell lossFn r12 sqrt tq hypot s seed x y = { s with pend := pendErase s.pend seed x } ∧
    ((seed, x) ∉ s.pend → tell lossFn r12 sqrt tq hypot s seed x y = s) := by
  have h1 : tell lossFn r12 sqrt tq hypot s seed x y = { s with pend := pendErase s.pend seed x } := by
    unfold sampleKeys at h
    cases hf : Avg1D.find? s.samp x with
    | none => rw [hf] at h; simp at h
    | some p =>
      rw [hf] at h
      have hany : p.samples.any (fun sy => sy.1 == seed) = true := by
        obtain ⟨e, he, hk⟩ := List.mem_map.1 h
        exact List.any_eq_true.2 ⟨e, he, by simp [hk]⟩
      unfold tell
      simp only [hf, hany, if_true]
  refine ⟨h1, fun hp => ?_⟩
  rw [h1]
  have : pendErase s.pend seed x = s.pend := by
    unfold pendErase
    rw [List.filter_eq_self]
    intro q hq
    have hne : q ≠ (seed, x) := fun e => hp (e ▸ hq)
    obtain ⟨a, b⟩ := q
    simp only [Bool.not_eq_true', Bool.and_eq_false_iff, beq_eq_false_iff_ne, decide_eq_false_iff_not]
    by_cases ha : a = seed
    · exact Or.inr (fun hb => hne (by rw [ha, hb]))
    · exact Or.inl ha
  rw [this]

/-- C.4 along histories: a `(seed, x)` told during a history holds a sample at the end, so telling it again only
discards it from the pending set. -/
theorem avg1d_retell_reachable (lo hi factor dxEps : α) (nn : Nat) (delta minError : α) (minS maxS : Nat) (ns : α)
    (ops : List (Op α)) (seed : Nat) (x y : α) (h : (seed, x) ∈ toldKeys ops) :
    let s := run lossFn r12 sqrt tq hypot (init lo hi factor dxEps nn delta minError minS maxS ns) ops
    tell lossFn r12 sqrt tq hypot s seed x y = { s with pend := pendErase s.pend seed x } :=
  (avg1d_retell lossFn r12 sqrt tq hypot _ seed x y
    ((avg1d_samples_are_told lossFn r12 sqrt tq hypot lo hi factor dxEps nn delta minError minS maxS ns ops x seed).2
      h)).1

/-- C.5 DISCARD.  `remove_unfinished` empties the pending set, keeps samples and data, and makes the expected loss
equal the real loss. -/
theorem avg1d_removeUnfinished_spec (s : State α) :
    (removeUnfinished s).pend = [] ∧ (removeUnfinished s).samp = s.samp ∧
    (removeUnfinished s).base.data = s.base.data ∧
    loss (removeUnfinished s) false = loss (removeUnfinished s) true := by
  refine ⟨rfl, rfl, rfl, ?_⟩
  simp only [loss, removeUnfinished, L1D.loss, L1D.removeUnfinished]
  rfl

end avg1d

end C10More
