import AdaptiveProofs.Lemmas.L2D
import AdaptiveProofs.Lemmas.SeqInv
import AdaptiveModel.DataSaver
import AdaptiveModel.Avg
import AdaptiveProofs.Lemmas.L1DBook
import AdaptiveProofs.Lemmas.AvgBook
import AdaptiveProofs.Lemmas.SeqBook
import AdaptiveProofs.Lemmas.L1DRestore
import AdaptiveProofs.Lemmas.AvgRestore

/-!
# C13 — saving, pickling or copying a learner and restoring it loses nothing

First instalment: the data round trips that are available from the existing lemma files
(`Lemmas/*Book.lean` extend this to Learner1D and AverageLearner).  `save`/`load`, `copy_from` and the pickle
protocol all go through `_get_data` / `_set_data` (resp. `__getstate__` / `__setstate__`, which wrap them).
-/
namespace C13

section datasaver
variable {σ P V R D : Type} [DecidableEq P]
/-- DataSaver: `_set_data(_get_data())` restores `extra_data` exactly and the child through the child's own
`_set_data ∘ _get_data`. -/
theorem datasaver_roundtrip (childGet : σ → D) (childSet : σ → D → σ) (fresh s : DataSaver.State σ P R) :
    (DataSaver.setData childSet fresh (DataSaver.getData childGet s)).extra = s.extra ∧
    (DataSaver.setData childSet fresh (DataSaver.getData childGet s)).child = childSet fresh.child (childGet s.child) :=
  ⟨rfl, rfl⟩
end datasaver

section avg
variable {α : Type}
/-- AverageLearner: `_get_data` is `(data, npoints, sum_f, sum_f_sq)` and `_set_data` assigns the four fields:
the restored learner has the same data and moments, hence the same mean, standard deviation and loss. -/
def avgGet (s : Avg.State α) : List (Nat × α) × Nat × α × α := (s.data, s.npoints, s.sumF, s.sumFsq)
def avgSet (s : Avg.State α) (d : List (Nat × α) × Nat × α × α) : Avg.State α :=
  { s with data := d.1, npoints := d.2.1, sumF := d.2.2.1, sumFsq := d.2.2.2 }
theorem avg_roundtrip (fresh s : Avg.State α) :
    let r := avgSet fresh (avgGet s)
    r.data = s.data ∧ r.npoints = s.npoints ∧ r.sumF = s.sumF ∧ r.sumFsq = s.sumFsq := ⟨rfl, rfl, rfl, rfl⟩
end avg

section seq
variable {β : Type}
/-- SequenceLearner: restoring by `_set_data(_get_data())` on a fresh learner gives a learner whose data is the
original's (for every state reachable by a valid history; the data list is sorted by index and duplicate free). -/
theorem seq_roundtrip_valid (n : Nat) (ops : List (Seq.Op β)) (hv : Seq.ValidOps (Seq.init n) ops) :
    Seq.Inv (Seq.run (Seq.init n) ops) :=
  Seq.inv_run ops _ (Seq.inv_init n) hv
end seq

/-! ### round trips through `_get_data` / `_set_data` for the learner models -/
section models
open L1D in
/-- Learner1D: `_set_data(_get_data())` on a fresh learner (`tell_many` of all points) reproduces `data`
exactly — same points, same values, same order — for every reachable state. -/
theorem l1d_data_roundtrip {α : Type} [Field α] [LinearOrder α] [IsStrictOrderedRing α]
    (lossFn : List (Option α) → List (Option (List α)) → Loss α) (r12 : α → α)
    (lo hi factor dxEps : α) (nn : Nat) (ops : List (Op α)) (lo' hi' factor' dxEps' : α) (nn' : Nat) :
    let s := run lossFn r12 (init lo hi factor dxEps nn) ops
    (setData lossFn r12 (init lo' hi' factor' dxEps' nn') (getData s)).data = s.data :=
  setData_getData_data lossFn r12 lo' hi' factor' dxEps' nn' (inv_run lossFn r12 lo hi factor dxEps nn ops)

/-- AverageLearner: the restored learner has the same data, moments, mean, standard deviation and loss. -/
theorem avg_full_roundtrip {α : Type} [Field α] [LinearOrder α] [IsStrictOrderedRing α]
    (sqrt : α → α) (atol rtol : Option α) (m : Nat) (ops : List (Avg.Op α)) :
    let s := Avg.run (Avg.init atol rtol m) ops
    let s' := Avg.setData (Avg.init atol rtol m) (Avg.getData s)
    s'.data = s.data ∧ s'.npoints = s.npoints ∧ s'.sumF = s.sumF ∧ s'.sumFsq = s.sumFsq ∧
    Avg.mean s' = Avg.mean s ∧ Avg.std sqrt s' = Avg.std sqrt s ∧
    Avg.loss sqrt s' true = Avg.loss sqrt s true ∧ Avg.loss sqrt s' false = Avg.loss sqrt s true :=
  Avg.setData_getData_init sqrt atol rtol m ops

/-- SequenceLearner: the restored learner holds exactly the original's data (every op list). -/
theorem seq_data_roundtrip {β : Type} (n m : Nat) (ops : List (Seq.Op β)) :
    (Seq.setData (Seq.init m) (Seq.getData (Seq.run (Seq.init n) ops))).data = (Seq.run (Seq.init n) ops).data :=
  Seq.setData_getData_run n m ops
end models

/-! ### restore-bisimilarity: the restored learner behaves like the original FOR EVER AFTER

(helper lemmas: `Lemmas/L1DRestore.lean`, `Lemmas/AvgRestore.lean`).  Learner1D with exact loss recomputation
(`factor = 1`): `h` is any valid history (`ValidOps`: points inside the bounds, no empty batch on the batch path)
with values of `d` components that ENDS WITH NO PENDING POINTS; the restored learner is
`setData fresh (getData (run … h))`, `fresh = init lo hi 1 dxEps nn`.  `Agree` (see `Props/C11.lean`) contains
equality of the abscissa lists, of both loss tables as lists, of the scales, of `loss real` for both flags and of
`askPoints r12 · n` for every `n`.  The hypothesis "no pending points" cannot be dropped — the pending set is not
saved (kernel-checked counterexamples at the end of the two lemma files). -/
section restore
open L1D
variable {α : Type} [Field α] [LinearOrder α] [IsStrictOrderedRing α]
variable (lossFn : List (Option α) → List (Option (List α)) → Loss α) (r12 : α → α)

/-- C13.r1  The restored learner agrees with the original in every observable: same loss tables, same `loss()`,
same suggestions `ask(n)` for every `n`. -/
theorem l1d_restore_agrees {lo hi : α} (hlt : lo < hi) (dxEps : α) (nn d : Nat) (h : List (Op α))
    (hv : ValidOps lossFn r12 (init lo hi 1 dxEps nn) h) (hd : ∀ op ∈ h, OpDim d op)
    (hp : (run lossFn r12 (init lo hi 1 dxEps nn) h).pending = []) :
    Agree lossFn r12 (run lossFn r12 (init lo hi 1 dxEps nn) h)
      (setData lossFn r12 (init lo hi 1 dxEps nn) (getData (run lossFn r12 (init lo hi 1 dxEps nn) h))) :=
  restore_agrees lossFn r12 hlt dxEps nn d h hv hd hp

/-- C13.r2  **Bisimilarity.**  For EVERY continuation `t` (asks committing or not, tells, batched tells, pending
marks, discards) that is valid from the original — it is then valid from the restored learner as well (first
conjunct; `ValidOp` only reads `lo`, `hi` and the number of stored points) — the two learners `Agree` after `t`:
they can never be told apart again. -/
theorem l1d_restore_bisimilar {lo hi : α} (hlt : lo < hi) (dxEps : α) (nn d : Nat) (h : List (Op α))
    (hv : ValidOps lossFn r12 (init lo hi 1 dxEps nn) h) (hd : ∀ op ∈ h, OpDim d op)
    (hp : (run lossFn r12 (init lo hi 1 dxEps nn) h).pending = [])
    (t : List (Op α)) (hvt : ValidOps lossFn r12 (run lossFn r12 (init lo hi 1 dxEps nn) h) t)
    (hdt : ∀ op ∈ t, OpDim d op) :
    ValidOps lossFn r12 (setData lossFn r12 (init lo hi 1 dxEps nn)
      (getData (run lossFn r12 (init lo hi 1 dxEps nn) h))) t ∧
    Agree lossFn r12 (run lossFn r12 (run lossFn r12 (init lo hi 1 dxEps nn) h) t)
      (run lossFn r12 (setData lossFn r12 (init lo hi 1 dxEps nn)
        (getData (run lossFn r12 (init lo hi 1 dxEps nn) h))) t) :=
  restore_bisimilar lossFn r12 hlt dxEps nn d h hv hd hp t hvt hdt

/-- C13.r3  Same answers to every later `ask` and same reported losses, after every common continuation. -/
theorem l1d_restore_same_answers {lo hi : α} (hlt : lo < hi) (dxEps : α) (nn d : Nat) (h : List (Op α))
    (hv : ValidOps lossFn r12 (init lo hi 1 dxEps nn) h) (hd : ∀ op ∈ h, OpDim d op)
    (hp : (run lossFn r12 (init lo hi 1 dxEps nn) h).pending = [])
    (t : List (Op α)) (hvt : ValidOps lossFn r12 (run lossFn r12 (init lo hi 1 dxEps nn) h) t)
    (hdt : ∀ op ∈ t, OpDim d op) :
    (∀ n, askPoints r12 (run lossFn r12 (run lossFn r12 (init lo hi 1 dxEps nn) h) t) n =
      askPoints r12 (run lossFn r12 (setData lossFn r12 (init lo hi 1 dxEps nn)
        (getData (run lossFn r12 (init lo hi 1 dxEps nn) h))) t) n) ∧
    (∀ real, loss (run lossFn r12 (run lossFn r12 (init lo hi 1 dxEps nn) h) t) real =
      loss (run lossFn r12 (setData lossFn r12 (init lo hi 1 dxEps nn)
        (getData (run lossFn r12 (init lo hi 1 dxEps nn) h))) t) real) :=
  restore_same_answers lossFn r12 hlt dxEps nn d h hv hd hp t hvt hdt

/-- C13.r4  The general principle behind r1–r3 (also WITH pending points): two valid histories from the same
fresh learner that end with the same content (same results, same set of pending points — `SameContent`) are
bisimilar: after every common valid continuation the states `Agree`. -/
theorem l1d_same_content_bisimilar {lo hi : α} (hlt : lo < hi) (dxEps : α) (nn d : Nat)
    (h₁ h₂ t : List (Op α))
    (hv₁ : ValidOps lossFn r12 (init lo hi 1 dxEps nn) h₁) (hv₂ : ValidOps lossFn r12 (init lo hi 1 dxEps nn) h₂)
    (hd₁ : ∀ op ∈ h₁, OpDim d op) (hd₂ : ∀ op ∈ h₂, OpDim d op)
    (hsc : SameContent (run lossFn r12 (init lo hi 1 dxEps nn) h₁) (run lossFn r12 (init lo hi 1 dxEps nn) h₂))
    (hvt : ValidOps lossFn r12 (run lossFn r12 (init lo hi 1 dxEps nn) h₁) t) (hdt : ∀ op ∈ t, OpDim d op) :
    ValidOps lossFn r12 (run lossFn r12 (init lo hi 1 dxEps nn) h₂) t ∧
    Agree lossFn r12 (run lossFn r12 (run lossFn r12 (init lo hi 1 dxEps nn) h₁) t)
      (run lossFn r12 (run lossFn r12 (init lo hi 1 dxEps nn) h₂) t) :=
  bisim_of_same_content lossFn r12 hlt dxEps nn d h₁ h₂ t hv₁ hv₂ hd₁ hd₂ hsc hvt hdt

/-- C13.r5  AverageLearner: for a history that ends with no pending points the restored learner IS the original
(equal states, also the order of `data`), hence after every common continuation `t` the two are the same state
and report the same mean / standard deviation / loss and answer every `ask` alike. -/
theorem avg_restore_bisimilar (sqrt : α → α) (atol rtol : Option α) (m : Nat) (ops : List (Avg.Op α))
    (hp : (Avg.run (Avg.init atol rtol m) ops).pending = []) (t : List (Avg.Op α)) :
    let s := Avg.run (Avg.run (Avg.init atol rtol m) ops) t
    let s' := Avg.run (Avg.setData (Avg.init atol rtol m) (Avg.getData (Avg.run (Avg.init atol rtol m) ops))) t
    s' = s ∧ Avg.mean s' = Avg.mean s ∧ Avg.std sqrt s' = Avg.std sqrt s ∧
    (∀ real, Avg.loss sqrt s' real = Avg.loss sqrt s real) ∧
    (∀ n choice, Avg.askPoints s' n choice = Avg.askPoints s n choice) :=
  Avg.restore_bisimilar sqrt atol rtol m ops hp t
end restore

end C13


/-! ### Learner2D (bookkeeping model `AdaptiveModel/L2D.lean`: `getData` / `setData` / `restoreFile` / `getState` / `setState`; the
geometry is an oracle; proofs in `Lemmas/L2D.lean`, sections H and J).  `save`+`load` and `copy_from` are `restoreFile ∘ getData`
(`_set_data(_get_data())` on a fresh learner); the pickle protocol is `setState ∘ getState` (`__setstate__` runs `__init__`,
`_set_data`, then overwrites `_stack` with the pickled one; the pending set is not pickled).  Lock-step with the real class
(`harness/l2d_drive.py`, ops `l2d save_load` / `l2d pickle`). -/
namespace C13
section l2d
open L2D
variable {V L : Type}

/-- C13.l2d.a  File restore / `copy_from`: the restored learner holds the SAME `data` (keys, values, `OrderedDict` order) and
the same `npoints`; nothing is pending; its stack is `cornerStack c data`: the corner points without a value, at `inf`
(in corner order when the corners are pairwise distinct: second theorem; in general one entry per such corner: third). -/
theorem l2d_file_roundtrip_data (c : Cfg L) (s : State V L) :
    (restoreFile c (getData s)).data = s.data ∧ npoints (restoreFile c (getData s)) = npoints s ∧
    (restoreFile c (getData s)).pending = [] ∧ (restoreFile c (getData s)).stack = cornerStack c s.data :=
  L2D.l2d_file_roundtrip_data c s

theorem l2d_restored_stack (c : Cfg L) (hnd : c.corners.Nodup) (d : List (Nat × V)) :
    cornerStack c d = (c.corners.filter (fun p => !hasKey d p)).map (fun p => (p, c.inf)) :=
  cornerStack_eq c hnd d

theorem l2d_restored_stack_spec (c : Cfg L) (d : List (Nat × V)) :
    (∀ p, p ∈ keys (cornerStack c d) ↔ p ∈ c.corners ∧ p ∉ keys d) ∧ (∀ e ∈ cornerStack c d, e.2 = c.inf) ∧
    (keys (cornerStack c d)).Nodup :=
  cornerStack_spec c d

/-- C13.l2d.b  Pickle: same data, same stack, empty pending set; for a history that ends with no pending points the
unpickled learner IS the original (equal states) … -/
theorem l2d_pickle_roundtrip (c : Cfg L) (s : State V L) :
    (setState c (getState s)).data = s.data ∧ (setState c (getState s)).stack = s.stack ∧
    (setState c (getState s)).pending = [] ∧ npoints (setState c (getState s)) = npoints s ∧
    (s.pending = [] → setState c (getState s) = s) :=
  L2D.l2d_pickle_roundtrip c s

/-- … so every later state and every later answer agree, for every continuation and every oracle. -/
theorem l2d_pickle_same_future (c : Cfg L) (h : List (Op V L)) (hp : (run c (init c) h).pending = [])
    (ops : List (Op V L)) :
    run c (setState c (getState (run c (init c) h))) ops = run c (run c (init c) h) ops ∧
    ∀ (cands : Oracle V L) n commit,
      ask c cands (run c (setState c (getState (run c (init c) h))) ops) n commit =
        ask c cands (run c (run c (init c) h) ops) n commit :=
  L2D.l2d_pickle_same_future c _ hp ops

/-- C13.l2d.c  File restore vs original, exactly: with nothing pending the restored learner is the original with its private
suggestion stack replaced by the corner stack; the two are equal iff the original's stack is the corner stack.  They are NOT
equal in general and later answers differ: `L2D.Ex.file_restore_drops_stack` (recorded finding "the suggestion stack is not
carried by file restores"; reproduced on the real class, see notes). -/
theorem l2d_file_restore_vs_original (c : Cfg L) (s : State V L) (hp : s.pending = []) :
    restoreFile c (getData s) = { s with stack := cornerStack c s.data } :=
  L2D.l2d_file_restore_vs_original c s hp

theorem l2d_file_restore_exact_iff (c : Cfg L) (s : State V L) :
    restoreFile c (getData s) = s ↔ s.pending = [] ∧ s.stack = cornerStack c s.data :=
  restoreFile_eq_self_iff c s

/-- for EVERY state a file restore is: forget the stack and the pending set, then `remove_unfinished` -/
theorem l2d_file_restore_is_removeUnfinished (c : Cfg L) (s : State V L) :
    restoreFile c (getData s) = removeUnfinished c { s with stack := [], pending := [] } :=
  restoreFile_eq_removeUnfinished c s

/-- positive: right after `remove_unfinished` on a learner whose stack was consumed the restore is exact … -/
theorem l2d_file_restore_exact_after_removeUnfinished (c : Cfg L) (s : State V L) (h : s.stack = []) :
    restoreFile c (getData (removeUnfinished c s)) = removeUnfinished c s :=
  restoreFile_after_removeUnfinished c s h

/-- … and so it is for every learner that has only been told results (corners inside the bounds) -/
theorem l2d_file_restore_exact_dataOnly (c : Cfg L) (hcor : ∀ p ∈ c.corners, c.inB p = true) (ops : List (Op V L))
    (hops : ∀ op ∈ ops, DataOnly op) :
    restoreFile c (getData (run c (init c) ops)) = run c (init c) ops :=
  restoreFile_dataOnly c hcor ops hops

end l2d
end C13
