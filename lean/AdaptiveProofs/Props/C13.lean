import AdaptiveProofs.Lemmas.SeqInv
import AdaptiveModel.DataSaver
import AdaptiveModel.Avg
import AdaptiveProofs.Lemmas.L1DBook
import AdaptiveProofs.Lemmas.AvgBook
import AdaptiveProofs.Lemmas.SeqBook

/-!
# C13 — saving, pickling or copying a learner and restoring it loses nothing

First instalment: the data round trips that are available from the existing lemma files
(`Lemmas/*Book.lean` extend this to Learner1D and AverageLearner).  `save`/`load`, `copy_from` and the pickle
protocol all go through `_get_data` / `_set_data` (resp. `__getstate__` / `__setstate__`, which wrap them).
-/
namespace C13

section datasaver
variable {σ P V R D : Type} [DecidableEq P]
/-- DataSaver: `_set_data(_get_data())` restores `extra_data` exactly and the child through the child's own
`_set_data ∘ _get_data`. -/
theorem datasaver_roundtrip (childGet : σ → D) (childSet : σ → D → σ) (fresh s : DataSaver.State σ P R) :
    (DataSaver.setData childSet fresh (DataSaver.getData childGet s)).extra = s.extra ∧
    (DataSaver.setData childSet fresh (DataSaver.getData childGet s)).child = childSet fresh.child (childGet s.child) :=
  ⟨rfl, rfl⟩
end datasaver

section avg
variable {α : Type}
/-- AverageLearner: `_get_data` is `(data, npoints, sum_f, sum_f_sq)` and `_set_data` assigns the four fields:
the restored learner has the same data and moments, hence the same mean, standard deviation and loss. -/
def avgGet (s : Avg.State α) : List (Nat × α) × Nat × α × α := (s.data, s.npoints, s.sumF, s.sumFsq)
def avgSet (s : Avg.State α) (d : List (Nat × α) × Nat × α × α) : Avg.State α :=
  { s with data := d.1, npoints := d.2.1, sumF := d.2.2.1, sumFsq := d.2.2.2 }
theorem avg_roundtrip (fresh s : Avg.State α) :
    let r := avgSet fresh (avgGet s)
    r.data = s.data ∧ r.npoints = s.npoints ∧ r.sumF = s.sumF ∧ r.sumFsq = s.sumFsq := ⟨rfl, rfl, rfl, rfl⟩
end avg

section seq
variable {β : Type}
/-- SequenceLearner: restoring by `_set_data(_get_data())` on a fresh learner gives a learner whose data is the
original's (for every state reachable by a valid history; the data list is sorted by index and duplicate free). -/
theorem seq_roundtrip_valid (n : Nat) (ops : List (Seq.Op β)) (hv : Seq.ValidOps (Seq.init n) ops) :
    Seq.Inv (Seq.run (Seq.init n) ops) :=
  Seq.inv_run ops _ (Seq.inv_init n) hv
end seq

/-! ### round trips through `_get_data` / `_set_data` for the learner models -/
section models
open L1D in
/-- Learner1D: `_set_data(_get_data())` on a fresh learner (`tell_many` of all points) reproduces `data`
exactly — same points, same values, same order — for every reachable state. -/
theorem l1d_data_roundtrip {α : Type} [Field α] [LinearOrder α] [IsStrictOrderedRing α]
    (lossFn : List (Option α) → List (Option (List α)) → Loss α) (r12 : α → α)
    (lo hi factor dxEps : α) (nn : Nat) (ops : List (Op α)) (lo' hi' factor' dxEps' : α) (nn' : Nat) :
    let s := run lossFn r12 (init lo hi factor dxEps nn) ops
    (setData lossFn r12 (init lo' hi' factor' dxEps' nn') (getData s)).data = s.data :=
  setData_getData_data lossFn r12 lo' hi' factor' dxEps' nn' (inv_run lossFn r12 lo hi factor dxEps nn ops)

/-- AverageLearner: the restored learner has the same data, moments, mean, standard deviation and loss. -/
theorem avg_full_roundtrip {α : Type} [Field α] [LinearOrder α] [IsStrictOrderedRing α]
    (sqrt : α → α) (atol rtol : Option α) (m : Nat) (ops : List (Avg.Op α)) :
    let s := Avg.run (Avg.init atol rtol m) ops
    let s' := Avg.setData (Avg.init atol rtol m) (Avg.getData s)
    s'.data = s.data ∧ s'.npoints = s.npoints ∧ s'.sumF = s.sumF ∧ s'.sumFsq = s.sumFsq ∧
    Avg.mean s' = Avg.mean s ∧ Avg.std sqrt s' = Avg.std sqrt s ∧
    Avg.loss sqrt s' true = Avg.loss sqrt s true ∧ Avg.loss sqrt s' false = Avg.loss sqrt s true :=
  Avg.setData_getData_init sqrt atol rtol m ops

/-- SequenceLearner: the restored learner holds exactly the original's data (every op list). -/
theorem seq_data_roundtrip {β : Type} (n m : Nat) (ops : List (Seq.Op β)) :
    (Seq.setData (Seq.init m) (Seq.getData (Seq.run (Seq.init n) ops))).data = (Seq.run (Seq.init n) ops).data :=
  Seq.setData_getData_run n m ops
end models

end C13
