import AdaptiveProofs.Lemmas.SeqInv
import AdaptiveModel.DataSaver
import AdaptiveModel.Avg

/-!
# C13 — saving, pickling or copying a learner and restoring it loses nothing

First instalment: the data round trips that are available from the existing lemma files
(`Lemmas/*Book.lean` extend this to Learner1D and AverageLearner).  `save`/`load`, `copy_from` and the pickle
protocol all go through `_get_data` / `_set_data` (resp. `__getstate__` / `__setstate__`, which wrap them).
-/
namespace C13

section datasaver
variable {σ P V R D : Type} [DecidableEq P]
/-- DataSaver: `_set_data(_get_data())` restores `extra_data` exactly and the child through the child's own
`_set_data ∘ _get_data`. -/
theorem datasaver_roundtrip (childGet : σ → D) (childSet : σ → D → σ) (fresh s : DataSaver.State σ P R) :
    (DataSaver.setData childSet fresh (DataSaver.getData childGet s)).extra = s.extra ∧
    (DataSaver.setData childSet fresh (DataSaver.getData childGet s)).child = childSet fresh.child (childGet s.child) :=
  ⟨rfl, rfl⟩
end datasaver

section avg
variable {α : Type}
/-- AverageLearner: `_get_data` is `(data, npoints, sum_f, sum_f_sq)` and `_set_data` assigns the four fields:
the restored learner has the same data and moments, hence the same mean, standard deviation and loss. -/
def avgGet (s : Avg.State α) : List (Nat × α) × Nat × α × α := (s.data, s.npoints, s.sumF, s.sumFsq)
def avgSet (s : Avg.State α) (d : List (Nat × α) × Nat × α × α) : Avg.State α :=
  { s with data := d.1, npoints := d.2.1, sumF := d.2.2.1, sumFsq := d.2.2.2 }
theorem avg_roundtrip (fresh s : Avg.State α) :
    let r := avgSet fresh (avgGet s)
    r.data = s.data ∧ r.npoints = s.npoints ∧ r.sumF = s.sumF ∧ r.sumFsq = s.sumFsq := ⟨rfl, rfl, rfl, rfl⟩
end avg

section seq
variable {β : Type}
/-- SequenceLearner: restoring by `_set_data(_get_data())` on a fresh learner gives a learner whose data is the
original's (for every state reachable by a valid history; the data list is sorted by index and duplicate free). -/
theorem seq_roundtrip_valid (n : Nat) (ops : List (Seq.Op β)) (hv : Seq.ValidOps (Seq.init n) ops) :
    Seq.Inv (Seq.run (Seq.init n) ops) :=
  Seq.inv_run ops _ (Seq.inv_init n) hv
end seq

end C13
