import AdaptiveProofs.Lemmas.L1DEquiv
import AdaptiveProofs.Lemmas.Choose

/-!
# C12 — rescaling inputs or outputs does not change which points are chosen

Property theorems for the Learner1D model over ordered fields, for ARBITRARY positive factors `cx` (domain and
abscissae) and `cy` (values), every `lossFn`, `r12`, `nn`, every history (helper lemmas: `Lemmas/L1DEquiv*.lean`,
`L1DYInv.lean`).  `scaleOp`/`scaleState` are the scaled images of an operation / a state: abscissae, bounds,
x-scale and interval keys times `cx`; values and y-scales times `cy`; LOSS VALUES UNCHANGED.

The loss function only ever sees `x / scaleX` and `y / scaleY`, which are identical in the two runs; the one corner
is `scaleY = 0` (all values equal so far), where both runs divide by 1: there the loss function must not care about
a common positive factor on equal values (`ScaleFreeAtZero`, satisfied by every shipped loss).  The bit-for-bit claim
for IEEE doubles and powers of two is outside these theorems (ordered fields); it is what the paired run on the real
code checks.  LearnerND has no Lean model here (paired oracle only).
-/
namespace C12
open L1D
variable {α : Type} [Field α] [LinearOrder α] [IsStrictOrderedRing α]
variable (lossFn : List (Option α) → List (Option (List α)) → Loss α) (r12 : α → α)

/-- C12.a  Running the scaled history on the scaled learner gives the scaled image of the state, at every step of
any history (values with `d` components, non-empty batches). -/
theorem l1d_run_equivariant {cx cy : α} (hx : 0 < cx) (hy : 0 < cy) (hsf : ScaleFreeAtZero lossFn)
    (d : Nat) (lo hi factor eps : α) (nn : Nat) (ops : List (Op α)) (hops : ∀ op ∈ ops, OpY d op) :
    run lossFn r12 (init (cx * lo) (cx * hi) factor (cx * eps) nn) (ops.map (scaleOp cx cy)) =
      scaleState cx cy (run lossFn r12 (init lo hi factor eps nn) ops) :=
  run_equivariant_init lossFn r12 hx hy hsf d lo hi factor eps nn ops hops

/-- C12.b  Hence the rescaled learner chooses exactly the correspondingly scaled points, with the same
improvements, after any history and for every request size … -/
theorem l1d_ask_equivariant {cx cy : α} (hx : 0 < cx) (hy : 0 < cy) (hsf : ScaleFreeAtZero lossFn)
    (d : Nat) (lo hi factor eps : α) (nn : Nat) (ops : List (Op α)) (hops : ∀ op ∈ ops, OpY d op) (n : Nat) :
    (askPoints r12 (run lossFn r12 (init (cx * lo) (cx * hi) factor (cx * eps) nn) (ops.map (scaleOp cx cy))) n).1 =
      (askPoints r12 (run lossFn r12 (init lo hi factor eps nn) ops) n).1.map (fun x => cx * x) ∧
    (askPoints r12 (run lossFn r12 (init (cx * lo) (cx * hi) factor (cx * eps) nn) (ops.map (scaleOp cx cy))) n).2 =
      (askPoints r12 (run lossFn r12 (init lo hi factor eps nn) ops) n).2 :=
  ask_after_run_equivariant lossFn r12 hx hy hsf d lo hi factor eps nn ops hops n

/-- C12.c  … and reports the same losses (for ANY state, no hypothesis on the loss function). -/
theorem l1d_loss_equivariant {cx cy : α} (hx : 0 < cx) (s : State α) (real : Bool) :
    loss (scaleState cx cy s) real = loss s real :=
  loss_equivariant hx s real

/-- C12.d  For loss functions that ignore a common positive factor on the values altogether the equivariance holds
from every state, for every history, with no side condition. -/
theorem l1d_run_equivariant_strong {cx cy : α} (hx : 0 < cx) (hy : 0 < cy) (hsf : ScaleFreeY lossFn)
    (s : State α) (ops : List (Op α)) :
    run lossFn r12 (scaleState cx cy s) (ops.map (scaleOp cx cy)) = scaleState cx cy (run lossFn r12 s ops) :=
  run_equivariant_strong lossFn r12 hx hy hsf s ops

end C12

/-! ## appended: the N-D learner's choice of the new point (triangles) under rescaling of the axes

For `LearnerND` the statement "rescaling the inputs does not change which points are chosen" passes through
`choose_point_in_simplex(simplex, transform = diag(1 / width))` (`AdaptiveModel/Choose.lean`, `Lemmas/Choose.lean`):
when every axis `k` is stretched by `s_k`, the widths and hence the transform follow (`t_k / s_k`), the TRANSFORMED
triangle is literally the same, and the chosen point is the stretched image of the chosen point.  (Ordered fields; for
IEEE doubles and powers of two the products `x * s * (t / s)` are exact as well — checked by the paired oracle.) -/
namespace C12
section choose2
open Choose
variable {α : Type} [Field α] [LinearOrder α] [IsStrictOrderedRing α]

/-- C12.nd.a  one factor per axis -/
theorem lnd_choose2_scale_axes (sqrt : α → α) (eps : α) (p0 p1 p2 : P2 α) (t0 t1 s0 s1 : α) (h0 : s0 ≠ 0) (h1 : s1 ≠ 0) :
    choosePoint2 sqrt eps (scaleT s0 s1 p0) (scaleT s0 s1 p1) (scaleT s0 s1 p2) (some (t0 / s0, t1 / s1))
      = scaleT s0 s1 (choosePoint2 sqrt eps p0 p1 p2 (some (t0, t1))) :=
  choose2_scale_axes sqrt eps p0 p1 p2 t0 t1 s0 s1 h0 h1

/-- C12.nd.b  a common factor on all axes: `choose(s·p; diag(t / s)) = s · choose(p; diag(t))` -/
theorem lnd_choose2_scale (sqrt : α → α) (eps : α) (p0 p1 p2 : P2 α) (t0 t1 s : α) (h : s ≠ 0) :
    choosePoint2 sqrt eps (smulP s p0) (smulP s p1) (smulP s p2) (some (t0 / s, t1 / s))
      = smulP s (choosePoint2 sqrt eps p0 p1 p2 (some (t0, t1))) :=
  choose2_scale sqrt eps p0 p1 p2 t0 t1 s h

/-- C12.nd.c  … and without a transform, for `s > 0` (every step of the code is rescaled: the circumcentre, the
relative tolerance of the barycentric test, the distances through `sqrt (s² x) = s sqrt x`, the first maximum) -/
theorem lnd_choose2_scale_none (sqrt : α → α) (hs : Prims.SqrtLaw sqrt) (eps : α) (p0 p1 p2 : P2 α) {s : α} (h : 0 < s) :
    choosePoint2 sqrt eps (smulP s p0) (smulP s p1) (smulP s p2) none
      = smulP s (choosePoint2 sqrt eps p0 p1 p2 none) :=
  choose2_scale_none sqrt hs eps p0 p1 p2 h

/-- C12.nd.d  translating the domain translates the chosen point (no transform, or `diag(t0, t1)` with non-zero entries) -/
theorem lnd_choose2_translate (sqrt : α → α) (eps : α) (p0 p1 p2 v : P2 α) (t : Option (P2 α))
    (ht : ∀ t0 t1, t = some (t0, t1) → t0 ≠ 0 ∧ t1 ≠ 0) :
    choosePoint2 sqrt eps (addP p0 v) (addP p1 v) (addP p2 v) t = addP (choosePoint2 sqrt eps p0 p1 p2 t) v :=
  choose2_translate sqrt eps p0 p1 p2 v t ht

end choose2
end C12
