import AdaptiveProofs.Lemmas.RunnerInv
import AdaptiveProofs.Lemmas.SeqInv

/-!
# C19 — A runner's log replays to the same learner

With logging on and no failed evaluation, for every configuration with `ntasks ≥ 1`,
every learner that answers `ask(k)` with at most `k` points, every completion schedule.
-/
namespace Runner

/-- C19.a  the log is the ordered record of the runner's `ask`/`tell` calls: between
iterations it equals the projection of the call trace, every logged `ask` requested at
least one point, and every logged `ask(n)` is a call `learner.ask(n)` with the same `n` -/
-- STATEMENT CHANGED: added the hypothesis `s.phase ≠ .stuck` to the first conjunct (the
-- schedule never offered an event that cannot occur).  Without it the statement is false
-- for the model: with `cfg = {ntasks := 1, retries := 0, raiseIf := false, blocking := true,
-- doLog := true}` and `evs = [.goal false, .goal false]` (EvsOK, noFail) the second event
-- arrives inside `_ask`, the phase becomes `.stuck` (so it is not `.asking`), the log is
-- `[ask 1]` (logged before `learner.ask` is called) but `logProj trace = []`; see the
-- `example`s below the theorem.
theorem log_is_trace (cfg : Cfg) (evs : List Ev) (hlog : cfg.doLog = true)
    (hnt : 1 ≤ cfg.ntasks) (hok : EvsOK (init cfg) evs) (hnf : noFail evs = true) :
    let s := run (init cfg) evs
    ((∀ n pids, s.phase ≠ .asking n pids) → s.phase ≠ .stuck → s.log = logProj s.trace) ∧
    (∀ k, LogEntry.ask k ∈ s.log → 1 ≤ k) := by
  intro s
  have h : LogInv s :=
    logInv_run evs _ (logInv_init cfg hnt) (boundInv_init cfg) hlog hok hnf
  exact ⟨h.log_eq, h.log_pos⟩

/-- the counterexample to the original statement of C19.a -/
def stuckCfg : Cfg := { ntasks := 1, retries := 0, raiseIf := false, blocking := true, doLog := true }
example : EvsOK (init stuckCfg) [.goal false, .goal false] := by decide
example : noFail [.goal false, .goal false] = true := by decide
example : (run (init stuckCfg) [.goal false, .goal false]).phase = .stuck := by decide
example : (run (init stuckCfg) [.goal false, .goal false]).log = [.ask 1] := by decide
example : logProj (run (init stuckCfg) [.goal false, .goal false]).trace = [] := by decide

/-- C19.b  replaying the log on a fresh learner and then discarding unfinished points gives
the state of the original learner, for every deterministic learner whose `tell` commutes
with `remove_unfinished` on the states satisfying an invariant `P` that all three
operations preserve (late results told after the exit discard are the only calls on which
log and trace differ). -/
theorem replay_bisimilar {σ : Type} (L : LearnerModel σ) (P : σ → Prop) (s0 : σ) (hP0 : P s0)
    (hPask : ∀ s n, P s → P (L.ask s n).2) (hPtell : ∀ s x y, P s → P (L.tell s x y))
    (hPrem : ∀ s, P s → P (L.removeUnfinished s))
    (hcomm : ∀ s x y, P s → L.removeUnfinished (L.tell s x y) = L.tell (L.removeUnfinished s) x y)
    (cfg : Cfg) (evs : List Ev) (hlog : cfg.doLog = true)
    (hnt : 1 ≤ cfg.ntasks) (hok : EvsOK (init cfg) evs) (hnf : noFail evs = true) (st : Status)
    (hstop : (run (init cfg) evs).phase = .stopped st) :
    let s := run (init cfg) evs
    L.removeUnfinished (applyLog L s0 s.log) = applyTrace L s0 s.trace := by
  intro s
  have h : LogInv s :=
    logInv_run evs _ (logInv_init cfg hnt) (boundInv_init cfg) hlog hok hnf
  have _ := hPrem  -- not needed: `remove_unfinished` is applied once, at the very end
  exact replay_aux L P s0 hP0 hPask hPtell hcomm h hstop

/-- the SequenceLearner model as a `LearnerModel` (points are indices) -/
def seqLearner : LearnerModel (Seq.State Int) where
  ask s n := Seq.ask s n true
  tell s i v := Seq.tell s i v
  removeUnfinished s := Seq.removeUnfinished s

/-- C19.c  instance: the premises of `replay_bisimilar` hold for the SequenceLearner model
with `P` = sortedness/distinctness/disjointness of its three index sets -/
theorem seq_tell_comm_remove (s : Seq.State Int) (i : Nat) (v : Int)
    (h1 : s.todo.Pairwise (· < ·)) (h2 : s.pending.Nodup) (h3 : ∀ j, j ∈ s.todo → j ∉ s.pending) :
    Seq.removeUnfinished (Seq.tell s i v) = Seq.tell (Seq.removeUnfinished s) i v := by
  have _ := h3  -- not needed
  exact Seq.tell_comm_removeUnfinished s i v h1 h2

/-! ## Non-vacuity: a logged blocking run with a late result after the exit discard -/

def exampleCfg19 : Cfg := { ntasks := 2, retries := 0, raiseIf := false, blocking := true, doLog := true }

def exampleEvs19 : List Ev :=
  [.goal false, .asked [0, 1], .done [(1, .ok 11)], .goal false, .asked [2], .done [(2, .ok 12)],
   .goal true, .remaining [(0, .ok 10)]]

example : EvsOK (init exampleCfg19) exampleEvs19 := by decide
example : noFail exampleEvs19 = true := by decide
example : (run (init exampleCfg19) exampleEvs19).phase = .stopped .finished := by decide
example : (run (init exampleCfg19) exampleEvs19).log =
    [.ask 2, .tell 1 11, .ask 1, .tell 2 12, .tell 0 10] := by decide

end Runner
