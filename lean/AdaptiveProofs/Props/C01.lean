import AdaptiveProofs.Lemmas.L1DSorted

/-!
# C01 — Learner1D: the reported loss is the true worst-interval loss of the current data

Property theorems only (helper lemmas: `Lemmas/L1D*.lean`).  The model is `AdaptiveModel/L1D.lean`
(`tell`, `tell_pending`, `tell_many` with both paths, `remove_unfinished`, `ask`), polymorphic in the
scalar type; the theorems hold over every ordered field, for EVERY loss function `lossFn` (0 or 1
neighbouring intervals, any `nn`), every rounding function `r12`, every bounds / factor / `dxEps`,
and every finite list of operations — nothing is bounded.
-/
namespace L1D
variable {α : Type} [Field α] [LinearOrder α] [IsStrictOrderedRing α]
variable (lossFn : List (Option α) → List (Option (List α)) → Loss α) (r12 : α → α)

/-- C01.a  Both loss containers are in `ItemSortedDict` order (decreasing rounded,
infinity-aware loss, ties by interval) in every reachable state. -/
theorem c01_tables_sorted (lo hi factor dxEps : α) (nn : Nat) (ops : List (Op α)) :
    TablesSorted r12 (run lossFn r12 (init lo hi factor dxEps nn) ops) :=
  tablesSorted_run lossFn r12 lo hi factor dxEps nn ops

/-- C01.b  What `loss(real)` reports, in every reachable state: infinite when a domain end point
is neither evaluated nor pending or no interval exists; otherwise the loss of an entry of the
(real / combined) table that no other entry exceeds in rounded, infinity-aware loss. -/
theorem c01_loss_is_max (lo hi factor dxEps : α) (nn : Nat) (ops : List (Op α)) (real : Bool) :
    let s := run lossFn r12 (init lo hi factor dxEps nn) ops
    ((missingBounds s ≠ [] ∨ lossTable s real = []) ∧ loss s real = .inf) ∨
    (missingBounds s = [] ∧ ∃ e l, lossTable s real = e :: l ∧ loss s real = e.2 ∧
      ∀ f ∈ lossTable s real,
        finiteLoss r12 f.1 f.2 s.lossScale ≤ finiteLoss r12 e.1 e.2 s.lossScale) := by
  intro s
  have hts : TablesSorted r12 s := tablesSorted_run lossFn r12 lo hi factor dxEps nn ops
  rcases loss_spec r12 s real with h | ⟨hm, e, l, ht, hl, hmax⟩
  · exact Or.inl h
  · exact Or.inr ⟨hm, e, l, ht, hl, hmax hts⟩

/-- C01.c  If every evaluated interval has a finite loss, the reported real loss is finite and
its rounded value is at least the rounded loss of every evaluated interval (the `1e-12` rounding
of `finite_loss` is part of the statement). -/
theorem c01_loss_ge_all (lo hi factor dxEps : α) (nn : Nat) (ops : List (Op α)) :
    let s := run lossFn r12 (init lo hi factor dxEps nn) ops
    missingBounds s = [] → s.losses ≠ [] → (∀ e ∈ s.losses, ∃ w, e.2 = .fin w) →
    ∃ v, loss s true = .fin v ∧ ∀ iv w, (iv, Loss.fin w) ∈ s.losses → r12 w ≤ r12 v := by
  intro s hm hne hfin
  exact loss_real_ge_all_finite r12 s (tablesSorted_run lossFn r12 lo hi factor dxEps nn ops) hm hne hfin

end L1D
