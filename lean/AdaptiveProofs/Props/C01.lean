import AdaptiveProofs.Lemmas.L1DSorted
import AdaptiveProofs.Lemmas.L1DInv
import AdaptiveProofs.Lemmas.L1DScale
import AdaptiveProofs.Lemmas.L1DValid
import AdaptiveProofs.Lemmas.L1DFinal

/-!
# C01 — Learner1D: the reported loss is the true worst-interval loss of the current data

Property theorems only (helper lemmas: `Lemmas/L1D*.lean`).  The model is `AdaptiveModel/L1D.lean`
(`tell`, `tell_pending`, `tell_many` with both paths, `remove_unfinished`, `ask`), polymorphic in the
scalar type; the theorems hold over every ordered field, for EVERY loss function `lossFn` (0 or 1
neighbouring intervals, any `nn`), every rounding function `r12`, every bounds / factor / `dxEps`,
and every finite list of operations — nothing is bounded.

"Valid history" = `lo < hi` + `ValidOps` (`Lemmas/L1DBounds.lean`): every told / pending point lies inside
the bounds, and the batch path of `tell_many` is not taken with an empty list of points.  The property's own
text still carries the proviso "batched tells only once both domain end points are known or pending"; it was
needed before the repair `fix: Learner1D.tell_many batch path shrank the x-scale to the range of the points`
(the batch path then set the x-scale to the range of the points, and a later `tell` left stale entries in the
table) and is gone from `ValidOps` now.  C01.h–k are therefore STRONGER than the property asks for: they cover
every history whose points lie inside the bounds, whatever the batches contain (a kernel-checked instance with a
forced batch of interior points only is in `Examples/L1D.lean`, `opsNoEnds`).
-/
namespace L1D
variable {α : Type} [Field α] [LinearOrder α] [IsStrictOrderedRing α]
variable (lossFn : List (Option α) → List (Option (List α)) → Loss α) (r12 : α → α)

/-- C01.a  Both loss containers are in `ItemSortedDict` order (decreasing rounded,
infinity-aware loss, ties by interval) in every reachable state. -/
theorem c01_tables_sorted (lo hi factor dxEps : α) (nn : Nat) (ops : List (Op α)) :
    TablesSorted r12 (run lossFn r12 (init lo hi factor dxEps nn) ops) :=
  tablesSorted_run lossFn r12 lo hi factor dxEps nn ops

/-- C01.b  What `loss(real)` reports, in every reachable state: infinite when a domain end point
is neither evaluated nor pending or no interval exists; otherwise the loss of an entry of the
(real / combined) table that no other entry exceeds in rounded, infinity-aware loss. -/
theorem c01_loss_is_max (lo hi factor dxEps : α) (nn : Nat) (ops : List (Op α)) (real : Bool) :
    let s := run lossFn r12 (init lo hi factor dxEps nn) ops
    ((missingBounds s ≠ [] ∨ lossTable s real = []) ∧ loss s real = .inf) ∨
    (missingBounds s = [] ∧ ∃ e l, lossTable s real = e :: l ∧ loss s real = e.2 ∧
      ∀ f ∈ lossTable s real,
        finiteLoss r12 f.1 f.2 s.lossScale ≤ finiteLoss r12 e.1 e.2 s.lossScale) := by
  intro s
  have hts : TablesSorted r12 s := tablesSorted_run lossFn r12 lo hi factor dxEps nn ops
  rcases loss_spec r12 s real with h | ⟨hm, e, l, ht, hl, hmax⟩
  · exact Or.inl h
  · exact Or.inr ⟨hm, e, l, ht, hl, hmax hts⟩

/-- C01.c  If every evaluated interval has a finite loss, the reported real loss is finite and
its rounded value is at least the rounded loss of every evaluated interval (the `1e-12` rounding
of `finite_loss` is part of the statement). -/
theorem c01_loss_ge_all (lo hi factor dxEps : α) (nn : Nat) (ops : List (Op α)) :
    let s := run lossFn r12 (init lo hi factor dxEps nn) ops
    missingBounds s = [] → s.losses ≠ [] → (∀ e ∈ s.losses, ∃ w, e.2 = .fin w) →
    ∃ v, loss s true = .fin v ∧ ∀ iv w, (iv, Loss.fin w) ∈ s.losses → r12 w ≤ r12 v := by
  intro s hm hne hfin
  exact loss_real_ge_all_finite r12 s (tablesSorted_run lossFn r12 lo hi factor dxEps nn ops) hm hne hfin

/-- C01.d  One loss per pair of neighbouring evaluated points, one expected loss per pair of
neighbouring evaluated-or-pending points, and no other entries — in every reachable state
(every `nn`, every op list, including the batch path of `tell_many`). -/
theorem c01_one_loss_per_interval (lo hi factor dxEps : α) (nn : Nat) (ops : List (Op α)) :
    let s := run lossFn r12 (init lo hi factor dxEps nn) ops
    s.xs.Pairwise (· < ·) ∧ s.xsC.Pairwise (· < ·) ∧
    (∀ x, x ∈ s.xs ↔ hasData s x = true) ∧
    (∀ x, x ∈ s.xsC ↔ (hasData s x = true ∨ x ∈ s.pending)) ∧
    (∀ iv, (lget iv s.losses).isSome = true ↔ iv ∈ pairs s.xs) ∧
    (∀ iv, (lget iv s.lossesC).isSome = true ↔ iv ∈ pairs s.xsC) ∧
    (tkeys s.losses).Nodup ∧ (tkeys s.lossesC).Nodup := by
  intro s
  have hI : Inv s := inv_run lossFn r12 lo hi factor dxEps nn ops
  obtain ⟨a, b, c, d, e, f⟩ := losses_cover lossFn r12 lo hi factor dxEps nn ops
  exact ⟨hI.xs_sorted, hI.xsC_sorted, hI.xs_mem, hI.xsC_mem, fun iv => ⟨b iv, a iv⟩,
    fun iv => ⟨d iv, c iv⟩, e, f⟩

/-- C01.e  The output normalisation is never more than the recomputation factor out of date: in
every reachable state (all told values having the same number of components, `1 ≤ factor`) the
scale the losses were last fully recomputed with satisfies `oldScaleY ≤ scaleY ≤ factor · oldScaleY`;
with factor 1 it is the current scale. -/
theorem c01_staleness_bounded (lo hi factor dxEps : α) (nn : Nat) (hf : 1 ≤ factor) (d : Nat)
    (ops : List (Op α)) (hops : ∀ op ∈ ops, OpDim d op) :
    let s := run lossFn r12 (init lo hi factor dxEps nn) ops
    s.scaleY ≤ s.factor * s.oldScaleY ∧ s.oldScaleY ≤ s.scaleY ∧ (factor = 1 → s.oldScaleY = s.scaleY) := by
  intro s
  obtain ⟨a, b⟩ := staleness_run lossFn r12 lo hi factor dxEps nn hf d ops hops
  exact ⟨a, b, fun h1 => exact_of_factor_one lossFn r12 lo hi factor dxEps nn h1 d ops hops⟩

/-- C01.f  When the output range has grown past the factor, `tell` recomputes EVERY interval from
the current data with the current scale (no interval is skipped) and records the new scale. -/
theorem c01_rescale_recomputes_all (s : State α) (h : s.factor * s.oldScaleY < s.scaleY) :
    let s' := maybeRescale lossFn r12 s
    s'.oldScaleY = s'.scaleY ∧
    (∀ iv, iv ∈ tkeys s'.losses ↔ iv ∈ tkeys s.losses) ∧
    (∀ iv ∈ tkeys s'.losses, lget iv s'.losses = some (getLoss lossFn s' iv.1 iv.2)) := by
  intro s'
  obtain ⟨a, b, _, d⟩ := maybeRescale_normalised lossFn r12 s h
  exact ⟨a, b, d⟩

/-- C01.g  The loss update of an evaluated interval `(xl, xr)`: its entry becomes the loss
function's value on the current data and scales, and every piece `(a, b)` of it cut out by pending
points gets the expected loss `(b - a) · loss / (xr - xl)` — proportional to its width; entries of
other intervals are untouched. -/
theorem c01_update_proportional {s : State α} (hs : s.xsC.Pairwise (· < ·)) (xl xr : α) :
    let s' := updInterp lossFn r12 s xl xr
    lget (xl, xr) s'.losses = some (getLoss lossFn s xl xr) ∧
    (∀ a b, (a, b) ∈ pairs s.xsC → xl ≤ a → b ≤ xr →
      lget (a, b) s'.lossesC = some (Loss.mulDiv (b - a) (getLoss lossFn s xl xr) (xr - xl))) ∧
    (∀ k, ¬ (k ∈ pairs s.xsC ∧ xl ≤ k.1 ∧ k.2 ≤ xr) → lget k s'.lossesC = lget k s.lossesC) ∧
    (∀ a b, getLoss lossFn s' a b = getLoss lossFn s a b) := by
  intro s'
  exact ⟨updInterp_losses_self lossFn r12 s xl xr,
    fun a b hab hl hr => updInterp_lossesC_inside lossFn r12 hs xl xr hab hl hr,
    fun k hk => updInterp_lossesC_outside lossFn r12 hs xl xr hk,
    fun a b => getLoss_updInterp lossFn r12 s xl xr a b⟩

/-- C01.h  THE VALUE INVARIANT.  In every state reachable by a valid history (points inside the
bounds; all values with the same number `d` of components; the former proviso "batched tells only once
both end points are known or pending" is no longer needed, see the header) — for every loss function
with ANY number `nn` of neighbouring intervals:

* every interval between neighbouring evaluated points holds the loss function's value on the data the
  learner holds NOW, normalised with an output scale `sy` that lies between the scale of the last full
  recomputation and the current one (`oldScaleY ≤ sy ≤ scaleY ≤ factor · oldScaleY`, see C01.e);
* every interval `(a, b)` between neighbouring evaluated-or-pending points that lies inside an evaluated
  interval `(l, r)` has the expected loss `(b - a) · L(l, r) / (r - l)`, and an interval with no evaluated
  point on one side has an infinite expected loss. -/
theorem c01_values {lo hi : α} (hlt : lo < hi) (factor dxEps : α) (nn : Nat) (d : Nat)
    (ops : List (Op α)) (hd : ∀ op ∈ ops, OpDim d op)
    (hv : ValidOps lossFn r12 (init lo hi factor dxEps nn) ops) :
    let s := run lossFn r12 (init lo hi factor dxEps nn) ops
    (∀ iv ∈ pairs s.xs, ∃ sy, s.oldScaleY ≤ sy ∧ sy ≤ s.scaleY ∧
        lget iv s.losses = some (getLossAt lossFn s sy iv.1 iv.2)) ∧
    (∀ a b, (a, b) ∈ pairs s.xsC →
      (∃ l r L, (l, r) ∈ pairs s.xs ∧ l ≤ a ∧ b ≤ r ∧ lget (l, r) s.losses = some L ∧
                lget (a, b) s.lossesC = some (Loss.mulDiv (b - a) L (r - l)))
      ∨ ((∀ x ∈ s.xs, a < x) ∨ (∀ x ∈ s.xs, x < b)) ∧ lget (a, b) s.lossesC = some .inf) :=
  ⟨realVals_run lossFn r12 lo hi factor dxEps nn d ops hd
      (runInBox_of_valid_init lossFn r12 hlt factor dxEps nn ops hv),
   combVals_run lossFn r12 lo hi factor dxEps nn ops⟩

/-- C01.i  With the recomputation factor set to 1 every stored loss is exactly the loss recomputed
from scratch on the current state. -/
theorem c01_exact_when_factor_one {lo hi : α} (hlt : lo < hi) (factor dxEps : α) (nn : Nat)
    (hf : factor = 1) (d : Nat) (ops : List (Op α)) (hd : ∀ op ∈ ops, OpDim d op)
    (hv : ValidOps lossFn r12 (init lo hi factor dxEps nn) ops) :
    let s := run lossFn r12 (init lo hi factor dxEps nn) ops
    ∀ iv ∈ pairs s.xs, lget iv s.losses = some (getLoss lossFn s iv.1 iv.2) :=
  exact_values_of_factor_one lossFn r12 lo hi factor dxEps nn hf d ops hd
    (runInBox_of_valid_init lossFn r12 hlt factor dxEps nn ops hv)

/-- C01.j  THE HEADLINE STATEMENT (exact recomputation).  In every state reachable by a valid history with the
recomputation factor 1, once both end points are known or pending (`missingBounds s = []`: the code reports an
infinite loss before that, C01.b — this is a condition on the STATE in which the loss is read, not on the batches
of the history) and at least two points are evaluated, the
loss the learner reports IS the loss function's value, on the data it currently holds, of an interval between
neighbouring evaluated points, and no other such interval has a larger rounded (infinity-aware) loss. -/
theorem c01_loss_is_true_max {lo hi : α} (hlt : lo < hi) (factor dxEps : α) (nn : Nat) (hf : factor = 1)
    (d : Nat) (ops : List (Op α)) (hv : ValidOps lossFn r12 (init lo hi factor dxEps nn) ops)
    (hd : ∀ op ∈ ops, OpDim d op) :
    let s := run lossFn r12 (init lo hi factor dxEps nn) ops
    missingBounds s = [] → pairs s.xs ≠ [] →
    ∃ iv0 ∈ pairs s.xs, loss s true = getLoss lossFn s iv0.1 iv0.2 ∧
      ∀ iv ∈ pairs s.xs, finiteLoss r12 iv (getLoss lossFn s iv.1 iv.2) s.lossScale ≤
        finiteLoss r12 iv0 (getLoss lossFn s iv0.1 iv0.2) s.lossScale :=
  loss_is_true_max_factor_one lossFn r12 hlt factor dxEps nn hf d ops hv hd

/-- C01.k  The same for any factor: the reported loss is the loss function's value on the current data at an
admissible output scale (between the scale of the last full recomputation and the current one) of an interval
that is maximal among all intervals, each taken at its own admissible scale. -/
theorem c01_loss_is_max_general {lo hi : α} (hlt : lo < hi) (factor dxEps : α) (nn : Nat)
    (d : Nat) (ops : List (Op α)) (hv : ValidOps lossFn r12 (init lo hi factor dxEps nn) ops)
    (hd : ∀ op ∈ ops, OpDim d op) :
    let s := run lossFn r12 (init lo hi factor dxEps nn) ops
    missingBounds s = [] → pairs s.xs ≠ [] →
    ∃ iv0 ∈ pairs s.xs, ∃ sy0, s.oldScaleY ≤ sy0 ∧ sy0 ≤ s.scaleY ∧
      loss s true = getLossAt lossFn s sy0 iv0.1 iv0.2 ∧
      ∀ iv ∈ pairs s.xs, ∃ sy, s.oldScaleY ≤ sy ∧ sy ≤ s.scaleY ∧
        finiteLoss r12 iv (getLossAt lossFn s sy iv.1 iv.2) s.lossScale ≤
          finiteLoss r12 iv0 (getLossAt lossFn s sy0 iv0.1 iv0.2) s.lossScale :=
  loss_is_max_of_stored_partial lossFn r12 hlt factor dxEps nn d ops hv hd

/-- C01.l  Exactly when the reported loss is infinite. -/
theorem c01_loss_inf_iff (s : State α) (real : Bool) :
    loss s real = .inf ↔ (missingBounds s ≠ [] ∨ lossTable s real = [] ∨
      ∃ e l, lossTable s real = e :: l ∧ e.2 = .inf) :=
  loss_inf_iff s real

end L1D
