import AdaptiveProofs.Lemmas.IntegNoDup
import AdaptiveProofs.Lemmas.IntegCut
import AdaptiveProofs.Lemmas.IntegSafe

/-!
# C07 — IntegratorLearner survives any evaluation order and always covers the interval

Property theorems only (helper lemmas: `Lemmas/IntegDefs.lean`, `IntegNoDup.lean`, `IntegCut.lean`, `IntegSafe.lean`).
The model `AdaptiveModel/Integ.lean` is the bookkeeping of `integrator_learner.py` as it is after the repairs
ec93fb4 / 367d180 / b8586d8.  All theorems quantify over
  * every number type `α` (no arithmetic law is used: the choices the code makes by comparing errors are arbitrary),
  * every oracle `O` (abscissae of every interval at every depth; `igral`, `err`, `force_split`, `remove`, `div` of every
    `complete_process` call) and all parameters `P` (`min_sep`, `tol`, `ndiv_max`, `max_ivals`),
  * every finite history `ops : List (Op α)`: `tell x` for ANY abscissa `x` (handed out or not, known or not),
    `ask fuel n commit` for every request size, committing or rolled back, and the `reorder` event that permutes
    equal-`rdepth` members of an `x_mapping` entry (what the deep copy of a rolled-back ask does).
Nothing is bounded.
-/
set_option linter.unusedSectionVars false
namespace Integ
variable {α : Type} [OfNat α 0] [DecidableEq α] [Div α] [OfNat α 2] [LT α] [DecidableLT α] [Sub α] [Mul α] [Add α] [Neg α]

/-- C07.a  No abscissa is ever pushed on `_stack` twice, and the abscissae returned by all committing `ask`s of a
history are pairwise different. -/
theorem integ_no_dup (O : Oracle α) (P : Params α) (a b errMax : α) (ops : List (Op α)) :
    (run O P (start O P a b errMax) ops).pushed.Nodup ∧ (returnedAll O P (start O P a b errMax) ops).Nodup :=
  no_dup_main O P a b errMax ops

/-- C07.a'  In every reachable state: what was pushed is what was popped followed by what is still on the stack;
everything pushed is pending or evaluated (so it can never be pushed again); the abscissae handed out are among
the popped ones. -/
theorem integ_stack_inv (O : Oracle α) (P : Params α) (a b errMax : α) (ops : List (Op α)) :
    PtInv (run O P (start O P a b errMax) ops) :=
  ptInv_run O P _ ops (ptInv_start O P a b errMax)

/-- C07.b  A value for an abscissa that belongs to no interval (`x ∉ x_mapping`) is rejected with `ValueError`
and the learner is left exactly as it was. -/
theorem integ_foreign_rejected (O : Oracle α) (P : Params α) (s : St α) (x : α)
    (h : xmapGet s.xmap x = none) : tell O P s x = (s, some Err.value) := by
  unfold tell
  rw [h]

/-- C07.d  No internal error: along every history no operation — `tell` of any abscissa, committing or rolled-back
`ask`, re-ordering — raises an `AssertionError`/`KeyError` of the learner (`Err.internal`); the only exceptions are
`ValueError` for a foreign abscissa, `RuntimeError("No way to improve…")`, `DivergentIntegralError` (and the model's
own `fuel`, which stands for an `ask` that does not return).  Hypothesis `Nested O`: the abscissae of a rule are among
those of the next finer rule (a fact about the Clenshaw–Curtis tables, checked numerically by the correspondence; without
it `assert self.depth_complete == depth - 1` can fail).  Covers the four assertion/KeyError sites of the code:
`complete_process` (depth order, `self.parent is not None`), `_fill_stack` (`assert not ival.children`,
`self.ivals.remove(ival)`). -/
theorem integ_no_internal_error (O : Oracle α) (P : Params α) (hN : Nested O) (a b errMax : α) (ops : List (Op α)) :
    (init O P a b errMax).2 = none ∧
    ∀ r ∈ trace O P (start O P a b errMax) ops, ∀ w, r ≠ some (Err.internal w) :=
  ⟨(Safe.safeInv_start O P a b errMax).2, Safe.no_internal_main O P hN a b errMax ops⟩

/-- non-vacuity of `Nested`: rules with 5, 9, 17, 33 abscissae `0 … n-1` are nested -/
example : Nested (α := Int) (Oracle.mk (fun _ _ d => (List.range (ns d)).map Int.ofNat)
    (fun _ _ => CPOut.mk 0 false false 0 false [] [])) := by
  intro a b d p hp
  simp only [List.mem_map, List.mem_range] at hp ⊢
  obtain ⟨k, hk, rfl⟩ := hp
  refine ⟨k, Nat.lt_of_lt_of_le hk ?_, rfl⟩
  match d with
  | 0 => decide
  | 1 => decide
  | 2 => decide
  | n + 3 => simp [ns]

/-- C07.d'  The invariant behind it: every live interval (member of `ivals`) is childless, in every reachable state. -/
theorem integ_live_childless (O : Oracle α) (P : Params α) (hN : Nested O) (a b errMax : α) (ops : List (Op α)) :
    Safe.SafeInv (run O P (start O P a b errMax) ops) :=
  Safe.safeInv_run O P hN ops _ (Safe.safeInv_start O P a b errMax).1

/-- C07.e  `igral` and `err` are by definition the sums over the approximating intervals (`err = inf` when there is none). -/
theorem integ_estimate_is_sum (P : Params α) (s : St α) (l : List Nat) :
    igralOf s l = l.foldl (fun acc i => acc + (getI s.F i).igral) 0 ∧
    errOf P s l = if l.isEmpty then P.inf else l.foldl (fun acc i => acc + (getI s.F i).err) 0 :=
  ⟨rfl, rfl⟩

/-- C07.c (full statement, NOT proved): in every reachable state every interval's non-empty `done_leaves` is a cut
of that interval's subtree — every path from the interval down to a childless interval meets it exactly once; for
`first_ival` this is the set `approximating_intervals`. -/
def integ_cut_partition_statement : Prop :=
  ∀ (O : Oracle α) (P : Params α) (a b errMax : α) (ops : List (Op α)) (i : Nat) (S : List Nat),
    let F := (run O P (start O P a b errMax) ops).F
    i < F.length → (getI F i).doneLeaves = some S → S ≠ [] → IsCut F i S

/-- C07.c (proved part): the decidable check `cutOK` of the model is sound for the cut property.
MISSING: that `cutOK` holds in every reachable state (an invariant of the `while ival is not None` walk of
`complete_process`, including intervals that are handed to their parent, later revived by their own children and
handed up again).  It is not proved; it is *evaluated*: the driver computes `cutOK` on states reached in every
history of the correspondence run (op `cutcheck`), and the python oracle checks contiguity of the real
`approximating_intervals` after every operation. -/
theorem integ_cut_partition_partial (F : Forest α) (h : cutOK F = true) (i : Nat) (hi : i < F.length) (S : List Nat)
    (hS : (getI F i).doneLeaves = some S) (hne : S ≠ []) : IsCut F i S :=
  cutOK_sound h i hi S hS hne

/-- non-vacuity: a split root whose two children carry the estimate passes the check -/
example : cutOK (α := Int)
    [{ a := 0, b := 2, depth := 3, rdepth := 1, children := [1, 2], doneLeaves := some [2, 1], err := 0, igral := 0 },
     { a := 0, b := 1, depth := 0, rdepth := 2, parent := some 0, doneLeaves := none, err := 0, igral := 0 },
     { a := 1, b := 2, depth := 0, rdepth := 2, parent := some 0, doneLeaves := none, err := 0, igral := 0 }] = true := by
  decide

end Integ
