import AdaptiveProofs.Lemmas.IntegNoDup
import AdaptiveProofs.Lemmas.IntegCut
import AdaptiveProofs.Lemmas.IntegSafe
import AdaptiveProofs.Lemmas.IntegPath
import AdaptiveProofs.Lemmas.IntegNoFuel
import AdaptiveProofs.Lemmas.IntegNested

/-!
# C07 — IntegratorLearner survives any evaluation order and always covers the interval

Property theorems only (helper lemmas: `Lemmas/IntegDefs.lean`, `IntegNoDup.lean`, `IntegCut.lean`, `IntegSafe.lean`; for the
cut / contiguity / fuel / node-table theorems: `IntegFrame`, `IntegThread`, `IntegWF`, `IntegView`, `IntegInv`, `IntegInvB`,
`IntegWalk`, `IntegCutFull`, `IntegFuel`, `IntegReach`, `IntegPath`, `IntegNoFuel`, `IntegNested`).
The model `AdaptiveModel/Integ.lean` is the bookkeeping of `integrator_learner.py` as it is after the repairs
ec93fb4 / 367d180 / b8586d8.  All theorems quantify over
  * every number type `α` (no arithmetic law is used: the choices the code makes by comparing errors are arbitrary),
  * every oracle `O` (abscissae of every interval at every depth; `igral`, `err`, `force_split`, `remove`, `div` of every
    `complete_process` call) and all parameters `P` (`min_sep`, `tol`, `ndiv_max`, `max_ivals`),
  * every finite history `ops : List (Op α)`: `tell x` for ANY abscissa `x` (handed out or not, known or not),
    `ask fuel n commit` for every request size, committing or rolled back, and the `reorder` event that permutes
    equal-`rdepth` members of an `x_mapping` entry (what the deep copy of a rolled-back ask does).
Nothing is bounded.
-/
set_option linter.unusedSectionVars false
namespace Integ
variable {α : Type} [OfNat α 0] [DecidableEq α] [Div α] [OfNat α 2] [LT α] [DecidableLT α] [Sub α] [Mul α] [Add α] [Neg α]

/-- C07.a  No abscissa is ever pushed on `_stack` twice, and the abscissae returned by all committing `ask`s of a
history are pairwise different. -/
theorem integ_no_dup (O : Oracle α) (P : Params α) (a b errMax : α) (ops : List (Op α)) :
    (run O P (start O P a b errMax) ops).pushed.Nodup ∧ (returnedAll O P (start O P a b errMax) ops).Nodup :=
  no_dup_main O P a b errMax ops

/-- C07.a'  In every reachable state: what was pushed is what was popped followed by what is still on the stack;
everything pushed is pending or evaluated (so it can never be pushed again); the abscissae handed out are among
the popped ones. -/
theorem integ_stack_inv (O : Oracle α) (P : Params α) (a b errMax : α) (ops : List (Op α)) :
    PtInv (run O P (start O P a b errMax) ops) :=
  ptInv_run O P _ ops (ptInv_start O P a b errMax)

/-- C07.b  A value for an abscissa that belongs to no interval (`x ∉ x_mapping`) is rejected with `ValueError`
and the learner is left exactly as it was. -/
theorem integ_foreign_rejected (O : Oracle α) (P : Params α) (s : St α) (x : α)
    (h : xmapGet s.xmap x = none) : tell O P s x = (s, some Err.value) := by
  unfold tell
  rw [h]

/-- C07.d  No internal error: along every history no operation — `tell` of any abscissa, committing or rolled-back
`ask`, re-ordering — raises an `AssertionError`/`KeyError` of the learner (`Err.internal`); the only exceptions are
`ValueError` for a foreign abscissa, `RuntimeError("No way to improve…")`, `DivergentIntegralError` (and the model's
own `fuel`, which stands for an `ask` that does not return).  Hypothesis `Nested O`: the abscissae of a rule are among
those of the next finer rule (a fact about the Clenshaw–Curtis tables, checked numerically by the correspondence; without
it `assert self.depth_complete == depth - 1` can fail).  Covers the four assertion/KeyError sites of the code:
`complete_process` (depth order, `self.parent is not None`), `_fill_stack` (`assert not ival.children`,
`self.ivals.remove(ival)`). -/
theorem integ_no_internal_error (O : Oracle α) (P : Params α) (hN : Nested O) (a b errMax : α) (ops : List (Op α)) :
    (init O P a b errMax).2 = none ∧
    ∀ r ∈ trace O P (start O P a b errMax) ops, ∀ w, r ≠ some (Err.internal w) :=
  ⟨(Safe.safeInv_start O P a b errMax).2, Safe.no_internal_main O P hN a b errMax ops⟩

/-- non-vacuity of `Nested`: rules with 5, 9, 17, 33 abscissae `0 … n-1` are nested -/
example : Nested (α := Int) (Oracle.mk (fun _ _ d => (List.range (ns d)).map Int.ofNat)
    (fun _ _ => CPOut.mk 0 false false 0 false [] [])) := by
  intro a b d p hp
  simp only [List.mem_map, List.mem_range] at hp ⊢
  obtain ⟨k, hk, rfl⟩ := hp
  refine ⟨k, Nat.lt_of_lt_of_le hk ?_, rfl⟩
  match d with
  | 0 => decide
  | 1 => decide
  | 2 => decide
  | n + 3 => simp [ns]

/-- C07.d'  The invariant behind it: every live interval (member of `ivals`) is childless, in every reachable state. -/
theorem integ_live_childless (O : Oracle α) (P : Params α) (hN : Nested O) (a b errMax : α) (ops : List (Op α)) :
    Safe.SafeInv (run O P (start O P a b errMax) ops) :=
  Safe.safeInv_run O P hN ops _ (Safe.safeInv_start O P a b errMax).1

/-- C07.e  `igral` and `err` are by definition the sums over the approximating intervals (`err = inf` when there is none). -/
theorem integ_estimate_is_sum (P : Params α) (s : St α) (l : List Nat) :
    igralOf s l = l.foldl (fun acc i => acc + (getI s.F i).igral) 0 ∧
    errOf P s l = if l.isEmpty then P.inf else l.foldl (fun acc i => acc + (getI s.F i).err) 0 :=
  ⟨rfl, rfl⟩

/-- C07.d2  `integ_no_internal_error` WITHOUT hypothesis for the real abscissae: when the abscissae of an interval are
`(a + b) / 2 + (b - a) * xi[depth] / 2` with the Clenshaw–Curtis node tables `xi` of `integrator_coeffs`
(`AdaptiveModel/Gen/IntegTables.lean`: the bit patterns of the doubles, dumped from the live module; `dec` is any way of
reading a bit pattern as a number, e.g. `Float.ofBits`), `Nested` holds — node `k` of rule `d` is node `2 k` of rule `d + 1`,
checked on the concrete tables by kernel evaluation — and no operation of any history raises an internal error, whatever
`complete_process` computes. -/
theorem integ_no_internal_error_tables (dec : Nat → α) (cp : Nat → Nat → CPOut α) (P : Params α) (a b errMax : α)
    (ops : List (Op α)) :
    Nested (tableOracle dec cp) ∧ (init (tableOracle dec cp) P a b errMax).2 = none ∧
    ∀ r ∈ trace (tableOracle dec cp) P (start (tableOracle dec cp) P a b errMax) ops, ∀ w, r ≠ some (Err.internal w) :=
  ⟨nested_tables dec cp, integ_no_internal_error _ P (nested_tables dec cp) a b errMax ops⟩

/-- C07.d3  The facts about the concrete node tables behind it: rule `d` has `ns d` nodes; node `k` of rule `d` is node
`2 k` of rule `d + 1` bit for bit (`d = 0, 1, 2`); the bit patterns denote the dyadic rationals `xiNum / 2^60` of the second
dump; these are antisymmetric and strictly increasing. -/
theorem integ_node_tables :
    (∀ d, (Gen.IntegTables.xiBits d).length = ns d) ∧
    (∀ d, d < 3 → ∀ k, k < ns d → (Gen.IntegTables.xiBits d)[k]? = (Gen.IntegTables.xiBits (d + 1))[2 * k]?) ∧
    (∀ d, d ≤ 3 → (Gen.IntegTables.xiBits d).map decode60 = (Gen.IntegTables.xiNum d).map some) ∧
    (∀ d, d ≤ 3 → (Gen.IntegTables.xiNum d).reverse = (Gen.IntegTables.xiNum d).map (fun v => -v)) ∧
    (∀ d, d ≤ 3 → ∀ k, k < ns d - 1 →
      (Gen.IntegTables.xiNum d).getD k 0 < (Gen.IntegTables.xiNum d).getD (k + 1) 0) :=
  ⟨xi_length, xi_nested_idx, xi_bits_num, xi_antisymm, xi_increasing⟩

/-- C07.c (full statement, proved below as `integ_cut_partition`): in every reachable state every interval's non-empty
`done_leaves` is a cut of that interval's subtree — every path from the interval down to a childless interval meets it
exactly once; for `first_ival` this is the set `approximating_intervals`. -/
def integ_cut_partition_statement : Prop :=
  ∀ (O : Oracle α) (P : Params α) (a b errMax : α) (ops : List (Op α)) (i : Nat) (S : List Nat),
    let F := (run O P (start O P a b errMax) ops).F
    i < F.length → (getI F i).doneLeaves = some S → S ≠ [] → IsCut F i S

/-- C07.c (the part proved first): the decidable check `cutOK` of the model is sound for the cut property.  (That `cutOK`
holds in every reachable state is `integ_cutOK_reachable`; the driver still evaluates it on reached states, op `cutcheck`.) -/
theorem integ_cut_partition_partial (F : Forest α) (h : cutOK F = true) (i : Nat) (hi : i < F.length) (S : List Nat)
    (hS : (getI F i).doneLeaves = some S) (hne : S ≠ []) : IsCut F i S :=
  cutOK_sound h i hi S hS hne

/-- C07.c  The decidable cut check holds in EVERY reachable state: for all oracles, parameters and histories of
tell / ask / re-ordering.  Behind it: the done-leaves invariant `Cut.RF` (next theorem). -/
theorem integ_cutOK_reachable (O : Oracle α) (P : Params α) (a b errMax : α) (ops : List (Op α)) :
    cutOK (run O P (start O P a b errMax) ops).F = true :=
  Cut.cutOK_reach O P a b errMax ops

/-- C07.c  The invariant of `complete_process`'s done-leaves propagation, of `split`, `refine` and `remove`, in every
reachable state: the forest is well formed (`Cut.WF`: children have larger numbers than and point back to their parent,
an interval is among its parent's children, no child is listed twice, children of `[a, b]` are `[a, m]`, `[m, b]`), and
(`Cut.RZ … none`) for every interval `j`: a non-empty `done_leaves` is duplicate free and consists exactly of what `j`
holds (`Cut.hz`: `j` itself unless all its children have `done_leaves = None`, then what the children hold); either all
children of `j` have `done_leaves = None` or none has; if all have, `done_leaves` of `j` is not empty; an interval with
`done_leaves = None` has a parent. -/
theorem integ_done_leaves_invariant (O : Oracle α) (P : Params α) (a b errMax : α) (ops : List (Op α)) :
    Cut.WF (run O P (start O P a b errMax) ops).F ∧ Cut.RZ (Cut.view (run O P (start O P a b errMax) ops).F) none :=
  Cut.rf_reach O P a b errMax ops

/-- C07.c  FULL: every interval's non-empty `done_leaves` is a cut of its subtree, in every reachable state. -/
theorem integ_cut_partition : integ_cut_partition_statement (α := α) := by
  intro O P a b errMax ops i S F hi hS hne
  exact cutOK_sound (Cut.cutOK_reach O P a b errMax ops) i hi S hS hne

/-- C07.c  Path formulation: in every reachable state, every way down from an interval `i` with a non-empty `done_leaves`
`S` — child by child, to a childless interval — meets `S` exactly once. -/
theorem integ_cut_paths (O : Oracle α) (P : Params α) (a b errMax : α) (ops : List (Op α)) (i : Nat) (S : List Nat)
    (hi : i < (run O P (start O P a b errMax) ops).F.length)
    (hS : (getI (run O P (start O P a b errMax) ops).F i).doneLeaves = some S) (hne : S ≠ [])
    (p : List Nat) (hp : Cut.DownPath (run O P (start O P a b errMax) ops).F i p) :
    p.countP (fun x => decide (x ∈ S)) = 1 :=
  Cut.isCut_path (Cut.wf_reach O P a b errMax ops) (integ_cut_partition O P a b errMax ops i S hi hS hne) p hp

/-- C07.c'  Contiguity.  The model keeps the end points as opaque keys (no order, no arithmetic); the adjacency relation
is the one `split` creates: the children of `[a, b]` are `[a, m]` and `[m, b]`, `refine` keeps `[a, b]` (`Cut.GeoAt`, part of
`Cut.WF`).  Stated without an order: the intervals of a non-empty `done_leaves` of `i` can be listed so that the first begins
at `i.a`, each ends where the next begins, and the last ends at `i.b` (`Cut.chain`).  (Over an ordered field with `a < m < b`
at every split this list is the one sorted by `a`.) -/
theorem integ_cut_contiguous (O : Oracle α) (P : Params α) (a b errMax : α) (ops : List (Op α)) (i : Nat) (S : List Nat)
    (hi : i < (run O P (start O P a b errMax) ops).F.length)
    (hS : (getI (run O P (start O P a b errMax) ops).F i).doneLeaves = some S) (hne : S ≠ []) :
    ∃ L : List Nat, L.Perm S ∧ L ≠ [] ∧
      Cut.chain (run O P (start O P a b errMax) ops).F (getI (run O P (start O P a b errMax) ops).F i).a L
        (getI (run O P (start O P a b errMax) ops).F i).b :=
  Cut.isCut_contig (Cut.wf_reach O P a b errMax ops) (integ_cut_partition O P a b errMax ops i S hi hS hne)

/-- C07.c''  The approximating intervals cover the domain: whenever `approximating_intervals` is a non-empty set `S`, its
intervals can be listed so that they lead, each ending where the next begins, from `a` to `b` — the bounds the learner was
created with. -/
theorem integ_approximating_spans (O : Oracle α) (P : Params α) (a b errMax : α) (ops : List (Op α)) (S : List Nat)
    (hS : approximating (run O P (start O P a b errMax) ops) = some S) (hne : S ≠ []) :
    ∃ L : List Nat, L.Perm S ∧ L ≠ [] ∧ Cut.chain (run O P (start O P a b errMax) ops).F a L b := by
  have hr := Cut.rootAB_reach O P a b errMax ops
  have := integ_cut_contiguous O P a b errMax ops 0 S (by have := hr.1; omega) hS hne
  rw [hr.2.1, hr.2.2] at this
  exact this

/-- C07.f  The fuel of the model's tree recursions is no semantic restriction.  The model calls `update_heuristic_err`
(`updHeur`), `update_ndiv_recursively` (`updNdivRec`), `_propagate_removed_down` (`removeDown`) and the `while ival is not
None` walk (`walkUp`) with fuel `F.length`.  On the forest of every reachable state (and on every forest that is well
formed, `Cut.fuel_irrelevant`; every forest the operations pass through is, because well-formedness only depends on
`a b parent children`, which only `split` changes) each of them returns the same with ANY larger fuel, and
`updNdivRec` never reports `Err.fuel`: children have larger numbers than their parent, so `F.length - j` bounds the depth
below `j`, and parents have smaller numbers, so `p + 1` rounds suffice from `p` upwards. -/
theorem integ_fuel_never_exhausted (O : Oracle α) (P : Params α) (a b errMax : α) (ops : List (Op α)) (fuel : Nat)
    (hf : (run O P (start O P a b errMax) ops).F.length ≤ fuel) :
    let F := (run O P (start O P a b errMax) ops).F
    (∀ j v, updHeur fuel F j v = updHeur F.length F j v) ∧
    (∀ j, updNdivRec P fuel F j = updNdivRec P F.length F j ∧ (updNdivRec P F.length F j).2 ≠ some Err.fuel) ∧
    (∀ j, removeDown fuel F j = removeDown F.length F j) ∧
    (∀ p old, p < F.length → walkUp fuel F (some p) old = walkUp F.length F (some p) old) ∧
    (∀ old, walkUp fuel F none old = walkUp F.length F none old) :=
  Cut.fuel_irrelevant (Cut.wf_reach O P a b errMax ops) (Cut.rootAB_reach O P a b errMax ops).1 P fuel hf

/-- C07.f'  End-to-end form: in every reachable state, `tell` of any abscissa and `_fill_stack` never end with the model
artefact `Err.fuel` (so the only `Err.fuel` an operation can return is the explicit budget of `ask`'s `while n_left > 0` loop,
which stands for an `ask` that does not return). -/
theorem integ_no_fuel_error (O : Oracle α) (P : Params α) (a b errMax : α) (ops : List (Op α)) :
    (∀ x, (tell O P (run O P (start O P a b errMax) ops) x).2 ≠ some Err.fuel) ∧
    (fillStack O P (run O P (start O P a b errMax) ops)).2 ≠ some Err.fuel :=
  ⟨fun x => Cut.tell_nf O P _ x (Cut.rw_reach O P a b errMax ops),
   Cut.fillStack_nf O P _ (Cut.rw_reach O P a b errMax ops)⟩

/-- non-vacuity: a split root whose two children carry the estimate passes the check -/
example : cutOK (α := Int)
    [{ a := 0, b := 2, depth := 3, rdepth := 1, children := [1, 2], doneLeaves := some [2, 1], err := 0, igral := 0 },
     { a := 0, b := 1, depth := 0, rdepth := 2, parent := some 0, doneLeaves := none, err := 0, igral := 0 },
     { a := 1, b := 2, depth := 0, rdepth := 2, parent := some 0, doneLeaves := none, err := 0, igral := 0 }] = true := by
  decide

end Integ
