import AdaptiveProofs.Lemmas.DataSaver

/-!
# C18 — DataSaver is transparent: the wrapped learner behaves as if unwrapped

For every wrapped learner (any `Learner σ P V`), every picker and every finite list of
client operations.
-/
namespace DataSaver
variable {σ P V R : Type} [DecidableEq P]

/-- C18.a  the wrapped learner's state after any op list is the state of the same learner
fed the picked values directly — hence every observable of the wrapped learner (losses,
data, pending points, later answers) coincides -/
theorem ds_simulates_child (L : Learner σ P V) (pick : R → V) (ops : List (Learner.Op P R))
    (s : State σ P R) :
    ((wrap L pick).run s ops).child = L.run s.child (pickOps pick ops) := by
  induction ops generalizing s with
  | nil => rfl
  | cons op ops ih =>
    cases op <;>
      simp only [Learner.run, List.foldl_cons, pickOps] at ih ⊢ <;>
      rw [ih] <;> rfl

/-- C18.b  … and it returns the very same points to every `ask` -/
theorem ds_same_answers (L : Learner σ P V) (pick : R → V) (ops : List (Learner.Op P R))
    (s : State σ P R) :
    (wrap L pick).answers s ops = L.answers s.child (pickOps pick ops) := by
  induction ops generalizing s with
  | nil => rfl
  | cons op ops ih =>
    cases op <;> simp only [Learner.answers, pickOps] <;> first
      | (congr 1; exact ih _)
      | exact ih _

/-- C18.c  `extra_data` holds the full result for exactly the points that were told, each
with the result told last; nothing else changes it -/
theorem ds_extra_data (L : Learner σ P V) (pick : R → V) (ops : List (Learner.Op P R))
    (s : State σ P R) (x : P) :
    oget x ((wrap L pick).run s ops).extra = lastResult x (oget x s.extra) ops := by
  induction ops generalizing s with
  | nil => rfl
  | cons op ops ih =>
    cases op with
    | tell x' r =>
      simp only [Learner.run, List.foldl_cons, lastResult] at ih ⊢
      rw [ih]
      congr 1
      by_cases h : x = x'
      · subst h; simp [Learner.step, wrap, oget_oset_self]
      · simp [Learner.step, wrap, h, oget_oset_other h]
    | ask n c => simp only [Learner.run, List.foldl_cons, lastResult] at ih ⊢; rw [ih]; rfl
    | tellPending x' => simp only [Learner.run, List.foldl_cons, lastResult] at ih ⊢; rw [ih]; rfl
    | removeUnfinished => simp only [Learner.run, List.foldl_cons, lastResult] at ih ⊢; rw [ih]; rfl

omit [DecidableEq P] in
/-- C18.d  save/load and copy (`_get_data`/`_set_data`) preserve `extra_data` exactly and
hand the child's data to the child -/
theorem ds_data_roundtrip {D : Type} (childGet : σ → D) (childSet : σ → D → σ)
    (s fresh : State σ P R) :
    (setData childSet fresh (getData childGet s)).extra = s.extra ∧
    (setData childSet fresh (getData childGet s)).child = childSet fresh.child (childGet s.child) := by
  simp [setData, getData]

end DataSaver
