import AdaptiveProofs.Props.C04
import AdaptiveProofs.Lemmas.LNDReach

/-!
# C04, dimension 2 — the queue theorems for REACHABLE states, with no hypothesis about intermediate geometry

`Props/C04.lean` (last sections) derives the geometric fields of `ChooseGeom` in dimension 2 from the modelled
`choose_point_in_simplex` / `point_in_simplex` / rectangular `inside_bounds`, but `lnd_*_dim2` still assume two facts
about the STATES of the run:

* (A) `SubVertsInOwner env` — every vertex of a sub-triangulation was accepted by `point_in_simplex` for the owner;
* (B) `AskDom env ops` (`ChosenInDomainAt`) — the (sub)simplices `_ask_best_point` pops have vertices in the domain.

Here both are THEOREMS about the reachable states of the model (`Lemmas/LNDAccept.lean`, `Lemmas/LNDReach.lean`):

* `lnd_subs_accepted` (1) — `SubsAccepted`: in every reachable state of EVERY history every stored sub-triangulation
  `(x, sv)` has `sv.take (dim+1) = ptsOf vs x` (the owner's corners) and `env.pis p (ptsOf vs x) = true` for every later
  entry `p`.  Only `_try_adding_pending_point_to_simplex` (`tryAdd`) appends, and it is guarded by `point_in_simplex`;
  `tell` / `_update_losses` delete sub-triangulations and re-add their points through `tryAdd`; `remove_unfinished`
  deletes them.
* `lnd_subVertsInOwner_reach` (2) — (A) in the state-relative form `SubVertsInOwnerAt`, dimension 2.
* `lnd_verts_in_domain` (3) — `VertsInDomain`: for histories whose TOLD points lie in the domain (`InDomain`, the
  property's quantifier; `tell_pending` of ARBITRARY points allowed — `tell_pending` ignores points outside the domain)
  every evaluated point, pending point, vertex of the triangulation and vertex of a sub-triangulation is in the domain.
* `lnd_askDom_of_inDomain` — (B): `AskDom env ops` from `AskNew env ops` and `InDomain env ops`.
* `lnd_chosen_subdivided_reach`, `lnd_ghost_true_reach`, `lnd_queue_complete_reach` (4) — the three headline theorems
  for a coordinate-computed 2-D environment over a rectangular box (`Dim2HypsR` = `Dim2Hyps` WITHOUT `subVerts`, plus
  the index range of sub-simplices), the combinatorial `TriGeom` / `SubGeom`, `InDomain env ops` and `AskNew env ops`
  (resp. `ChooseNewAt env s`) — WITHOUT `SubVertsInOwner` and WITHOUT `AskDom`.  `lnd_*_acc` are the same for any
  environment satisfying `ChooseGeomAcc` (no coordinates).

* `lnd_verts_in_domain_needs_inDomain` — `InDomain` is necessary for (3): a point told OUTSIDE the domain before the
  triangulation exists becomes a vertex (`Triangulation(self.points)` uses all of `data`); kernel-checked history.
* Non-vacuity: `Examples/C04Reach.lean` (`Wit2.gEnv`, a coordinate-computed environment over `ℝ` with a real run that
  builds a triangulation, chooses a point with the modelled `choose_point_in_simplex` and sub-triangulates), and the
  examples at the end of this file (`Wit.wEnv`, `exEnv`).

`AskNew` (the point `_ask_best_point` chose has no value) stays: it is NECESSARY (`lnd_queue_complete_needs_askNew`) and
is about values, not geometry of the state (`lnd_askNew_of_bound` reduces it to `ChooseLocal` + `DataBound`).
-/
set_option linter.unusedSectionVars false
set_option linter.unusedVariables false
namespace LND

section tables
variable {α : Type} [Sub α] [Mul α] [Div α] [LT α] [DecidableLT α]

/-- C04.inv.1  `lnd_subs_accepted` (`SubsAccepted`, spelled out).  In every reachable state of every history, every
stored sub-triangulation `(x, sv)`: `x` is a simplex of the triangulation, the first `dim+1` entries of `sv` are the
owner's corners `ptsOf vs x`, and every later entry was accepted by `point_in_simplex` for the owner. -/
theorem lnd_subs_accepted (env : Env α) (hT : TriGeom env) (hG : SubGeom env) (ops : List (Op α)) {s : State α}
    (h : run env (init env) ops = .ok s) :
    (s.tri = none → s.book.subs = []) ∧
    ∀ vs, s.tri = some vs → ∀ x sv, get? x s.book.subs = some sv →
      x ∈ env.triSimps vs.length ∧ env.dim + 1 ≤ sv.length ∧ sv.take (env.dim + 1) = ptsOf vs x ∧
        ∀ p ∈ sv.drop (env.dim + 1), env.pis p (ptsOf vs x) = true :=
  ⟨(run_subsAccepted env hT ops h).1, fun vs ht x sv hx => (run_subsAccepted env hT ops h).spec hG ht hx⟩

/-- C04.inv.3  `lnd_verts_in_domain` (`VertsInDomain`, spelled out).  For histories whose told points lie in the
domain: every evaluated point, every pending point, every vertex of the triangulation and every vertex of every stored
sub-triangulation passes `inside_bounds`. -/
theorem lnd_verts_in_domain (env : Env α) (hT : TriGeom env) (ops : List (Op α)) (hin : InDomain env ops)
    {s : State α} (h : run env (init env) ops = .ok s) :
    (∀ p ∈ s.data, env.inside p = true) ∧ (∀ p ∈ s.pending, env.inside p = true) ∧
    (∀ vs, s.tri = some vs → ∀ p ∈ vs, env.inside p = true) ∧
    ∀ x sv, get? x s.book.subs = some sv → ∀ p ∈ sv, env.inside p = true := by
  have hv := run_vertsInDomain env hT ops hin h
  refine ⟨hv.1.1, hv.1.2.1, hv.1.2.2, ?_⟩
  intro x sv hx
  cases ht : s.tri with
  | none =>
    rw [hv.2.1 ht] at hx
    simp [get?] at hx
  | some vs => exact SubFormG.all env hT (hv.2.2 vs ht) (hv.1.2.2 vs ht) x sv hx

/-- C04.inv.B  (B) is a theorem: `AskDom` from `AskNew` for histories whose told points lie in the domain -/
theorem lnd_askDom_of_inDomain (env : Env α) (hT : TriGeom env) (hG : SubGeom env)
    (hidx : ∀ sv, ∀ ss ∈ env.subSimps sv, ∀ i ∈ ss, i < sv.length) (ops : List (Op α)) (hin : InDomain env ops)
    (hN : AskNew env ops) : AskDom env ops :=
  askDom_of_inDomain env hT hG hidx ops hin hN

/-- C04.c  `lnd_chosen_subdivided` for `ChooseGeomAcc`: reachable state of a history whose told points lie in the
domain, chosen point without a value -/
theorem lnd_chosen_subdivided_acc (env : Env α) (hT : TriGeom env) (hG : SubGeom env) (hC : ChooseGeomAcc env)
    (ops : List (Op α)) (hin : InDomain env ops) {s : State α} (h : run env (init env) ops = .ok s)
    (hN : ChooseNewAt env s) {vs : List Pt} (ht : s.tri = some vs)
    {r : Pt × α} {s' : State α} (ha : askBest env s vs = .ok (r, s')) :
    ∀ e q, popHighest env (env.triSimps vs.length) s.book.subs s.book.queue = some (e, q) →
      s'.tri = some vs ∧ live env (env.triSimps vs.length) s'.book.subs e = false := by
  intro e q hp
  have hA : AskAccAt env s := askAccAt_of_inv hT hG hC.subIdx (run_vertsInDomain env hT ops hin h) hN
  obtain ⟨e', q', s2, hp', _, h2, rfl⟩ := askBest_form env ha
  rw [hp] at hp'
  simp only [Option.some.injEq, Prod.mk.injEq] at hp'
  obtain ⟨rfl, rfl⟩ := hp'
  have hr1 := askBest_point env hp ha
  rw [hr1] at h2
  have hd := chosen_dead_acc env hG hC ht (run_subVerts env hT ops h) hp (hA.1.1 vs e q ht hp) (hA.1.2 vs e q ht hp)
    hA.2 h2
  have t2 : s2.tri = some vs := by
    obtain ⟨_, _, _, _, _, f⟩ := tellPending_frame env _ _ h2
    rcases f with f | ⟨f, _⟩
    · rw [f]; exact ht
    · have f' : s.tri = none := f
      rw [ht] at f'; exact absurd f' (by simp)
  refine ⟨t2, ?_⟩
  rw [t2] at hd
  exact hd

/-- C04.c  `lnd_ghost_true` for `ChooseGeomAcc` -/
theorem lnd_ghost_true_acc (env : Env α) (hT : TriGeom env) (hG : SubGeom env) (hC : ChooseGeomAcc env)
    (ops : List (Op α)) (hin : InDomain env ops) (hN : AskNew env ops) {s : State α}
    (h : run env (init env) ops = .ok s) : s.book.geomOK = true :=
  run_geomOK_reach env hT hG hC ops hin hN h

/-- C04.c  `lnd_queue_complete` for `ChooseGeomAcc` -/
theorem lnd_queue_complete_acc (env : Env α) (hT : TriGeom env) (hG : SubGeom env) (hC : ChooseGeomAcc env)
    (ops : List (Op α)) (hin : InDomain env ops) (hN : AskNew env ops) {s : State α}
    (h : run env (init env) ops = .ok s) :
    ∀ vs, s.tri = some vs → ∀ x ∈ env.triSimps vs.length,
      (get? x s.book.subs = none →
        ∃ e ∈ s.book.queue, e.simplex = x ∧ e.sub = none ∧ get? x s.losses = some e.loss) ∧
      (∀ sv, get? x s.book.subs = some sv → ∀ ss ∈ env.subSimps sv,
        ∃ e ∈ s.book.queue, e.simplex = x ∧ e.sub = some ss) := by
  have hq : Cover env s := run_cover_reach env hT hG hC ops hin hN h
  intro vs ht x hx
  have hc := hq x (by simp only [ht, simplices]; exact hx)
  constructor
  · intro hn; exact hc none hn
  · intro sv hsv ss hss; exact hc (some ss) ⟨sv, hsv, hss⟩

end tables

section queueReach2
open Choose Gen.Prims Prims
variable {α : Type} [Field α] [LinearOrder α] [IsStrictOrderedRing α]
variable {β : Type} [Sub β] [Mul β] [Div β] [LT β] [DecidableLT β]

/-- the hypotheses on the ENVIRONMENT left in dimension 2: computed from coordinates over a rectangular box
(`CoordEnv2`) and COMBINATORICS of the sub-triangulations — sub-simplices are triangles whose local vertex indices are in
range, `split`, `nodup`.  This is `Dim2Hyps` WITHOUT the state-level `subVerts : SubVertsInOwner env`. -/
structure Dim2HypsR (env : Env β) (coord : Pt → P2 α) (sqrt : α → α) (eps eps' epsb : α) (t : Option (P2 α))
    (a0 b0 a1 b1 : α) : Prop where
  coords : CoordEnv2 env coord sqrt eps eps' epsb t a0 b0 a1 b1
  subSize : ∀ sv, ∀ ss ∈ env.subSimps sv, ss.length = 3
  subIdx : ∀ sv, ∀ ss ∈ env.subSimps sv, ∀ i ∈ ss, i < sv.length
  split : ∀ sv, ∀ ss ∈ env.subSimps sv, ∀ D A, env.subAdd sv (env.choose (ptsOf sv ss)) = some (D, A) →
    ss ∉ env.subSimps (sv ++ [env.choose (ptsOf sv ss)])
  nodup : ∀ n, (env.triSimps n).Nodup

variable {env : Env β} {coord : Pt → P2 α} {sqrt : α → α} {eps eps' epsb : α} {t : Option (P2 α)} {a0 b0 a1 b1 : α}

theorem Dim2Hyps.toR (hD : Dim2Hyps env coord sqrt eps eps' epsb t a0 b0 a1 b1)
    (hidx : ∀ sv, ∀ ss ∈ env.subSimps sv, ∀ i ∈ ss, i < sv.length) :
    Dim2HypsR env coord sqrt eps eps' epsb t a0 b0 a1 b1 :=
  ⟨hD.coords, hD.subSize, hidx, hD.split, hD.nodup⟩

/-- `ChooseGeomAcc` for a coordinate-computed 2-D environment: all geometric fields derived -/
theorem Dim2HypsR.chooseGeomAcc (hD : Dim2HypsR env coord sqrt eps eps' epsb t a0 b0 a1 b1) : ChooseGeomAcc env :=
  chooseGeomAcc_dim2_of_coords env coord sqrt eps eps' epsb t a0 b0 a1 b1 hD.coords hD.subSize hD.subIdx hD.split
    hD.nodup

/-- C04.inv.2  (A), state-relative: in every reachable state of every history, for every STORED sub-triangulation
`point_in_simplex` accepts every vertex of every sub-simplex for the owner (`sv.take (dim+1)`) — what
`SubVertsInOwner env` asserted of all vertex lists -/
theorem lnd_subVertsInOwner_reach (hD : Dim2HypsR env coord sqrt eps eps' epsb t a0 b0 a1 b1)
    (hT : TriGeom env) (hG : SubGeom env) (ops : List (Op β)) {s : State β} (h : run env (init env) ops = .ok s) :
    ∀ vs x sv, s.tri = some vs → get? x s.book.subs = some sv →
      ∀ ss ∈ env.subSimps sv, ∀ p ∈ ptsOf sv ss, env.pis p (sv.take (env.dim + 1)) = true :=
  subVertsInOwnerAt_dim2 env coord eps' hD.coords.heps' hD.coords.hdim hD.coords.hpis hD.subIdx hG
    (run_subsAccepted env hT ops h)

/-- C04.inv.2'  … hence the point chosen in ANY sub-simplex of a stored sub-triangulation is accepted for the owner
(`ChooseGeom.inOwner` for the sub-triangulations the run meets) -/
theorem lnd_inOwner_reach (hD : Dim2HypsR env coord sqrt eps eps' epsb t a0 b0 a1 b1)
    (hT : TriGeom env) (hG : SubGeom env) (ops : List (Op β)) {s : State β} (h : run env (init env) ops = .ok s) :
    ∀ vs x sv, s.tri = some vs → get? x s.book.subs = some sv →
      ∀ ss ∈ env.subSimps sv, env.pis (env.choose (ptsOf sv ss)) (ptsOf vs x) = true := by
  intro vs x sv ht hx ss hss
  obtain ⟨_, hl, htk, hall⟩ := (run_subsAccepted env hT ops h).spec hG ht hx
  rw [← htk]
  exact hD.chooseGeomAcc.inOwner sv hl (by rw [htk]; exact hall) ss hss

/-- C04.c in dimension 2 for reachable states, `lnd_chosen_subdivided`: environment computed from coordinates, told
points in the domain, the chosen point has no value — nothing else -/
theorem lnd_chosen_subdivided_reach (hD : Dim2HypsR env coord sqrt eps eps' epsb t a0 b0 a1 b1)
    (hT : TriGeom env) (hG : SubGeom env)
    (ops : List (Op β)) (hin : InDomain env ops) {s : State β} (h : run env (init env) ops = .ok s)
    (hN : ChooseNewAt env s) {vs : List Pt} (ht : s.tri = some vs)
    {r : Pt × β} {s' : State β} (ha : askBest env s vs = .ok (r, s')) :
    ∀ e q, popHighest env (env.triSimps vs.length) s.book.subs s.book.queue = some (e, q) →
      s'.tri = some vs ∧ live env (env.triSimps vs.length) s'.book.subs e = false :=
  lnd_chosen_subdivided_acc env hT hG hD.chooseGeomAcc ops hin h hN ht ha

/-- C04.c in dimension 2 for reachable states, `lnd_ghost_true` -/
theorem lnd_ghost_true_reach (hD : Dim2HypsR env coord sqrt eps eps' epsb t a0 b0 a1 b1)
    (hT : TriGeom env) (hG : SubGeom env) (ops : List (Op β)) (hin : InDomain env ops) (hN : AskNew env ops)
    {s : State β} (h : run env (init env) ops = .ok s) : s.book.geomOK = true :=
  lnd_ghost_true_acc env hT hG hD.chooseGeomAcc ops hin hN h

/-- C04.c in dimension 2 for reachable states, `lnd_queue_complete`: for a coordinate-computed environment over a
rectangular box the queue is complete in every reachable state of every history whose told points lie in the domain and
in which `_ask_best_point` chose points without a value — given only COMBINATORIAL facts about the (sub)triangulations.
No `SubVertsInOwner`, no `AskDom`. -/
theorem lnd_queue_complete_reach (hD : Dim2HypsR env coord sqrt eps eps' epsb t a0 b0 a1 b1)
    (hT : TriGeom env) (hG : SubGeom env) (ops : List (Op β)) (hin : InDomain env ops) (hN : AskNew env ops)
    {s : State β} (h : run env (init env) ops = .ok s) :
    ∀ vs, s.tri = some vs → ∀ x ∈ env.triSimps vs.length,
      (get? x s.book.subs = none →
        ∃ e ∈ s.book.queue, e.simplex = x ∧ e.sub = none ∧ get? x s.losses = some e.loss) ∧
      (∀ sv, get? x s.book.subs = some sv → ∀ ss ∈ env.subSimps sv,
        ∃ e ∈ s.book.queue, e.simplex = x ∧ e.sub = some ss) :=
  lnd_queue_complete_acc env hT hG hD.chooseGeomAcc ops hin hN h

end queueReach2
end LND

/-! ## non-vacuity -/

/-- the environment hypotheses of `lnd_*_reach` are satisfiable: `Wit.wEnv` (coordinates enumerate the rational points,
modelled `choose` / `pis` / `inside` with `Real.sqrt` over the unit square) satisfies `Dim2HypsR` — no `SubVertsInOwner`
needed — hence `ChooseGeomAcc` -/
example (eps eps' epsb : ℝ) (he : 0 ≤ eps') :
    LND.Dim2HypsR (Wit.wEnv eps eps' epsb) Wit.coord Real.sqrt eps eps' epsb none 0 1 0 1 ∧
    LND.ChooseGeomAcc (Wit.wEnv eps eps' epsb) := by
  have h : LND.Dim2HypsR (Wit.wEnv eps eps' epsb) Wit.coord Real.sqrt eps eps' epsb none 0 1 0 1 :=
    ⟨Wit.wEnv_coords eps eps' epsb he, Wit.wEnv_subSize eps eps' epsb,
      by
        intro sv ss hss i hi
        simp only [Wit.wEnv] at hss
        split at hss
        · rename_i h3
          simp only [List.mem_cons, List.not_mem_nil, or_false] at hss; subst hss
          simp only [List.mem_cons, List.not_mem_nil, or_false] at hi
          omega
        · exact absurd hss (by simp),
      by intro sv ss _ D A hadd; simp [Wit.wEnv] at hadd, by intro n; exact List.nodup_nil⟩
  exact ⟨h, h.chooseGeomAcc⟩

theorem LND.exEnv_chooseGeomAcc : LND.ChooseGeomAcc LND.exEnv := by
  have hsz : ∀ sv, ∀ ss ∈ LND.exEnv.subSimps sv, ss.length = LND.exEnv.dim + 1 := by
    intro sv ss hss
    simp only [LND.exEnv] at hss ⊢
    split at hss
    · simp only [List.mem_cons, List.not_mem_nil, or_false] at hss; subst hss; rfl
    · split at hss
      · simp only [List.mem_cons, List.not_mem_nil, or_false] at hss
        rcases hss with rfl | rfl | rfl <;> rfl
      · exact absurd hss (by simp)
  exact (LND.ChooseGeom.toDom LND.exEnv_chooseGeom hsz).toAcc LND.exEnv_subIdx.subIdx

/-- non-vacuity on a run: the example history (four `tell`s in the domain, one committing `ask`) satisfies `InDomain` and
`AskNew`; `lnd_ghost_true_acc` / `lnd_queue_complete_acc` / `lnd_subs_accepted` / `lnd_verts_in_domain` apply to the
state it reaches — a pending point 4 inside the sub-triangulated simplex `[0,1,2]`: the three sub-simplices are queued,
the stored vertex list `[0,1,2,4]` is corners `[0,1,2]` + the accepted point `4`, everything lies in the domain -/
example : LND.InDomain LND.exEnv LND.exOps ∧ LND.AskNew LND.exEnv LND.exOps ∧
    ∃ s, LND.run LND.exEnv (LND.init LND.exEnv) LND.exOps = .ok s ∧ s.book.geomOK = true ∧
      (∀ ss ∈ LND.exEnv.subSimps [0, 1, 2, 4], ∃ e ∈ s.book.queue, e.simplex = [0, 1, 2] ∧ e.sub = some ss) ∧
      (LND.get? [0, 1, 2] s.book.subs = some [0, 1, 2, 4] ∧
        ([0, 1, 2, 4] : List LND.Pt).take (LND.exEnv.dim + 1) = LND.ptsOf [0, 1, 2, 3] [0, 1, 2] ∧
        ∀ p ∈ ([0, 1, 2, 4] : List LND.Pt).drop (LND.exEnv.dim + 1),
          LND.exEnv.pis p (LND.ptsOf [0, 1, 2, 3] [0, 1, 2]) = true) ∧
      (∀ p ∈ s.pending, LND.exEnv.inside p = true) := by
  have hin : LND.InDomain LND.exEnv LND.exOps := ⟨rfl, rfl, rfl, rfl, trivial⟩
  obtain ⟨s, h, _, ht, _, hsub⟩ := LND.exRun
  have hC := LND.exEnv_chooseGeomAcc
  refine ⟨hin, LND.exOps_askNew, s, h,
    LND.lnd_ghost_true_acc LND.exEnv LND.exEnv_triGeom LND.exEnv_subGeom hC LND.exOps hin LND.exOps_askNew h, ?_, ?_,
    (LND.lnd_verts_in_domain LND.exEnv LND.exEnv_triGeom LND.exOps hin h).2.1⟩
  · have := LND.lnd_queue_complete_acc LND.exEnv LND.exEnv_triGeom LND.exEnv_subGeom hC LND.exOps hin
      LND.exOps_askNew h _ ht
    exact (this [0, 1, 2] (by decide)).2 [0, 1, 2, 4] (by rw [hsub]; rfl)
  · have hx : LND.get? [0, 1, 2] s.book.subs = some [0, 1, 2, 4] := by rw [hsub]; rfl
    obtain ⟨_, _, a, b⟩ :=
      (LND.lnd_subs_accepted LND.exEnv LND.exEnv_triGeom LND.exEnv_subGeom LND.exOps h).2 _ ht _ _ hx
    exact ⟨hx, a, b⟩

/-- the example environment with the point `0` OUTSIDE the domain -/
def LND.outEnv : LND.Env Int := { LND.exEnv with inside := fun p => p != 0 }

/-- `InDomain` is NECESSARY for `lnd_verts_in_domain` (kernel-checked): `tell` of a point outside the domain stores it in
`data` (`self.data[point] = value` precedes the `inside_bounds` test in `LearnerND.tell`), and the `tri` property builds
the triangulation from ALL of `data` (`Triangulation(self.points)`) — so a point told before the triangulation exists
becomes a vertex although it lies outside the domain.  History `tell 0, tell 1, tell 2, loss()` (the last one evaluates
the `tri` property): the triangulation has the vertex `0` with `inside 0 = false`.  (Once the triangulation exists, `tell`
of an outside point does NOT add a vertex: `tell` returns before `tri.add_point`.) -/
theorem LND.lnd_verts_in_domain_needs_inDomain :
    LND.TriGeom LND.outEnv ∧ ¬ LND.InDomain LND.outEnv [.tell 0 1 1, .tell 1 2 2, .tell 2 5 5, .loss] ∧
    ∃ s, LND.run LND.outEnv (LND.init LND.outEnv) [.tell 0 1 1, .tell 1 2 2, .tell 2 5 5, .loss] = .ok s ∧
      s.tri = some [0, 1, 2] ∧ s.data = [0, 1, 2] ∧ LND.outEnv.inside 0 = false :=
  ⟨⟨LND.exEnv_triGeom.report, LND.exEnv_triGeom.idx, LND.exEnv_triGeom.fresh⟩,
    fun h => absurd h.1 (by decide), _, rfl, rfl, rfl, rfl⟩
