import AdaptiveModel.SaveFs

/-!
# C14 — Saving is atomic: a crash never leaves a damaged file, loading tolerates absence

For every previous content of the destination (or none), every blob, every assignment of
{success, OSError, process death} to the file-system primitives of one save (so every
single fault and every combination), every length of a partial write, with or without a
directory component.  The compression flag only changes the opaque blob.
-/
namespace SaveFs

/-- C14.a  whatever happens, the destination afterwards is the complete previous version
or the complete new version -/
theorem save_atomic (f : Faults) (d : Bool) (fs : FS) (blob : Blob) :
    (save f d fs blob).fs.dest = fs.dest ∨ (save f d fs blob).fs.dest = some blob := by
  unfold save cleanup
  repeat' split
  all_goals simp_all

/-- C14.b  a save that returns `True` installed the new version and left no temp file;
a save that reports failure (returns `False` or raises) did not touch the previous version -/
theorem save_result (f : Faults) (d : Bool) (fs : FS) (blob : Blob) (h : fs.temp = none) :
    ((save f d fs blob).result = .ret true →
        (save f d fs blob).fs.dest = some blob ∧ (save f d fs blob).fs.temp = none) ∧
    ((save f d fs blob).result = .ret false ∨ (save f d fs blob).result = .raised →
        (save f d fs blob).fs.dest = fs.dest) := by
  unfold save cleanup
  repeat' split
  all_goals simp_all

/-- C14.c  an I/O error at any primitive (alone or together with others) never yields
`True`, and if no process death occurs the previous version is untouched -/
theorem save_oserror_reports_failure (f : Faults) (d : Bool) (fs : FS) (blob : Blob)
    (s : Step) (hs : f.on s = some .oserror) (hreach : s ∈ (save f d fs blob).trace)
    (hex : s ≠ .exists) :
    (save f d fs blob).result ≠ .ret true := by
  unfold save cleanup at *
  cases s <;> simp_all <;> (repeat' split) <;> simp_all

/-- C14.d  without faults the save succeeds -/
theorem save_no_fault (d : Bool) (fs : FS) (blob : Blob) :
    (save noFaults d fs blob).result = .ret true ∧
    (save noFaults d fs blob).fs = { dest := some blob, temp := none } := by
  cases d <;> simp [save, cleanup, noFaults]

/-- C14.e  hence after any interrupted save the destination still loads, to the old or the
new data (for any codec with `decode (encode x) = some x`) -/
theorem load_after_save {δ : Type} (encode : δ → Blob) (decode : Blob → Option δ)
    (hcodec : ∀ x, decode (encode x) = some x) (hne : ∀ x, encode x ≠ [])
    (f : Faults) (d : Bool) (old new cur : δ) (temp : Option Blob) :
    let fs' := (save f d { dest := some (encode old), temp := temp } (encode new)).fs
    load decode fs'.dest cur = some old ∨ load decode fs'.dest cur = some new := by
  intro fs'
  have h := save_atomic f d { dest := some (encode old), temp := temp } (encode new)
  have key : ∀ x, load decode (some (encode x)) cur = some x := by
    intro x
    unfold load
    have := hne x
    split
    · simp_all
    · simp_all
    · rename_i b hb; simp at hb; subst hb; exact hcodec x
  rcases h with h | h
  · left; show load decode fs'.dest cur = some old; rw [show fs'.dest = _ from h]; exact key old
  · right; show load decode fs'.dest cur = some new; rw [show fs'.dest = _ from h]; exact key new

/-- C14.f  loading from a missing or empty file leaves the learner exactly as it was -/
theorem load_missing_noop {δ : Type} (decode : Blob → Option δ) (cur : δ) :
    load decode none cur = some cur ∧ load decode (some []) cur = some cur := by
  simp [load]

/-! ## non-vacuity -/
example : (save { on := fun s => if s = .write then some .death else none, prefixLen := 2 } true
    { dest := some [9, 9], temp := none } [1, 2, 3]).fs = { dest := some [9, 9], temp := some [1, 2] } := by
  decide
example : (save { on := fun s => if s = .replace then some .oserror else none, prefixLen := 0 } false
    { dest := some [9], temp := none } [1, 2, 3]).result = .ret false := by decide
example : (save { on := fun s => if s = .exists then some .death else none, prefixLen := 0 } false
    { dest := some [9], temp := none } [1, 2, 3]).fs.dest = some [1, 2, 3] := by decide

end SaveFs
