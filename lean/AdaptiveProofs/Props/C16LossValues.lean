import AdaptiveProofs.Props.C16Loss
import AdaptiveProofs.Lemmas.Avg1DLossValues
import AdaptiveProofs.Lemmas.Avg1DFlatHist

/-!
# C16 (extension 3) — the VALUES of the inherited `losses` table of AverageLearner1D for loss
functions that do not grow when the output scale grows

`c16l_values_exact`: recomputation factor 1, ANY `nn`, `ScaleMonotone lossFn r12`, `FlatScaleFree lossFn`,
every history of in-bounds tells (single, re-samples, `tell_many`, `tell_many_at_point`), asks,
pending marks and discards from `init`: every stored loss is the loss function's value on the current
running means at the current scales.  The LIVE re-computation loops are complete for such losses
(`c16l_live_loop_complete`).
-/
set_option linter.unusedVariables false
set_option linter.unusedSectionVars false

namespace Avg1DFull
open L1D (Loss Ival)
variable {α : Type} [Field α] [LinearOrder α] [IsStrictOrderedRing α]
variable (lossFn : List (Option α) → List (Option (List α)) → Loss α) (r12 : α → α)
variable (sqrt : α → α) (tq : Nat → α) (hypot : α → α → α)

/-- C16L.g  THE LIVE LOOP IS COMPLETE when no re-inserted entry is larger than the one it replaces. -/
theorem c16l_live_loop_complete {sc : α} {s : L1D.State α} (hn : L1D.NodupT s) (ht : L1D.TS r12 sc s)
    (hle : ∀ e ∈ s.losses,
      L1D.finiteLoss r12 e.1 (L1D.getLoss lossFn s e.1.1 e.1.2) sc ≤ L1D.finiteLoss r12 e.1 e.2 sc) :
    ∀ k ∈ L1D.tkeys s.losses, k ∈ liveKeys lossFn r12 s (s.losses.length - 1) :=
  liveKeys_complete_of_nonincreasing lossFn r12 hn ht hle

/-- C16L.h  RUN-LEVEL VALUE THEOREM. -/
theorem c16l_values_exact (lo hi dxEps : α) (nn : Nat) (delta minError : α) (minS maxS : Nat) (ns : α)
    (hm : L1D.ScaleMonotone lossFn r12) (hfl : L1D.FlatScaleFree lossFn) (ops : List (Op α))
    (hin : ∀ op ∈ expandOps ops, OpIn lo hi op)
    (hflat : FlatHist lossFn r12 sqrt tq hypot (init lo hi 1 dxEps nn delta minError minS maxS ns)
      (expandOps ops)) :
    let s := run lossFn r12 sqrt tq hypot (init lo hi 1 dxEps nn delta minError minS maxS ns) ops
    Exact lossFn s.base ∧ s.base.oldScaleY = s.base.scaleY ∧ s.base.scaleX = hi - lo := by
  intro s
  have h : VInv lossFn r12 hypot lo hi (hi - lo) s := by
    show VInv lossFn r12 hypot lo hi (hi - lo) (run lossFn r12 sqrt tq hypot _ ops)
    rw [run_expandOps]
    exact vinv_run lossFn r12 sqrt tq hypot hm hfl _
      (vinv_init lossFn r12 hypot lo hi dxEps nn delta minError minS maxS ns) hin hflat
  exact ⟨h.ex, h.bv.old, h.bv.sx⟩

end Avg1DFull

/-! ## (5) loss functions of the shipped shape -/
namespace L1D
variable {α : Type} [Field α] [LinearOrder α] [IsStrictOrderedRing α]

/-- the arguments of a `nth_neighbors = 0` loss on scalar values -/
def pairOf : List (Option α) → List (Option (List α)) → Option (α × α × α × α)
  | [some a, some b], [some [ya], some [yb]] => some (a, b, ya, yb)
  | _, _ => none

/-- a loss of the form `g(dx, dy)` on the scaled end points (`uniform_loss`: `g = dx`;
`default_loss`: `g = sqrt(dx² + dy²)`) -/
def lossG (g : α → α → α) : List (Option α) → List (Option (List α)) → Loss α := fun xs ys =>
  match pairOf xs ys with
  | some (a, b, ya, yb) => .fin (g (b - a) (yb - ya))
  | none => .inf

theorem pairOf_scaleVals (t : α) (xs : List (Option α)) (vals : List (Option (List α))) :
    pairOf xs (scaleVals t vals) =
      (pairOf xs vals).map (fun q => (q.1, q.2.1, q.2.2.1 / t, q.2.2.2 / t)) := by
  rcases xs with _ | ⟨_ | x1, _ | ⟨_ | x2, _ | ⟨x3, xr⟩⟩⟩ <;>
  rcases vals with _ | ⟨_ | (_ | ⟨a1, _ | ⟨a2, ar⟩⟩), _ | ⟨_ | (_ | ⟨b1, _ | ⟨b2, br⟩⟩), _ | ⟨v3, vr⟩⟩⟩ <;>
  rfl

theorem pairOf_vals {xs : List (Option α)} {vals : List (Option (List α))} {q : α × α × α × α}
    (h : pairOf xs vals = some q) : vals = [some [q.2.2.1], some [q.2.2.2]] := by
  rcases xs with _ | ⟨_ | x1, _ | ⟨_ | x2, _ | ⟨x3, xr⟩⟩⟩ <;>
  rcases vals with _ | ⟨_ | (_ | ⟨a1, _ | ⟨a2, ar⟩⟩), _ | ⟨_ | (_ | ⟨b1, _ | ⟨b2, br⟩⟩), _ | ⟨v3, vr⟩⟩⟩ <;>
  first
  | (cases h; rfl)
  | (simp [pairOf] at h)

/-- (5) a loss `g(dx/xscale, dy/yscale)` with `g` not growing when `dy` is divided by a larger scale
(in particular: `g` monotone in `|dy|`) and a monotone rounding is `ScaleMonotone` -/
theorem scaleMonotone_lossG (g : α → α → α) (r12 : α → α) (hr : Monotone r12)
    (hg : ∀ d e t t', 0 < t → t ≤ t' → g d (e / t') ≤ g d (e / t)) :
    ScaleMonotone (lossG g) r12 := by
  intro xsS vals t t' ht hle iv sc
  unfold lossG
  rw [pairOf_scaleVals, pairOf_scaleVals]
  cases pairOf xsS vals with
  | none => exact le_refl _
  | some q =>
    obtain ⟨a, b, ya, yb⟩ := q
    show r12 (g (b - a) (yb / t' - ya / t')) ≤ r12 (g (b - a) (yb / t - ya / t))
    rw [← sub_div, ← sub_div]
    exact hr (hg _ _ _ _ ht hle)

theorem flatScaleFree_lossG (g : α → α → α) : FlatScaleFree (lossG g) := by
  intro xsS vals t t' ht ht' hall
  unfold lossG
  rw [pairOf_scaleVals, pairOf_scaleVals]
  cases hp : pairOf xsS vals with
  | none => rfl
  | some q =>
    obtain ⟨a, b, ya, yb⟩ := q
    have hv := pairOf_vals hp
    have e : [ya] = [yb] := hall [ya] [yb] (by rw [hv]; simp) (by rw [hv]; simp)
    have e' : ya = yb := List.head_eq_of_cons_eq e
    subst e'
    show Loss.fin (g (b - a) (ya / t' - ya / t')) = Loss.fin (g (b - a) (ya / t - ya / t))
    rw [sub_self, sub_self]

/-- `uniform_loss` -/
theorem scaleMonotone_uniform (r12 : α → α) (hr : Monotone r12) :
    ScaleMonotone (lossG (fun (d _ : α) => d)) r12 :=
  scaleMonotone_lossG _ r12 hr (fun _ _ _ _ _ _ => le_refl _)

/-- `dx² + dy²` (the default loss without the square root) -/
theorem scaleMonotone_sq (r12 : α → α) (hr : Monotone r12) :
    ScaleMonotone (lossG (fun (d e : α) => d * d + e * e)) r12 := by
  apply scaleMonotone_lossG _ r12 hr
  intro d e t t' ht hle
  show d * d + e / t' * (e / t') ≤ d * d + e / t * (e / t)
  rw [div_mul_div_comm, div_mul_div_comm]
  have h := div_le_div_of_nonneg_left (mul_self_nonneg e) (mul_pos ht ht)
    (mul_le_mul hle hle ht.le (ht.le.trans hle))
  linarith

/-- any `g` that is monotone in `|dy|` (e.g. `sqrt(dx² + dy²)` for a monotone `sqrt`) -/
theorem scaleMonotone_of_abs (g : α → α → α) (r12 : α → α) (hr : Monotone r12)
    (hg : ∀ d e e', |e'| ≤ |e| → g d e' ≤ g d e) : ScaleMonotone (lossG g) r12 := by
  apply scaleMonotone_lossG g r12 hr
  intro d e t t' ht hle
  apply hg
  rw [abs_div, abs_div, abs_of_pos ht, abs_of_pos (lt_of_lt_of_le ht hle)]
  exact div_le_div_of_nonneg_left (abs_nonneg e) ht hle

end L1D

/-! ## (6) kernel-checked instances over ℚ and the forced hypotheses -/
section C16LossValuesExamples
open Avg1DFull

/-- `dx² + dy²` on the scaled values (= `lossDec` of `Props/C16Loss.lean`) -/
private def lossDec2 : List (Option ℚ) → List (Option (List ℚ)) → L1D.Loss ℚ :=
  L1D.lossG (fun d e => d * d + e * e)

private def hyp2' : ℚ → ℚ → ℚ := fun a b => a * a + b * b
private def lInit' : State ℚ := init 0 1 1 0 0 (1 / 5) 0 1 50 (1 / 2)

set_option quotPrecheck false in
local notation "ceOps1" =>
  ([Op.tell 0 0 (-4), Op.tell 1 1 0, Op.tell 2 (1 / 4) (-4), Op.tell 3 (1 / 2) (-2), Op.tell 4 0 0,
    Op.tell 5 1 3] : List (Op ℚ))
set_option quotPrecheck false in
local notation "ceOps2" =>
  ([Op.tellManyAtPoint 0 [(0, 0), (100, 4)], Op.tell 1 (1 / 2) 4, Op.tell 2 (1 / 4) 3,
    Op.tellManyAtPoint 1 [(3, -1), (103, 0)]] : List (Op ℚ))

instance (b : L1D.State ℚ) : Decidable (L1D.ConstAtZero b) := by unfold L1D.ConstAtZero; infer_instance

/-- the two counterexample histories of `Props/C16Loss.lean`, with the decreasing loss, are exact BY
THE THEOREM -/
example : Exact lossDec2 (run lossDec2 id id (fun _ => 1) hyp2' lInit' ceOps1).base :=
  (c16l_values_exact lossDec2 id id (fun _ => 1) hyp2' 0 1 0 0 (1 / 5) 0 1 50 (1 / 2)
    (L1D.scaleMonotone_sq id monotone_id) (L1D.flatScaleFree_lossG _) ceOps1
    (by intro op hop; simp [expandOps] at hop; rcases hop with rfl | rfl | rfl | rfl | rfl | rfl <;>
          simp [OpIn] <;> norm_num)
    (by simp only [expandOps, List.flatMap_cons, List.flatMap_nil, List.append_nil, List.cons_append,
          List.nil_append, FlatHist, OpFlat, and_true, true_and]
        decide +kernel)).1

example : Exact lossDec2 (run lossDec2 id id (fun _ => 1) hyp2' lInit' ceOps2).base :=
  (c16l_values_exact lossDec2 id id (fun _ => 1) hyp2' 0 1 0 0 (1 / 5) 0 1 50 (1 / 2)
    (L1D.scaleMonotone_sq id monotone_id) (L1D.flatScaleFree_lossG _) ceOps2
    (by intro op hop; simp [expandOps] at hop; rcases hop with rfl | rfl | rfl | rfl <;>
          simp [OpIn] <;> norm_num)
    (by simp only [expandOps, List.flatMap_cons, List.flatMap_nil, List.append_nil, List.cons_append,
          List.nil_append, FlatHist, OpFlat, and_true, true_and]
        decide +kernel)).1

/-! ### `FlatScaleFree` is needed: `dx² + (ya + yb)²` on the scaled values is `ScaleMonotone` (the
scaled values shrink when the scale grows) but depends on the scale on constant data.  History: four
abscissae with value 1 (output scale 0, the code divides by 1), then a re-sample of `x = 1` with `3/2`:
the scale becomes `1/2 < 1`, the losses GROW, the live loop skips `(0, 1/4)`. -/
private def lossSum : List (Option ℚ) → List (Option (List ℚ)) → L1D.Loss ℚ := fun xs ys =>
  match L1D.pairOf xs ys with
  | some (a, b, ya, yb) => .fin ((b - a) * (b - a) + (ya + yb) * (ya + yb))
  | none => .inf

set_option quotPrecheck false in
local notation "flatOps" =>
  ([Op.tell 0 0 1, Op.tell 1 1 1, Op.tell 2 (1 / 2) 1, Op.tell 3 (1 / 4) 1, Op.tell 4 1 (3 / 2)] : List (Op ℚ))

example :
    let b := (run lossSum id id (fun _ => 1) hyp2' lInit' flatOps).base
    b.scaleY = 1 / 2 ∧ L1D.lget (0, 1 / 4) b.losses = some (.fin (65 / 16)) ∧
      L1D.getLoss lossSum b 0 (1 / 4) = .fin (257 / 16) := by decide +kernel

end C16LossValuesExamples

/-! ## (7) APPENDED (P41): `FlatHist` discharged — the run-level theorem without the hypothesis -/
namespace Avg1DFull
open L1D (Loss Ival)
variable {α : Type} [Field α] [LinearOrder α] [IsStrictOrderedRing α]
variable (lossFn : List (Option α) → List (Option (List α)) → Loss α) (r12 : α → α)
variable (sqrt : α → α) (tq : Nat → α) (hypot : α → α → α)

/-- C16L.i  `FlatHist` IS TRUE OF THE MODEL: along every history from `init` (any factor, any `nn`, any
loss function; tells of new abscissae, re-samples, `tell_many_at_point` incl. its intermediate state,
`tell_many`, asks, pending marks, discards; abscissae need not even be in bounds) in which the
seed ↦ y mapping of every `tell_many_at_point` has DISTINCT seeds (`OpND`; a Python dict has no
duplicate keys — the model takes a list), `_scale[1] = 0` implies that all running means are equal. -/
theorem c16l_flatHist (lo hi factor dxEps : α) (nn : Nat) (delta minError : α) (minS maxS : Nat)
    (ns : α) (ops : List (Op α)) (hnd : ∀ op ∈ ops, OpND op) :
    FlatHist lossFn r12 sqrt tq hypot (init lo hi factor dxEps nn delta minError minS maxS ns)
      (expandOps ops) :=
  flatHist_init lossFn r12 sqrt tq hypot lo hi factor dxEps nn delta minError minS maxS ns ops hnd

/-- C16L.j  the invariant behind it, in every reachable state: the output box (once there is one) is
`[a], [c]` with `a ≤ c`, `_scale[1] = c - a`, no data without a box, and in a degenerate box every
running mean (`data[x]`, both copies) is the box value. -/
theorem c16l_flat_invariant (lo hi factor dxEps : α) (nn : Nat) (delta minError : α) (minS maxS : Nat)
    (ns : α) (ops : List (Op α)) (hnd : ∀ op ∈ ops, OpND op) :
    FH (run lossFn r12 sqrt tq hypot (init lo hi factor dxEps nn delta minError minS maxS ns) ops) := by
  rw [run_expandOps]
  exact fh_run lossFn r12 sqrt tq hypot _ (fh_init lo hi factor dxEps nn delta minError minS maxS ns)
    (opND_expandOps hnd) (noTellMany_expandOps ops)

/-- C16L.h'  RUN-LEVEL VALUE THEOREM WITHOUT `FlatHist`: recomputation factor 1, any `nn`, a loss
function that is `ScaleMonotone` and `FlatScaleFree`, every history from `init` of in-bounds tells
(single, re-samples, `tell_many`, `tell_many_at_point` with distinct seeds), asks, pending marks and
discards: every stored loss of `losses` is the loss function's value on the current running means at
the current scales. -/
theorem c16l_values_exact' (lo hi dxEps : α) (nn : Nat) (delta minError : α) (minS maxS : Nat) (ns : α)
    (hm : L1D.ScaleMonotone lossFn r12) (hfl : L1D.FlatScaleFree lossFn) (ops : List (Op α))
    (hin : ∀ op ∈ expandOps ops, OpIn lo hi op) (hnd : ∀ op ∈ ops, OpND op) :
    let s := run lossFn r12 sqrt tq hypot (init lo hi 1 dxEps nn delta minError minS maxS ns) ops
    Exact lossFn s.base ∧ s.base.oldScaleY = s.base.scaleY ∧ s.base.scaleX = hi - lo :=
  c16l_values_exact lossFn r12 sqrt tq hypot lo hi dxEps nn delta minError minS maxS ns hm hfl ops hin
    (c16l_flatHist lossFn r12 sqrt tq hypot lo hi 1 dxEps nn delta minError minS maxS ns ops hnd)

end Avg1DFull

section C16FlatHistExamples
open Avg1DFull

/-! ### the guard `OpND` is needed IN THE MODEL (a list may repeat a seed; a Python dict cannot):
two abscissae with value 3, then `tell_many_at_point(1, [(5, 1), (5, 3)])`: `np.mean` sees `1` and `3`,
the sample store (hence `min`/`max` fed to `_update_scale`) only `3`: the scale stays `0`, the mean at
`x = 1` becomes `7/3`. -/
set_option quotPrecheck false in
local notation "dupOps" =>
  ([Op.tell 0 0 3, Op.tell 0 1 3, Op.tellManyAtPoint 1 [(5, 1), (5, 3)]] : List (Op ℚ))

example :
    let b := (run lossDec2 id id (fun _ => 1) hyp2' lInit' dupOps).base
    b.scaleY = 0 ∧ b.data = [(0, [3]), (1, [7 / 3])] ∧ ¬ L1D.ConstAtZero b := by decide +kernel

/-- the theorem applied without any `FlatHist` side goal (history `ceOps2` of `Props/C16Loss.lean`) -/
example : Exact lossDec2 (run lossDec2 id id (fun _ => 1) hyp2' lInit'
    [Op.tellManyAtPoint 0 [(0, 0), (100, 4)], Op.tell 1 (1 / 2) 4, Op.tell 2 (1 / 4) 3,
      Op.tellManyAtPoint 1 [(3, -1), (103, 0)]]).base :=
  (c16l_values_exact' lossDec2 id id (fun _ => 1) hyp2' 0 1 0 0 (1 / 5) 0 1 50 (1 / 2)
    (L1D.scaleMonotone_sq id monotone_id) (L1D.flatScaleFree_lossG _) _
    (by intro op hop; simp [expandOps] at hop; rcases hop with rfl | rfl | rfl | rfl <;>
          simp [OpIn] <;> norm_num)
    (by intro op hop; simp at hop; rcases hop with rfl | rfl | rfl | rfl <;> simp [OpND])).1

end C16FlatHistExamples

/-! ## (8) APPENDED (P41): `nth_neighbors = 1` shapes (`triangle_loss`, `curvature_loss`)

A loss with a finite value `F xs vals` is `ScaleMonotone` / `FlatScaleFree` as soon as `F` does not
grow when the values are divided by a larger scale (`ValMono`) / does not see the scale on constant
data (`ValFlat`).  Both properties are closed under sums, non-negative multiples and monotone maps
(`** 0.5`), hold for everything that only looks at the abscissae, for `|Δy|` of the two middle
points and for the mean triangle area of the (up to four) present points. -/
namespace L1D
variable {α : Type} [Field α] [LinearOrder α] [IsStrictOrderedRing α]

def ValMono (F : List (Option α) → List (Option (List α)) → α) : Prop :=
  ∀ (xs : List (Option α)) (vals : List (Option (List α))) (t t' : α), 0 < t → t ≤ t' →
    F xs (scaleVals t' vals) ≤ F xs (scaleVals t vals)

def ValFlat (F : List (Option α) → List (Option (List α)) → α) : Prop :=
  ∀ (xs : List (Option α)) (vals : List (Option (List α))) (t t' : α), 0 < t → 0 < t' →
    AllEq vals → F xs (scaleVals t' vals) = F xs (scaleVals t vals)

/-- a loss that is always finite -/
def lossF (F : List (Option α) → List (Option (List α)) → α) :
    List (Option α) → List (Option (List α)) → Loss α := fun xs vals => .fin (F xs vals)

theorem scaleMonotone_lossF (F : List (Option α) → List (Option (List α)) → α) (r12 : α → α)
    (hr : Monotone r12) (h : ValMono F) : ScaleMonotone (lossF F) r12 :=
  fun xs vals t t' ht hle _ _ => hr (h xs vals t t' ht hle)

theorem flatScaleFree_lossF (F : List (Option α) → List (Option (List α)) → α) (h : ValFlat F) :
    FlatScaleFree (lossF F) :=
  fun xs vals t t' ht ht' ha => congrArg Loss.fin (h xs vals t t' ht ht' ha)

/-! ### closure -/
section closure
variable {F G : List (Option α) → List (Option (List α)) → α}

theorem valMono_const (A : List (Option α) → α) : ValMono (fun xs _ => A xs) :=
  fun _ _ _ _ _ _ => le_refl _
theorem valFlat_const (A : List (Option α) → α) : ValFlat (fun xs _ => A xs) :=
  fun _ _ _ _ _ _ _ => rfl
theorem ValMono.add (hF : ValMono F) (hG : ValMono G) : ValMono (fun xs v => F xs v + G xs v) :=
  fun xs v t t' ht hle => add_le_add (hF xs v t t' ht hle) (hG xs v t t' ht hle)
theorem ValFlat.add (hF : ValFlat F) (hG : ValFlat G) : ValFlat (fun xs v => F xs v + G xs v) :=
  fun xs v t t' ht ht' ha => by
    show F xs _ + G xs _ = F xs _ + G xs _
    rw [hF xs v t t' ht ht' ha, hG xs v t t' ht ht' ha]
theorem ValMono.const_mul (hF : ValMono F) {c : α} (hc : 0 ≤ c) : ValMono (fun xs v => c * F xs v) :=
  fun xs v t t' ht hle => mul_le_mul_of_nonneg_left (hF xs v t t' ht hle) hc
theorem ValFlat.const_mul (hF : ValFlat F) (c : α) : ValFlat (fun xs v => c * F xs v) :=
  fun xs v t t' ht ht' ha => by
    show c * F xs _ = c * F xs _
    rw [hF xs v t t' ht ht' ha]
theorem ValMono.comp (hF : ValMono F) {f : α → α} (hf : Monotone f) : ValMono (fun xs v => f (F xs v)) :=
  fun xs v t t' ht hle => hf (hF xs v t t' ht hle)
theorem ValFlat.comp (hF : ValFlat F) (f : α → α) : ValFlat (fun xs v => f (F xs v)) :=
  fun xs v t t' ht ht' ha => by
    show f (F xs _) = f (F xs _)
    rw [hF xs v t t' ht ht' ha]
theorem ValFlat.comp2 (hF : ValFlat F) (f : List (Option α) → α → α) :
    ValFlat (fun xs v => f xs (F xs v)) :=
  fun xs v t t' ht ht' ha => by
    show f xs (F xs _) = f xs (F xs _)
    rw [hF xs v t t' ht ht' ha]
end closure

/-! ### the scalar values -/

/-- the scalar value at position `i` of the window (`0` when absent) -/
def yAt (vals : List (Option (List α))) (i : Nat) : α := ((vals.getD i none).bind List.head?).getD 0

/-- the abscissa at position `i` of the window -/
def xAt (xs : List (Option α)) (i : Nat) : α := (xs.getD i none).getD 0

/-- `[y for y in ys if y is not None]` (scalar values) -/
def yList (vals : List (Option (List α))) : List α := vals.filterMap (fun v => v.bind List.head?)

/-- `[x for x in xs if x is not None]` -/
def xList (xs : List (Option α)) : List α := xs.filterMap id

theorem yAt_scaleVals (t : α) (vals : List (Option (List α))) (i : Nat) :
    yAt (scaleVals t vals) i = yAt vals i / t := by
  unfold yAt scaleVals
  rw [List.getD_eq_getElem?_getD, List.getD_eq_getElem?_getD, List.getElem?_map]
  rcases vals[i]? with _ | _ | _ | ⟨y, r⟩ <;> simp

theorem yList_scaleVals (t : α) (vals : List (Option (List α))) :
    yList (scaleVals t vals) = (yList vals).map (· / t) := by
  induction vals with
  | nil => rfl
  | cons v vs ih =>
    have ih' : List.filterMap (fun v => v.bind List.head?) (scaleVals t vs) =
        (List.filterMap (fun v => v.bind List.head?) vs).map (· / t) := ih
    rcases v with _ | _ | ⟨y, r⟩ <;>
      simp [yList, scaleVals, List.filterMap_cons] <;> simpa [scaleVals] using ih'

theorem yList_allEq {vals : List (Option (List α))} (h : AllEq vals) :
    ∀ y ∈ yList vals, ∀ y' ∈ yList vals, y = y' := by
  have key : ∀ y ∈ yList vals, ∃ l, some l ∈ vals ∧ l.head? = some y := by
    intro y hy
    unfold yList at hy
    obtain ⟨v, hv, hvy⟩ := List.mem_filterMap.1 hy
    cases v with
    | none => cases hvy
    | some l => exact ⟨l, hv, hvy⟩
  intro y hy y' hy'
  obtain ⟨l, hl, e⟩ := key y hy
  obtain ⟨l', hl', e'⟩ := key y' hy'
  rw [h l l' hl hl', e'] at e
  exact (Option.some.inj e).symm

/-! ### `|Δy|` of the two middle points -/

/-- the scalar values of the two ends of the interval (positions 1 and 2 of the raw window) -/
def midY (vals : List (Option (List α))) : Option (α × α) :=
  match vals.getD 1 none, vals.getD 2 none with
  | some (y1 :: _), some (y2 :: _) => some (y1, y2)
  | _, _ => none

/-- `|ys[2] - ys[1]|` of the raw window -/
def absDyMid (_ : List (Option α)) (vals : List (Option (List α))) : α :=
  match midY vals with
  | some (y1, y2) => |y2 - y1|
  | none => 0

theorem midY_scaleVals (t : α) (vals : List (Option (List α))) :
    midY (scaleVals t vals) = (midY vals).map (fun q => (q.1 / t, q.2 / t)) := by
  unfold midY scaleVals
  rw [List.getD_eq_getElem?_getD, List.getD_eq_getElem?_getD, List.getD_eq_getElem?_getD,
    List.getD_eq_getElem?_getD, List.getElem?_map, List.getElem?_map]
  rcases vals[1]? with _ | _ | _ | ⟨y, r⟩ <;> rcases vals[2]? with _ | _ | _ | ⟨y', r'⟩ <;> simp

theorem absDyMid_nonneg (xs : List (Option α)) (vals : List (Option (List α))) :
    0 ≤ absDyMid xs vals := by
  unfold absDyMid
  split
  · exact abs_nonneg _
  · exact le_refl _

theorem valMono_absDyMid : ValMono (absDyMid (α := α)) := by
  intro xs vals t t' ht hle
  unfold absDyMid
  rw [midY_scaleVals, midY_scaleVals]
  rcases midY vals with _ | ⟨y1, y2⟩
  · exact le_refl _
  · show |y2 / t' - y1 / t'| ≤ |y2 / t - y1 / t|
    rw [← sub_div, ← sub_div, abs_div, abs_div, abs_of_pos ht, abs_of_pos (lt_of_lt_of_le ht hle)]
    exact div_le_div_of_nonneg_left (abs_nonneg _) ht hle

theorem valFlat_absDyMid : ValFlat (absDyMid (α := α)) := by
  intro xs vals t t' ht ht' ha
  unfold absDyMid
  rw [midY_scaleVals, midY_scaleVals]
  rcases hm : midY vals with _ | ⟨y1, y2⟩
  · rfl
  · have e : y1 = y2 := by
      unfold midY at hm
      rw [List.getD_eq_getElem?_getD, List.getD_eq_getElem?_getD] at hm
      rcases h1 : vals[1]? with _ | _ | _ | ⟨z1, r1⟩ <;> rw [h1] at hm <;>
        rcases h2 : vals[2]? with _ | _ | _ | ⟨z2, r2⟩ <;> rw [h2] at hm <;> simp at hm
      have := ha (z1 :: r1) (z2 :: r2) (List.mem_of_getElem? h1) (List.mem_of_getElem? h2)
      rw [← hm.1, ← hm.2]
      exact List.head_eq_of_cons_eq this
    subst e
    show |y1 / t' - y1 / t'| = |y1 / t - y1 / t|
    rw [sub_self, sub_self]

/-- `g(xs, |Δy_mid|)` with `g` monotone in `|Δy| ≥ 0`, e.g. `sqrt(dx² + dy²)` -/
theorem valMono_ofAbsDyMid (g : List (Option α) → α → α)
    (hg : ∀ xs d d', 0 ≤ d → d ≤ d' → g xs d ≤ g xs d') :
    ValMono (fun xs vals => g xs (absDyMid xs vals)) :=
  fun xs vals t t' ht hle => hg xs _ _ (absDyMid_nonneg _ _) (valMono_absDyMid xs vals t t' ht hle)

/-! ### the mean triangle area -/

/-- `volume` of a 2-d triangle -/
def areaP (p0 p1 p2 : α × α) : α :=
  |(p1.1 - p0.1) * (p2.2 - p0.2) - (p2.1 - p0.1) * (p1.2 - p0.2)| / 2

/-- `sum(vol(pts[i : i + 3]) for i in range(N))` -/
def triSumP : List (α × α) → α
  | [] => 0
  | p0 :: r => (match r with
      | p1 :: p2 :: _ => areaP p0 p1 p2
      | _ => 0) + triSumP r

theorem areaP_nonneg (p0 p1 p2 : α × α) : 0 ≤ areaP p0 p1 p2 :=
  div_nonneg (abs_nonneg _) (by norm_num)

theorem triSumP_nonneg (l : List (α × α)) : 0 ≤ triSumP l := by
  induction l with
  | nil => exact le_refl _
  | cons p0 r ih =>
    unfold triSumP
    refine add_nonneg ?_ ih
    split
    · exact areaP_nonneg _ _ _
    · exact le_refl _

theorem areaP_div {t : α} (ht : 0 < t) (p0 p1 p2 : α × α) :
    areaP (p0.1, p0.2 / t) (p1.1, p1.2 / t) (p2.1, p2.2 / t) = areaP p0 p1 p2 / t := by
  unfold areaP
  have e : (p1.1 - p0.1) * (p2.2 / t - p0.2 / t) - (p2.1 - p0.1) * (p1.2 / t - p0.2 / t) =
      ((p1.1 - p0.1) * (p2.2 - p0.2) - (p2.1 - p0.1) * (p1.2 - p0.2)) / t := by
    field_simp
  dsimp only
  rw [e, abs_div, abs_of_pos ht, div_right_comm]

theorem triSumP_div {t : α} (ht : 0 < t) (l : List (α × α)) :
    triSumP (l.map (fun p => (p.1, p.2 / t))) = triSumP l / t := by
  induction l with
  | nil => simp [triSumP]
  | cons p0 r ih =>
    rw [List.map_cons]
    unfold triSumP
    rw [ih, add_div]
    congr 1
    rcases r with _ | ⟨p1, _ | ⟨p2, r'⟩⟩
    · simp
    · simp
    · exact areaP_div ht p0 p1 p2

/-- `triangle_loss` (scalar values): the interval width with two present points, else the mean area of
the triangles of consecutive present points -/
def triF (xs : List (Option α)) (vals : List (Option (List α))) : α :=
  if (xList xs).length = 2 then (xList xs).getD 1 0 - (xList xs).getD 0 0
  else triSumP ((xList xs).zip (yList vals)) / (((xList xs).length - 2 : Nat) : α)

theorem triF_scaleVals {t : α} (ht : 0 < t) (xs : List (Option α)) (vals : List (Option (List α))) :
    triF xs (scaleVals t vals) =
      if (xList xs).length = 2 then (xList xs).getD 1 0 - (xList xs).getD 0 0
      else triSumP ((xList xs).zip (yList vals)) / t / (((xList xs).length - 2 : Nat) : α) := by
  unfold triF
  rw [yList_scaleVals]
  have e : (xList xs).zip ((yList vals).map (· / t)) =
      ((xList xs).zip (yList vals)).map (fun p => (p.1, p.2 / t)) := by
    rw [List.zip_map_right]
    rfl
  rw [e, triSumP_div ht]

theorem valMono_triF : ValMono (triF (α := α)) := by
  intro xs vals t t' ht hle
  rw [triF_scaleVals (lt_of_lt_of_le ht hle), triF_scaleVals ht]
  split
  · exact le_refl _
  · apply div_le_div_of_nonneg_right _ (Nat.cast_nonneg _)
    exact div_le_div_of_nonneg_left (triSumP_nonneg _) ht hle

theorem triSumP_flat {a : α} : ∀ (l : List (α × α)), (∀ p ∈ l, p.2 = a) → triSumP l = 0 := by
  intro l
  induction l with
  | nil => intro _; rfl
  | cons p0 r ih =>
    intro h
    unfold triSumP
    rw [ih (fun p hp => h p (List.mem_cons_of_mem _ hp)), add_zero]
    rcases r with _ | ⟨p1, _ | ⟨p2, r'⟩⟩
    · rfl
    · rfl
    · show areaP p0 p1 p2 = 0
      unfold areaP
      rw [h p0 (by simp), h p1 (by simp), h p2 (by simp)]
      simp

theorem valFlat_triF : ValFlat (triF (α := α)) := by
  intro xs vals t t' ht ht' ha
  rw [triF_scaleVals ht', triF_scaleVals ht]
  split
  · rfl
  · have hz : triSumP ((xList xs).zip (yList vals)) = 0 := by
      rcases hyl : yList vals with _ | ⟨y0, yr⟩
      · simp [triSumP]
      · apply triSumP_flat (a := y0)
        intro p hp
        have hp2 : p.2 ∈ yList vals := by rw [hyl]; exact (List.of_mem_zip hp).2
        exact yList_allEq ha p.2 hp2 y0 (by rw [hyl]; exact List.mem_cons_self)
    rw [hz]; simp

/-- `triangle_loss` is covered -/
theorem scaleMonotone_triangle (r12 : α → α) (hr : Monotone r12) :
    ScaleMonotone (lossF (triF (α := α))) r12 := scaleMonotone_lossF _ r12 hr valMono_triF

theorem flatScaleFree_triangle : FlatScaleFree (lossF (triF (α := α))) :=
  flatScaleFree_lossF _ valFlat_triF

/-- `curvature_loss`: `area_factor * triangle_loss ** 0.5 + euclid_factor * default_loss(middle) +
horizontal_factor * dx`, with `default_loss = sqrt(dx² + dy²)`; `sqrt` any monotone function -/
def curvF (sqrt : α → α) (af ef hf : α) (xs : List (Option α)) (vals : List (Option (List α))) : α :=
  af * sqrt (triF xs vals) +
    ef * sqrt ((xAt xs 2 - xAt xs 1) * (xAt xs 2 - xAt xs 1) + absDyMid xs vals * absDyMid xs vals) +
    hf * (xAt xs 2 - xAt xs 1)

theorem valMono_curvF (sqrt : α → α) (hs : Monotone sqrt) {af ef : α} (haf : 0 ≤ af) (hef : 0 ≤ ef)
    (hf : α) : ValMono (curvF sqrt af ef hf) := by
  have h1 : ValMono (fun xs vals => af * sqrt (triF (α := α) xs vals)) :=
    (valMono_triF.comp hs).const_mul haf
  have h2 : ValMono (fun xs vals => ef * sqrt ((xAt xs 2 - xAt xs 1) * (xAt xs 2 - xAt xs 1) +
      absDyMid (α := α) xs vals * absDyMid xs vals)) := by
    refine ValMono.const_mul ?_ hef
    refine valMono_ofAbsDyMid (fun xs d => sqrt ((xAt xs 2 - xAt xs 1) * (xAt xs 2 - xAt xs 1) + d * d)) ?_
    intro xs d d' h0 hdd
    apply hs
    have := mul_le_mul hdd hdd h0 (le_trans h0 hdd)
    linarith
  exact (h1.add h2).add (valMono_const (fun xs => hf * (xAt xs 2 - xAt xs 1)))

theorem valFlat_curvF (sqrt : α → α) (af ef hf : α) : ValFlat (curvF sqrt af ef hf) := by
  have h1 : ValFlat (fun xs vals => af * sqrt (triF (α := α) xs vals)) :=
    (valFlat_triF.comp sqrt).const_mul af
  have h2 : ValFlat (fun xs vals => ef * sqrt ((xAt xs 2 - xAt xs 1) * (xAt xs 2 - xAt xs 1) +
      absDyMid (α := α) xs vals * absDyMid xs vals)) :=
    (ValFlat.comp2 (F := absDyMid) valFlat_absDyMid
      (fun xs d => sqrt ((xAt xs 2 - xAt xs 1) * (xAt xs 2 - xAt xs 1) + d * d))).const_mul ef
  exact (h1.add h2).add (valFlat_const (fun xs => hf * (xAt xs 2 - xAt xs 1)))

/-- `curvature_loss` is covered (non-negative `area_factor`, `euclid_factor`; monotone `sqrt`) -/
theorem scaleMonotone_curvature (r12 sqrt : α → α) (hr : Monotone r12) (hs : Monotone sqrt)
    {af ef : α} (haf : 0 ≤ af) (hef : 0 ≤ ef) (hf : α) :
    ScaleMonotone (lossF (curvF sqrt af ef hf)) r12 :=
  scaleMonotone_lossF _ r12 hr (valMono_curvF sqrt hs haf hef hf)

theorem flatScaleFree_curvature (sqrt : α → α) (af ef hf : α) :
    FlatScaleFree (lossF (curvF sqrt af ef hf)) :=
  flatScaleFree_lossF _ (valFlat_curvF sqrt af ef hf)

end L1D

section C16Nn1Examples
open Avg1DFull

/-- `nth_neighbors = 1`, `triangle_loss` over ℚ: a history with re-samples and a batch is exact BY THE
THEOREM (no `FlatHist` side goal) -/
example : Exact (L1D.lossF (L1D.triF (α := ℚ)))
    (run (L1D.lossF L1D.triF) id id (fun _ => 1) hyp2' (init 0 1 1 0 1 (1 / 5) 0 1 50 (1 / 2))
      [Op.tell 0 0 (-4), Op.tell 1 1 0, Op.tell 2 (1 / 4) (-4), Op.tell 3 (1 / 2) (-2), Op.tell 4 0 0,
        Op.tellManyAtPoint 1 [(3, -1), (103, 5)], Op.tellMany [((7, 3 / 4), 2), ((8, 3 / 4), 1)]]).base :=
  (c16l_values_exact' (L1D.lossF L1D.triF) id id (fun _ => 1) hyp2' 0 1 0 1 (1 / 5) 0 1 50 (1 / 2)
    (L1D.scaleMonotone_triangle id monotone_id) L1D.flatScaleFree_triangle _
    (by intro op hop
        simp [expandOps, groupOps, groupPts, groupOp, Avg1D.dictUpdate] at hop
        rcases hop with rfl | rfl | rfl | rfl | rfl | rfl | rfl <;> simp [OpIn] <;> norm_num)
    (by intro op hop; simp at hop
        rcases hop with rfl | rfl | rfl | rfl | rfl | rfl | rfl <;> simp [OpND])).1

end C16Nn1Examples
