import AdaptiveProofs.Props.C16Loss
import AdaptiveProofs.Lemmas.Avg1DLossValues

/-!
# C16 (extension 3) — the VALUES of the inherited `losses` table of AverageLearner1D for loss
functions that do not grow when the output scale grows

`c16l_values_exact`: recomputation factor 1, ANY `nn`, `ScaleMonotone lossFn r12`, `FlatScaleFree lossFn`,
every history of in-bounds tells (single, re-samples, `tell_many`, `tell_many_at_point`), asks,
pending marks and discards from `init`: every stored loss is the loss function's value on the current
running means at the current scales.  The LIVE re-computation loops are complete for such losses
(`c16l_live_loop_complete`).
-/
set_option linter.unusedVariables false
set_option linter.unusedSectionVars false

namespace Avg1DFull
open L1D (Loss Ival)
variable {α : Type} [Field α] [LinearOrder α] [IsStrictOrderedRing α]
variable (lossFn : List (Option α) → List (Option (List α)) → Loss α) (r12 : α → α)
variable (sqrt : α → α) (tq : Nat → α) (hypot : α → α → α)

/-- C16L.g  THE LIVE LOOP IS COMPLETE when no re-inserted entry is larger than the one it replaces. -/
theorem c16l_live_loop_complete {sc : α} {s : L1D.State α} (hn : L1D.NodupT s) (ht : L1D.TS r12 sc s)
    (hle : ∀ e ∈ s.losses,
      L1D.finiteLoss r12 e.1 (L1D.getLoss lossFn s e.1.1 e.1.2) sc ≤ L1D.finiteLoss r12 e.1 e.2 sc) :
    ∀ k ∈ L1D.tkeys s.losses, k ∈ liveKeys lossFn r12 s (s.losses.length - 1) :=
  liveKeys_complete_of_nonincreasing lossFn r12 hn ht hle

/-- C16L.h  RUN-LEVEL VALUE THEOREM. -/
theorem c16l_values_exact (lo hi dxEps : α) (nn : Nat) (delta minError : α) (minS maxS : Nat) (ns : α)
    (hm : L1D.ScaleMonotone lossFn r12) (hfl : L1D.FlatScaleFree lossFn) (ops : List (Op α))
    (hin : ∀ op ∈ expandOps ops, OpIn lo hi op)
    (hflat : FlatHist lossFn r12 sqrt tq hypot (init lo hi 1 dxEps nn delta minError minS maxS ns)
      (expandOps ops)) :
    let s := run lossFn r12 sqrt tq hypot (init lo hi 1 dxEps nn delta minError minS maxS ns) ops
    Exact lossFn s.base ∧ s.base.oldScaleY = s.base.scaleY ∧ s.base.scaleX = hi - lo := by
  intro s
  have h : VInv lossFn r12 hypot lo hi (hi - lo) s := by
    show VInv lossFn r12 hypot lo hi (hi - lo) (run lossFn r12 sqrt tq hypot _ ops)
    rw [run_expandOps]
    exact vinv_run lossFn r12 sqrt tq hypot hm hfl _
      (vinv_init lossFn r12 hypot lo hi dxEps nn delta minError minS maxS ns) hin hflat
  exact ⟨h.ex, h.bv.old, h.bv.sx⟩

end Avg1DFull

/-! ## (5) loss functions of the shipped shape -/
namespace L1D
variable {α : Type} [Field α] [LinearOrder α] [IsStrictOrderedRing α]

/-- the arguments of a `nth_neighbors = 0` loss on scalar values -/
def pairOf : List (Option α) → List (Option (List α)) → Option (α × α × α × α)
  | [some a, some b], [some [ya], some [yb]] => some (a, b, ya, yb)
  | _, _ => none

/-- a loss of the form `g(dx, dy)` on the scaled end points (`uniform_loss`: `g = dx`;
`default_loss`: `g = sqrt(dx² + dy²)`) -/
def lossG (g : α → α → α) : List (Option α) → List (Option (List α)) → Loss α := fun xs ys =>
  match pairOf xs ys with
  | some (a, b, ya, yb) => .fin (g (b - a) (yb - ya))
  | none => .inf

theorem pairOf_scaleVals (t : α) (xs : List (Option α)) (vals : List (Option (List α))) :
    pairOf xs (scaleVals t vals) =
      (pairOf xs vals).map (fun q => (q.1, q.2.1, q.2.2.1 / t, q.2.2.2 / t)) := by
  rcases xs with _ | ⟨_ | x1, _ | ⟨_ | x2, _ | ⟨x3, xr⟩⟩⟩ <;>
  rcases vals with _ | ⟨_ | (_ | ⟨a1, _ | ⟨a2, ar⟩⟩), _ | ⟨_ | (_ | ⟨b1, _ | ⟨b2, br⟩⟩), _ | ⟨v3, vr⟩⟩⟩ <;>
  rfl

theorem pairOf_vals {xs : List (Option α)} {vals : List (Option (List α))} {q : α × α × α × α}
    (h : pairOf xs vals = some q) : vals = [some [q.2.2.1], some [q.2.2.2]] := by
  rcases xs with _ | ⟨_ | x1, _ | ⟨_ | x2, _ | ⟨x3, xr⟩⟩⟩ <;>
  rcases vals with _ | ⟨_ | (_ | ⟨a1, _ | ⟨a2, ar⟩⟩), _ | ⟨_ | (_ | ⟨b1, _ | ⟨b2, br⟩⟩), _ | ⟨v3, vr⟩⟩⟩ <;>
  first
  | (cases h; rfl)
  | (simp [pairOf] at h)

/-- (5) a loss `g(dx/xscale, dy/yscale)` with `g` not growing when `dy` is divided by a larger scale
(in particular: `g` monotone in `|dy|`) and a monotone rounding is `ScaleMonotone` -/
theorem scaleMonotone_lossG (g : α → α → α) (r12 : α → α) (hr : Monotone r12)
    (hg : ∀ d e t t', 0 < t → t ≤ t' → g d (e / t') ≤ g d (e / t)) :
    ScaleMonotone (lossG g) r12 := by
  intro xsS vals t t' ht hle iv sc
  unfold lossG
  rw [pairOf_scaleVals, pairOf_scaleVals]
  cases pairOf xsS vals with
  | none => exact le_refl _
  | some q =>
    obtain ⟨a, b, ya, yb⟩ := q
    show r12 (g (b - a) (yb / t' - ya / t')) ≤ r12 (g (b - a) (yb / t - ya / t))
    rw [← sub_div, ← sub_div]
    exact hr (hg _ _ _ _ ht hle)

theorem flatScaleFree_lossG (g : α → α → α) : FlatScaleFree (lossG g) := by
  intro xsS vals t t' ht ht' hall
  unfold lossG
  rw [pairOf_scaleVals, pairOf_scaleVals]
  cases hp : pairOf xsS vals with
  | none => rfl
  | some q =>
    obtain ⟨a, b, ya, yb⟩ := q
    have hv := pairOf_vals hp
    have e : [ya] = [yb] := hall [ya] [yb] (by rw [hv]; simp) (by rw [hv]; simp)
    have e' : ya = yb := List.head_eq_of_cons_eq e
    subst e'
    show Loss.fin (g (b - a) (ya / t' - ya / t')) = Loss.fin (g (b - a) (ya / t - ya / t))
    rw [sub_self, sub_self]

/-- `uniform_loss` -/
theorem scaleMonotone_uniform (r12 : α → α) (hr : Monotone r12) :
    ScaleMonotone (lossG (fun (d _ : α) => d)) r12 :=
  scaleMonotone_lossG _ r12 hr (fun _ _ _ _ _ _ => le_refl _)

/-- `dx² + dy²` (the default loss without the square root) -/
theorem scaleMonotone_sq (r12 : α → α) (hr : Monotone r12) :
    ScaleMonotone (lossG (fun (d e : α) => d * d + e * e)) r12 := by
  apply scaleMonotone_lossG _ r12 hr
  intro d e t t' ht hle
  show d * d + e / t' * (e / t') ≤ d * d + e / t * (e / t)
  rw [div_mul_div_comm, div_mul_div_comm]
  have h := div_le_div_of_nonneg_left (mul_self_nonneg e) (mul_pos ht ht)
    (mul_le_mul hle hle ht.le (ht.le.trans hle))
  linarith

/-- any `g` that is monotone in `|dy|` (e.g. `sqrt(dx² + dy²)` for a monotone `sqrt`) -/
theorem scaleMonotone_of_abs (g : α → α → α) (r12 : α → α) (hr : Monotone r12)
    (hg : ∀ d e e', |e'| ≤ |e| → g d e' ≤ g d e) : ScaleMonotone (lossG g) r12 := by
  apply scaleMonotone_lossG g r12 hr
  intro d e t t' ht hle
  apply hg
  rw [abs_div, abs_div, abs_of_pos ht, abs_of_pos (lt_of_lt_of_le ht hle)]
  exact div_le_div_of_nonneg_left (abs_nonneg e) ht hle

end L1D

/-! ## (6) kernel-checked instances over ℚ and the forced hypotheses -/
section C16LossValuesExamples
open Avg1DFull

/-- `dx² + dy²` on the scaled values (= `lossDec` of `Props/C16Loss.lean`) -/
private def lossDec2 : List (Option ℚ) → List (Option (List ℚ)) → L1D.Loss ℚ :=
  L1D.lossG (fun d e => d * d + e * e)

private def hyp2' : ℚ → ℚ → ℚ := fun a b => a * a + b * b
private def lInit' : State ℚ := init 0 1 1 0 0 (1 / 5) 0 1 50 (1 / 2)

set_option quotPrecheck false in
local notation "ceOps1" =>
  ([Op.tell 0 0 (-4), Op.tell 1 1 0, Op.tell 2 (1 / 4) (-4), Op.tell 3 (1 / 2) (-2), Op.tell 4 0 0,
    Op.tell 5 1 3] : List (Op ℚ))
set_option quotPrecheck false in
local notation "ceOps2" =>
  ([Op.tellManyAtPoint 0 [(0, 0), (100, 4)], Op.tell 1 (1 / 2) 4, Op.tell 2 (1 / 4) 3,
    Op.tellManyAtPoint 1 [(3, -1), (103, 0)]] : List (Op ℚ))

instance (b : L1D.State ℚ) : Decidable (L1D.ConstAtZero b) := by unfold L1D.ConstAtZero; infer_instance

/-- the two counterexample histories of `Props/C16Loss.lean`, with the decreasing loss, are exact BY
THE THEOREM -/
example : Exact lossDec2 (run lossDec2 id id (fun _ => 1) hyp2' lInit' ceOps1).base :=
  (c16l_values_exact lossDec2 id id (fun _ => 1) hyp2' 0 1 0 0 (1 / 5) 0 1 50 (1 / 2)
    (L1D.scaleMonotone_sq id monotone_id) (L1D.flatScaleFree_lossG _) ceOps1
    (by intro op hop; simp [expandOps] at hop; rcases hop with rfl | rfl | rfl | rfl | rfl | rfl <;>
          simp [OpIn] <;> norm_num)
    (by simp only [expandOps, List.flatMap_cons, List.flatMap_nil, List.append_nil, List.cons_append,
          List.nil_append, FlatHist, OpFlat, and_true, true_and]
        decide +kernel)).1

example : Exact lossDec2 (run lossDec2 id id (fun _ => 1) hyp2' lInit' ceOps2).base :=
  (c16l_values_exact lossDec2 id id (fun _ => 1) hyp2' 0 1 0 0 (1 / 5) 0 1 50 (1 / 2)
    (L1D.scaleMonotone_sq id monotone_id) (L1D.flatScaleFree_lossG _) ceOps2
    (by intro op hop; simp [expandOps] at hop; rcases hop with rfl | rfl | rfl | rfl <;>
          simp [OpIn] <;> norm_num)
    (by simp only [expandOps, List.flatMap_cons, List.flatMap_nil, List.append_nil, List.cons_append,
          List.nil_append, FlatHist, OpFlat, and_true, true_and]
        decide +kernel)).1

/-! ### `FlatScaleFree` is needed: `dx² + (ya + yb)²` on the scaled values is `ScaleMonotone` (the
scaled values shrink when the scale grows) but depends on the scale on constant data.  History: four
abscissae with value 1 (output scale 0, the code divides by 1), then a re-sample of `x = 1` with `3/2`:
the scale becomes `1/2 < 1`, the losses GROW, the live loop skips `(0, 1/4)`. -/
private def lossSum : List (Option ℚ) → List (Option (List ℚ)) → L1D.Loss ℚ := fun xs ys =>
  match L1D.pairOf xs ys with
  | some (a, b, ya, yb) => .fin ((b - a) * (b - a) + (ya + yb) * (ya + yb))
  | none => .inf

set_option quotPrecheck false in
local notation "flatOps" =>
  ([Op.tell 0 0 1, Op.tell 1 1 1, Op.tell 2 (1 / 2) 1, Op.tell 3 (1 / 4) 1, Op.tell 4 1 (3 / 2)] : List (Op ℚ))

example :
    let b := (run lossSum id id (fun _ => 1) hyp2' lInit' flatOps).base
    b.scaleY = 1 / 2 ∧ L1D.lget (0, 1 / 4) b.losses = some (.fin (65 / 16)) ∧
      L1D.getLoss lossSum b 0 (1 / 4) = .fin (257 / 16) := by decide +kernel

end C16LossValuesExamples
