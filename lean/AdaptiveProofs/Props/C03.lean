import AdaptiveProofs.Lemmas.TriGeom
import AdaptiveProofs.Lemmas.TriVolume
import AdaptiveProofs.Lemmas.TriNoInternal
import Mathlib.Tactic.Ring
import Mathlib.Tactic.Linarith
import Mathlib.Algebra.Order.Ring.Abs

/-!
# C03 — Triangulation: the simplices always tile the convex hull of the points

Property theorems only (helper lemmas: `Lemmas/TriBasic … TriGeom.lean`).  Model: `AdaptiveModel/Tri.lean`, the
combinatorial state of `adaptive.learner.triangulation.Triangulation` (`simplices`, `vertex_to_simplices`,
number of vertices) with `add_simplex`, `delete_simplex`, `bowyer_watson`, `_extend_hull`, `add_point` mirrored
line by line.  EVERY geometric decision of the code (`locate_point`, `get_reduced_simplex`, the two
`orientation` calls per hull face, `_simplex_is_almost_flat`, `point_in_cicumcircle`, and the order in which the
work-list `queue.pop()` yields its elements) is an input (`Oracle`) of the model; the theorems below hold for ALL
oracles — whatever the floating-point predicates answer, in whatever order the hash set is popped — all hints a
caller may pass (`ValidHint`: none, the empty tuple, or a simplex of the triangulation) and all insertion
sequences (`Reachable`: no bound on length, dimension or size).

What is proved: the three bookkeeping clauses of C03 (index agreement, exact report, rejected insertion = no-op)
and the algebraic core of "the pieces tile the simplex exactly" in dimension 2 and 3.  What is NOT proved and
stays a visible statement: `tiles_hull_statement` (facets in at most two simplices, every vertex used, the
simplices cover the convex hull without overlap, Delaunay in general position) — it needs a formal correctness
proof of Bowyer–Watson over exact predicates; on the real code it is covered by the exact audit of
`harness/tri_drive.py` (where it FAILS for anisotropic metrics because of the relative eps of
`point_in_cicumcircle`: known finding `C03.tiling:incircle_decided_by_eps`).
-/
namespace Tri

/-! ## Index agreement -/

/-- C03.a  `vertex_to_simplices[v] = {s ∈ simplices | v ∈ s}`, one entry per vertex, and every simplex is a sorted
tuple of `dim+1` distinct vertex indices in range (`Inv`): established by `__init__` from any valid initial
triangulation and preserved by every accepted `add_point` (interior, on a face, hull extension) and every
rejected one — in every state reachable by any insertion sequence under any oracle answers. -/
theorem tri_index_inv {dim n : Nat} {initial : List Simplex} (hv : ∀ t ∈ initial, ValidRaw dim n t) {s : State}
    (h : Reachable dim n initial s) :
    s.vts.length = s.nVerts ∧
    (∀ t ∈ s.simplices, t.length = s.dim + 1 ∧ t.Pairwise (· < ·) ∧ ∀ v ∈ t, v < s.nVerts) ∧
    (∀ (v : Nat) (l : List Simplex), s.vts[v]? = some l → ∀ t, t ∈ l ↔ (t ∈ s.simplices ∧ v ∈ t)) :=
  let hI := reachable_inv hv h
  ⟨hI.len, hI.valid, hI.index⟩

/-- C03.a, one step: an accepted insertion preserves the invariant, adds exactly one vertex, keeps the dimension. -/
theorem tri_index_inv_step {s s' : State} {hint : Option Simplex} {o : Oracle} {D A : List Simplex}
    (hI : Inv s) (hh : ValidHint s hint) (hok : addPoint s hint o = .ok (s', D, A)) :
    Inv s' ∧ s'.dim = s.dim ∧ s'.nVerts = s.nVerts + 1 :=
  let h := addPoint_spec hI hh hok; ⟨h.1, h.2.1, h.2.2.1⟩

/-! ## Exact report -/

/-- C03.b  `add_point` reports exactly what it did: the returned `(deleted, added)` satisfy `deleted ⊆ simplices`,
`added ∩ simplices = ∅`, and the new simplex set is `(simplices \ deleted) ∪ added` — on the interior path
(`bowyer_watson`'s own `bad - new`, `new - bad`) and on the hull-extension path (`deleted - temporary`,
`added ∪ (temporary - deleted)`), for all oracle answers. -/
theorem tri_report_exact {s s' : State} {hint : Option Simplex} {o : Oracle} {D A : List Simplex}
    (hI : Inv s) (hh : ValidHint s hint) (hok : addPoint s hint o = .ok (s', D, A)) :
    (∀ u ∈ D, u ∈ s.simplices) ∧ (∀ u ∈ A, u ∉ s.simplices) ∧
    (∀ u, u ∈ s'.simplices ↔ ((u ∈ s.simplices ∧ u ∉ D) ∨ u ∈ A)) :=
  (addPoint_spec hI hh hok).2.2.2

/-! ## A rejected insertion leaves the triangulation unchanged -/

/-- C03.c  Every deliberate `ValueError` ("Point already in triangulation.", "Point lies outside of the specified
simplex.", "Candidate vertex is inside the hull.") leaves the object in the state it was given: the appended
`vertex_to_simplices` entry, the appended vertex and everything `_extend_hull` did are reverted.  For any hint
(valid or not) and all oracle answers. -/
theorem tri_reject_unchanged {s s' : State} {hint : Option Simplex} {o : Oracle} {w : Reject}
    (hI : Inv s) (h : addPoint s hint o = .error (.reject w s')) : s' = s :=
  addPoint_reject hI h

/-- C03.c'  None of the helpers raises a deliberate `ValueError`: a rejection can only come from the three places
named above (so "rejected" in C03.c is exhaustive). -/
theorem tri_reject_only_from_add_point (s : State) (pt : Nat) (start : Option Simplex) (circ fl : List (Simplex × Bool))
    (w : Reject) (s' : State) : bowyerWatson s pt start circ fl ≠ .error (.reject w s') :=
  bowyerWatson_noReject s pt start circ fl w s'

/-- C03.c''  From a state satisfying the invariant, with a hint a caller may pass, `add_point` never dies of a
`KeyError` (`set.remove` of a missing simplex) or an `IndexError` (`vertex_to_simplices[v]` out of range), whatever the
predicates answer: the only ways out are the normal return, the three deliberate `ValueError`s (C03.c), the
`RuntimeError` of the `hull` property (a facet in more than two simplices — excluded only by the unproved geometric
statement below), or — in the correspondence run — a recorded oracle that does not fit the model's questions. -/
theorem tri_no_internal_error {s : State} {hint : Option Simplex} {o : Oracle} (hI : Inv s) (hh : ValidHint s hint) :
    addPoint s hint o ≠ .error .keyError ∧ addPoint s hint o ≠ .error .indexError :=
  ⟨fun h => Bool.noConfusion (addPoint_noInternal hI hh h), fun h => Bool.noConfusion (addPoint_noInternal hI hh h)⟩

/-! ## The pieces of a split simplex tile it exactly (dimension 2 and 3) -/

/-- C03.d  Replacing each vertex of a triangle in turn by any point `p` gives signed areas that add up to the
signed area of the triangle (any commutative ring: ℚ, ℝ, …). -/
theorem simplex_split_volume_2d {α : Type} [CommRing α] (a b c p : α × α) :
    area2 p b c + area2 a p c + area2 a b p = area2 a b c := by
  simp only [area2]; ring

/-- C03.d  The same for a tetrahedron. -/
theorem simplex_split_volume_3d {α : Type} [CommRing α] (a b c e p : α × α × α) :
    vol6 p b c e + vol6 a p c e + vol6 a b p e + vol6 a b c p = vol6 a b c e := by
  simp only [vol6]; ring

/-- C03.d  With `p` inside (all barycentric coordinates ≥ 0, i.e. every piece has the orientation of the whole)
the UNSIGNED areas add up: the pieces tile the triangle exactly. -/
theorem simplex_split_volume_2d_abs {α : Type} [CommRing α] [LinearOrder α] [IsStrictOrderedRing α]
    (a b c p : α × α) (h1 : 0 ≤ area2 p b c) (h2 : 0 ≤ area2 a p c) (h3 : 0 ≤ area2 a b p) :
    |area2 p b c| + |area2 a p c| + |area2 a b p| = |area2 a b c| := by
  have h := simplex_split_volume_2d a b c p
  rw [abs_of_nonneg h1, abs_of_nonneg h2, abs_of_nonneg h3, abs_of_nonneg (by linarith)]
  exact h

/-- C03.d  The same for a tetrahedron. -/
theorem simplex_split_volume_3d_abs {α : Type} [CommRing α] [LinearOrder α] [IsStrictOrderedRing α]
    (a b c e p : α × α × α) (h1 : 0 ≤ vol6 p b c e) (h2 : 0 ≤ vol6 a p c e) (h3 : 0 ≤ vol6 a b p e)
    (h4 : 0 ≤ vol6 a b c p) :
    |vol6 p b c e| + |vol6 a p c e| + |vol6 a b p e| + |vol6 a b c p| = |vol6 a b c e| := by
  have h := simplex_split_volume_3d a b c e p
  rw [abs_of_nonneg h1, abs_of_nonneg h2, abs_of_nonneg h3, abs_of_nonneg h4, abs_of_nonneg (by linarith)]
  exact h

/-! ## The geometric statement (NOT proved) -/

/-- The full geometric half of C03, for exact predicates (eps = 0): whenever the points `x 0, x 1, …` are distinct
and every oracle answer is the true geometric predicate (`Truthful`), every reachable state is a valid simplicial
tiling of the convex hull (facets in ≤ 2 simplices, every point a vertex of some simplex, the simplices cover the
hull and do not overlap), and it is Delaunay in the supplied metric when the points are in general position.
NOT CLAIMED AS PROVED.  Missing: a formal correctness proof of Bowyer–Watson cavity retriangulation and of the hull
extension over exact predicates (star-shapedness of the cavity, conservation of volume by
`simplex_split_volume_*` over the cavity).  On the real code the clauses are audited exactly after every insertion
by `harness/tri_drive.py`. -/
def tiles_hull_statement : Prop :=
  ∀ (d : ℕ) (a : Fin d → ℝ) (x : ℕ → Pt d) (s : State),
    (∀ i, 0 < a i) → Function.Injective x → GeomReachable a x s →
    Tiling x s ∧ (GeneralPosition a x s.nVerts → Delaunay a x s)

/-- What is proved of `tiles_hull_statement`: along every geometrically truthful history the clause "vertex-to-simplex
and simplex sets agree" holds (and each simplex is `d+1` distinct in-range vertices).  Missing: `Tiling.facets`,
`Tiling.used`, `Tiling.cover`, `Tiling.disjoint`, `Delaunay`. -/
theorem tiles_hull_partial {d : ℕ} (a : Fin d → ℝ) (x : ℕ → Pt d) (s : State) (h : GeomReachable a x s) :
    (∀ (v : Nat) (l : List Simplex), s.vts[v]? = some l → ∀ t, t ∈ l ↔ (t ∈ s.simplices ∧ v ∈ t)) ∧
    (∀ t ∈ s.simplices, t.length = s.dim + 1 ∧ t.Nodup ∧ ∀ v ∈ t, v < s.nVerts) :=
  ⟨h.inv.index, fun t ht => let hv := h.inv.valid t ht
    ⟨hv.1, hv.2.1.imp (fun hab => Nat.ne_of_lt hab), hv.2.2⟩⟩

/-! ## Non-vacuity: concrete reachable states (kernel-evaluated) -/

example : init 2 3 [[2, 0, 1]] = .ok exS0 := by decide
example : ValidRaw 2 3 [2, 0, 1] := ⟨rfl, by decide, by decide⟩
example : addPoint exS0 none exO1 =
    .ok (⟨2, 4, [[0, 1, 3], [0, 2, 3], [1, 2, 3]],
      [[[0, 1, 3], [0, 2, 3]], [[0, 1, 3], [1, 2, 3]], [[0, 2, 3], [1, 2, 3]], [[0, 1, 3], [0, 2, 3], [1, 2, 3]]]⟩,
      [[0, 1, 2]], [[0, 1, 3], [0, 2, 3], [1, 2, 3]]) := by decide
example : addPoint exS0 none exO2 =
    .ok (⟨2, 4, [[0, 1, 2], [1, 2, 3]], [[[0, 1, 2]], [[0, 1, 2], [1, 2, 3]], [[0, 1, 2], [1, 2, 3]], [[1, 2, 3]]]⟩,
      [], [[1, 2, 3]]) := by decide
example : addPoint exS0 (some []) { orient := [([0, 1], 1, 1), ([0, 2], -1, -1), ([1, 2], 1, 1)] } =
    .error (.reject .insideHull exS0) := by decide
example : addPoint exS0 (some [0, 1, 2]) { reduced := some [1] } = .error (.reject .duplicate exS0) := by decide
example : addPoint exS0 (some [0, 1, 2]) { reduced := some [] } = .error (.reject .outsideSimplex exS0) := by decide
example : area2 ((0 : ℚ), (0 : ℚ)) (4, 0) (0, 4) = 16 ∧ 0 ≤ area2 ((1 : ℚ), (1 : ℚ)) (4, 0) (0, 4) := by
  simp only [area2]; norm_num

end Tri
