import AdaptiveProofs.Lemmas.TriGeom
import AdaptiveProofs.Lemmas.TriVolume
import AdaptiveProofs.Lemmas.TriNoInternal
import AdaptiveProofs.Lemmas.TriCavityModel
import Mathlib.Tactic.Ring
import Mathlib.Tactic.Linarith
import Mathlib.Algebra.Order.Ring.Abs

/-!
# C03 — Triangulation: the simplices always tile the convex hull of the points

Property theorems only (helper lemmas: `Lemmas/TriBasic … TriGeom.lean`).  Model: `AdaptiveModel/Tri.lean`, the
combinatorial state of `adaptive.learner.triangulation.Triangulation` (`simplices`, `vertex_to_simplices`,
number of vertices) with `add_simplex`, `delete_simplex`, `bowyer_watson`, `_extend_hull`, `add_point` mirrored
line by line.  EVERY geometric decision of the code (`locate_point`, `get_reduced_simplex`, the two
`orientation` calls per hull face, `_simplex_is_almost_flat`, `point_in_cicumcircle`, and the order in which the
work-list `queue.pop()` yields its elements) is an input (`Oracle`) of the model; the theorems below hold for ALL
oracles — whatever the floating-point predicates answer, in whatever order the hash set is popped — all hints a
caller may pass (`ValidHint`: none, the empty tuple, or a simplex of the triangulation) and all insertion
sequences (`Reachable`: no bound on length, dimension or size).

What is proved: the three bookkeeping clauses of C03 (index agreement, exact report, rejected insertion = no-op)
and the algebraic core of "the pieces tile the simplex exactly" in dimension 2 and 3.  What is NOT proved and
stays a visible statement: `tiles_hull_statement` (facets in at most two simplices, every vertex used, the
simplices cover the convex hull without overlap, Delaunay in general position) — it needs a formal correctness
proof of Bowyer–Watson over exact predicates; on the real code it is covered by the exact audit of
`harness/tri_drive.py` (where it FAILS for anisotropic metrics because of the relative eps of
`point_in_cicumcircle`: known finding `C03.tiling:incircle_decided_by_eps`).
-/
namespace Tri

/-! ## Index agreement -/

/-- C03.a  `vertex_to_simplices[v] = {s ∈ simplices | v ∈ s}`, one entry per vertex, and every simplex is a sorted
tuple of `dim+1` distinct vertex indices in range (`Inv`): established by `__init__` from any valid initial
triangulation and preserved by every accepted `add_point` (interior, on a face, hull extension) and every
rejected one — in every state reachable by any insertion sequence under any oracle answers. -/
theorem tri_index_inv {dim n : Nat} {initial : List Simplex} (hv : ∀ t ∈ initial, ValidRaw dim n t) {s : State}
    (h : Reachable dim n initial s) :
    s.vts.length = s.nVerts ∧
    (∀ t ∈ s.simplices, t.length = s.dim + 1 ∧ t.Pairwise (· < ·) ∧ ∀ v ∈ t, v < s.nVerts) ∧
    (∀ (v : Nat) (l : List Simplex), s.vts[v]? = some l → ∀ t, t ∈ l ↔ (t ∈ s.simplices ∧ v ∈ t)) :=
  let hI := reachable_inv hv h
  ⟨hI.len, hI.valid, hI.index⟩

/-- C03.a, one step: an accepted insertion preserves the invariant, adds exactly one vertex, keeps the dimension. -/
theorem tri_index_inv_step {s s' : State} {hint : Option Simplex} {o : Oracle} {D A : List Simplex}
    (hI : Inv s) (hh : ValidHint s hint) (hok : addPoint s hint o = .ok (s', D, A)) :
    Inv s' ∧ s'.dim = s.dim ∧ s'.nVerts = s.nVerts + 1 :=
  let h := addPoint_spec hI hh hok; ⟨h.1, h.2.1, h.2.2.1⟩

/-! ## Exact report -/

/-- C03.b  `add_point` reports exactly what it did: the returned `(deleted, added)` satisfy `deleted ⊆ simplices`,
`added ∩ simplices = ∅`, and the new simplex set is `(simplices \ deleted) ∪ added` — on the interior path
(`bowyer_watson`'s own `bad - new`, `new - bad`) and on the hull-extension path (`deleted - temporary`,
`added ∪ (temporary - deleted)`), for all oracle answers. -/
theorem tri_report_exact {s s' : State} {hint : Option Simplex} {o : Oracle} {D A : List Simplex}
    (hI : Inv s) (hh : ValidHint s hint) (hok : addPoint s hint o = .ok (s', D, A)) :
    (∀ u ∈ D, u ∈ s.simplices) ∧ (∀ u ∈ A, u ∉ s.simplices) ∧
    (∀ u, u ∈ s'.simplices ↔ ((u ∈ s.simplices ∧ u ∉ D) ∨ u ∈ A)) :=
  (addPoint_spec hI hh hok).2.2.2

/-! ## A rejected insertion leaves the triangulation unchanged -/

/-- C03.c  Every deliberate `ValueError` ("Point already in triangulation.", "Point lies outside of the specified
simplex.", "Candidate vertex is inside the hull.") leaves the object in the state it was given: the appended
`vertex_to_simplices` entry, the appended vertex and everything `_extend_hull` did are reverted.  For any hint
(valid or not) and all oracle answers. -/
theorem tri_reject_unchanged {s s' : State} {hint : Option Simplex} {o : Oracle} {w : Reject}
    (hI : Inv s) (h : addPoint s hint o = .error (.reject w s')) : s' = s :=
  addPoint_reject hI h

/-- C03.c'  None of the helpers raises a deliberate `ValueError`: a rejection can only come from the three places
named above (so "rejected" in C03.c is exhaustive). -/
theorem tri_reject_only_from_add_point (s : State) (pt : Nat) (start : Option Simplex) (circ fl : List (Simplex × Bool))
    (w : Reject) (s' : State) : bowyerWatson s pt start circ fl ≠ .error (.reject w s') :=
  bowyerWatson_noReject s pt start circ fl w s'

/-- C03.c''  From a state satisfying the invariant, with a hint a caller may pass, `add_point` never dies of a
`KeyError` (`set.remove` of a missing simplex) or an `IndexError` (`vertex_to_simplices[v]` out of range), whatever the
predicates answer: the only ways out are the normal return, the three deliberate `ValueError`s (C03.c), the
`RuntimeError` of the `hull` property (a facet in more than two simplices — excluded only by the unproved geometric
statement below), or — in the correspondence run — a recorded oracle that does not fit the model's questions. -/
theorem tri_no_internal_error {s : State} {hint : Option Simplex} {o : Oracle} (hI : Inv s) (hh : ValidHint s hint) :
    addPoint s hint o ≠ .error .keyError ∧ addPoint s hint o ≠ .error .indexError :=
  ⟨fun h => Bool.noConfusion (addPoint_noInternal hI hh h), fun h => Bool.noConfusion (addPoint_noInternal hI hh h)⟩

/-! ## The pieces of a split simplex tile it exactly (dimension 2 and 3) -/

/-- C03.d  Replacing each vertex of a triangle in turn by any point `p` gives signed areas that add up to the
signed area of the triangle (any commutative ring: ℚ, ℝ, …). -/
theorem simplex_split_volume_2d {α : Type} [CommRing α] (a b c p : α × α) :
    area2 p b c + area2 a p c + area2 a b p = area2 a b c := by
  simp only [area2]; ring

/-- C03.d  The same for a tetrahedron. -/
theorem simplex_split_volume_3d {α : Type} [CommRing α] (a b c e p : α × α × α) :
    vol6 p b c e + vol6 a p c e + vol6 a b p e + vol6 a b c p = vol6 a b c e := by
  simp only [vol6]; ring

/-- C03.d  With `p` inside (all barycentric coordinates ≥ 0, i.e. every piece has the orientation of the whole)
the UNSIGNED areas add up: the pieces tile the triangle exactly. -/
theorem simplex_split_volume_2d_abs {α : Type} [CommRing α] [LinearOrder α] [IsStrictOrderedRing α]
    (a b c p : α × α) (h1 : 0 ≤ area2 p b c) (h2 : 0 ≤ area2 a p c) (h3 : 0 ≤ area2 a b p) :
    |area2 p b c| + |area2 a p c| + |area2 a b p| = |area2 a b c| := by
  have h := simplex_split_volume_2d a b c p
  rw [abs_of_nonneg h1, abs_of_nonneg h2, abs_of_nonneg h3, abs_of_nonneg (by linarith)]
  exact h

/-- C03.d  The same for a tetrahedron. -/
theorem simplex_split_volume_3d_abs {α : Type} [CommRing α] [LinearOrder α] [IsStrictOrderedRing α]
    (a b c e p : α × α × α) (h1 : 0 ≤ vol6 p b c e) (h2 : 0 ≤ vol6 a p c e) (h3 : 0 ≤ vol6 a b p e)
    (h4 : 0 ≤ vol6 a b c p) :
    |vol6 p b c e| + |vol6 a p c e| + |vol6 a b p e| + |vol6 a b c p| = |vol6 a b c e| := by
  have h := simplex_split_volume_3d a b c e p
  rw [abs_of_nonneg h1, abs_of_nonneg h2, abs_of_nonneg h3, abs_of_nonneg h4, abs_of_nonneg (by linarith)]
  exact h

/-! ## The geometric statement (NOT proved) -/

/-- The full geometric half of C03, for exact predicates (eps = 0): whenever the points `x 0, x 1, …` are distinct
and every oracle answer is the true geometric predicate (`Truthful`), every reachable state is a valid simplicial
tiling of the convex hull (facets in ≤ 2 simplices, every point a vertex of some simplex, the simplices cover the
hull and do not overlap), and it is Delaunay in the supplied metric when the points are in general position.
NOT CLAIMED AS PROVED.  NOW PROVED of it (last section of this file, `Lemmas/TriCavity*.lean`): conservation of
volume by the cavity retriangulation in dimension 2 and 3 — IF the deleted simplices are a locally valid piece of a
triangulation (`OppositeSides2/3`: two simplices sharing a facet lie strictly on opposite sides of it, no facet in
more than two simplices), are non-degenerate, and the cavity is star-shaped with respect to the new point, THEN the
simplices `face ++ [pt]` over the model's hole faces have exactly the total volume of the deleted ones
(`cavity_volume_conserved_2d/_3d`), and this is what one accepted interior `bowyer_watson` / `add_point` of the
model does (`bowyer_watson_preserves_volume_2d/_3d`, `add_point_interior_preserves_volume_2d`): the total simplex
volume is unchanged.  STILL MISSING: that truthful predicates IMPLY those three geometric hypotheses for the cavity
(star-shapedness from the in-circle test, the local tiling property as an invariant), the hull-extension path, the
cover/disjointness clauses as sets (only their volume shadow is proved), and Delaunay.  On the real code the
clauses are audited exactly after every insertion by `harness/tri_drive.py`. -/
def tiles_hull_statement : Prop :=
  ∀ (d : ℕ) (a : Fin d → ℝ) (x : ℕ → Pt d) (s : State),
    (∀ i, 0 < a i) → Function.Injective x → GeomReachable a x s →
    Tiling x s ∧ (GeneralPosition a x s.nVerts → Delaunay a x s)

/-- What is proved of `tiles_hull_statement`: along every geometrically truthful history the clause "vertex-to-simplex
and simplex sets agree" holds (and each simplex is `d+1` distinct in-range vertices).  Missing: `Tiling.facets`,
`Tiling.used`, `Tiling.cover`, `Tiling.disjoint`, `Delaunay`. -/
theorem tiles_hull_partial {d : ℕ} (a : Fin d → ℝ) (x : ℕ → Pt d) (s : State) (h : GeomReachable a x s) :
    (∀ (v : Nat) (l : List Simplex), s.vts[v]? = some l → ∀ t, t ∈ l ↔ (t ∈ s.simplices ∧ v ∈ t)) ∧
    (∀ t ∈ s.simplices, t.length = s.dim + 1 ∧ t.Nodup ∧ ∀ v ∈ t, v < s.nVerts) :=
  ⟨h.inv.index, fun t ht => let hv := h.inv.valid t ht
    ⟨hv.1, hv.2.1.imp (fun hab => Nat.ne_of_lt hab), hv.2.2⟩⟩

/-! ## Non-vacuity: concrete reachable states (kernel-evaluated) -/

example : init 2 3 [[2, 0, 1]] = .ok exS0 := by decide
example : ValidRaw 2 3 [2, 0, 1] := ⟨rfl, by decide, by decide⟩
example : addPoint exS0 none exO1 =
    .ok (⟨2, 4, [[0, 1, 3], [0, 2, 3], [1, 2, 3]],
      [[[0, 1, 3], [0, 2, 3]], [[0, 1, 3], [1, 2, 3]], [[0, 2, 3], [1, 2, 3]], [[0, 1, 3], [0, 2, 3], [1, 2, 3]]]⟩,
      [[0, 1, 2]], [[0, 1, 3], [0, 2, 3], [1, 2, 3]]) := by decide
example : addPoint exS0 none exO2 =
    .ok (⟨2, 4, [[0, 1, 2], [1, 2, 3]], [[[0, 1, 2]], [[0, 1, 2], [1, 2, 3]], [[0, 1, 2], [1, 2, 3]], [[1, 2, 3]]]⟩,
      [], [[1, 2, 3]]) := by decide
example : addPoint exS0 (some []) { orient := [([0, 1], 1, 1), ([0, 2], -1, -1), ([1, 2], 1, 1)] } =
    .error (.reject .insideHull exS0) := by decide
example : addPoint exS0 (some [0, 1, 2]) { reduced := some [1] } = .error (.reject .duplicate exS0) := by decide
example : addPoint exS0 (some [0, 1, 2]) { reduced := some [] } = .error (.reject .outsideSimplex exS0) := by decide
example : area2 ((0 : ℚ), (0 : ℚ)) (4, 0) (0, 4) = 16 ∧ 0 ≤ area2 ((1 : ℚ), (1 : ℚ)) (4, 0) (0, 4) := by
  simp only [area2]; norm_num

/-! ## Conservation of volume by the cavity retriangulation (algebraic core of the geometric half)

Helper lemmas: `Lemmas/TriCavity.lean` (cancellation over the cavity, any dimension; `area2`/`vol6` instances) and
`Lemmas/TriCavityModel.lean` (what `bowyerWatson` deletes and adds, exactly).  Notation: `x : ℕ → α × α` the
coordinates over any ordered commutative ring (ℚ, ℝ, …), `sv2 x [i,j,k] = area2 (x i) (x j) (x k)` twice the signed
area, `osign` its sign, `sve2 x t e p` the signed area of `t` with the vertex opposite to the edge `e` replaced IN
PLACE by `p`, `hole 2 bad` the model's hole-face list (`faces.filter (count < 2)`), `owner 2 bad e` the bad
triangle that has the edge `e` (unique for a hole edge: `owner_eq`).  `sv3`, `sve3`, `hole 3`: the same for
tetrahedra (`vol6`).

Hypotheses of the theorems, all about TRUTHFUL GEOMETRY of the deleted simplices, none about the code:
`OppositeSides2 x bad` (two triangles of `bad` sharing an edge have their third vertices strictly on opposite
sides of it; no edge in more than two triangles of `bad`), `sv2 x t ≠ 0` (no degenerate triangle; without it (4) is
FALSE, kernel-checked counterexample below), and star-shapedness (`x pt` is on the inner side of every hole edge). -/

/-- C03.e (1)  The signed areas over the three edges of a triangle add up to the triangle for every apex `p`
(this is `simplex_split_volume_2d` read over `combos 2 t`, the model's face enumeration), and two triangles
sharing an edge see it with in-place replacements that differ by the parity sign `ε = ±1`, for ALL `q`. -/
theorem cavity_split_and_shared_2d {α : Type} [CommRing α] (x : ℕ → α × α) {i j k : ℕ} (hij : i < j) (hjk : j < k)
    (p : α × α) :
    sv2 x [i, j, k] = ((combos 2 [i, j, k]).map (fun e => sve2 x [i, j, k] e p)).sum ∧
    (∀ (t e : Simplex) (q : α × α), e ∈ combos 2 [i, j, k] →
      sve2 x t e q = (esign2 t e * esign2 [i, j, k] e) * sve2 x [i, j, k] e q) ∧
    (∀ e ∈ combos 2 [i, j, k], (esign2 [i, j, k] e : α) = 1 ∨ (esign2 [i, j, k] e : α) = -1) :=
  ⟨sv2_split x hij hjk p, fun t e q he => sve2_shared x t e he q, fun _ he => esign2_unit he⟩

/-- C03.e (3)  INTERIOR CANCELLATION, dimension 2: under the local tiling hypothesis the total area of the deleted
triangles equals the sum over the model's hole edges `e` of (orientation of the owner `t_e`) × (signed area of `t_e`
with the vertex opposite to `e` replaced by `p`) — for EVERY point `p` (interior edges occur in two triangles and
cancel; hole edges occur once). -/
theorem cavity_interior_cancellation_2d {α : Type} [CommRing α] [LinearOrder α] [IsStrictOrderedRing α]
    (x : ℕ → α × α) (bad : List Simplex) (hN : bad.Nodup)
    (hS : ∀ t ∈ bad, t.length = 3 ∧ t.Pairwise (· < ·)) (hO : OppositeSides2 x bad) (p : α × α) :
    (bad.map (fun t => |sv2 x t|)).sum =
      ((hole 2 bad).map (fun e => osign (sv2 x (owner 2 bad e)) * sve2 x (owner 2 bad e) e p)).sum :=
  interior_cancellation_2d x bad hN hS hO p

/-- C03.e (4)  STAR-SHAPED CAVITY ⇒ AREA CONSERVED, dimension 2: if moreover the deleted triangles are non-degenerate
and `x pt` sees every hole edge from the inside, the triangles `e ++ [pt]` the model adds over the hole edges have
exactly the total area of the triangles it removed. -/
theorem cavity_volume_conserved_2d {α : Type} [CommRing α] [LinearOrder α] [IsStrictOrderedRing α]
    (x : ℕ → α × α) (bad : List Simplex) (pt : ℕ) (hN : bad.Nodup)
    (hS : ∀ t ∈ bad, t.length = 3 ∧ t.Pairwise (· < ·)) (hO : OppositeSides2 x bad)
    (hnd : ∀ t ∈ bad, sv2 x t ≠ 0)
    (hstar : ∀ e ∈ hole 2 bad, 0 ≤ osign (sv2 x (owner 2 bad e)) * sve2 x (owner 2 bad e) e (x pt)) :
    (bad.map (fun t => |sv2 x t|)).sum = ((hole 2 bad).map (fun e => |sv2 x (e ++ [pt])|)).sum :=
  cavity_conserved_2d x bad pt hN hS hO hnd hstar

/-- C03.e (3), dimension 3. -/
theorem cavity_interior_cancellation_3d {α : Type} [CommRing α] [LinearOrder α] [IsStrictOrderedRing α]
    (x : ℕ → α × α × α) (bad : List Simplex) (hN : bad.Nodup)
    (hS : ∀ t ∈ bad, t.length = 4 ∧ t.Pairwise (· < ·)) (hO : OppositeSides3 x bad) (p : α × α × α) :
    (bad.map (fun t => |sv3 x t|)).sum =
      ((hole 3 bad).map (fun e => osign (sv3 x (owner 3 bad e)) * sve3 x (owner 3 bad e) e p)).sum :=
  interior_cancellation_3d x bad hN hS hO p

/-- C03.e (4), dimension 3: the tetrahedra `f ++ [pt]` over the hole faces have the total volume of the cavity. -/
theorem cavity_volume_conserved_3d {α : Type} [CommRing α] [LinearOrder α] [IsStrictOrderedRing α]
    (x : ℕ → α × α × α) (bad : List Simplex) (pt : ℕ) (hN : bad.Nodup)
    (hS : ∀ t ∈ bad, t.length = 4 ∧ t.Pairwise (· < ·)) (hO : OppositeSides3 x bad)
    (hnd : ∀ t ∈ bad, sv3 x t ≠ 0)
    (hstar : ∀ e ∈ hole 3 bad, 0 ≤ osign (sv3 x (owner 3 bad e)) * sve3 x (owner 3 bad e) e (x pt)) :
    (bad.map (fun t => |sv3 x t|)).sum = ((hole 3 bad).map (fun e => |sv3 x (e ++ [pt])|)).sum :=
  cavity_conserved_3d x bad pt hN hS hO hnd hstar

/-- C03.e (5a)  What one accepted `bowyer_watson` with a FRESH vertex index and no "almost flat" answer does, exactly
(all oracle answers, any dimension): `deleted` ⊆ old simplices, `added = {f ++ [pt] | f ∈ hole deleted}` with the
model's own hole-face list, new simplex set `= (old \ deleted) ∪ added`, no list has repetitions. -/
theorem bowyer_watson_exact {s s' : State} {pt : ℕ} {start : Option Simplex} {circ fl fl' : List (Simplex × Bool)}
    {deleted added : List Simplex} (hI : Inv s) (hpt : s.nVerts = pt + 1)
    (hfresh : ∀ t ∈ s.simplices, ∀ v ∈ t, v < pt)
    (hstart : ∀ c, start = some c → c ∈ s.simplices) (hfl : ∀ r ∈ fl, r.2 = false)
    (hok : bowyerWatson s pt start circ fl = .ok (s', deleted, added, fl')) :
    deleted.Nodup ∧ added.Nodup ∧ (∀ u ∈ deleted, u ∈ s.simplices) ∧
    (∀ u, u ∈ added ↔ ∃ f ∈ hole s.dim deleted, u = f ++ [pt]) ∧
    (∀ u, u ∈ s'.simplices ↔ ((u ∈ s.simplices ∧ u ∉ deleted) ∨ u ∈ added)) ∧
    (s.simplices.Nodup → s'.simplices.Nodup) :=
  bowyerWatson_exact hI hpt hfresh hstart hfl hok

/-- C03.e (5)  ONE ACCEPTED INTERIOR INSERTION OF THE MODEL CONSERVES THE AREA (dimension 2): `bowyer_watson` called with
the fresh last vertex index, no hole triangle reported almost flat, and truthful geometry of the cavity
`bad = deleted` (local tiling hypothesis, non-degenerate, star-shaped w.r.t. `x pt`): the added triangles have the
total area of the deleted ones, hence the total area of the triangulation is unchanged. -/
theorem bowyer_watson_preserves_volume_2d {α : Type} [CommRing α] [LinearOrder α] [IsStrictOrderedRing α]
    (x : ℕ → α × α) {s s' : State} {pt : ℕ} {start : Option Simplex}
    {circ fl fl' : List (Simplex × Bool)} {deleted added : List Simplex}
    (hI : Inv s) (hdim : s.dim = 2) (hpt : s.nVerts = pt + 1)
    (hfresh : ∀ t ∈ s.simplices, ∀ v ∈ t, v < pt)
    (hstart : ∀ c, start = some c → c ∈ s.simplices) (hfl : ∀ r ∈ fl, r.2 = false)
    (hok : bowyerWatson s pt start circ fl = .ok (s', deleted, added, fl'))
    (hO : OppositeSides2 x deleted) (hnd : ∀ t ∈ deleted, sv2 x t ≠ 0)
    (hstar : ∀ e ∈ hole 2 deleted,
      0 ≤ osign (sv2 x (owner 2 deleted e)) * sve2 x (owner 2 deleted e) e (x pt)) :
    (added.map (fun t => |sv2 x t|)).sum = (deleted.map (fun t => |sv2 x t|)).sum ∧
    (s.simplices.Nodup →
      (s'.simplices.map (fun t => |sv2 x t|)).sum = (s.simplices.map (fun t => |sv2 x t|)).sum) :=
  bowyerWatson_volume_2d x hI hdim hpt hfresh hstart hfl hok hO hnd hstar

/-- C03.e (5), dimension 3. -/
theorem bowyer_watson_preserves_volume_3d {α : Type} [CommRing α] [LinearOrder α] [IsStrictOrderedRing α]
    (x : ℕ → α × α × α) {s s' : State} {pt : ℕ} {start : Option Simplex}
    {circ fl fl' : List (Simplex × Bool)} {deleted added : List Simplex}
    (hI : Inv s) (hdim : s.dim = 3) (hpt : s.nVerts = pt + 1)
    (hfresh : ∀ t ∈ s.simplices, ∀ v ∈ t, v < pt)
    (hstart : ∀ c, start = some c → c ∈ s.simplices) (hfl : ∀ r ∈ fl, r.2 = false)
    (hok : bowyerWatson s pt start circ fl = .ok (s', deleted, added, fl'))
    (hO : OppositeSides3 x deleted) (hnd : ∀ t ∈ deleted, sv3 x t ≠ 0)
    (hstar : ∀ e ∈ hole 3 deleted,
      0 ≤ osign (sv3 x (owner 3 deleted e)) * sve3 x (owner 3 deleted e) e (x pt)) :
    (added.map (fun t => |sv3 x t|)).sum = (deleted.map (fun t => |sv3 x t|)).sum ∧
    (s.simplices.Nodup →
      (s'.simplices.map (fun t => |sv3 x t|)).sum = (s.simplices.map (fun t => |sv3 x t|)).sum) :=
  bowyerWatson_volume_3d x hI hdim hpt hfresh hstart hfl hok hO hnd hstar

/-- C03.e (5')  The same at the level of `add_point`: an accepted insertion that does not go through `_extend_hull`
(hint / `locate_point` answer is a simplex, not `()`) from a state satisfying the invariant — freshness of the new
index then FOLLOWS from the invariant — reports `(deleted, added)` of equal total area and leaves the total area of
the triangulation unchanged, under the same truthful-geometry hypotheses for `bad = deleted`, new point `x s.nVerts`. -/
theorem add_point_interior_preserves_volume_2d {α : Type} [CommRing α] [LinearOrder α] [IsStrictOrderedRing α]
    (x : ℕ → α × α) {s s' : State} {hint : Option Simplex} {o : Oracle}
    {D A : List Simplex} (hI : Inv s) (hdim : s.dim = 2) (hv : ValidHint s hint) (hh : hint ≠ some [])
    (hl : o.locate ≠ some []) (hfl : ∀ r ∈ o.flat, r.2 = false)
    (hok : addPoint s hint o = .ok (s', D, A))
    (hO : OppositeSides2 x D) (hnd : ∀ t ∈ D, sv2 x t ≠ 0)
    (hstar : ∀ e ∈ hole 2 D, 0 ≤ osign (sv2 x (owner 2 D e)) * sve2 x (owner 2 D e) e (x s.nVerts)) :
    (A.map (fun t => |sv2 x t|)).sum = (D.map (fun t => |sv2 x t|)).sum ∧
    (s.simplices.Nodup →
      (s'.simplices.map (fun t => |sv2 x t|)).sum = (s.simplices.map (fun t => |sv2 x t|)).sum) :=
  addPoint_interior_volume_2d x hI hdim hv hh hl hfl hok hO hnd hstar

/-- C03.e (5'), dimension 3. -/
theorem add_point_interior_preserves_volume_3d {α : Type} [CommRing α] [LinearOrder α] [IsStrictOrderedRing α]
    (x : ℕ → α × α × α) {s s' : State} {hint : Option Simplex} {o : Oracle}
    {D A : List Simplex} (hI : Inv s) (hdim : s.dim = 3) (hv : ValidHint s hint) (hh : hint ≠ some [])
    (hl : o.locate ≠ some []) (hfl : ∀ r ∈ o.flat, r.2 = false)
    (hok : addPoint s hint o = .ok (s', D, A))
    (hO : OppositeSides3 x D) (hnd : ∀ t ∈ D, sv3 x t ≠ 0)
    (hstar : ∀ e ∈ hole 3 D, 0 ≤ osign (sv3 x (owner 3 D e)) * sve3 x (owner 3 D e) e (x s.nVerts)) :
    (A.map (fun t => |sv3 x t|)).sum = (D.map (fun t => |sv3 x t|)).sum ∧
    (s.simplices.Nodup →
      (s'.simplices.map (fun t => |sv3 x t|)).sum = (s.simplices.map (fun t => |sv3 x t|)).sum) :=
  addPoint_interior_volume_3d x hI hdim hv hh hl hfl hok hO hnd hstar

/-- C03.e  The side condition `s.simplices.Nodup` of the total-volume statements holds in every state of every
history (the list `simplices` is a set), for all oracle answers. -/
theorem tri_simplices_nodup {dim n : ℕ} {initial : List Simplex} (hv : ∀ t ∈ initial, ValidRaw dim n t) {s : State}
    (h : Reachable dim n initial s) : s.simplices.Nodup :=
  reachable_nodup hv h

/-! ### Non-vacuity (6): the square `(0,0) (4,0) (4,4) (0,4)` split along the diagonal, new point `(2,1)` -/

example : init 2 4 [[0, 1, 2], [0, 2, 3]] = .ok exSq := by decide

/-- the model's run: both triangles are deleted, four triangles over the four hole edges are added -/
theorem exSq_run : addPoint exSq (some [0, 1, 2]) exOsq =
    .ok (exSq1, [[0, 1, 2], [0, 2, 3]], [[0, 1, 4], [1, 2, 4], [0, 3, 4], [2, 3, 4]]) := by decide

theorem exSq_inv : Inv exSq := by
  refine init_inv (dim := 2) (n := 4) (initial := [[0, 1, 2], [0, 2, 3]]) ?_ (by decide)
  intro t ht
  simp only [List.mem_cons, List.not_mem_nil, or_false] at ht
  rcases ht with rfl | rfl <;> exact ⟨rfl, by decide, by decide⟩

example : hole 2 [[0, 1, 2], [0, 2, 3]] = [[0, 1], [1, 2], [0, 3], [2, 3]] := by decide

/-- the local tiling hypothesis holds for the two triangles of the square -/
theorem exSq_opposite : OppositeSides2 exX [[0, 1, 2], [0, 2, 3]] := by
  refine ⟨?_, count_le_two_of_mem (by decide)⟩
  norm_num [combos, sve2, sv2, area2, exX]

/-- the cavity (the whole square) is star-shaped with respect to `(2,1)` -/
theorem exSq_star : ∀ e ∈ hole 2 [[0, 1, 2], [0, 2, 3]],
    0 ≤ osign (sv2 exX (owner 2 [[0, 1, 2], [0, 2, 3]] e)) * sve2 exX (owner 2 [[0, 1, 2], [0, 2, 3]] e) e (exX 4) := by
  have h0 : hole 2 [[0, 1, 2], [0, 2, 3]] = [[0, 1], [1, 2], [0, 3], [2, 3]] := by decide
  have h1 : owner 2 [[0, 1, 2], [0, 2, 3]] [0, 1] = [0, 1, 2] := by decide
  have h2 : owner 2 [[0, 1, 2], [0, 2, 3]] [1, 2] = [0, 1, 2] := by decide
  have h3 : owner 2 [[0, 1, 2], [0, 2, 3]] [0, 3] = [0, 2, 3] := by decide
  have h4 : owner 2 [[0, 1, 2], [0, 2, 3]] [2, 3] = [0, 2, 3] := by decide
  rw [h0]
  simp only [List.forall_mem_cons, h1, h2, h3, h4]
  norm_num [sve2, sv2, area2, exX, osign]

/-- all hypotheses of `add_point_interior_preserves_volume_2d` hold for this run, so its conclusion does -/
example :
    (([[0, 1, 4], [1, 2, 4], [0, 3, 4], [2, 3, 4]] : List Simplex).map (fun t => |sv2 exX t|)).sum =
      (([[0, 1, 2], [0, 2, 3]] : List Simplex).map (fun t => |sv2 exX t|)).sum :=
  (add_point_interior_preserves_volume_2d exX exSq_inv rfl
    (by intro h hh; cases hh; exact Or.inr (by decide)) (by decide) (by decide) (by decide) exSq_run
    exSq_opposite (by norm_num [sv2, area2, exX]) exSq_star).1

/-- … and, independently, both sides are `32` (twice the area of the square) -/
example : (([[0, 1, 4], [1, 2, 4], [0, 3, 4], [2, 3, 4]] : List Simplex).map (fun t => |sv2 exX t|)).sum = 32 ∧
    (([[0, 1, 2], [0, 2, 3]] : List Simplex).map (fun t => |sv2 exX t|)).sum = 32 := by
  norm_num [sv2, area2, exX]

/-- COUNTEREXAMPLE: without non-degeneracy (4) is false.  One flat "triangle" `(0,0) (1,0) (2,0)`, new point `(0,1)`:
the local tiling hypothesis and star-shapedness hold (the orientation of the flat triangle is `0`), the cavity has
area `0`, the three triangles over its edges have total doubled area `4`. -/
example : OppositeSides2 exXflat [[0, 1, 2]] ∧
    (∀ e ∈ hole 2 [[0, 1, 2]],
      0 ≤ osign (sv2 exXflat (owner 2 [[0, 1, 2]] e)) * sve2 exXflat (owner 2 [[0, 1, 2]] e) e (exXflat 3)) ∧
    (([[0, 1, 2]] : List Simplex).map (fun t => |sv2 exXflat t|)).sum = 0 ∧
    ((hole 2 [[0, 1, 2]]).map (fun e => |sv2 exXflat (e ++ [3])|)).sum = 4 := by
  have h0 : hole 2 [[0, 1, 2]] = [[0, 1], [0, 2], [1, 2]] := by decide
  have h1 : owner 2 [[0, 1, 2]] [0, 1] = [0, 1, 2] := by decide
  have h2 : owner 2 [[0, 1, 2]] [0, 2] = [0, 1, 2] := by decide
  have h3 : owner 2 [[0, 1, 2]] [1, 2] = [0, 1, 2] := by decide
  refine ⟨⟨?_, count_le_two_of_mem (by decide)⟩, ?_, ?_, ?_⟩
  · intro t ht t' ht' hne
    simp only [List.mem_singleton] at ht ht'
    exact absurd (ht.trans ht'.symm) hne
  · rw [h0]
    simp only [List.forall_mem_cons, h1, h2, h3]
    norm_num [sve2, sv2, area2, exXflat, osign]
  · norm_num [sv2, area2, exXflat]
  · rw [h0]
    norm_num [sv2, area2, exXflat]

end Tri
