import AdaptiveProofs.Lemmas.TriGeom
import AdaptiveProofs.Lemmas.TriVolume
import AdaptiveProofs.Lemmas.TriNoInternal
import AdaptiveProofs.Lemmas.TriCavityModel
import AdaptiveProofs.Lemmas.TriDelaunay2Truthful
import Mathlib.Tactic.Ring
import Mathlib.Tactic.Linarith
import Mathlib.Algebra.Order.Ring.Abs

/-!
# C03 — Triangulation: the simplices always tile the convex hull of the points

Property theorems only (helper lemmas: `Lemmas/TriBasic … TriGeom.lean`).  Model: `AdaptiveModel/Tri.lean`, the
combinatorial state of `adaptive.learner.triangulation.Triangulation` (`simplices`, `vertex_to_simplices`,
number of vertices) with `add_simplex`, `delete_simplex`, `bowyer_watson`, `_extend_hull`, `add_point` mirrored
line by line.  EVERY geometric decision of the code (`locate_point`, `get_reduced_simplex`, the two
`orientation` calls per hull face, `_simplex_is_almost_flat`, `point_in_cicumcircle`, and the order in which the
work-list `queue.pop()` yields its elements) is an input (`Oracle`) of the model; the theorems below hold for ALL
oracles — whatever the floating-point predicates answer, in whatever order the hash set is popped — all hints a
caller may pass (`ValidHint`: none, the empty tuple, or a simplex of the triangulation) and all insertion
sequences (`Reachable`: no bound on length, dimension or size).

What is proved: the three bookkeeping clauses of C03 (index agreement, exact report, rejected insertion = no-op)
and the algebraic core of "the pieces tile the simplex exactly" in dimension 2 and 3.  What is NOT proved and
stays a visible statement: `tiles_hull_statement` (facets in at most two simplices, every vertex used, the
simplices cover the convex hull without overlap, Delaunay in general position) — it needs a formal correctness
proof of Bowyer–Watson over exact predicates; on the real code it is covered by the exact audit of
`harness/tri_drive.py` (where it FAILS for anisotropic metrics because of the relative eps of
`point_in_cicumcircle`: known finding `C03.tiling:incircle_decided_by_eps`).
-/
namespace Tri

/-! ## Index agreement -/

/-- C03.a  `vertex_to_simplices[v] = {s ∈ simplices | v ∈ s}`, one entry per vertex, and every simplex is a sorted
tuple of `dim+1` distinct vertex indices in range (`Inv`): established by `__init__` from any valid initial
triangulation and preserved by every accepted `add_point` (interior, on a face, hull extension) and every
rejected one — in every state reachable by any insertion sequence under any oracle answers. -/
theorem tri_index_inv {dim n : Nat} {initial : List Simplex} (hv : ∀ t ∈ initial, ValidRaw dim n t) {s : State}
    (h : Reachable dim n initial s) :
    s.vts.length = s.nVerts ∧
    (∀ t ∈ s.simplices, t.length = s.dim + 1 ∧ t.Pairwise (· < ·) ∧ ∀ v ∈ t, v < s.nVerts) ∧
    (∀ (v : Nat) (l : List Simplex), s.vts[v]? = some l → ∀ t, t ∈ l ↔ (t ∈ s.simplices ∧ v ∈ t)) :=
  let hI := reachable_inv hv h
  ⟨hI.len, hI.valid, hI.index⟩

/-- C03.a, one step: an accepted insertion preserves the invariant, adds exactly one vertex, keeps the dimension. -/
theorem tri_index_inv_step {s s' : State} {hint : Option Simplex} {o : Oracle} {D A : List Simplex}
    (hI : Inv s) (hh : ValidHint s hint) (hok : addPoint s hint o = .ok (s', D, A)) :
    Inv s' ∧ s'.dim = s.dim ∧ s'.nVerts = s.nVerts + 1 :=
  let h := addPoint_spec hI hh hok; ⟨h.1, h.2.1, h.2.2.1⟩

/-! ## Exact report -/

/-- C03.b  `add_point` reports exactly what it did: the returned `(deleted, added)` satisfy `deleted ⊆ simplices`,
`added ∩ simplices = ∅`, and the new simplex set is `(simplices \ deleted) ∪ added` — on the interior path
(`bowyer_watson`'s own `bad - new`, `new - bad`) and on the hull-extension path (`deleted - temporary`,
`added ∪ (temporary - deleted)`), for all oracle answers. -/
theorem tri_report_exact {s s' : State} {hint : Option Simplex} {o : Oracle} {D A : List Simplex}
    (hI : Inv s) (hh : ValidHint s hint) (hok : addPoint s hint o = .ok (s', D, A)) :
    (∀ u ∈ D, u ∈ s.simplices) ∧ (∀ u ∈ A, u ∉ s.simplices) ∧
    (∀ u, u ∈ s'.simplices ↔ ((u ∈ s.simplices ∧ u ∉ D) ∨ u ∈ A)) :=
  (addPoint_spec hI hh hok).2.2.2

/-! ## A rejected insertion leaves the triangulation unchanged -/

/-- C03.c  Every deliberate `ValueError` ("Point already in triangulation.", "Point lies outside of the specified
simplex.", "Candidate vertex is inside the hull.") leaves the object in the state it was given: the appended
`vertex_to_simplices` entry, the appended vertex and everything `_extend_hull` did are reverted.  For any hint
(valid or not) and all oracle answers. -/
theorem tri_reject_unchanged {s s' : State} {hint : Option Simplex} {o : Oracle} {w : Reject}
    (hI : Inv s) (h : addPoint s hint o = .error (.reject w s')) : s' = s :=
  addPoint_reject hI h

/-- C03.c'  None of the helpers raises a deliberate `ValueError`: a rejection can only come from the three places
named above (so "rejected" in C03.c is exhaustive). -/
theorem tri_reject_only_from_add_point (s : State) (pt : Nat) (start : Option Simplex) (circ fl : List (Simplex × Bool))
    (w : Reject) (s' : State) : bowyerWatson s pt start circ fl ≠ .error (.reject w s') :=
  bowyerWatson_noReject s pt start circ fl w s'

/-- C03.c''  From a state satisfying the invariant, with a hint a caller may pass, `add_point` never dies of a
`KeyError` (`set.remove` of a missing simplex) or an `IndexError` (`vertex_to_simplices[v]` out of range), whatever the
predicates answer: the only ways out are the normal return, the three deliberate `ValueError`s (C03.c), the
`RuntimeError` of the `hull` property (a facet in more than two simplices — excluded only by the unproved geometric
statement below), or — in the correspondence run — a recorded oracle that does not fit the model's questions. -/
theorem tri_no_internal_error {s : State} {hint : Option Simplex} {o : Oracle} (hI : Inv s) (hh : ValidHint s hint) :
    addPoint s hint o ≠ .error .keyError ∧ addPoint s hint o ≠ .error .indexError :=
  ⟨fun h => Bool.noConfusion (addPoint_noInternal hI hh h), fun h => Bool.noConfusion (addPoint_noInternal hI hh h)⟩

/-! ## The pieces of a split simplex tile it exactly (dimension 2 and 3) -/

/-- C03.d  Replacing each vertex of a triangle in turn by any point `p` gives signed areas that add up to the
signed area of the triangle (any commutative ring: ℚ, ℝ, …). -/
theorem simplex_split_volume_2d {α : Type} [CommRing α] (a b c p : α × α) :
    area2 p b c + area2 a p c + area2 a b p = area2 a b c := by
  simp only [area2]; ring

/-- C03.d  The same for a tetrahedron. -/
theorem simplex_split_volume_3d {α : Type} [CommRing α] (a b c e p : α × α × α) :
    vol6 p b c e + vol6 a p c e + vol6 a b p e + vol6 a b c p = vol6 a b c e := by
  simp only [vol6]; ring

/-- C03.d  With `p` inside (all barycentric coordinates ≥ 0, i.e. every piece has the orientation of the whole)
the UNSIGNED areas add up: the pieces tile the triangle exactly. -/
theorem simplex_split_volume_2d_abs {α : Type} [CommRing α] [LinearOrder α] [IsStrictOrderedRing α]
    (a b c p : α × α) (h1 : 0 ≤ area2 p b c) (h2 : 0 ≤ area2 a p c) (h3 : 0 ≤ area2 a b p) :
    |area2 p b c| + |area2 a p c| + |area2 a b p| = |area2 a b c| := by
  have h := simplex_split_volume_2d a b c p
  rw [abs_of_nonneg h1, abs_of_nonneg h2, abs_of_nonneg h3, abs_of_nonneg (by linarith)]
  exact h

/-- C03.d  The same for a tetrahedron. -/
theorem simplex_split_volume_3d_abs {α : Type} [CommRing α] [LinearOrder α] [IsStrictOrderedRing α]
    (a b c e p : α × α × α) (h1 : 0 ≤ vol6 p b c e) (h2 : 0 ≤ vol6 a p c e) (h3 : 0 ≤ vol6 a b p e)
    (h4 : 0 ≤ vol6 a b c p) :
    |vol6 p b c e| + |vol6 a p c e| + |vol6 a b p e| + |vol6 a b c p| = |vol6 a b c e| := by
  have h := simplex_split_volume_3d a b c e p
  rw [abs_of_nonneg h1, abs_of_nonneg h2, abs_of_nonneg h3, abs_of_nonneg h4, abs_of_nonneg (by linarith)]
  exact h

/-! ## The geometric statement (NOT proved) -/

/-- The full geometric half of C03, for exact predicates (eps = 0): whenever the points `x 0, x 1, …` are distinct
and every oracle answer is the true geometric predicate (`Truthful`), every reachable state is a valid simplicial
tiling of the convex hull (facets in ≤ 2 simplices, every point a vertex of some simplex, the simplices cover the
hull and do not overlap), and it is Delaunay in the supplied metric when the points are in general position.
NOT CLAIMED AS PROVED.  NOW PROVED of it (last section of this file, `Lemmas/TriCavity*.lean`): conservation of
volume by the cavity retriangulation in dimension 2 and 3 — IF the deleted simplices are a locally valid piece of a
triangulation (`OppositeSides2/3`: two simplices sharing a facet lie strictly on opposite sides of it, no facet in
more than two simplices), are non-degenerate, and the cavity is star-shaped with respect to the new point, THEN the
simplices `face ++ [pt]` over the model's hole faces have exactly the total volume of the deleted ones
(`cavity_volume_conserved_2d/_3d`), and this is what one accepted interior `bowyer_watson` / `add_point` of the
model does (`bowyer_watson_preserves_volume_2d/_3d`, `add_point_interior_preserves_volume_2d`): the total simplex
volume is unchanged.  In dimension 2 star-shapedness and non-degeneracy of the cavity are now DERIVED (section C03.f,
`Lemmas/TriDelaunay2*.lean`): from truthful in-circle answers (the work-list invariant `bowyer_watson_neighbours_asked`
shows every deleted simplex was answered True and every kept neighbour False), a locally Delaunay triangulation across
the cavity boundary and opposite sides around the cavity, an accepted interior insertion conserves the total area
(`bowyer_watson_truthful_preserves_area_2d`, `add_point_truthful_preserves_area_2d`).  STILL MISSING: the local tiling
and local Delaunay properties as INVARIANTS of the insertion sequence, the hull-extension path (dimension 3 of the
star-shapedness derivation: `Props/C03Dim3.lean`, `Lemmas/TriDelaunay3*.lean`, same statements with spheres), the
cover/disjointness clauses as sets (only their volume shadow is proved), and Delaunay.  On the real code the
clauses are audited exactly after every insertion by `harness/tri_drive.py`. -/
def tiles_hull_statement : Prop :=
  ∀ (d : ℕ) (a : Fin d → ℝ) (x : ℕ → Pt d) (s : State),
    (∀ i, 0 < a i) → Function.Injective x → GeomReachable a x s →
    Tiling x s ∧ (GeneralPosition a x s.nVerts → Delaunay a x s)

/-- What is proved of `tiles_hull_statement`: along every geometrically truthful history the clause "vertex-to-simplex
and simplex sets agree" holds (and each simplex is `d+1` distinct in-range vertices).  Missing: `Tiling.facets`,
`Tiling.used`, `Tiling.cover`, `Tiling.disjoint`, `Delaunay`. -/
theorem tiles_hull_partial {d : ℕ} (a : Fin d → ℝ) (x : ℕ → Pt d) (s : State) (h : GeomReachable a x s) :
    (∀ (v : Nat) (l : List Simplex), s.vts[v]? = some l → ∀ t, t ∈ l ↔ (t ∈ s.simplices ∧ v ∈ t)) ∧
    (∀ t ∈ s.simplices, t.length = s.dim + 1 ∧ t.Nodup ∧ ∀ v ∈ t, v < s.nVerts) :=
  ⟨h.inv.index, fun t ht => let hv := h.inv.valid t ht
    ⟨hv.1, hv.2.1.imp (fun hab => Nat.ne_of_lt hab), hv.2.2⟩⟩

/-! ## Non-vacuity: concrete reachable states (kernel-evaluated) -/

example : init 2 3 [[2, 0, 1]] = .ok exS0 := by decide
example : ValidRaw 2 3 [2, 0, 1] := ⟨rfl, by decide, by decide⟩
example : addPoint exS0 none exO1 =
    .ok (⟨2, 4, [[0, 1, 3], [0, 2, 3], [1, 2, 3]],
      [[[0, 1, 3], [0, 2, 3]], [[0, 1, 3], [1, 2, 3]], [[0, 2, 3], [1, 2, 3]], [[0, 1, 3], [0, 2, 3], [1, 2, 3]]]⟩,
      [[0, 1, 2]], [[0, 1, 3], [0, 2, 3], [1, 2, 3]]) := by decide
example : addPoint exS0 none exO2 =
    .ok (⟨2, 4, [[0, 1, 2], [1, 2, 3]], [[[0, 1, 2]], [[0, 1, 2], [1, 2, 3]], [[0, 1, 2], [1, 2, 3]], [[1, 2, 3]]]⟩,
      [], [[1, 2, 3]]) := by decide
example : addPoint exS0 (some []) { orient := [([0, 1], 1, 1), ([0, 2], -1, -1), ([1, 2], 1, 1)] } =
    .error (.reject .insideHull exS0) := by decide
example : addPoint exS0 (some [0, 1, 2]) { reduced := some [1] } = .error (.reject .duplicate exS0) := by decide
example : addPoint exS0 (some [0, 1, 2]) { reduced := some [] } = .error (.reject .outsideSimplex exS0) := by decide
example : area2 ((0 : ℚ), (0 : ℚ)) (4, 0) (0, 4) = 16 ∧ 0 ≤ area2 ((1 : ℚ), (1 : ℚ)) (4, 0) (0, 4) := by
  simp only [area2]; norm_num

/-! ## Conservation of volume by the cavity retriangulation (algebraic core of the geometric half)

Helper lemmas: `Lemmas/TriCavity.lean` (cancellation over the cavity, any dimension; `area2`/`vol6` instances) and
`Lemmas/TriCavityModel.lean` (what `bowyerWatson` deletes and adds, exactly).  Notation: `x : ℕ → α × α` the
coordinates over any ordered commutative ring (ℚ, ℝ, …), `sv2 x [i,j,k] = area2 (x i) (x j) (x k)` twice the signed
area, `osign` its sign, `sve2 x t e p` the signed area of `t` with the vertex opposite to the edge `e` replaced IN
PLACE by `p`, `hole 2 bad` the model's hole-face list (`faces.filter (count < 2)`), `owner 2 bad e` the bad
triangle that has the edge `e` (unique for a hole edge: `owner_eq`).  `sv3`, `sve3`, `hole 3`: the same for
tetrahedra (`vol6`).

Hypotheses of the theorems, all about TRUTHFUL GEOMETRY of the deleted simplices, none about the code:
`OppositeSides2 x bad` (two triangles of `bad` sharing an edge have their third vertices strictly on opposite
sides of it; no edge in more than two triangles of `bad`), `sv2 x t ≠ 0` (no degenerate triangle; without it (4) is
FALSE, kernel-checked counterexample below), and star-shapedness (`x pt` is on the inner side of every hole edge). -/

/-- C03.e (1)  The signed areas over the three edges of a triangle add up to the triangle for every apex `p`
(this is `simplex_split_volume_2d` read over `combos 2 t`, the model's face enumeration), and two triangles
sharing an edge see it with in-place replacements that differ by the parity sign `ε = ±1`, for ALL `q`. -/
theorem cavity_split_and_shared_2d {α : Type} [CommRing α] (x : ℕ → α × α) {i j k : ℕ} (hij : i < j) (hjk : j < k)
    (p : α × α) :
    sv2 x [i, j, k] = ((combos 2 [i, j, k]).map (fun e => sve2 x [i, j, k] e p)).sum ∧
    (∀ (t e : Simplex) (q : α × α), e ∈ combos 2 [i, j, k] →
      sve2 x t e q = (esign2 t e * esign2 [i, j, k] e) * sve2 x [i, j, k] e q) ∧
    (∀ e ∈ combos 2 [i, j, k], (esign2 [i, j, k] e : α) = 1 ∨ (esign2 [i, j, k] e : α) = -1) :=
  ⟨sv2_split x hij hjk p, fun t e q he => sve2_shared x t e he q, fun _ he => esign2_unit he⟩

/-- C03.e (3)  INTERIOR CANCELLATION, dimension 2: under the local tiling hypothesis the total area of the deleted
triangles equals the sum over the model's hole edges `e` of (orientation of the owner `t_e`) × (signed area of `t_e`
with the vertex opposite to `e` replaced by `p`) — for EVERY point `p` (interior edges occur in two triangles and
cancel; hole edges occur once). -/
theorem cavity_interior_cancellation_2d {α : Type} [CommRing α] [LinearOrder α] [IsStrictOrderedRing α]
    (x : ℕ → α × α) (bad : List Simplex) (hN : bad.Nodup)
    (hS : ∀ t ∈ bad, t.length = 3 ∧ t.Pairwise (· < ·)) (hO : OppositeSides2 x bad) (p : α × α) :
    (bad.map (fun t => |sv2 x t|)).sum =
      ((hole 2 bad).map (fun e => osign (sv2 x (owner 2 bad e)) * sve2 x (owner 2 bad e) e p)).sum :=
  interior_cancellation_2d x bad hN hS hO p

/-- C03.e (4)  STAR-SHAPED CAVITY ⇒ AREA CONSERVED, dimension 2: if moreover the deleted triangles are non-degenerate
and `x pt` sees every hole edge from the inside, the triangles `e ++ [pt]` the model adds over the hole edges have
exactly the total area of the triangles it removed. -/
theorem cavity_volume_conserved_2d {α : Type} [CommRing α] [LinearOrder α] [IsStrictOrderedRing α]
    (x : ℕ → α × α) (bad : List Simplex) (pt : ℕ) (hN : bad.Nodup)
    (hS : ∀ t ∈ bad, t.length = 3 ∧ t.Pairwise (· < ·)) (hO : OppositeSides2 x bad)
    (hnd : ∀ t ∈ bad, sv2 x t ≠ 0)
    (hstar : ∀ e ∈ hole 2 bad, 0 ≤ osign (sv2 x (owner 2 bad e)) * sve2 x (owner 2 bad e) e (x pt)) :
    (bad.map (fun t => |sv2 x t|)).sum = ((hole 2 bad).map (fun e => |sv2 x (e ++ [pt])|)).sum :=
  cavity_conserved_2d x bad pt hN hS hO hnd hstar

/-- C03.e (3), dimension 3. -/
theorem cavity_interior_cancellation_3d {α : Type} [CommRing α] [LinearOrder α] [IsStrictOrderedRing α]
    (x : ℕ → α × α × α) (bad : List Simplex) (hN : bad.Nodup)
    (hS : ∀ t ∈ bad, t.length = 4 ∧ t.Pairwise (· < ·)) (hO : OppositeSides3 x bad) (p : α × α × α) :
    (bad.map (fun t => |sv3 x t|)).sum =
      ((hole 3 bad).map (fun e => osign (sv3 x (owner 3 bad e)) * sve3 x (owner 3 bad e) e p)).sum :=
  interior_cancellation_3d x bad hN hS hO p

/-- C03.e (4), dimension 3: the tetrahedra `f ++ [pt]` over the hole faces have the total volume of the cavity. -/
theorem cavity_volume_conserved_3d {α : Type} [CommRing α] [LinearOrder α] [IsStrictOrderedRing α]
    (x : ℕ → α × α × α) (bad : List Simplex) (pt : ℕ) (hN : bad.Nodup)
    (hS : ∀ t ∈ bad, t.length = 4 ∧ t.Pairwise (· < ·)) (hO : OppositeSides3 x bad)
    (hnd : ∀ t ∈ bad, sv3 x t ≠ 0)
    (hstar : ∀ e ∈ hole 3 bad, 0 ≤ osign (sv3 x (owner 3 bad e)) * sve3 x (owner 3 bad e) e (x pt)) :
    (bad.map (fun t => |sv3 x t|)).sum = ((hole 3 bad).map (fun e => |sv3 x (e ++ [pt])|)).sum :=
  cavity_conserved_3d x bad pt hN hS hO hnd hstar

/-- C03.e (5a)  What one accepted `bowyer_watson` with a FRESH vertex index and no "almost flat" answer does, exactly
(all oracle answers, any dimension): `deleted` ⊆ old simplices, `added = {f ++ [pt] | f ∈ hole deleted}` with the
model's own hole-face list, new simplex set `= (old \ deleted) ∪ added`, no list has repetitions. -/
theorem bowyer_watson_exact {s s' : State} {pt : ℕ} {start : Option Simplex} {circ fl fl' : List (Simplex × Bool)}
    {deleted added : List Simplex} (hI : Inv s) (hpt : s.nVerts = pt + 1)
    (hfresh : ∀ t ∈ s.simplices, ∀ v ∈ t, v < pt)
    (hstart : ∀ c, start = some c → c ∈ s.simplices) (hfl : ∀ r ∈ fl, r.2 = false)
    (hok : bowyerWatson s pt start circ fl = .ok (s', deleted, added, fl')) :
    deleted.Nodup ∧ added.Nodup ∧ (∀ u ∈ deleted, u ∈ s.simplices) ∧
    (∀ u, u ∈ added ↔ ∃ f ∈ hole s.dim deleted, u = f ++ [pt]) ∧
    (∀ u, u ∈ s'.simplices ↔ ((u ∈ s.simplices ∧ u ∉ deleted) ∨ u ∈ added)) ∧
    (s.simplices.Nodup → s'.simplices.Nodup) :=
  bowyerWatson_exact hI hpt hfresh hstart hfl hok

/-- C03.e (5)  ONE ACCEPTED INTERIOR INSERTION OF THE MODEL CONSERVES THE AREA (dimension 2): `bowyer_watson` called with
the fresh last vertex index, no hole triangle reported almost flat, and truthful geometry of the cavity
`bad = deleted` (local tiling hypothesis, non-degenerate, star-shaped w.r.t. `x pt`): the added triangles have the
total area of the deleted ones, hence the total area of the triangulation is unchanged. -/
theorem bowyer_watson_preserves_volume_2d {α : Type} [CommRing α] [LinearOrder α] [IsStrictOrderedRing α]
    (x : ℕ → α × α) {s s' : State} {pt : ℕ} {start : Option Simplex}
    {circ fl fl' : List (Simplex × Bool)} {deleted added : List Simplex}
    (hI : Inv s) (hdim : s.dim = 2) (hpt : s.nVerts = pt + 1)
    (hfresh : ∀ t ∈ s.simplices, ∀ v ∈ t, v < pt)
    (hstart : ∀ c, start = some c → c ∈ s.simplices) (hfl : ∀ r ∈ fl, r.2 = false)
    (hok : bowyerWatson s pt start circ fl = .ok (s', deleted, added, fl'))
    (hO : OppositeSides2 x deleted) (hnd : ∀ t ∈ deleted, sv2 x t ≠ 0)
    (hstar : ∀ e ∈ hole 2 deleted,
      0 ≤ osign (sv2 x (owner 2 deleted e)) * sve2 x (owner 2 deleted e) e (x pt)) :
    (added.map (fun t => |sv2 x t|)).sum = (deleted.map (fun t => |sv2 x t|)).sum ∧
    (s.simplices.Nodup →
      (s'.simplices.map (fun t => |sv2 x t|)).sum = (s.simplices.map (fun t => |sv2 x t|)).sum) :=
  bowyerWatson_volume_2d x hI hdim hpt hfresh hstart hfl hok hO hnd hstar

/-- C03.e (5), dimension 3. -/
theorem bowyer_watson_preserves_volume_3d {α : Type} [CommRing α] [LinearOrder α] [IsStrictOrderedRing α]
    (x : ℕ → α × α × α) {s s' : State} {pt : ℕ} {start : Option Simplex}
    {circ fl fl' : List (Simplex × Bool)} {deleted added : List Simplex}
    (hI : Inv s) (hdim : s.dim = 3) (hpt : s.nVerts = pt + 1)
    (hfresh : ∀ t ∈ s.simplices, ∀ v ∈ t, v < pt)
    (hstart : ∀ c, start = some c → c ∈ s.simplices) (hfl : ∀ r ∈ fl, r.2 = false)
    (hok : bowyerWatson s pt start circ fl = .ok (s', deleted, added, fl'))
    (hO : OppositeSides3 x deleted) (hnd : ∀ t ∈ deleted, sv3 x t ≠ 0)
    (hstar : ∀ e ∈ hole 3 deleted,
      0 ≤ osign (sv3 x (owner 3 deleted e)) * sve3 x (owner 3 deleted e) e (x pt)) :
    (added.map (fun t => |sv3 x t|)).sum = (deleted.map (fun t => |sv3 x t|)).sum ∧
    (s.simplices.Nodup →
      (s'.simplices.map (fun t => |sv3 x t|)).sum = (s.simplices.map (fun t => |sv3 x t|)).sum) :=
  bowyerWatson_volume_3d x hI hdim hpt hfresh hstart hfl hok hO hnd hstar

/-- C03.e (5')  The same at the level of `add_point`: an accepted insertion that does not go through `_extend_hull`
(hint / `locate_point` answer is a simplex, not `()`) from a state satisfying the invariant — freshness of the new
index then FOLLOWS from the invariant — reports `(deleted, added)` of equal total area and leaves the total area of
the triangulation unchanged, under the same truthful-geometry hypotheses for `bad = deleted`, new point `x s.nVerts`. -/
theorem add_point_interior_preserves_volume_2d {α : Type} [CommRing α] [LinearOrder α] [IsStrictOrderedRing α]
    (x : ℕ → α × α) {s s' : State} {hint : Option Simplex} {o : Oracle}
    {D A : List Simplex} (hI : Inv s) (hdim : s.dim = 2) (hv : ValidHint s hint) (hh : hint ≠ some [])
    (hl : o.locate ≠ some []) (hfl : ∀ r ∈ o.flat, r.2 = false)
    (hok : addPoint s hint o = .ok (s', D, A))
    (hO : OppositeSides2 x D) (hnd : ∀ t ∈ D, sv2 x t ≠ 0)
    (hstar : ∀ e ∈ hole 2 D, 0 ≤ osign (sv2 x (owner 2 D e)) * sve2 x (owner 2 D e) e (x s.nVerts)) :
    (A.map (fun t => |sv2 x t|)).sum = (D.map (fun t => |sv2 x t|)).sum ∧
    (s.simplices.Nodup →
      (s'.simplices.map (fun t => |sv2 x t|)).sum = (s.simplices.map (fun t => |sv2 x t|)).sum) :=
  addPoint_interior_volume_2d x hI hdim hv hh hl hfl hok hO hnd hstar

/-- C03.e (5'), dimension 3. -/
theorem add_point_interior_preserves_volume_3d {α : Type} [CommRing α] [LinearOrder α] [IsStrictOrderedRing α]
    (x : ℕ → α × α × α) {s s' : State} {hint : Option Simplex} {o : Oracle}
    {D A : List Simplex} (hI : Inv s) (hdim : s.dim = 3) (hv : ValidHint s hint) (hh : hint ≠ some [])
    (hl : o.locate ≠ some []) (hfl : ∀ r ∈ o.flat, r.2 = false)
    (hok : addPoint s hint o = .ok (s', D, A))
    (hO : OppositeSides3 x D) (hnd : ∀ t ∈ D, sv3 x t ≠ 0)
    (hstar : ∀ e ∈ hole 3 D, 0 ≤ osign (sv3 x (owner 3 D e)) * sve3 x (owner 3 D e) e (x s.nVerts)) :
    (A.map (fun t => |sv3 x t|)).sum = (D.map (fun t => |sv3 x t|)).sum ∧
    (s.simplices.Nodup →
      (s'.simplices.map (fun t => |sv3 x t|)).sum = (s.simplices.map (fun t => |sv3 x t|)).sum) :=
  addPoint_interior_volume_3d x hI hdim hv hh hl hfl hok hO hnd hstar

/-- C03.e  The side condition `s.simplices.Nodup` of the total-volume statements holds in every state of every
history (the list `simplices` is a set), for all oracle answers. -/
theorem tri_simplices_nodup {dim n : ℕ} {initial : List Simplex} (hv : ∀ t ∈ initial, ValidRaw dim n t) {s : State}
    (h : Reachable dim n initial s) : s.simplices.Nodup :=
  reachable_nodup hv h

/-! ### Non-vacuity (6): the square `(0,0) (4,0) (4,4) (0,4)` split along the diagonal, new point `(2,1)` -/

example : init 2 4 [[0, 1, 2], [0, 2, 3]] = .ok exSq := by decide

/-- the model's run: both triangles are deleted, four triangles over the four hole edges are added -/
theorem exSq_run : addPoint exSq (some [0, 1, 2]) exOsq =
    .ok (exSq1, [[0, 1, 2], [0, 2, 3]], [[0, 1, 4], [1, 2, 4], [0, 3, 4], [2, 3, 4]]) := by decide

theorem exSq_inv : Inv exSq := by
  refine init_inv (dim := 2) (n := 4) (initial := [[0, 1, 2], [0, 2, 3]]) ?_ (by decide)
  intro t ht
  simp only [List.mem_cons, List.not_mem_nil, or_false] at ht
  rcases ht with rfl | rfl <;> exact ⟨rfl, by decide, by decide⟩

example : hole 2 [[0, 1, 2], [0, 2, 3]] = [[0, 1], [1, 2], [0, 3], [2, 3]] := by decide

/-- the local tiling hypothesis holds for the two triangles of the square -/
theorem exSq_opposite : OppositeSides2 exX [[0, 1, 2], [0, 2, 3]] := by
  refine ⟨?_, count_le_two_of_mem (by decide)⟩
  norm_num [combos, sve2, sv2, area2, exX]

/-- the cavity (the whole square) is star-shaped with respect to `(2,1)` -/
theorem exSq_star : ∀ e ∈ hole 2 [[0, 1, 2], [0, 2, 3]],
    0 ≤ osign (sv2 exX (owner 2 [[0, 1, 2], [0, 2, 3]] e)) * sve2 exX (owner 2 [[0, 1, 2], [0, 2, 3]] e) e (exX 4) := by
  have h0 : hole 2 [[0, 1, 2], [0, 2, 3]] = [[0, 1], [1, 2], [0, 3], [2, 3]] := by decide
  have h1 : owner 2 [[0, 1, 2], [0, 2, 3]] [0, 1] = [0, 1, 2] := by decide
  have h2 : owner 2 [[0, 1, 2], [0, 2, 3]] [1, 2] = [0, 1, 2] := by decide
  have h3 : owner 2 [[0, 1, 2], [0, 2, 3]] [0, 3] = [0, 2, 3] := by decide
  have h4 : owner 2 [[0, 1, 2], [0, 2, 3]] [2, 3] = [0, 2, 3] := by decide
  rw [h0]
  simp only [List.forall_mem_cons, h1, h2, h3, h4]
  norm_num [sve2, sv2, area2, exX, osign]

/-- all hypotheses of `add_point_interior_preserves_volume_2d` hold for this run, so its conclusion does -/
example :
    (([[0, 1, 4], [1, 2, 4], [0, 3, 4], [2, 3, 4]] : List Simplex).map (fun t => |sv2 exX t|)).sum =
      (([[0, 1, 2], [0, 2, 3]] : List Simplex).map (fun t => |sv2 exX t|)).sum :=
  (add_point_interior_preserves_volume_2d exX exSq_inv rfl
    (by intro h hh; cases hh; exact Or.inr (by decide)) (by decide) (by decide) (by decide) exSq_run
    exSq_opposite (by norm_num [sv2, area2, exX]) exSq_star).1

/-- … and, independently, both sides are `32` (twice the area of the square) -/
example : (([[0, 1, 4], [1, 2, 4], [0, 3, 4], [2, 3, 4]] : List Simplex).map (fun t => |sv2 exX t|)).sum = 32 ∧
    (([[0, 1, 2], [0, 2, 3]] : List Simplex).map (fun t => |sv2 exX t|)).sum = 32 := by
  norm_num [sv2, area2, exX]

/-- COUNTEREXAMPLE: without non-degeneracy (4) is false.  One flat "triangle" `(0,0) (1,0) (2,0)`, new point `(0,1)`:
the local tiling hypothesis and star-shapedness hold (the orientation of the flat triangle is `0`), the cavity has
area `0`, the three triangles over its edges have total doubled area `4`. -/
example : OppositeSides2 exXflat [[0, 1, 2]] ∧
    (∀ e ∈ hole 2 [[0, 1, 2]],
      0 ≤ osign (sv2 exXflat (owner 2 [[0, 1, 2]] e)) * sve2 exXflat (owner 2 [[0, 1, 2]] e) e (exXflat 3)) ∧
    (([[0, 1, 2]] : List Simplex).map (fun t => |sv2 exXflat t|)).sum = 0 ∧
    ((hole 2 [[0, 1, 2]]).map (fun e => |sv2 exXflat (e ++ [3])|)).sum = 4 := by
  have h0 : hole 2 [[0, 1, 2]] = [[0, 1], [0, 2], [1, 2]] := by decide
  have h1 : owner 2 [[0, 1, 2]] [0, 1] = [0, 1, 2] := by decide
  have h2 : owner 2 [[0, 1, 2]] [0, 2] = [0, 1, 2] := by decide
  have h3 : owner 2 [[0, 1, 2]] [1, 2] = [0, 1, 2] := by decide
  refine ⟨⟨?_, count_le_two_of_mem (by decide)⟩, ?_, ?_, ?_⟩
  · intro t ht t' ht' hne
    simp only [List.mem_singleton] at ht ht'
    exact absurd (ht.trans ht'.symm) hne
  · rw [h0]
    simp only [List.forall_mem_cons, h1, h2, h3]
    norm_num [sve2, sv2, area2, exXflat, osign]
  · norm_num [sv2, area2, exXflat]
  · rw [h0]
    norm_num [sv2, area2, exXflat]

/-! ## C03.f  The Delaunay cavity is star-shaped: `hstar` of C03.e PROVED from the in-circle test (dimension 2)

Helper lemmas: `Lemmas/TriDelaunay2.lean` (predicates, pencil of circles, key lemma, list level),
`Lemmas/TriDelaunay2Circ.lean` (bridge to `circumsphere2`), `Lemmas/TriDelaunay2Model.lean` (the model's
`bowyerWatson` / `addPoint`), `Lemmas/TriDelaunay2Truthful.lean` (work-list invariant: from truthful answers to (i), (ii)).  Exact polynomial predicates over any ordered commutative ring (ℚ, ℝ, …):
`sideL a b x = area2 a b x` (signed side of the line `ab`), `diamC0 a b x = (x-a)·(x-b)`,
`power a b c x = sideL a b c * diamC0 a b x - diamC0 a b c * sideL a b x` (orientation × power of `x` w.r.t. the
circumcircle of `abc`; minus the classical lifted in-circle determinant), `InCircle a b c x := sideL a b c * power a b c x
< 0` (`x` STRICTLY inside, invariant under all permutations of `a b c`), `InCircle2 x t q` the same for a triangle given
by its index list.  "Not strictly inside" (`¬ InCircle`) is the right weak notion: cocircular points are allowed
everywhere. -/

/-- C03.f (1a)  The power function is THE SAME quadratic for the three edges of the triangle (a triangle may own
several hole edges), changes sign with the orientation, vanishes at the three vertices, and is minus the lifted
in-circle determinant. -/
theorem incircle_power_symmetric {α : Type} [CommRing α] (a b c x : α × α) :
    power b c a x = power a b c x ∧ power c a b x = power a b c x ∧ power b a c x = -power a b c x ∧
    power a b c a = 0 ∧ power a b c b = 0 ∧ power a b c c = 0 ∧ power a b c x = -inCircleDet a b c x :=
  ⟨power_cycle a b c x, power_cycle' a b c x, power_swap a b c x, power_left a b c, power_right a b c,
    power_apex a b c, power_eq_neg_inCircleDet a b c x⟩

/-- C03.f (1b)  PENCIL OF CIRCLES through `a ≠ b`: every circle through `a` and `b` is `diamC0 + lam * sideL = 0` for
some `lam`; two members `lam`, `mu` and a witness `d` strictly on the negative side of `ab`, on or inside `mu` and not
strictly inside `lam`: then `lam ≤ mu`, and on the closed negative side the disk of `lam` lies in the disk of `mu`. -/
theorem circle_pencil_2d {α : Type} [Field α] [LinearOrder α] [IsStrictOrderedRing α] (a b : α × α) :
    (a ≠ b → ∀ (m : α × α) (r2 : α),
      (a.1 - m.1) * (a.1 - m.1) + (a.2 - m.2) * (a.2 - m.2) = r2 →
      (b.1 - m.1) * (b.1 - m.1) + (b.2 - m.2) * (b.2 - m.2) = r2 →
      ∃ lam : α, ∀ x : α × α, (x.1 - m.1) * (x.1 - m.1) + (x.2 - m.2) * (x.2 - m.2) - r2 = circ a b lam x) ∧
    (∀ (d : α × α) (lam mu : α), sideL a b d < 0 → circ a b mu d ≤ 0 → 0 ≤ circ a b lam d →
      lam ≤ mu ∧ ∀ p : α × α, sideL a b p ≤ 0 → circ a b mu p ≤ circ a b lam p) ∧
    (∀ c x : α × α, sideL a b c ≠ 0 → (InCircle a b c x ↔ circ a b (-diamC0 a b c / sideL a b c) x < 0)) :=
  ⟨fun hab m r2 ha hb => circle_in_pencil a b m r2 hab ha hb,
    fun _ _ _ hd hon hout => ⟨pencil_param_le hd hon hout, fun _ hp => pencil_mono (pencil_param_le hd hon hout) hp⟩,
    fun c x h => inCircle_iff_circ a b c x h⟩

/-- C03.f (1c)  KEY LEMMA (any ordered commutative ring).  Triangles `abc`, `abd` strictly on opposite sides of `ab`;
`p` strictly inside `circ(abc)`; `d` not strictly inside `circ(abc)` (the pair is locally Delaunay).  Then: `p` strictly
on the far side of `ab` ⇒ `p` strictly inside `circ(abd)`; hence if `p` is NOT strictly inside `circ(abd)` (the
neighbour is not deleted) `p` is on the side of `c` — even strictly: the new triangle `abp` is not flat. -/
theorem delaunay_far_side_2d {α : Type} [CommRing α] [LinearOrder α] [IsStrictOrderedRing α] {a b c d p : α × α}
    (hopp : sideL a b c * sideL a b d < 0) (hp : InCircle a b c p) (hdel : ¬ InCircle a b c d) :
    (sideL a b c * sideL a b p < 0 → InCircle a b d p) ∧
    (¬ InCircle a b d p → 0 < sideL a b c * sideL a b p) :=
  ⟨far_side_in_neighbour_circle hopp hp hdel, strictly_near_side hopp hp hdel⟩

/-- C03.f (2)  THE DELAUNAY CAVITY IS STAR-SHAPED.  `bad`: sorted triangles; (i) `x pt` strictly inside the circumcircle of
every `t ∈ bad` (this also makes them non-degenerate, (iii)); (ii) for every hole edge `e` of the model's hole list,
owner `T = owner 2 bad e`: EITHER a sorted triangle `t'` with the edge `e` whose third vertex is strictly on the other
side of `e` (the `OppositeSides2` clause for the pair `T`, `t'`), with `x pt` NOT strictly inside `circ(t')` and the third
vertex of `t'` NOT strictly inside `circ(T)` (local Delaunay), OR (hull edge) `x pt` not strictly outside `e`.
Conclusion: exactly the hypothesis `hstar` of `cavity_volume_conserved_2d`. -/
theorem cavity_star_shaped_2d {α : Type} [CommRing α] [LinearOrder α] [IsStrictOrderedRing α]
    (x : ℕ → α × α) (bad : List Simplex) (pt : ℕ)
    (hS : ∀ t ∈ bad, t.length = 3 ∧ t.Pairwise (· < ·))
    (hin : ∀ t ∈ bad, InCircle2 x t (x pt))
    (hedge : ∀ e ∈ hole 2 bad,
      (∃ t' : Simplex, (t'.length = 3 ∧ t'.Pairwise (· < ·)) ∧ e ∈ combos 2 t' ∧
        (∀ c' ∈ t', c' ∉ e → sve2 x (owner 2 bad e) e (x c') * sv2 x (owner 2 bad e) < 0) ∧
        ¬ InCircle2 x t' (x pt) ∧
        (∀ c' ∈ t', c' ∉ e → ¬ InCircle2 x (owner 2 bad e) (x c'))) ∨
      0 ≤ sve2 x (owner 2 bad e) e (x pt) * sv2 x (owner 2 bad e)) :
    (∀ t ∈ bad, sv2 x t ≠ 0) ∧
    ∀ e ∈ hole 2 bad, 0 ≤ osign (sv2 x (owner 2 bad e)) * sve2 x (owner 2 bad e) e (x pt) :=
  ⟨fun t ht => sv2_ne_zero_of_inCircle2 x (hin t ht), cavity_star_2d x bad pt hS hin hedge⟩

/-- C03.f (2')  … hence the area of a Delaunay cavity is conserved (C03.e (4) without the star-shapedness hypothesis). -/
theorem delaunay_cavity_volume_conserved_2d {α : Type} [CommRing α] [LinearOrder α] [IsStrictOrderedRing α]
    (x : ℕ → α × α) (bad : List Simplex) (pt : ℕ) (hN : bad.Nodup)
    (hS : ∀ t ∈ bad, t.length = 3 ∧ t.Pairwise (· < ·)) (hO : OppositeSides2 x bad)
    (hin : ∀ t ∈ bad, InCircle2 x t (x pt))
    (hedge : ∀ e ∈ hole 2 bad,
      (∃ t' : Simplex, (t'.length = 3 ∧ t'.Pairwise (· < ·)) ∧ e ∈ combos 2 t' ∧
        (∀ c' ∈ t', c' ∉ e → sve2 x (owner 2 bad e) e (x c') * sv2 x (owner 2 bad e) < 0) ∧
        ¬ InCircle2 x t' (x pt) ∧
        (∀ c' ∈ t', c' ∉ e → ¬ InCircle2 x (owner 2 bad e) (x c'))) ∨
      0 ≤ sve2 x (owner 2 bad e) e (x pt) * sv2 x (owner 2 bad e)) :
    (bad.map (fun t => |sv2 x t|)).sum = ((hole 2 bad).map (fun e => |sv2 x (e ++ [pt])|)).sum :=
  let h := cavity_star_shaped_2d x bad pt hS hin hedge
  cavity_volume_conserved_2d x bad pt hN hS hO h.1 h.2

/-- C03.f (3)  ONE ACCEPTED INTERIOR `bowyer_watson` WHOSE DELETED SET IS A DELAUNAY CAVITY CONSERVES THE AREA — star-shapedness
is no longer a hypothesis.  Code-path hypotheses as in C03.e (5): index invariant, fresh last vertex index, no new
triangle reported almost flat.  REMAINING geometric hypotheses and what they mean for the real code:
* `hin` — every deleted triangle has `x pt` strictly inside its circumcircle: the `True` answers of
  `point_in_cicumcircle` are truthful for the exact test (`point_in_circumcircle_exact_iff` below: the code's test with
  `eps = 0` IS `InCircle`; with the real `eps = 1e-8` a `True` answer only gives `dist < r·(1+1e-8)`, this is where the
  known finding `C03.tiling:incircle_decided_by_eps` enters);
* `hedge` (`HoleEdgesDelaunay x s.simplices deleted (x pt)`) — for every hole edge `e` with owner `T`: either a triangle
  `t'` of the triangulation BEFORE the insertion has the edge `e`, on the other side of `e` from `T` (genuine
  triangulation around the cavity), `x pt` is not strictly inside `circ(t')` (the `False` answer for `t'` is truthful;
  a `False` answer of the code's eps-test implies this, `inCircle_imp_circTest`; it also forces `t' ∉ deleted`), and
  the apex of `t'` is not strictly inside `circ(T)` (the triangulation was LOCALLY DELAUNAY across the cavity boundary
  before the insertion); or `e` is a hull edge and `x pt` is not strictly outside it (the insertion is interior);
* `hO` (`OppositeSides2 x deleted`) — inside the cavity: neighbours on opposite sides of their common edge, no edge in
  more than two deleted triangles (a genuine triangulation).
Non-degeneracy of the deleted triangles follows from `hin`. -/
theorem bowyer_watson_delaunay_preserves_area_2d {α : Type} [CommRing α] [LinearOrder α] [IsStrictOrderedRing α]
    (x : ℕ → α × α) {s s' : State} {pt : ℕ} {start : Option Simplex}
    {circ fl fl' : List (Simplex × Bool)} {deleted added : List Simplex}
    (hI : Inv s) (hdim : s.dim = 2) (hpt : s.nVerts = pt + 1)
    (hfresh : ∀ t ∈ s.simplices, ∀ v ∈ t, v < pt)
    (hstart : ∀ c, start = some c → c ∈ s.simplices) (hfl : ∀ r ∈ fl, r.2 = false)
    (hok : bowyerWatson s pt start circ fl = .ok (s', deleted, added, fl'))
    (hO : OppositeSides2 x deleted)
    (hin : ∀ t ∈ deleted, InCircle2 x t (x pt))
    (hedge : ∀ e ∈ hole 2 deleted,
      (∃ t' ∈ s.simplices, e ∈ combos 2 t' ∧
        (∀ c' ∈ t', c' ∉ e → sve2 x (owner 2 deleted e) e (x c') * sv2 x (owner 2 deleted e) < 0) ∧
        ¬ InCircle2 x t' (x pt) ∧
        (∀ c' ∈ t', c' ∉ e → ¬ InCircle2 x (owner 2 deleted e) (x c'))) ∨
      0 ≤ sve2 x (owner 2 deleted e) e (x pt) * sv2 x (owner 2 deleted e)) :
    (added.map (fun t => |sv2 x t|)).sum = (deleted.map (fun t => |sv2 x t|)).sum ∧
    (s.simplices.Nodup →
      (s'.simplices.map (fun t => |sv2 x t|)).sum = (s.simplices.map (fun t => |sv2 x t|)).sum) :=
  bowyerWatson_delaunay_area_2d x hI hdim hpt hfresh hstart hfl hok hO hin hedge

/-- C03.f (3')  The same at the level of `add_point` (accepted insertion that does not go through `_extend_hull`; new
point `x s.nVerts`; freshness follows from the invariant). -/
theorem add_point_delaunay_preserves_area_2d {α : Type} [CommRing α] [LinearOrder α] [IsStrictOrderedRing α]
    (x : ℕ → α × α) {s s' : State} {hint : Option Simplex} {o : Oracle}
    {D A : List Simplex} (hI : Inv s) (hdim : s.dim = 2) (hv : ValidHint s hint) (hh : hint ≠ some [])
    (hl : o.locate ≠ some []) (hfl : ∀ r ∈ o.flat, r.2 = false)
    (hok : addPoint s hint o = .ok (s', D, A))
    (hO : OppositeSides2 x D)
    (hin : ∀ t ∈ D, InCircle2 x t (x s.nVerts))
    (hedge : ∀ e ∈ hole 2 D,
      (∃ t' ∈ s.simplices, e ∈ combos 2 t' ∧
        (∀ c' ∈ t', c' ∉ e → sve2 x (owner 2 D e) e (x c') * sv2 x (owner 2 D e) < 0) ∧
        ¬ InCircle2 x t' (x s.nVerts) ∧
        (∀ c' ∈ t', c' ∉ e → ¬ InCircle2 x (owner 2 D e) (x c'))) ∨
      0 ≤ sve2 x (owner 2 D e) e (x s.nVerts) * sv2 x (owner 2 D e)) :
    (A.map (fun t => |sv2 x t|)).sum = (D.map (fun t => |sv2 x t|)).sum ∧
    (s.simplices.Nodup →
      (s'.simplices.map (fun t => |sv2 x t|)).sum = (s.simplices.map (fun t => |sv2 x t|)).sum) :=
  addPoint_delaunay_area_2d x hI hdim hv hh hl hfl hok hO hin hedge

/-- C03.f (3a)  WHAT THE WORK-LIST OF `bowyer_watson` GUARANTEES (any dimension ≥ 1, all oracle answers, all pop orders): after
an accepted call with a fresh vertex index, every deleted simplex was answered `True` by `point_in_cicumcircle`, and
every simplex of the old triangulation that is NOT deleted and shares a facet with a deleted one WAS ASKED and answered
`False` (the queue is closed under face-neighbours of bad simplices and is empty at the end).  `P`/`N`: any properties
implied by a `True`/`False` answer. -/
theorem bowyer_watson_neighbours_asked (P N : Simplex → Prop) {s s' : State} {pt : ℕ} {start : Option Simplex}
    {circ fl fl' : List (Simplex × Bool)} {deleted added : List Simplex} (hI : Inv s) (hdim : 0 < s.dim)
    (hpt : s.nVerts = pt + 1) (hfresh : ∀ t ∈ s.simplices, ∀ v ∈ t, v < pt)
    (hstart : ∀ c, start = some c → c ∈ s.simplices) (hfl : ∀ r ∈ fl, r.2 = false)
    (hok : bowyerWatson s pt start circ fl = .ok (s', deleted, added, fl'))
    (hP : ∀ r ∈ circ, r.2 = true → P r.1) (hN : ∀ r ∈ circ, r.2 = false → N r.1) :
    (∀ t ∈ deleted, P t) ∧
    (∀ b ∈ deleted, ∀ u ∈ s.simplices, u ∉ deleted → sharedCount u b = s.dim → N u) :=
  bowyerWatson_asked P N hI hdim hpt hfresh hstart hfl hok hP hN

/-- C03.f (3b)  TRUTHFUL IN-CIRCLE ANSWERS + LOCALLY DELAUNAY ACROSS THE CAVITY BOUNDARY ⇒ the cavity is a Delaunay cavity, it is
star-shaped, and the insertion conserves the area.  Compared with (3): `hin` and the clause "`x pt` not strictly inside
`circ(t')`" are no longer hypotheses — they follow from `htruth` (every recorded answer of `point_in_cicumcircle` equals
the exact strict predicate `InCircle2`) by (3a).  What remains: `htruth`; `hO` (genuine triangulation inside the
cavity); and for every hole edge either a non-deleted triangle `t'` of the old triangulation across it, on the other
side, whose apex is not strictly inside the owner's circumcircle (old triangulation locally Delaunay there), or a hull
edge with `x pt` not strictly outside. -/
theorem bowyer_watson_truthful_preserves_area_2d {α : Type} [CommRing α] [LinearOrder α] [IsStrictOrderedRing α]
    (x : ℕ → α × α) {s s' : State} {pt : ℕ} {start : Option Simplex}
    {circ fl fl' : List (Simplex × Bool)} {deleted added : List Simplex}
    (hI : Inv s) (hdim : s.dim = 2) (hpt : s.nVerts = pt + 1)
    (hfresh : ∀ t ∈ s.simplices, ∀ v ∈ t, v < pt)
    (hstart : ∀ c, start = some c → c ∈ s.simplices) (hfl : ∀ r ∈ fl, r.2 = false)
    (hok : bowyerWatson s pt start circ fl = .ok (s', deleted, added, fl'))
    (htruth : ∀ r ∈ circ, (r.2 = true ↔ InCircle2 x r.1 (x pt)))
    (hO : OppositeSides2 x deleted)
    (hedge : ∀ e ∈ hole 2 deleted,
      (∃ t' ∈ s.simplices, t' ∉ deleted ∧ e ∈ combos 2 t' ∧
        (∀ c' ∈ t', c' ∉ e → sve2 x (owner 2 deleted e) e (x c') * sv2 x (owner 2 deleted e) < 0) ∧
        (∀ c' ∈ t', c' ∉ e → ¬ InCircle2 x (owner 2 deleted e) (x c'))) ∨
      0 ≤ sve2 x (owner 2 deleted e) e (x pt) * sv2 x (owner 2 deleted e)) :
    (∀ t ∈ deleted, InCircle2 x t (x pt)) ∧
    (∀ e ∈ hole 2 deleted, 0 ≤ osign (sv2 x (owner 2 deleted e)) * sve2 x (owner 2 deleted e) e (x pt)) ∧
    (added.map (fun t => |sv2 x t|)).sum = (deleted.map (fun t => |sv2 x t|)).sum ∧
    (s.simplices.Nodup →
      (s'.simplices.map (fun t => |sv2 x t|)).sum = (s.simplices.map (fun t => |sv2 x t|)).sum) :=
  bowyerWatson_truthful_area_2d x hI hdim hpt hfresh hstart hfl hok htruth hO hedge

/-- C03.f (3b'), at the level of `add_point` (`o.circ` the recorded `point_in_cicumcircle` answers). -/
theorem add_point_truthful_preserves_area_2d {α : Type} [CommRing α] [LinearOrder α] [IsStrictOrderedRing α]
    (x : ℕ → α × α) {s s' : State} {hint : Option Simplex} {o : Oracle}
    {D A : List Simplex} (hI : Inv s) (hdim : s.dim = 2) (hv : ValidHint s hint) (hh : hint ≠ some [])
    (hl : o.locate ≠ some []) (hfl : ∀ r ∈ o.flat, r.2 = false)
    (hok : addPoint s hint o = .ok (s', D, A))
    (htruth : ∀ r ∈ o.circ, (r.2 = true ↔ InCircle2 x r.1 (x s.nVerts)))
    (hO : OppositeSides2 x D)
    (hedge : ∀ e ∈ hole 2 D,
      (∃ t' ∈ s.simplices, t' ∉ D ∧ e ∈ combos 2 t' ∧
        (∀ c' ∈ t', c' ∉ e → sve2 x (owner 2 D e) e (x c') * sv2 x (owner 2 D e) < 0) ∧
        (∀ c' ∈ t', c' ∉ e → ¬ InCircle2 x (owner 2 D e) (x c'))) ∨
      0 ≤ sve2 x (owner 2 D e) e (x s.nVerts) * sv2 x (owner 2 D e)) :
    (∀ t ∈ D, InCircle2 x t (x s.nVerts)) ∧
    (∀ e ∈ hole 2 D, 0 ≤ osign (sv2 x (owner 2 D e)) * sve2 x (owner 2 D e) e (x s.nVerts)) ∧
    (A.map (fun t => |sv2 x t|)).sum = (D.map (fun t => |sv2 x t|)).sum ∧
    (s.simplices.Nodup →
      (s'.simplices.map (fun t => |sv2 x t|)).sum = (s.simplices.map (fun t => |sv2 x t|)).sum) :=
  addPoint_truthful_area_2d x hI hdim hv hh hl hfl hok htruth hO hedge

/-- C03.f (4)  BRIDGE TO THE IMPLEMENTATION'S TEST.  `point_in_cicumcircle` computes `center, radius = circumsphere(vertices)`
(`circumsphere2`, generated) and answers `norm(center - pt) < radius * (1 + eps)`.  For a non-degenerate triangle and any
`sqrt` with `SqrtLaw`: with `eps = 0` the answer IS the polynomial predicate `InCircle` (also in squared form
`dist² < radius²`), and for every `eps ≥ 0` a point strictly inside is answered `True`, i.e. a `False` answer of the real
test implies "not strictly inside". -/
theorem point_in_circumcircle_exact_iff {α : Type} [Field α] [LinearOrder α] [IsStrictOrderedRing α]
    (sqrt : α → α) (hs : Prims.SqrtLaw sqrt) (a b c p : α × α) (h : sideL a b c ≠ 0) :
    (circTest sqrt 0 a b c p ↔ InCircle a b c p) ∧
    (Prims.dsq2 (Gen.Prims.circumsphere2 sqrt a.1 a.2 b.1 b.2 c.1 c.2).1.1
        (Gen.Prims.circumsphere2 sqrt a.1 a.2 b.1 b.2 c.1 c.2).1.2 p.1 p.2
      < (Gen.Prims.circumsphere2 sqrt a.1 a.2 b.1 b.2 c.1 c.2).2 * (Gen.Prims.circumsphere2 sqrt a.1 a.2 b.1 b.2 c.1 c.2).2
      ↔ InCircle a b c p) ∧
    (∀ eps : α, 0 ≤ eps → ¬ circTest sqrt eps a b c p → ¬ InCircle a b c p) :=
  ⟨circTest_zero_iff_inCircle sqrt hs a b c p h, circumsphere2_sq_test_iff_inCircle sqrt hs a b c p h,
    fun eps he hn hin => hn (inCircle_imp_circTest sqrt hs a b c p h eps he hin)⟩

/-! ### Non-vacuity (5): square + one triangle below it, new point `(3,2)`; the cavity is the two triangles of the square,
the hole edge `[0,1]` has the NON-deleted neighbour `[0,1,4]`, the other three hole edges are hull edges -/

example : init 2 5 [[0, 1, 2], [0, 2, 3], [0, 1, 4]] = .ok exD := by decide

theorem exD_run : addPoint exD (some [0, 1, 2]) exOD =
    .ok (exD1, [[0, 1, 2], [0, 2, 3]], [[0, 1, 5], [1, 2, 5], [0, 3, 5], [2, 3, 5]]) := by decide

theorem exD_inv : Inv exD := by
  refine init_inv (dim := 2) (n := 5) (initial := [[0, 1, 2], [0, 2, 3], [0, 1, 4]]) ?_ (by decide)
  intro t ht
  simp only [List.mem_cons, List.not_mem_nil, or_false] at ht
  rcases ht with rfl | rfl | rfl <;> exact ⟨rfl, by decide, by decide⟩

theorem exD_opposite : OppositeSides2 exXD [[0, 1, 2], [0, 2, 3]] := by
  refine ⟨?_, count_le_two_of_mem (by decide)⟩
  norm_num [combos, sve2, sv2, area2, exXD]

/-- (i): the new point is strictly inside the circumcircle of both deleted triangles, and NOT strictly inside that of
the third one — the recorded answers `exOD.circ` are the truthful ones -/
theorem exD_answers : InCircle2 exXD [0, 1, 2] (exXD 5) ∧ InCircle2 exXD [0, 2, 3] (exXD 5) ∧
    ¬ InCircle2 exXD [0, 1, 4] (exXD 5) := by
  norm_num [InCircle2, sv2, pwT, power, sideL, diamC0, area2, exXD]

/-- (ii): the hole edges -/
theorem exD_edges : ∀ e ∈ hole 2 [[0, 1, 2], [0, 2, 3]],
    (∃ t' ∈ exD.simplices, e ∈ combos 2 t' ∧
      (∀ c' ∈ t', c' ∉ e → sve2 exXD (owner 2 [[0, 1, 2], [0, 2, 3]] e) e (exXD c') *
        sv2 exXD (owner 2 [[0, 1, 2], [0, 2, 3]] e) < 0) ∧
      ¬ InCircle2 exXD t' (exXD exD.nVerts) ∧
      (∀ c' ∈ t', c' ∉ e → ¬ InCircle2 exXD (owner 2 [[0, 1, 2], [0, 2, 3]] e) (exXD c'))) ∨
    0 ≤ sve2 exXD (owner 2 [[0, 1, 2], [0, 2, 3]] e) e (exXD exD.nVerts) * sv2 exXD (owner 2 [[0, 1, 2], [0, 2, 3]] e) := by
  have h0 : hole 2 [[0, 1, 2], [0, 2, 3]] = [[0, 1], [1, 2], [0, 3], [2, 3]] := by decide
  have h1 : owner 2 [[0, 1, 2], [0, 2, 3]] [0, 1] = [0, 1, 2] := by decide
  have h2 : owner 2 [[0, 1, 2], [0, 2, 3]] [1, 2] = [0, 1, 2] := by decide
  have h3 : owner 2 [[0, 1, 2], [0, 2, 3]] [0, 3] = [0, 2, 3] := by decide
  have h4 : owner 2 [[0, 1, 2], [0, 2, 3]] [2, 3] = [0, 2, 3] := by decide
  have hn : exD.nVerts = 5 := rfl
  rw [h0]
  simp only [List.forall_mem_cons, h1, h2, h3, h4, hn]
  refine ⟨Or.inl ⟨[0, 1, 4], by decide, by decide, ?_, exD_answers.2.2, ?_⟩, Or.inr ?_, Or.inr ?_, Or.inr ?_, ?_⟩
  · norm_num [sve2, sv2, area2, exXD]
  · norm_num [InCircle2, sv2, pwT, power, sideL, diamC0, area2, exXD]
  · norm_num [sve2, sv2, area2, exXD]
  · norm_num [sve2, sv2, area2, exXD]
  · norm_num [sve2, sv2, area2, exXD]
  · intro e he; simp at he

/-- all hypotheses of `add_point_delaunay_preserves_area_2d` hold for this run (no star-shapedness assumed), so its
conclusion does: the four new triangles have the area of the two deleted ones … -/
example :
    (([[0, 1, 5], [1, 2, 5], [0, 3, 5], [2, 3, 5]] : List Simplex).map (fun t => |sv2 exXD t|)).sum =
      (([[0, 1, 2], [0, 2, 3]] : List Simplex).map (fun t => |sv2 exXD t|)).sum :=
  (add_point_delaunay_preserves_area_2d exXD exD_inv rfl
    (by intro h hh; cases hh; exact Or.inr (by decide)) (by decide) (by decide) (by decide) exD_run
    exD_opposite
    (by
      intro t ht
      simp only [List.mem_cons, List.not_mem_nil, or_false] at ht
      rcases ht with rfl | rfl
      · exact exD_answers.1
      · exact exD_answers.2.1)
    exD_edges).1

/-- … and the star-shapedness DERIVED by `cavity_star_shaped_2d` for this cavity -/
example : ∀ e ∈ hole 2 [[0, 1, 2], [0, 2, 3]],
    0 ≤ osign (sv2 exXD (owner 2 [[0, 1, 2], [0, 2, 3]] e)) * sve2 exXD (owner 2 [[0, 1, 2], [0, 2, 3]] e) e (exXD 5) :=
  holeEdges_star exXD (S := exD.simplices) 5
    (fun t ht => by
      have := exD_inv.valid t ht
      exact ⟨this.1, this.2.1⟩)
    (by decide)
    (by
      intro t ht
      simp only [List.mem_cons, List.not_mem_nil, or_false] at ht
      rcases ht with rfl | rfl
      · exact exD_answers.1
      · exact exD_answers.2.1)
    exD_edges

/-- the recorded answers `exOD.circ` are truthful for the coordinates `exXD` … -/
theorem exD_truthful : ∀ r ∈ exOD.circ, (r.2 = true ↔ InCircle2 exXD r.1 (exXD exD.nVerts)) := by
  have hn : exD.nVerts = 5 := rfl
  simp only [exOD, List.forall_mem_cons, hn]
  refine ⟨?_, ?_, ?_, ?_⟩
  · simpa using exD_answers.1
  · simpa using exD_answers.2.1
  · simpa using exD_answers.2.2
  · intro r hr; cases hr

/-- … so `add_point_truthful_preserves_area_2d` applies (hypotheses: truthful answers, genuine triangulation, locally
Delaunay across `[0,1]`, hull edges): in-circle facts, star-shapedness and area conservation are all CONCLUSIONS -/
example :
    (∀ t ∈ ([[0, 1, 2], [0, 2, 3]] : List Simplex), InCircle2 exXD t (exXD 5)) ∧
    (∀ e ∈ hole 2 [[0, 1, 2], [0, 2, 3]],
      0 ≤ osign (sv2 exXD (owner 2 [[0, 1, 2], [0, 2, 3]] e)) * sve2 exXD (owner 2 [[0, 1, 2], [0, 2, 3]] e) e (exXD 5)) ∧
    (([[0, 1, 5], [1, 2, 5], [0, 3, 5], [2, 3, 5]] : List Simplex).map (fun t => |sv2 exXD t|)).sum =
      (([[0, 1, 2], [0, 2, 3]] : List Simplex).map (fun t => |sv2 exXD t|)).sum := by
  have h := add_point_truthful_preserves_area_2d exXD exD_inv rfl
    (by intro h hh; cases hh; exact Or.inr (by decide)) (by decide) (by decide) (by decide) exD_run
    exD_truthful exD_opposite
    (by
      intro e he
      rcases exD_edges e he with ⟨t', ht', h1, h2, h3, h4⟩ | h
      · refine Or.inl ⟨t', ht', ?_, h1, h2, h4⟩
        intro hd
        simp only [List.mem_cons, List.not_mem_nil, or_false] at hd
        rcases hd with rfl | rfl
        · exact h3 exD_answers.1
        · exact h3 exD_answers.2.1
      · exact Or.inr h)
  exact ⟨h.1, h.2.1, h.2.2.1⟩

/-- COUNTEREXAMPLE: the LOCAL DELAUNAY clause cannot be dropped.  `a = (0,0)`, `b = (4,0)`, `c = (2,1)`, `d = (2,-1)` (so `d`
IS strictly inside `circ(abc)`), `p = (2,-7/2)`: `abc`, `abd` on opposite sides of `ab`, `p` strictly inside `circ(abc)`,
`p` not strictly inside `circ(abd)` — and `p` is strictly on the far side of `ab`. -/
example :
    let a : ℚ × ℚ := (0, 0); let b : ℚ × ℚ := (4, 0); let c : ℚ × ℚ := (2, 1); let d : ℚ × ℚ := (2, -1)
    let p : ℚ × ℚ := (2, -7 / 2)
    sideL a b c * sideL a b d < 0 ∧ InCircle a b c p ∧ ¬ InCircle a b d p ∧ InCircle a b c d ∧
      sideL a b c * sideL a b p < 0 := by
  norm_num [InCircle, power, sideL, diamC0]

/-- COCIRCULAR POINTS are covered by the weak notion "not strictly inside": `a = (-4,-3)`, `b = (4,-3)`, `d = (0,-5)` on the
circle of radius 5 about the origin, `c = (0,7)`, and the new point `p = (3,4)` exactly ON `circ(abd)` (so `abd` is not
deleted by the exact strict test), strictly inside `circ(abc)`: all hypotheses of the key lemma hold and so does its
conclusion. -/
example :
    let a : ℚ × ℚ := (-4, -3); let b : ℚ × ℚ := (4, -3); let c : ℚ × ℚ := (0, 7); let d : ℚ × ℚ := (0, -5)
    let p : ℚ × ℚ := (3, 4)
    power a b d p = 0 ∧ sideL a b c * sideL a b d < 0 ∧ InCircle a b c p ∧ ¬ InCircle a b c d ∧ ¬ InCircle a b d p ∧
      0 < sideL a b c * sideL a b p := by
  norm_num [InCircle, power, sideL, diamC0]

end Tri
