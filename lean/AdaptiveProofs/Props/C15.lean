import AdaptiveProofs.Lemmas.BalancingInv

/-!
# C15 — BalancingLearner routes, aggregates and balances correctly

Property theorems only (helper lemmas: `Lemmas/BalancingInv.lean`).  Model: `AdaptiveModel/Balancing.lean`,
generic over the children (`C : Child σ P V L`, any state/point/value/loss types).  `Lawful C` says the
children are learners whose non-committing ask is a no-op, whose committing ask is "the same ask, then
`tell_pending`", and whose snapshot/restore is exact; `RealLossStable C` says discarding pending points
does not change a child's real loss.  Every theorem holds for every number of children, every strategy
(and switches between them), every list of operations made through the balancing learner.
-/
set_option linter.unusedSectionVars false
namespace Balancing
variable {σ P V L : Type} [LinearOrder L] (C : Child σ P V L)

/-- C15.a  Cache coherence in every reachable state: whatever the balancing learner has cached
(real losses, expected losses, the children's suggestions) is what the children would answer now. -/
theorem c15_caches_current (hL : Lawful C) (hR : RealLossStable C) (d : L) (kids : List σ)
    (st : Strategy) (ops : List (Op P V)) : Coh C (run C d (init kids st) ops) :=
  coh_reachable hL hR d kids st ops

/-- C15.b  The reported loss, real or expected, is the largest loss among the children at the time of
the call — in every reachable state, for both values of the `real` flag. -/
theorem c15_loss_is_max (hL : Lawful C) (hR : RealLossStable C) (d : L) (kids : List σ)
    (st : Strategy) (ops : List (Op P V)) (real : Bool) :
    let s := run C d (init kids st) ops
    (loss C d s real).1 = maxL d (s.kids.map (fun k => C.loss k real)) ∧
    (∀ x ∈ s.kids.map (fun k => C.loss k real), x ≤ (loss C d s real).1) ∧
    (s.kids ≠ [] → (loss C d s real).1 ∈ s.kids.map (fun k => C.loss k real)) := by
  intro s
  have h := loss_is_max (coh_reachable hL hR d kids st ops) d real
  refine ⟨h, ?_, ?_⟩
  · intro x hx; rw [h]; exact le_maxL d x hx
  · intro hne; rw [h]; exact maxL_mem d (by simpa using hne)

/-- C15.c  A result (or a pending mark) told for child `i` reaches child `i` and no other child. -/
theorem c15_tell_routes (s : State σ P L) (i : Nat) (x : P) (y : V) :
    (tell C s i x y).kids = s.kids.modify i (fun k => C.tell k x y) ∧
    (∀ j, j ≠ i → (tell C s i x y).kids[j]? = s.kids[j]?) ∧
    (tellPending C s i x).kids = s.kids.modify i (fun k => C.tellPending k x) ∧
    (∀ j, j ≠ i → (tellPending C s i x).kids[j]? = s.kids[j]?) :=
  ⟨tell_routes C s i x y, fun _ hj => tell_other C s i x y hj, tellPending_routes C s i x,
    fun _ hj => tellPending_other C s i x hj⟩

/-- C15.d  Every point handed out is labelled with a child that exists, is the point that child
itself proposes in its current state (with the improvement it offers), becomes pending in that child
and leaves the other children untouched — for every strategy. -/
theorem c15_point_is_childs_proposal (hL : Lawful C) {s : State σ P L} (h : Coh C s)
    {tot tot' : List Nat} {i : Nat} {p : P} {imp : L} {s' : State σ P L}
    (hs : selectStep C s tot = some (((i, p), imp), s', tot')) :
    ∃ k, i < s.kids.length ∧ s.kids[i]? = some k ∧ (p, imp) = (C.ask1 k false).1 ∧
      s'.kids[i]? = some (C.tellPending k p) ∧ (∀ j, j ≠ i → s'.kids[j]? = s.kids[j]?) ∧ Coh C s' := by
  obtain ⟨k, a, b, c, _, e, f, g, _⟩ := selectStep_spec hL h hs
  exact ⟨k, a, b, c, e, f, g⟩

/-- C15.e  'npoints' serves a child with the fewest known-plus-pending points. -/
theorem c15_strategy_npoints (hL : Lawful C) {s : State σ P L} (h : Coh C s) (hst : s.strat = .npoints)
    {tot tot' : List Nat} {i : Nat} {p : P} {imp : L} {s' : State σ P L}
    (hs : selectStep C s tot = some (((i, p), imp), s', tot')) :
    (∀ j < tot.length, tot[i]! ≤ tot[j]!) ∧ tot' = tot.modify i (· + 1) :=
  selectStep_npoints_rule hL h hst hs

/-- C15.f  'cycle' serves the children in rotation. -/
theorem c15_strategy_cycle (hL : Lawful C) {s : State σ P L} (hst : s.strat = .cycle)
    {tot tot' : List Nat} {i : Nat} {p : P} {imp : L} {s' : State σ P L}
    (hs : selectStep C s tot = some (((i, p), imp), s', tot')) :
    i = s.cyc % s.kids.length ∧ s'.cyc = s.cyc + 1 :=
  let h := selectStep_cycle_rule hL hst hs; ⟨h.1, h.2.1⟩

/-- C15.g  'loss_improvements' takes the child offering the largest improvement. -/
theorem c15_strategy_loss_improvements (hL : Lawful C) {s : State σ P L} (h : Coh C s)
    (hst : s.strat = .lossImprovements) {tot tot' : List Nat} (htot : tot.length = s.kids.length)
    {i : Nat} {p : P} {imp : L} {s' : State σ P L}
    (hs : selectStep C s tot = some (((i, p), imp), s', tot')) :
    ∀ (j : Nat) k', s.kids[j]? = some k' → (C.ask1 k' false).1.2 ≤ imp :=
  (selectStep_lossImprovements_rule hL h hst htot hs).1

/-- C15.h  'loss' takes the child with the largest expected loss. -/
theorem c15_strategy_loss (hL : Lawful C) {s : State σ P L} (h : Coh C s)
    (hst : s.strat = .loss) {tot tot' : List Nat} (htot : tot.length = s.kids.length)
    {i : Nat} {p : P} {imp : L} {s' : State σ P L}
    (hs : selectStep C s tot = some (((i, p), imp), s', tot')) :
    ∃ k, s.kids[i]? = some k ∧ ∀ (j : Nat) k', s.kids[j]? = some k' → C.loss k' false ≤ C.loss k false :=
  (selectStep_loss_rule hL h hst htot hs).1

/-- C15.i  A non-committing ask returns the points of the committing ask and leaves the balancing
learner (children, caches, rotation) exactly as it was. -/
theorem c15_ask_nocommit (hL : Lawful C) (s : State σ P L) (n : Nat) :
    (ask C s n false).2 = s ∧ (ask C s n false).1 = (ask C s n true).1 :=
  ⟨ask_nocommit_noop hL s n, ask_nocommit_points C s n⟩

end Balancing
