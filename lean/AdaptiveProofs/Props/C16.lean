import AdaptiveProofs.Lemmas.Avg
import AdaptiveProofs.Lemmas.Avg1DBatch
import Mathlib.Algebra.Order.Field.Rat
import Mathlib.Analysis.Real.Sqrt

/-!
# C16 — Averaging learners report the sample statistics of exactly the data they hold

Theorems over any linearly ordered field `α` (so ℚ and ℝ; IEEE rounding is outside, see
DESIGN.md 2.2), any `sqrt` function satisfying the stated law, any Student-t quantile
function, every finite sequence of operations.
-/
-- `h : Inv s` of C16.h / C16.k and the order instances of C16.b are part of the stated
-- interface although the proofs do not need them
set_option linter.unusedVariables false
set_option linter.unusedSectionVars false

section AvgLearner
variable {α : Type} [Field α] [LinearOrder α] [IsStrictOrderedRing α]

/-- values held, in insertion order -/
def Avg.vals (s : Avg.State α) : List α := s.data.map Prod.snd

/-- C16.a  moments: after any history the running sums are the sums over the held values,
the count is their number and every seed is counted once -/
theorem Avg.avg_moments (a r : Option α) (m : Nat) (ops : List (Avg.Op α)) :
    let s := Avg.run (Avg.init a r m) ops
    s.sumF = (Avg.vals s).sum ∧ s.sumFsq = ((Avg.vals s).map (fun v => v * v)).sum ∧
    s.npoints = s.data.length ∧ (s.data.map Prod.fst).Nodup :=
  Avg.momInv_run ops _ (Avg.momInv_init a r m)

/-- C16.b  the first value told for a seed is kept; telling a known seed changes nothing -/
theorem Avg.avg_retell_noop (s : Avg.State α) (k : Nat) (v : α) (h : Avg.hasKey k s.data = true) :
    Avg.tell s k v = s := by
  simp [Avg.tell, h]

/-- C16.c  variance identity: `sum_f_sq − n·mean²` is the sum of squared deviations from the
mean, hence non-negative (the code's `< 0` clamp only absorbs rounding) -/
theorem Avg.avg_variance_identity (s : Avg.State α)
    (h1 : s.sumF = (Avg.vals s).sum) (h2 : s.sumFsq = ((Avg.vals s).map (fun v => v * v)).sum)
    (h3 : s.npoints = s.data.length) (hn : s.npoints ≠ 0) :
    Avg.varNumer s = ((Avg.vals s).map (fun v => (v - Avg.mean s) * (v - Avg.mean s))).sum ∧
    0 ≤ Avg.varNumer s ∧ Avg.mean s * (s.npoints : α) = (Avg.vals s).sum :=
  ⟨Avg.varNumer_eq s h1 h2 h3 hn, Avg.varNumer_nonneg s h1 h2 h3 hn, Avg.mean_mul s h1 hn⟩

/-- C16.d  `std` is the corrected sample standard deviation: for a `sqrt` with
`sqrt x * sqrt x = x` on non-negatives, `std² · (n−1) = Σ (v − mean)²`; it is infinite
exactly below `min_npoints` -/
theorem Avg.avg_std_sample (sqrt : α → α) (hsq : ∀ x, 0 ≤ x → sqrt x * sqrt x = x) (s : Avg.State α)
    (h1 : s.sumF = (Avg.vals s).sum) (h2 : s.sumFsq = ((Avg.vals s).map (fun v => v * v)).sum)
    (h3 : s.npoints = s.data.length) (hmin : 2 ≤ s.minNpoints) :
    (Avg.std sqrt s = none ↔ s.npoints < s.minNpoints) ∧
    ∀ sd, Avg.std sqrt s = some sd →
      sd * sd * ((s.npoints - 1 : Nat) : α) =
        ((Avg.vals s).map (fun v => (v - Avg.mean s) * (v - Avg.mean s))).sum := by
  refine ⟨Avg.std_eq_none_iff sqrt s, ?_⟩
  intro sd hsd
  have hge : ¬ s.npoints < s.minNpoints := by
    intro hlt
    rw [(Avg.std_eq_none_iff sqrt s).2 hlt] at hsd
    cases hsd
  have hn : s.npoints ≠ 0 := by omega
  rw [Avg.std_eq_some sqrt s h1 h2 h3 hn hge] at hsd
  have hsd' := Option.some.inj hsd
  have hpos : (0 : α) < ((s.npoints - 1 : Nat) : α) := Nat.cast_pos.2 (by omega)
  have hnn : 0 ≤ Avg.varNumer s / ((s.npoints - 1 : Nat) : α) :=
    div_nonneg (Avg.varNumer_nonneg s h1 h2 h3 hn) hpos.le
  rw [← hsd', hsq _ hnn, div_mul_cancel₀ _ hpos.ne']
  exact Avg.varNumer_eq s h1 h2 h3 hn

/-- C16.e  the loss is the standard error relative to the tolerances: with `se = std/√n`,
`loss = max (se/atol) (se/rtol/|mean|)` (a missing tolerance contributes 0, `|mean|` is
dropped when the mean is 0) -/
theorem Avg.avg_loss_formula (sqrt : α → α) (s : Avg.State α) (n : Nat) (sd : α)
    (hn : s.minNpoints ≤ n) (hsd : Avg.std sqrt s = some sd) :
    Avg.lossN sqrt s n = some (max (Scalar.divOpt (sd / sqrt (n : α)) s.atol)
      (if Avg.mean s = 0 then Scalar.divOpt (sd / sqrt (n : α)) s.rtol
       else Scalar.divOpt (sd / sqrt (n : α)) s.rtol / |Avg.mean s|)) := by
  unfold Avg.lossN
  rw [if_neg (by omega), hsd]
  simp only [Avg.ite_lt_eq_max, Avg.ite_neg_eq_abs]

/-- C16.f  `ask(n)` hands out exactly `n` distinct seeds, none evaluated or pending — for
the fast path and for every choice the set iteration of the fallback branch can make; and
such a choice always exists (pigeonhole on `range(n_requested + n)`) -/
theorem Avg.avg_ask_fresh (s : Avg.State α) (n : Nat) (choice pts : List Nat)
    (h : Avg.askPoints s n choice = some pts) :
    pts.length = n ∧ pts.Nodup ∧ ∀ p ∈ pts, Avg.known s p = false := by
  unfold Avg.askPoints at h
  simp only at h
  split at h
  · split at h
    · rename_i hv
      cases h
      obtain ⟨hl, hnd, hall⟩ := (Avg.validChoice_iff s n choice).1 hv
      exact ⟨hl, hnd, fun p hp => Avg.mem_freeSeeds (hall p hp)⟩
    · cases h
  · rename_i hany
    cases h
    refine ⟨List.length_range', List.nodup_range' 1, ?_⟩
    intro p hp
    by_contra hk
    exact hany (List.any_eq_true.2 ⟨p, hp, by simpa using hk⟩)

theorem Avg.avg_ask_choice_exists (s : Avg.State α) (n : Nat) (h3 : s.npoints = s.data.length) :
    ∃ choice, Avg.validChoice s n choice = true := by
  refine ⟨(Avg.freeSeeds s n).take n, (Avg.validChoice_iff s n _).2 ⟨?_, ?_, ?_⟩⟩
  · rw [List.length_take]; exact Nat.min_eq_left (Avg.le_length_freeSeeds s n h3)
  · exact (Avg.freeSeeds_nodup s n).sublist (List.take_sublist _ _)
  · intro p hp; exact List.mem_of_mem_take hp

theorem Scalar.divOpt_mono (x y : α) (t : Option α) (ht : ∀ u, t = some u → 0 < u) (h : x ≤ y) :
    Scalar.divOpt x t ≤ Scalar.divOpt y t := by
  cases t with
  | none => simp [Scalar.divOpt]
  | some u =>
    simp only [Scalar.divOpt]
    exact div_le_div_of_nonneg_right h (ht u rfl).le

/-- C16.e'  outstanding requests can only lower the loss: for `min_npoints ≤ n ≤ m` the loss
computed with `m` requested points is at most the one with `n` (the standard error shrinks
like `1/√n`; positive tolerances, `sqrt` positive and monotone on positive arguments) -/
theorem Avg.avg_loss_antitone (sqrt : α → α) (hpos : ∀ x, 0 < x → 0 < sqrt x)
    (hmono : ∀ x y, 0 < x → x ≤ y → sqrt x ≤ sqrt y)
    (s : Avg.State α) (n m : Nat) (sd : α) (h0 : 0 ≤ sd)
    (hat : ∀ u, s.atol = some u → 0 < u) (hrt : ∀ u, s.rtol = some u → 0 < u)
    (hn : s.minNpoints ≤ n) (hn0 : 0 < n) (hnm : n ≤ m) (hsd : Avg.std sqrt s = some sd) :
    ∃ a b, Avg.lossN sqrt s m = some a ∧ Avg.lossN sqrt s n = some b ∧ a ≤ b := by
  refine ⟨_, _, Avg.avg_loss_formula sqrt s m sd (by omega) hsd,
    Avg.avg_loss_formula sqrt s n sd hn hsd, ?_⟩
  have hnp : (0 : α) < (n : α) := by exact_mod_cast hn0
  have hle : (n : α) ≤ (m : α) := by exact_mod_cast hnm
  have hs : sqrt (n : α) ≤ sqrt (m : α) := hmono _ _ hnp hle
  have hse : sd / sqrt (m : α) ≤ sd / sqrt (n : α) :=
    div_le_div_of_nonneg_left h0 (hpos _ hnp) hs
  apply max_le_max (Scalar.divOpt_mono _ _ _ hat hse)
  split
  · exact Scalar.divOpt_mono _ _ _ hrt hse
  · exact div_le_div_of_nonneg_right (Scalar.divOpt_mono _ _ _ hrt hse) (abs_nonneg _)

/-- C16.e''  hence `loss(real=False) ≤ loss(real=True)` once `min_npoints` values are held -/
theorem Avg.avg_loss_pending_le (sqrt : α → α) (hpos : ∀ x, 0 < x → 0 < sqrt x)
    (hmono : ∀ x y, 0 < x → x ≤ y → sqrt x ≤ sqrt y)
    (s : Avg.State α) (sd : α) (h0 : 0 ≤ sd)
    (hat : ∀ u, s.atol = some u → 0 < u) (hrt : ∀ u, s.rtol = some u → 0 < u)
    (hn : s.minNpoints ≤ s.npoints) (hn0 : 0 < s.npoints) (hsd : Avg.std sqrt s = some sd) :
    ∃ a b, Avg.loss sqrt s false = some a ∧ Avg.loss sqrt s true = some b ∧ a ≤ b := by
  have := Avg.avg_loss_antitone sqrt hpos hmono s s.npoints (Avg.nRequested s) sd h0 hat hrt hn hn0
    (by unfold Avg.nRequested; omega) hsd
  simpa [Avg.loss] using this

theorem Scalar.divOpt_nonneg (x : α) (t : Option α) (ht : ∀ u, t = some u → 0 < u) (h : 0 ≤ x) :
    0 ≤ Scalar.divOpt x t := by
  cases t with
  | none => simp [Scalar.divOpt]
  | some u => exact div_nonneg h (ht u rfl).le

/-- the standard deviation, when finite, is non-negative (`sqrt` non-negative on non-negatives) -/
theorem Avg.avg_std_nonneg (sqrt : α → α) (hsq : ∀ x, 0 ≤ x → 0 ≤ sqrt x) (s : Avg.State α) (sd : α)
    (hsd : Avg.std sqrt s = some sd) : 0 ≤ sd := by
  unfold Avg.std at hsd
  simp only at hsd
  split at hsd
  · cases hsd
  · split at hsd
    · cases hsd; exact le_refl _
    · rename_i hneg
      cases hsd
      apply hsq
      apply div_nonneg (not_lt.1 hneg)
      exact Nat.cast_nonneg _

/-- C16.e0  the loss, when finite, is non-negative -/
theorem Avg.avg_loss_nonneg (sqrt : α → α) (hsq : ∀ x, 0 ≤ x → 0 ≤ sqrt x)
    (s : Avg.State α) (n : Nat) (sd : α)
    (hat : ∀ u, s.atol = some u → 0 < u)
    (hn : s.minNpoints ≤ n) (hsd : Avg.std sqrt s = some sd) :
    ∃ a, Avg.lossN sqrt s n = some a ∧ 0 ≤ a := by
  refine ⟨_, Avg.avg_loss_formula sqrt s n sd hn hsd, ?_⟩
  have h0 := Avg.avg_std_nonneg sqrt hsq s sd hsd
  exact le_max_of_le_left (Scalar.divOpt_nonneg _ _ hat (div_nonneg h0 (hsq _ (Nat.cast_nonneg _))))

end AvgLearner

/-! Non-vacuity (AverageLearner): a concrete history over ℚ exercising the ignored re-tell,
a committing ask and `remove_unfinished`; a `sqrt` with the law of C16.d exists over ℝ. -/
section AvgExamples

private def exAvg : Avg.State ℚ :=
  Avg.run (Avg.init none (some 1) 2)
    [.tell 0 1, .tell 1 3, .tell 0 7, .askCommit [2, 3], .tell 2 5, .removeUnfinished]

example : exAvg.sumF = 9 ∧ exAvg.sumFsq = 35 ∧ exAvg.npoints = 3 ∧ Avg.mean exAvg = 3 ∧
    Avg.varNumer exAvg = 8 ∧ Avg.hasKey 0 exAvg.data = true ∧ Avg.vals exAvg = [1, 3, 5] := by
  decide +kernel

example : Avg.askPoints exAvg 2 [] = some [3, 4] := by decide +kernel

/-- the fallback branch: seed 4 is pending, so `range' 4 2` is not fresh; the free seeds of
`range 6` are 3 and 5, and only a choice among them is accepted -/
example : Avg.askPoints (Avg.tellPending exAvg 4) 2 [5, 3] = some [5, 3] ∧
    Avg.askPoints (Avg.tellPending exAvg 4) 2 [3, 4] = none := by decide +kernel

example : ∀ x : ℝ, 0 ≤ x → Real.sqrt x * Real.sqrt x = x := fun _ hx => Real.mul_self_sqrt hx
-- the hypotheses of C16.e' on `sqrt` hold for the real square root
example : (∀ x : ℝ, 0 < x → 0 < Real.sqrt x) ∧ ∀ x y : ℝ, 0 < x → x ≤ y → Real.sqrt x ≤ Real.sqrt y :=
  ⟨fun _ hx => Real.sqrt_pos.2 hx, fun _ _ _ h => Real.sqrt_le_sqrt h⟩

end AvgExamples

section AvgLearner1D
variable {α : Type} [Field α] [LinearOrder α] [IsStrictOrderedRing α]

/-- per-abscissa invariant: the count is the number of samples, seeds are distinct, and the
stored value is their mean -/
def Avg1D.PtOK (p : Avg1D.Pt α) : Prop :=
  p.n = p.samples.length ∧ 1 ≤ p.n ∧ (p.samples.map Prod.fst).Nodup ∧
  p.mean * (p.n : α) = (p.samples.map Prod.snd).sum

/-- state invariant: abscissae distinct, every point OK, and every abscissa with fewer than
`min_samples` samples is in the under-sampled set -/
def Avg1D.Inv (s : Avg1D.State α) : Prop :=
  (s.pts.map (·.x)).Nodup ∧ (∀ p ∈ s.pts, Avg1D.PtOK p) ∧
  (∀ p ∈ s.pts, p.n < s.minSamples → p.x ∈ s.under)

/-- C16.g  single tells keep the invariant: value = mean of the samples, counts match,
each seed once, under-sampled abscissae are tracked -/
theorem Avg1D.avg1d_tell_inv (sqrt : α → α) (tq : Nat → α) (s : Avg1D.State α) (h : Avg1D.Inv s)
    (seed : Nat) (x y : α) : Avg1D.Inv (Avg1D.tell sqrt tq s seed x y) :=
  Avg1D.stGood_tell sqrt tq s h seed x y

/-- C16.h  the error after a re-sampling tell is the Student-t half-width
`t(n−1) · sqrt(Σ(y−ȳ)²/(n−1)/n)` of the samples now held -/
theorem Avg1D.avg1d_error_formula (sqrt : α → α) (tq : Nat → α) (s : Avg1D.State α) (h : Avg1D.Inv s)
    (seed : Nat) (x y : α) (p : Avg1D.Pt α) (hp : Avg1D.find? s x = some p)
    (hseed : seed ∉ p.samples.map Prod.fst) :
    ∃ q, Avg1D.find? (Avg1D.tell sqrt tq s seed x y) x = some q ∧ q.n = p.n + 1 ∧
      q.samples = p.samples ++ [(seed, y)] ∧
      q.err = some (tq (q.n - 1) * sqrt ((((q.samples.map Prod.snd).map
        (fun v => (v - q.mean) * (v - q.mean))).sum / ((q.n - 1 : Nat) : α)) / (q.n : α))) := by
  refine ⟨_, Avg1D.find?_tell_resample sqrt tq s seed x y p hp hseed, rfl, rfl, ?_⟩
  rw [← Avg1D.calcError_eq]
  rfl

/-- C16.i  telling many fresh samples at once gives the same value, count, samples and error
as telling them one by one -/
theorem Avg1D.avg1d_batch_eq_single (sqrt : α → α) (tq : Nat → α) (s : Avg1D.State α) (h : Avg1D.Inv s)
    (x : α) (mapping : List (Nat × α)) (hne : 2 ≤ mapping.length)
    (hnd : (mapping.map Prod.fst).Nodup)
    (hfresh : ∀ p, Avg1D.find? s x = some p → ∀ k ∈ mapping.map Prod.fst, k ∉ p.samples.map Prod.fst) :
    let batch := Avg1D.tellManyAtPoint sqrt tq s x mapping
    let single := mapping.foldl (fun s kv => Avg1D.tell sqrt tq s kv.1 x kv.2) s
    ∃ pb ps, Avg1D.find? batch x = some pb ∧ Avg1D.find? single x = some ps ∧
      pb.mean = ps.mean ∧ pb.n = ps.n ∧ pb.samples = ps.samples ∧ pb.err = ps.err :=
  Avg1D.batch_eq_single_aux sqrt tq s h x mapping hne hnd hfresh

/-- C16.j  batches keep the invariant as well -/
theorem Avg1D.avg1d_batch_inv (sqrt : α → α) (tq : Nat → α) (s : Avg1D.State α) (h : Avg1D.Inv s)
    (x : α) (mapping : List (Nat × α)) (hnd : (mapping.map Prod.fst).Nodup)
    (hfresh : ∀ p, Avg1D.find? s x = some p → ∀ k ∈ mapping.map Prod.fst, k ∉ p.samples.map Prod.fst) :
    Avg1D.Inv (Avg1D.tellManyAtPoint sqrt tq s x mapping) :=
  Avg1D.stGood_tellMany sqrt tq s h x mapping hnd hfresh

/-- C16.k  while some abscissa is under-sampled every request re-samples a member of the
under-sampled set, with the next unused seeds -/
theorem Avg1D.avg1d_ask_serves_undersampled (s : Avg1D.State α) (h : Avg1D.Inv s) (n : Nat) (c : α)
    (hne : s.under ≠ []) :
    (c ∈ s.under → ∃ k, Avg1D.askUnder s n c = some ((List.range n).map fun i => (i + k, c)) ∧
        (∀ p, Avg1D.find? s c = some p → k = p.n) ∧ (Avg1D.find? s c = none → k = 0)) ∧
    (c ∉ s.under → Avg1D.askUnder s n c = none) ∧
    (∀ p ∈ s.pts, p.n < s.minSamples → s.under ≠ []) := by
  have hemp : s.under.isEmpty = false := by
    cases hu : s.under with
    | nil => exact absurd hu hne
    | cons a r => rfl
  refine ⟨?_, ?_, fun _ _ _ => hne⟩
  · intro hc
    unfold Avg1D.askUnder
    simp only [hemp, Bool.false_eq_true, if_false, hc, if_true]
    cases hf : Avg1D.find? s c with
    | none => exact ⟨0, rfl, fun p hp => (by cases hp), fun _ => rfl⟩
    | some p => exact ⟨p.n, rfl, fun q hq => (by cases hq; rfl), fun hq => (by cases hq)⟩
  · intro hc
    unfold Avg1D.askUnder
    simp only [hemp, Bool.false_eq_true, if_false, hc]

end AvgLearner1D

/-! Non-vacuity (AverageLearner1D): the empty learner satisfies `Inv` (so by C16.g/C16.j every
reachable state does), and a concrete history over ℚ (`sqrt := id`, `tq := 1`). -/
section Avg1DExamples

private def ex1D0 : Avg1D.State ℚ := { minSamples := 2, maxSamples := 5, neighborSampling := 1 / 2 }
private def ex1D1 : Avg1D.State ℚ := Avg1D.tell id (fun _ => 1) ex1D0 0 (1 / 2) 3
private def ex1D2 : Avg1D.State ℚ := Avg1D.tell id (fun _ => 1) ex1D1 1 (1 / 2) 5

example : Avg1D.Inv ex1D0 := by simp [Avg1D.Inv, ex1D0]

example : Avg1D.Inv ex1D2 :=
  Avg1D.avg1d_tell_inv _ _ _ (Avg1D.avg1d_tell_inv _ _ _ (by simp [Avg1D.Inv, ex1D0]) _ _ _) _ _ _

example : (Avg1D.find? ex1D2 (1 / 2)).map (fun p => (p.mean, p.n, p.samples, p.err)) =
    some (4, 2, [(0, 3), (1, 5)], some 1) := by decide +kernel

example : ex1D1.under = [1 / 2] ∧ ex1D2.under = [] ∧
    Avg1D.askUnder ex1D1 2 (1 / 2) = some [(1, 1 / 2), (2, 1 / 2)] ∧
    Avg1D.askUnder ex1D1 2 (1 / 3) = none := by decide +kernel

example : (Avg1D.find? (Avg1D.tellManyAtPoint id (fun _ => 1) ex1D0 (1 / 2) [(0, 3), (1, 5), (2, 7)])
      (1 / 2)).map (fun p => (p.mean, p.n, p.samples, p.err)) =
    some (5, 3, [(0, 3), (1, 5), (2, 7)], some (4 / 3)) := by decide +kernel

end Avg1DExamples
