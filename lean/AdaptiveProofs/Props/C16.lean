import AdaptiveProofs.Lemmas.Avg

/-!
# C16 — Averaging learners report the sample statistics of exactly the data they hold

Theorems over any linearly ordered field `α` (so ℚ and ℝ; IEEE rounding is outside, see
DESIGN.md 2.2), any `sqrt` function satisfying the stated law, any Student-t quantile
function, every finite sequence of operations.
-/
open Avg in
section AvgLearner
variable {α : Type} [Field α] [LinearOrder α] [IsStrictOrderedRing α]

/-- values held, in insertion order -/
def Avg.vals (s : Avg.State α) : List α := s.data.map Prod.snd

/-- C16.a  moments: after any history the running sums are the sums over the held values,
the count is their number and every seed is counted once -/
theorem Avg.avg_moments (a r : Option α) (m : Nat) (ops : List (Avg.Op α)) :
    let s := Avg.run (Avg.init a r m) ops
    s.sumF = (Avg.vals s).sum ∧ s.sumFsq = ((Avg.vals s).map (fun v => v * v)).sum ∧
    s.npoints = s.data.length ∧ (s.data.map Prod.fst).Nodup := by
  sorry

/-- C16.b  the first value told for a seed is kept; telling a known seed changes nothing -/
theorem Avg.avg_retell_noop (s : Avg.State α) (k : Nat) (v : α) (h : Avg.hasKey k s.data = true) :
    Avg.tell s k v = s := by
  sorry

/-- C16.c  variance identity: `sum_f_sq − n·mean²` is the sum of squared deviations from the
mean, hence non-negative (the code's `< 0` clamp only absorbs rounding) -/
theorem Avg.avg_variance_identity (s : Avg.State α)
    (h1 : s.sumF = (Avg.vals s).sum) (h2 : s.sumFsq = ((Avg.vals s).map (fun v => v * v)).sum)
    (h3 : s.npoints = s.data.length) (hn : s.npoints ≠ 0) :
    Avg.varNumer s = ((Avg.vals s).map (fun v => (v - Avg.mean s) * (v - Avg.mean s))).sum ∧
    0 ≤ Avg.varNumer s ∧ Avg.mean s * (s.npoints : α) = (Avg.vals s).sum := by
  sorry

/-- C16.d  `std` is the corrected sample standard deviation: for a `sqrt` with
`sqrt x * sqrt x = x` on non-negatives, `std² · (n−1) = Σ (v − mean)²`; it is infinite
exactly below `min_npoints` -/
theorem Avg.avg_std_sample (sqrt : α → α) (hsq : ∀ x, 0 ≤ x → sqrt x * sqrt x = x) (s : Avg.State α)
    (h1 : s.sumF = (Avg.vals s).sum) (h2 : s.sumFsq = ((Avg.vals s).map (fun v => v * v)).sum)
    (h3 : s.npoints = s.data.length) (hmin : 2 ≤ s.minNpoints) :
    (Avg.std sqrt s = none ↔ s.npoints < s.minNpoints) ∧
    ∀ sd, Avg.std sqrt s = some sd →
      sd * sd * ((s.npoints - 1 : Nat) : α) =
        ((Avg.vals s).map (fun v => (v - Avg.mean s) * (v - Avg.mean s))).sum := by
  sorry

/-- C16.e  the loss is the standard error relative to the tolerances: with `se = std/√n`,
`loss = max (se/atol) (se/rtol/|mean|)` (a missing tolerance contributes 0, `|mean|` is
dropped when the mean is 0) -/
theorem Avg.avg_loss_formula (sqrt : α → α) (s : Avg.State α) (n : Nat) (sd : α)
    (hn : s.minNpoints ≤ n) (hsd : Avg.std sqrt s = some sd) :
    Avg.lossN sqrt s n = some (max (Scalar.divOpt (sd / sqrt (n : α)) s.atol)
      (if Avg.mean s = 0 then Scalar.divOpt (sd / sqrt (n : α)) s.rtol
       else Scalar.divOpt (sd / sqrt (n : α)) s.rtol / |Avg.mean s|)) := by
  sorry

/-- C16.f  `ask(n)` hands out exactly `n` distinct seeds, none evaluated or pending — for
the fast path and for every choice the set iteration of the fallback branch can make; and
such a choice always exists (pigeonhole on `range(n_requested + n)`) -/
theorem Avg.avg_ask_fresh (s : Avg.State α) (n : Nat) (choice pts : List Nat)
    (h : Avg.askPoints s n choice = some pts) :
    pts.length = n ∧ pts.Nodup ∧ ∀ p ∈ pts, Avg.known s p = false := by
  sorry

theorem Avg.avg_ask_choice_exists (s : Avg.State α) (n : Nat) (h3 : s.npoints = s.data.length) :
    ∃ choice, Avg.validChoice s n choice = true := by
  sorry

end AvgLearner

section AvgLearner1D
variable {α : Type} [Field α] [LinearOrder α] [IsStrictOrderedRing α]

/-- per-abscissa invariant: the count is the number of samples, seeds are distinct, and the
stored value is their mean -/
def Avg1D.PtOK (p : Avg1D.Pt α) : Prop :=
  p.n = p.samples.length ∧ 1 ≤ p.n ∧ (p.samples.map Prod.fst).Nodup ∧
  p.mean * (p.n : α) = (p.samples.map Prod.snd).sum

/-- state invariant: abscissae distinct, every point OK, and every abscissa with fewer than
`min_samples` samples is in the under-sampled set -/
def Avg1D.Inv (s : Avg1D.State α) : Prop :=
  (s.pts.map (·.x)).Nodup ∧ (∀ p ∈ s.pts, Avg1D.PtOK p) ∧
  (∀ p ∈ s.pts, p.n < s.minSamples → p.x ∈ s.under)

/-- C16.g  single tells keep the invariant: value = mean of the samples, counts match,
each seed once, under-sampled abscissae are tracked -/
theorem Avg1D.avg1d_tell_inv (sqrt : α → α) (tq : Nat → α) (s : Avg1D.State α) (h : Avg1D.Inv s)
    (seed : Nat) (x y : α) : Avg1D.Inv (Avg1D.tell sqrt tq s seed x y) := by
  sorry

/-- C16.h  the error after a re-sampling tell is the Student-t half-width
`t(n−1) · sqrt(Σ(y−ȳ)²/(n−1)/n)` of the samples now held -/
theorem Avg1D.avg1d_error_formula (sqrt : α → α) (tq : Nat → α) (s : Avg1D.State α) (h : Avg1D.Inv s)
    (seed : Nat) (x y : α) (p : Avg1D.Pt α) (hp : Avg1D.find? s x = some p)
    (hseed : seed ∉ p.samples.map Prod.fst) :
    ∃ q, Avg1D.find? (Avg1D.tell sqrt tq s seed x y) x = some q ∧ q.n = p.n + 1 ∧
      q.samples = p.samples ++ [(seed, y)] ∧
      q.err = some (tq (q.n - 1) * sqrt ((((q.samples.map Prod.snd).map
        (fun v => (v - q.mean) * (v - q.mean))).sum / ((q.n - 1 : Nat) : α)) / (q.n : α))) := by
  sorry

/-- C16.i  telling many fresh samples at once gives the same value, count, samples and error
as telling them one by one -/
theorem Avg1D.avg1d_batch_eq_single (sqrt : α → α) (tq : Nat → α) (s : Avg1D.State α) (h : Avg1D.Inv s)
    (x : α) (mapping : List (Nat × α)) (hne : 2 ≤ mapping.length)
    (hnd : (mapping.map Prod.fst).Nodup)
    (hfresh : ∀ p, Avg1D.find? s x = some p → ∀ k ∈ mapping.map Prod.fst, k ∉ p.samples.map Prod.fst) :
    let batch := Avg1D.tellManyAtPoint sqrt tq s x mapping
    let single := mapping.foldl (fun s kv => Avg1D.tell sqrt tq s kv.1 x kv.2) s
    ∃ pb ps, Avg1D.find? batch x = some pb ∧ Avg1D.find? single x = some ps ∧
      pb.mean = ps.mean ∧ pb.n = ps.n ∧ pb.samples = ps.samples ∧ pb.err = ps.err := by
  sorry

/-- C16.j  batches keep the invariant as well -/
theorem Avg1D.avg1d_batch_inv (sqrt : α → α) (tq : Nat → α) (s : Avg1D.State α) (h : Avg1D.Inv s)
    (x : α) (mapping : List (Nat × α)) (hnd : (mapping.map Prod.fst).Nodup)
    (hfresh : ∀ p, Avg1D.find? s x = some p → ∀ k ∈ mapping.map Prod.fst, k ∉ p.samples.map Prod.fst) :
    Avg1D.Inv (Avg1D.tellManyAtPoint sqrt tq s x mapping) := by
  sorry

/-- C16.k  while some abscissa is under-sampled every request re-samples a member of the
under-sampled set, with the next unused seeds -/
theorem Avg1D.avg1d_ask_serves_undersampled (s : Avg1D.State α) (h : Avg1D.Inv s) (n : Nat) (c : α)
    (hne : s.under ≠ []) :
    (c ∈ s.under → ∃ k, Avg1D.askUnder s n c = some ((List.range n).map fun i => (i + k, c)) ∧
        (∀ p, Avg1D.find? s c = some p → k = p.n) ∧ (Avg1D.find? s c = none → k = 0)) ∧
    (c ∉ s.under → Avg1D.askUnder s n c = none) ∧
    (∀ p ∈ s.pts, p.n < s.minSamples → s.under ≠ []) := by
  sorry

end AvgLearner1D
