import AdaptiveProofs.Lemmas.L1DBounds
import AdaptiveProofs.Lemmas.Greedy
import AdaptiveProofs.Lemmas.L1DGreedy
import AdaptiveProofs.Lemmas.L1DFinal

/-!
# C02 — Learner1D.ask places new points where they most reduce the worst loss

Property theorems only.  Model: `askPoints` / `askLoop` / `linspace` of `AdaptiveModel/L1D.lean`
(`_ask_points_without_adding`).  "Reachable state" = `run … (init lo hi …) ops` for ANY op list that is
valid in the sense of the property's quantifier (`ValidOps`: points inside the bounds, no empty batch); every
loss function, every `nn`, every request size `n`.  The former proviso "batched tells only once both end points
are known or pending" was needed before the repair `fix: Learner1D.tell_many batch path shrank the x-scale to the
range of the points` (to keep `lossScale = scaleX = hi - lo`, which C02.a/d/g/h rest on) and is gone now: the
theorems cover every history whose points lie inside the bounds (instance with a forced batch of interior
points only: `Examples/L1D.lean`, `opsNoEnds`).
-/
set_option linter.unusedSectionVars false
namespace L1D
variable {α : Type} [Field α] [LinearOrder α] [IsStrictOrderedRing α]
variable (lossFn : List (Option α) → List (Option (List α)) → Loss α) (r12 : α → α)

/-- C02.a  In every reachable state a request for `n` points returns exactly `n` points (and `n`
improvements), pairwise distinct, inside the domain, none of them evaluated or pending. -/
theorem c02_count_distinct_fresh {lo hi : α} (hlt : lo < hi) (factor dxEps : α) (nn : Nat)
    (ops : List (Op α)) (hv : ValidOps lossFn r12 (init lo hi factor dxEps nn) ops) (n : Nat) :
    let s := run lossFn r12 (init lo hi factor dxEps nn) ops
    (askPoints r12 s n).1.Nodup ∧
    (∀ x ∈ (askPoints r12 s n).1,
      lo ≤ x ∧ x ≤ hi ∧ x ∉ s.xsC ∧ hasData s x = false ∧ x ∉ s.pending) ∧
    (askPoints r12 s n).1.length = n ∧ (askPoints r12 s n).2.length = n :=
  ask_props_run lossFn r12 hlt factor dxEps nn ops hv n

/-- C02.b  Domain end points that are neither evaluated nor pending come first: they are a prefix of
the answer, and the whole answer when no more than that many points are requested. -/
theorem c02_bounds_first (s : State α) (n : Nat) :
    ((missingBounds s).length < n → s.data.length + s.pending.length ≠ 0 →
        missingBounds s <+: (askPoints r12 s n).1) ∧
    (n ≤ (missingBounds s).length → (askPoints r12 s n).1 = (missingBounds s).take n) :=
  ask_bounds_first r12 s n

/-- C02.c  With no data and no pending points the sampling is uniform (`np.linspace`). -/
theorem c02_empty_uniform (s : State α) (n : Nat)
    (hd : s.data = []) (hp : s.pending = []) (hn : (if s.lo = s.hi then 1 else 2) < n) :
    (askPoints r12 s n).1 = npLinspace s.lo s.hi n :=
  ask_empty_uniform r12 s n hd hp hn

/-- C02.d  The remaining points subdivide existing intervals into equal parts: the answer is the
missing bounds followed by `linspace l r k` (the `k-1` interior points `l + (r-l)/k·i`) of pairwise
different intervals, each of which is an interval between neighbouring known points (a key of
`losses_combined`) or the interval between a missing bound and the outermost known point. -/
theorem c02_equal_parts {lo hi : α} (hlt : lo < hi) (factor dxEps : α) (nn : Nat)
    (ops : List (Op α)) (hv : ValidOps lossFn r12 (init lo hi factor dxEps nn) ops) (n : Nat) :
    let s := run lossFn r12 (init lo hi factor dxEps nn) ops
    (missingBounds s).length < n → s.data.length + s.pending.length ≠ 0 →
    (askPoints r12 s n).1 =
      missingBounds s ++ (askQuals r12 s n).flatMap (fun q => linspace q.l q.r q.n) ∧
    (∀ q ∈ askQuals r12 s n, 1 ≤ q.n ∧
      ((q.l, q.r) ∈ pairs s.xsC ∨ ∃ q0 ∈ boundQuals s, q0.l = q.l ∧ q0.r = q.r)) ∧
    ((askQuals r12 s n).map qival).Nodup := by
  intro s hn hd
  obtain ⟨_, hI⟩ := binv_run lossFn r12 hlt factor dxEps nn ops hv
  obtain ⟨h1, h2, _⟩ := ask_equal_parts r12 s n hn hd
  refine ⟨h1, ?_, ask_equal_parts_inv r12 s n hI hd⟩
  intro q hq
  obtain ⟨a, b⟩ := h2 q hq
  refine ⟨a, ?_⟩
  rcases b with b | b
  · exact Or.inl ((hI.lossesC_keys _).1 b)
  · exact Or.inr b

/-- the `i`-th point of an equal subdivision -/
theorem c02_linspace_points (xl xr : α) (n i : Nat) :
    (linspace xl xr n)[i]? = if i < n - 1 then some (xl + (xr - xl) / n * (i + 1)) else none :=
  linspace_getElem? xl xr n i

/-- C02.e  Optimality of greedy water-filling (the mathematical core of the allocation loop): if an
allocation `g` of parts to intervals with weights `w ≥ 0` is produced by repeatedly giving one more part
to an interval whose rounded share `r (w i / g i)` is currently largest (ties broken arbitrarily), then
no allocation `a` with the same number of parts has a smaller largest rounded share. -/
theorem c02_greedy_optimal {ι : Type} [Fintype ι] [DecidableEq ι] {w : ι → α} {r : α → α}
    (hw : ∀ i, 0 ≤ w i) (hr : Monotone r) {k : ℕ} {g : ι → ℕ} (hg : Greedy w r k g)
    (a : ι → ℕ) (ha : ∀ i, 1 ≤ a i) (hsum : ∑ i, a i = ∑ i, g i)
    (M : α) (hM : ∀ i, r (w i / (a i : α)) ≤ M) : ∀ j, r (w j / (g j : α)) ≤ M :=
  greedy_optimal hw hr hg a ha hsum M hM

/-- C02.f  Committing is the same ask: `ask n true` returns the points and improvements of
`ask n false` and its state is `tell_pending` folded over the returned points; `ask n false`
leaves the state untouched. -/
theorem c02_commit_eq (s : State α) (n : Nat) :
    (ask lossFn r12 s n false).2 = s ∧
    (ask lossFn r12 s n true).2 = ((ask lossFn r12 s n false).1.1).foldl (tellPending lossFn r12) s ∧
    (ask lossFn r12 s n true).1 = (ask lossFn r12 s n false).1 :=
  ⟨rfl, rfl, rfl⟩

/-- C02.g  The allocation `ask` computes is optimal, in every state reachable by a valid history:
the candidate intervals are the intervals between neighbouring known points and the bound intervals
(`Cand s`), the weight `wOf` of an interval is its expected loss, or its relative width if that is
infinite, `gOf` is the number of parts the answer divides it into (`1` = untouched).  For every other
way `a` of distributing the same number of points, the largest rounded expected loss per part of the
code's allocation is no larger than that of `a` (`r12` any monotone rounding; expected losses in the
table non-negative, which holds for every non-negative loss function). -/
theorem c02_allocation_optimal (hr : Monotone r12) {lo hi : α} (hlt : lo < hi) (factor dxEps : α)
    (nn : Nat) (ops : List (Op α)) (hv : ValidOps lossFn r12 (init lo hi factor dxEps nn) ops)
    (n : Nat) :
    let s := run lossFn r12 (init lo hi factor dxEps nn) ops
    s.data.length + s.pending.length ≠ 0 →
    (∀ e ∈ s.lossesC, ∀ v, e.2 = .fin v → 0 ≤ v) →
    ∀ (a : Cand s → ℕ), (∀ i, 1 ≤ a i) →
      (∑ i, a i = ∑ i : Cand s, gOf (askQuals r12 s n) i.1) →
      ∀ M, (∀ i : Cand s, r12 (wOf s i.1 / (a i : α)) ≤ M) →
        ∀ i : Cand s, r12 (wOf s i.1 / (gOf (askQuals r12 s n) i.1 : α)) ≤ M := by
  intro s hd hw a ha hsum M hM
  obtain ⟨hb, hI⟩ := binv_run lossFn r12 hlt factor dxEps nn ops hv
  have hts : TablesSorted r12 s := tablesSorted_run lossFn r12 lo hi factor dxEps nn ops
  have hne : s.lossesC ≠ [] ∨ missingBounds s ≠ [] := by
    rcases ask_proviso hI hb with h | h | h
    · exact absurd h hd
    · exact Or.inl h
    · exact Or.inr h
  have hpos : 0 < s.scaleX := by rw [hb.scaleX]; exact sub_pos.2 hb.lt
  exact ask_greedy_optimal r12 hr s n hI hd hb.xsC_in hts (hb.lossScale.trans hb.scaleX.symm) hpos hw
    hne a ha hsum M hM

/-- C02.h  Allocation optimality with every side condition discharged: for every NON-NEGATIVE loss function and
every monotone rounding, in every state reachable by a valid history that holds at least one point, no other way
of distributing the same number of points over the candidate intervals has a smaller largest rounded expected
loss per part than the allocation `ask` computes. -/
theorem c02_allocation_optimal_nonneg (hnn : NonNegLoss lossFn) (hr : Monotone r12) {lo hi : α} (hlt : lo < hi)
    (factor dxEps : α) (nn : Nat) (ops : List (Op α))
    (hv : ValidOps lossFn r12 (init lo hi factor dxEps nn) ops) (n : Nat) :
    let s := run lossFn r12 (init lo hi factor dxEps nn) ops
    s.data.length + s.pending.length ≠ 0 →
    ∀ (a : Cand s → ℕ), (∀ i, 1 ≤ a i) →
      (∑ i, a i = ∑ i : Cand s, gOf (askQuals r12 s n) i.1) →
      ∀ M, (∀ i : Cand s, r12 (wOf s i.1 / (a i : α)) ≤ M) →
        ∀ i : Cand s, r12 (wOf s i.1 / (gOf (askQuals r12 s n) i.1 : α)) ≤ M := by
  intro s hd a ha hsum M hM
  exact ask_optimal_run lossFn r12 hnn hr hlt factor dxEps nn ops hv s rfl n hd a ha hsum M hM

end L1D
