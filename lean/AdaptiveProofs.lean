import AdaptiveProofs.AuditTool
import AdaptiveProofs.Props.C05
import AdaptiveProofs.Props.C06
import AdaptiveProofs.Props.C14
import AdaptiveProofs.Props.C17
import AdaptiveProofs.Props.C18
import AdaptiveProofs.Props.C19
import AdaptiveProofs.Props.C16
