import AdaptiveProofs.Lemmas.Seq
import AdaptiveProofs.Props.C05
import AdaptiveProofs.Props.C06
import AdaptiveProofs.Props.C19
