import AdaptiveProofs.Lemmas.Seq
