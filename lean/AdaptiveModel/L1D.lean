import AdaptiveModel.Scalar
/-
Model of `adaptive/learner/learner1D.py` (Learner1D).

Polymorphic in the scalar type `α` (executed at `Float` against the code, proved about over
ordered fields).  Parameters that are not field operations:
  * `lossFn`  — `loss_per_interval(xs_scaled, ys_scaled)`; the arguments are the `2+2·nn` scaled
                abscissae (`none` = missing neighbour) and scaled values (a value is a list of
                components; scalars are singletons).  In correspondence runs it is a table of the
                calls the real code made.
  * `r12`     — `lambda v: int(v * 1e12 + 0.5) / 1e12` of `finite_loss`.
Mirrors: `tell`, `tell_pending`, `tell_many` (loop and batch path), `remove_unfinished`,
`_update_losses`, `_update_interpolated_loss_in_interval`, `_get_loss_in_interval`, `_update_scale`,
`loss`, `_missing_bounds`, `_ask_points_without_adding`, `ask`, `linspace`, `finite_loss`,
`loss_manager` ordering, and the re-computation loop over a snapshot of the loss keys.
Out of scope (excluded by the properties' quantifiers): points outside the bounds, NaN values.
Hand-written; tied to /repo by `harness/l1d_drive.py`.
-/
namespace L1D

inductive Loss (α : Type) where
  | fin (v : α)
  | inf
deriving Repr, DecidableEq

abbrev Ival (α : Type) := α × α

structure State (α : Type) where
  lo : α
  hi : α
  nn : Nat
  factor : α                              -- `_recompute_losses_factor`
  dxEps : α                               -- `_dx_eps`
  data : List (α × List α) := []          -- dict, insertion order; value = components
  pending : List α := []                  -- set
  xs : List α := []                       -- keys of `neighbors` (sorted)
  xsC : List α := []                      -- keys of `neighbors_combined` (sorted)
  losses : List (Ival α × Loss α) := []   -- in ItemSortedDict order
  lossesC : List (Ival α × Loss α) := []
  lossScale : α                           -- x_scale captured by `loss_manager`
  bboxX : α × α
  bboxY : Option (List α × List α) := none   -- `none` = [inf, -inf]
  scaleX : α
  scaleY : α
  oldScaleY : α
deriving Repr

variable {α : Type}

section ops
variable [Add α] [Sub α] [Mul α] [Div α] [OfNat α 0] [OfNat α 1] [NatCast α]
  [LT α] [DecidableLT α] [DecidableEq α]

def init (lo hi factor dxEps : α) (nn : Nat) : State α :=
  { lo := lo, hi := hi, nn := nn, factor := factor, dxEps := dxEps, lossScale := hi - lo,
    bboxX := (lo, hi), scaleX := hi - lo, scaleY := 0, oldScaleY := 0 }

/-! ### sorted abscissa lists (`SortedDict` keys) -/
def sinsert (x : α) : List α → List α
  | [] => [x]
  | y :: r => if x < y then x :: y :: r else if x = y then y :: r else y :: sinsert x r

def leftOf (x : α) (l : List α) : Option α := (l.filter (fun y => y < x)).getLast?
def rightOf (x : α) (l : List α) : Option α := (l.filter (fun y => x < y)).head?

/-- `_find_neighbors(x, neighbors)` -/
def findNeighbors (x : α) (l : List α) : Option α × Option α := (leftOf x l, rightOf x l)

def dataGet (d : List (α × List α)) (x : α) : Option (List α) :=
  (d.find? (fun kv => kv.1 = x)).map Prod.snd

def hasData (s : State α) (x : α) : Bool := (dataGet s.data x).isSome

/-! ### the loss containers (`ItemSortedDict` with `sort_key`) -/

def Loss.mulDiv (c : α) (l : Loss α) (d : α) : Loss α :=     -- `c * loss / d`
  match l with
  | .fin v => .fin (c * v / d)
  | .inf => .inf

/-- `finite_loss(ival, loss, x_scale)[0]` for a 2-tuple interval -/
def finiteLoss (r12 : α → α) (iv : Ival α) (l : Loss α) (xScale : α) : α :=
  match l with
  | .fin v => r12 v
  | .inf => r12 ((iv.2 - iv.1) / xScale)

def ivalLt (a b : Ival α) : Bool := decide (a.1 < b.1) || (decide (a.1 = b.1) && decide (a.2 < b.2))

/-- strict order of `sort_key = (-loss, ival)` -/
def keyLt (r12 : α → α) (xScale : α) (a b : Ival α × Loss α) : Bool :=
  let la := finiteLoss r12 a.1 a.2 xScale
  let lb := finiteLoss r12 b.1 b.2 xScale
  decide (lb < la) || (decide (la = lb) && ivalLt a.1 b.1)

def linsert (r12 : α → α) (xScale : α) (e : Ival α × Loss α) :
    List (Ival α × Loss α) → List (Ival α × Loss α)
  | [] => [e]
  | f :: r => if keyLt r12 xScale e f then e :: f :: r else f :: linsert r12 xScale e r

def lerase (iv : Ival α) (l : List (Ival α × Loss α)) : List (Ival α × Loss α) :=
  l.filter (fun e => !(decide (e.1 = iv)))

/-- `d[ival] = loss` -/
def lset (r12 : α → α) (xScale : α) (iv : Ival α) (v : Loss α) (l : List (Ival α × Loss α)) :=
  linsert r12 xScale (iv, v) (lerase iv l)

def lget (iv : Ival α) (l : List (Ival α × Loss α)) : Option (Loss α) :=
  (l.find? (fun e => e.1 = iv)).map Prod.snd

/-! ### losses -/

/-- abscissa at index `i` of `neighbors` (`_get_point_by_index`), `i` may be out of range -/
def pointAt (l : List α) (i : Int) : Option α := if i < 0 then none else l[i.toNat]?

/-- `_get_loss_in_interval` -/
def getLoss (lossFn : List (Option α) → List (Option (List α)) → Loss α) (s : State α)
    (xl xr : α) : Loss α :=
  if xr - xl < s.dxEps then .fin 0 else
  let i : Int := (s.xs.findIdx (fun y => y = xl) : Nat)
  let idxs := (List.range (2 * s.nn + 2)).map (fun (k : Nat) => i - (s.nn : Int) + (k : Int))
  let pts := idxs.map (pointAt s.xs)
  let yScale := if s.scaleY = 0 then 1 else s.scaleY
  let xsS := pts.map (Option.map (fun x => x / s.scaleX))
  let ysS := pts.map (fun p => p.bind (fun x => (dataGet s.data x).map (fun y => y.map (· / yScale))))
  lossFn xsS ysS

/-- adjacent pairs of a list -/
def pairs : List α → List (Ival α)
  | a :: b :: r => (a, b) :: pairs (b :: r)
  | _ => []

variable (lossFn : List (Option α) → List (Option (List α)) → Loss α) (r12 : α → α)

/-- `_update_interpolated_loss_in_interval(x_left, x_right)` -/
def updInterp (s : State α) (xl xr : α) : State α :=
  let loss := getLoss lossFn s xl xr
  let losses := lset r12 s.lossScale (xl, xr) loss s.losses
  let dx := xr - xl
  let between := s.xsC.filter (fun y => !(decide (y < xl)) && !(decide (xr < y)))
  let lossesC := (pairs between).foldl
    (fun lc ab => lset r12 s.lossScale ab (Loss.mulDiv (ab.2 - ab.1) loss dx) lc) s.lossesC
  { s with losses := losses, lossesC := lossesC }

/-- `_get_intervals(x, neighbors, nn)` -/
def getIntervals (s : State α) (x : α) : List (Ival α) :=
  let i := s.xs.findIdx (fun y => y = x)
  let start := i - s.nn - 1
  let stop := min s.xs.length (i + s.nn + 2)
  pairs ((s.xs.drop start).take (stop - start))

/-- `_update_losses(x, real)`; `x` is already in `xsC` (and in `xs` when `real`) -/
def updateLosses (s : State α) (x : α) (real : Bool) : State α :=
  let (xl, xr) := findNeighbors x s.xs
  let (a, b) := findNeighbors x s.xsC
  let s := match a, b with
    | some a, some b => { s with lossesC := lerase (a, b) s.lossesC }
    | _, _ => s
  let s :=
    if real then
      let s := (getIntervals s x).foldl (fun s iv => updInterp lossFn r12 s iv.1 iv.2) s
      match xl, xr with
      | some xl, some xr => { s with losses := lerase (xl, xr) s.losses, lossesC := lerase (xl, xr) s.lossesC }
      | _, _ => s
    else
      match xl, xr, a, b with
      | some xl, some xr, some a, some b =>
        let dx := xr - xl
        let loss := (lget (xl, xr) s.losses).getD .inf
        let lc := lset r12 s.lossScale (a, x) (Loss.mulDiv (x - a) loss dx) s.lossesC
        let lc := lset r12 s.lossScale (x, b) (Loss.mulDiv (b - x) loss dx) lc
        { s with lossesC := lc }
      | _, _, _, _ => s
  let leftUnknown := xl.isNone || (!real && xr.isNone)
  let s := match a with
    | some a => if leftUnknown then { s with lossesC := lset r12 s.lossScale (a, x) .inf s.lossesC } else s
    | none => s
  let rightUnknown := xr.isNone || (!real && xl.isNone)
  match b with
  | some b => if rightUnknown then { s with lossesC := lset r12 s.lossScale (x, b) .inf s.lossesC } else s
  | none => s

def minL (a b : List α) : List α := List.zipWith (fun x y => if y < x then y else x) a b
def maxL (a b : List α) : List α := List.zipWith (fun x y => if x < y then y else x) a b
def maxOf (l : List α) : α := l.foldl (fun m x => if m < x then x else m) (l.headD 0)

/-- `_update_scale(x, y)` -/
def updateScale (s : State α) (x : α) (y : List α) : State α :=
  let bx := (if x < s.bboxX.1 then x else s.bboxX.1, if s.bboxX.2 < x then x else s.bboxX.2)
  let by' := match s.bboxY with
    | none => (y, y)
    | some (mn, mx) => (minL mn y, maxL mx y)
  { s with bboxX := bx, scaleX := bx.2 - bx.1, bboxY := some by',
           scaleY := maxOf (List.zipWith (· - ·) by'.2 by'.1) }

/-- `for interval in list(reversed(self.losses)): self._update_interpolated_loss_in_interval(*interval)`
— the keys are snapshotted before the loop (the loop body re-inserts the entry it visits). -/
def recomputeLoop (s : State α) (keys : List (Ival α)) : State α :=
  keys.foldl (fun s iv => updInterp lossFn r12 s iv.1 iv.2) s

def maybeRescale (s : State α) : State α :=
  if s.factor * s.oldScaleY < s.scaleY then
    let s := recomputeLoop lossFn r12 s (s.losses.map Prod.fst).reverse
    { s with oldScaleY := s.scaleY }
  else s

/-- `tell(x, y)` for `lo ≤ x ≤ hi` -/
def tell (s : State α) (x : α) (y : List α) : State α :=
  if hasData s x then s else
  let s := { s with data := s.data ++ [(x, y)], pending := s.pending.erase x }
  let s := { s with xsC := sinsert x s.xsC, xs := sinsert x s.xs }
  let s := updateScale s x y
  let s := updateLosses lossFn r12 s x true
  maybeRescale lossFn r12 s

/-- `tell_pending(x)` -/
def tellPending (s : State α) (x : α) : State α :=
  if hasData s x then s else
  let s := { s with pending := if x ∈ s.pending then s.pending else x :: s.pending,
                    xsC := sinsert x s.xsC }
  updateLosses lossFn r12 s x false

/-- `remove_unfinished()` -/
def removeUnfinished (s : State α) : State α :=
  { s with pending := [], lossesC := s.losses, xsC := s.xs }

/-- `self.data.update((x, y) for … if x not in self.data)`: a known point keeps its value -/
def dataSet (d : List (α × List α)) (x : α) (y : List α) : List (α × List α) :=
  if (dataGet d x).isSome then d else d ++ [(x, y)]

def sortList (l : List α) : List α := l.foldl (fun acc x => sinsert x acc) []

/-- the batch path of `tell_many(xs, ys)` -/
def tellManyBatch (s : State α) (pts : List (α × List α)) : State α :=
  let data := pts.foldl (fun d kv => dataSet d kv.1 kv.2) s.data
  let pending := s.pending.filter (fun p => !(pts.any (fun kv => decide (kv.1 = p))))
  let xs := sortList (data.map Prod.fst)
  let xsC := sortList (pending ++ data.map Prod.fst)
  let bx : α × α := (if s.lo < xsC.headD 0 then s.lo else xsC.headD 0,
                    if xsC.getLastD 0 < s.hi then s.hi else xsC.getLastD 0)
  let vals := data.map Prod.snd
  let mn := vals.foldl minL (vals.headD [])
  let mx := vals.foldl maxL (vals.headD [])
  let scaleX := bx.2 - bx.1
  let scaleY := maxOf (List.zipWith (· - ·) mx mn)
  let s := { s with data := data, pending := pending, xs := xs, xsC := xsC, bboxX := bx,
                    bboxY := some (mn, mx), scaleX := scaleX, scaleY := scaleY, oldScaleY := scaleY,
                    lossScale := scaleX, losses := [], lossesC := [] }
  let s := (pairs xs).foldl
    (fun s iv => { s with losses := lset r12 s.lossScale iv (getLoss lossFn s iv.1 iv.2) s.losses }) s
  -- losses_combined and the runs to interpolate
  let (s, toInterp) := (pairs xsC).foldl
    (fun (acc : State α × List (Ival α)) iv =>
      let (s, ti) := acc
      match lget iv s.losses with
      | some v => ({ s with lossesC := lset r12 s.lossScale iv v s.lossesC }, ti)
      | none =>
        let s := { s with lossesC := lset r12 s.lossScale iv .inf s.lossesC }
        match ti.getLast? with
        | some (a, b) =>
          if b = iv.1 ∧ !(hasData s b) then (s, ti.dropLast ++ [(a, iv.2)])
          else (s, ti ++ [iv])
        | none => (s, ti ++ [iv]))
    (s, [])
  toInterp.foldl
    (fun s iv => if (lget iv s.losses).isSome then updInterp lossFn r12 s iv.1 iv.2 else s) s

/-- `tell_many(xs, ys, force)` -/
def tellMany (s : State α) (pts : List (α × List α)) (force : Bool) : State α :=
  if !force && !(decide (s.data.length < 2 * pts.length) && decide (2 < pts.length)) then
    pts.foldl (fun s kv => tell lossFn r12 s kv.1 kv.2) s
  else tellManyBatch lossFn r12 s pts

/-- `_missing_bounds()` -/
def missingBounds (s : State α) : List α :=
  (if s.lo = s.hi then [s.lo] else [s.lo, s.hi]).filter
    (fun b => !(hasData s b) && !(s.pending.contains b))

/-- `loss(real)` -/
def loss (s : State α) (real : Bool) : Loss α :=
  if !(missingBounds s).isEmpty then .inf else
  match (if real then s.losses else s.lossesC) with
  | [] => .inf
  | e :: _ => e.2

/-! ### ask -/

/-- `linspace(x_left, x_right, n)` -/
def linspace (xl xr : α) (n : Nat) : List α :=
  if n = 1 then [] else
  let step := (xr - xl) / (n : α)
  (List.range (n - 1)).map (fun i => xl + step * ((i + 1 : Nat) : α))

/-- `np.linspace(a, b, n).tolist()` -/
def npLinspace (a b : α) (n : Nat) : List α :=
  if n = 0 then [] else if n = 1 then [a] else
  let step := (b - a) / ((n - 1 : Nat) : α)
  ((List.range (n - 1)).map (fun (i : Nat) => (i : α) * step + a)) ++ [b]

/-- an entry of `quals`: interval, number of parts, loss -/
structure Qual (α : Type) where
  l : α
  r : α
  n : Nat
  loss : Loss α
deriving Repr

/-- `finite_loss` for a 3-tuple -/
def qualFinite (xScale : α) (q : Qual α) : α :=
  match q.loss with
  | .fin v => r12 v
  | .inf => r12 ((q.r - q.l) / xScale / (q.n : α))

def qualIvalLt (a b : Qual α) : Bool :=
  decide (a.l < b.l) || (decide (a.l = b.l) && (decide (a.r < b.r) || (decide (a.r = b.r) && decide (a.n < b.n))))

def qualKeyLt (xScale : α) (a b : Qual α) : Bool :=
  let la := qualFinite r12 xScale a
  let lb := qualFinite r12 xScale b
  decide (lb < la) || (decide (la = lb) && qualIvalLt a b)

def qinsert (xScale : α) (q : Qual α) : List (Qual α) → List (Qual α)
  | [] => [q]
  | f :: r => if qualKeyLt r12 xScale q f then q :: f :: r else f :: qinsert xScale q r

def Loss.divNat (l : Loss α) (k : Nat) : Loss α :=
  match l with | .fin v => .fin (v / (k : α)) | .inf => .inf

def Loss.mulNatDivNat (l : Loss α) (n m : Nat) : Loss α :=
  match l with | .fin v => .fin (v * (n : α) / (m : α)) | .inf => .inf

/-- `self._loss(self.losses_combined, ival) >= self._loss(quals, qual)` (tuple comparison;
a 2-tuple that is a prefix of the 3-tuple is smaller) -/
def ivalGeQual (s : State α) (e : Ival α × Loss α) (q : Qual α) : Bool :=
  let le := finiteLoss r12 e.1 e.2 s.scaleX
  let lq := qualFinite r12 s.scaleX q
  if lq < le then true else if le < lq then false else
  -- equal losses: compare (a,b) with (l,r,n)
  if q.l < e.1.1 then true else if e.1.1 < q.l then false else
  if q.r < e.1.2 then true else false

/-- the greedy loop of `_ask_points_without_adding` -/
def askLoop (s : State α) : Nat → Nat → List (Qual α) → List (Qual α)
  | 0, _, quals => quals
  | k + 1, i, quals =>
    let ival := s.lossesC[i]?
    match quals, ival with
    | [], some e => askLoop s k (i + 1) (qinsert r12 s.scaleX ⟨e.1.1, e.1.2, 2, Loss.divNat e.2 2⟩ quals)
    | q :: rest, some e =>
      if ivalGeQual r12 s e q then
        askLoop s k (i + 1) (qinsert r12 s.scaleX ⟨e.1.1, e.1.2, 2, Loss.divNat e.2 2⟩ quals)
      else
        askLoop s k i (qinsert r12 s.scaleX ⟨q.l, q.r, q.n + 1, Loss.mulNatDivNat q.loss q.n (q.n + 1)⟩ rest)
    | q :: rest, none =>
      askLoop s k i (qinsert r12 s.scaleX ⟨q.l, q.r, q.n + 1, Loss.mulNatDivNat q.loss q.n (q.n + 1)⟩ rest)
    | [], none => quals      -- the code raises here (`quals[(*None, 2)]`): nothing to subdivide

def minOfL (l : List α) : α := l.foldl (fun m x => if x < m then x else m) (l.headD 0)
def maxOfL (l : List α) : α := l.foldl (fun m x => if m < x then x else m) (l.headD 0)

/-- `_ask_points_without_adding(n)`: points and loss improvements -/
def askPoints (s : State α) (n : Nat) : List α × List (Loss α) :=
  if n = 0 then ([], []) else
  let mb := missingBounds s
  if n ≤ mb.length then (mb.take n, List.replicate n .inf) else
  if s.data.length + s.pending.length = 0 then (npLinspace s.lo s.hi n, List.replicate n .inf) else
  let quals0 : List (Qual α) :=
    if mb.isEmpty then [] else
      let all := s.data.map Prod.fst ++ s.pending
      let q1 := if mb.contains s.lo then [(⟨s.lo, minOfL all, 1, .inf⟩ : Qual α)] else []
      let q2 := if mb.contains s.hi then [(⟨maxOfL all, s.hi, 1, .inf⟩ : Qual α)] else []
      (q1 ++ q2).foldl (fun qs q => qinsert r12 s.scaleX q qs) []
  let quals := askLoop r12 s (n - mb.length) 0 quals0
  let pts := quals.flatMap (fun q => linspace q.l q.r q.n)
  let imps := quals.flatMap (fun q => List.replicate (q.n - 1) q.loss)
  (mb ++ pts, List.replicate mb.length .inf ++ imps)

/-- `ask(n, tell_pending)` -/
def ask (s : State α) (n : Nat) (commit : Bool) : (List α × List (Loss α)) × State α :=
  let r := askPoints r12 s n
  (r, if commit then r.1.foldl (tellPending lossFn r12) s else s)

/-! ### operations and runs (the histories the properties quantify over) -/
inductive Op (α : Type) where
  | tell (x : α) (y : List α)
  | tellPending (x : α)
  | tellMany (pts : List (α × List α)) (force : Bool)
  | removeUnfinished
  | ask (n : Nat) (commit : Bool)
deriving Repr

def step (s : State α) : Op α → State α
  | .tell x y => tell lossFn r12 s x y
  | .tellPending x => tellPending lossFn r12 s x
  | .tellMany pts f => tellMany lossFn r12 s pts f
  | .removeUnfinished => removeUnfinished s
  | .ask n c => (ask lossFn r12 s n c).2

def run (s : State α) (ops : List (Op α)) : State α := ops.foldl (step lossFn r12) s

end ops
end L1D
