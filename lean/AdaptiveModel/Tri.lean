/-
Model of `adaptive/learner/triangulation.py`, class `Triangulation` — the COMBINATORIAL state.

Hand-written; tied to /repo by the correspondence check `harness/props/c03.py` (the same insertions are
run on the real class and on `Tri.addPoint` below; `simplices`, `vertex_to_simplices` and the value
returned by `add_point` must agree exactly after every insertion).

State mirrors the attributes of the class:
  `len(self.vertices)`        ↦ `nVerts`   (the coordinates stay on the Python side)
  `self.dim`                  ↦ `dim`
  `self.simplices`            ↦ `simplices` (set of sorted index tuples: a list read as a set)
  `self.vertex_to_simplices`  ↦ `vts`       (list of sets, indexed by vertex)

Every geometric decision of the code is an ORACLE (`Oracle`), i.e. an input of the model:
  `locate_point(point)`                        ↦ `locate`   (the simplex returned; `[]` = outside the hull)
  `get_reduced_simplex(point, simplex)`        ↦ `reduced`  (the list returned)
  `orientation(face, pt_center)`, `orientation(face, new_vertex)` in `_extend_hull`
                                               ↦ `orient`   (face ↦ the two values)
  `_simplex_is_almost_flat(simplex)`           ↦ `flat`     (simplex ↦ answer)
  `point_in_cicumcircle(pt_index, simplex, T)` ↦ `circ`     (the calls IN CALL ORDER: one call per
                                                 `queue.pop()` of `bowyer_watson`, so this stream is also
                                                 the order in which the hash set `queue` yielded its elements)
The work-list of `bowyer_watson` is therefore RELATIONAL: the model takes the code's actual choice and
checks that it is an element of its own queue; theorems hold for every choice.  `orient` and `flat` are
multisets of recorded calls: every lookup consumes one record, and on every exit of `addPoint` both
must be used up — a lookup the code never made, or a call of the code the model never asked for, ends
in `Err.diverged` (a correspondence failure, never a verdict about the property).

Iteration over hash sets whose order does not influence the final state is canonicalised (list order):
the hull faces in `_extend_hull` and the hole faces in `bowyer_watson` (each iteration only performs
`add_simplex` of a different simplex and set insertion, which commute), the revert loop of
`_extend_hull`, `set.union` / set difference results.

Exceptions: `ValueError`s raised on purpose are `Err.reject why s` and carry the state the object is
left in; `KeyError` (`set.remove` of a missing element), `IndexError` (list index out of range) and the
`RuntimeError` of the `hull` property are the other ways the Python code can leave `add_point`; they
carry no state (the object is broken, histories stop there).  Not modelled: negative indices (Python
wraps them), `TypeError` of `set.union()` without arguments (simplex with no vertices).
-/
namespace Tri

abbrev Simplex := List Nat

/-- insertion into an increasing list -/
def insertS (a : Nat) : List Nat → List Nat
  | [] => [a]
  | b :: l => if a ≤ b then a :: b :: l else b :: insertS a l

/-- `tuple(sorted(simplex))` (insertion sort: structurally recursive, so the kernel can evaluate the model) -/
def sortS (t : Simplex) : Simplex := t.foldr insertS []

/-- `set.add` -/
def setAdd {α : Type} [DecidableEq α] (x : α) (l : List α) : List α := if x ∈ l then l else l ++ [x]

/-- the set without `x` (`set.remove` once membership is known, set difference with a singleton) -/
def setDel {α : Type} [DecidableEq α] (x : α) (l : List α) : List α := l.filter (fun y => y ≠ x)

/-- `a | b` -/
def setUnion {α : Type} [DecidableEq α] (a b : List α) : List α := b.foldl (fun acc x => setAdd x acc) a

/-- `a - b` -/
def setDiff {α : Type} [DecidableEq α] (a b : List α) : List α := a.filter (fun x => x ∉ b)

/-- `itertools.combinations(l, k)` (same order) -/
def combos {α : Type} : Nat → List α → List (List α)
  | 0, _ => [[]]
  | _ + 1, [] => []
  | k + 1, x :: xs => (combos k xs).map (x :: ·) ++ combos (k + 1) xs

structure State where
  dim : Nat
  nVerts : Nat
  simplices : List Simplex
  vts : List (List Simplex)
deriving Repr, DecidableEq

inductive Reject where
  /-- "Point lies outside of the specified simplex." -/
  | outsideSimplex
  /-- "Point already in triangulation." -/
  | duplicate
  /-- "Candidate vertex is inside the hull." -/
  | insideHull
deriving Repr, DecidableEq

inductive Err where
  | reject (why : Reject) (s : State)
  | keyError
  | indexError
  | runtimeError
  | diverged (msg : String)
deriving Repr, DecidableEq

/-- recorded geometric decisions of one `add_point` call -/
structure Oracle where
  locate : Option Simplex := none
  reduced : Option (List Nat) := none
  orient : List (Simplex × Int × Int) := []
  flat : List (Simplex × Bool) := []
  circ : List (Simplex × Bool) := []
deriving Repr

/-- consume one recorded call with key `k` -/
def take {β : Type} (k : Simplex) : List (Simplex × β) → Option (β × List (Simplex × β))
  | [] => none
  | (k', v) :: r =>
    if k' = k then some (v, r)
    else match take k r with
      | none => none
      | some (v', r') => some (v', (k', v) :: r')

/-- `for vertex in simplex: self.vertex_to_simplices[vertex].add(simplex)` -/
def addTo (t : Simplex) : List Nat → List (List Simplex) → Except Err (List (List Simplex))
  | [], vts => .ok vts
  | v :: vs, vts =>
    match vts[v]? with
    | none => .error .indexError
    | some l => addTo t vs (vts.set v (setAdd t l))

/-- `add_simplex` -/
def addSimplex (s : State) (t : Simplex) : Except Err State :=
  let t := sortS t
  match addTo t t s.vts with
  | .error e => .error e
  | .ok vts => .ok { s with simplices := setAdd t s.simplices, vts := vts }

/-- `for vertex in simplex: self.vertex_to_simplices[vertex].remove(simplex)` -/
def delFrom (t : Simplex) : List Nat → List (List Simplex) → Except Err (List (List Simplex))
  | [], vts => .ok vts
  | v :: vs, vts =>
    match vts[v]? with
    | none => .error .indexError
    | some l => if t ∈ l then delFrom t vs (vts.set v (setDel t l)) else .error .keyError

/-- `delete_simplex` -/
def deleteSimplex (s : State) (t : Simplex) : Except Err State :=
  let t := sortS t
  if t ∈ s.simplices then
    match delFrom t t s.vts with
    | .error e => .error e
    | .ok vts => .ok { s with simplices := setDel t s.simplices, vts := vts }
  else .error .keyError

/-- `__init__`: `add_simplex` of every simplex of the initial (SciPy) triangulation -/
def addAll : State → List Simplex → Except Err State
  | s, [] => .ok s
  | s, t :: ts => match addSimplex s t with
    | .error e => .error e
    | .ok s' => addAll s' ts

def init (dim nVerts : Nat) (initial : List Simplex) : Except Err State :=
  addAll { dim := dim, nVerts := nVerts, simplices := [], vts := List.replicate nVerts [] } initial

/-- `list(self.faces(simplices=sx))`: all `dim`-subsets of every simplex, with repetitions -/
def facesOf (dim : Nat) (sx : List Simplex) : List Simplex := sx.flatMap (combos dim)

/-- `set.union(*[self.vertex_to_simplices[p] for p in simplex])` -/
def neighborsFromVertices (vts : List (List Simplex)) : List Nat → Except Err (List Simplex)
  | [] => .ok []
  | p :: ps =>
    match vts[p]? with
    | none => .error .indexError
    | some l => match neighborsFromVertices vts ps with
      | .error e => .error e
      | .ok r => .ok (setUnion l r)

/-- `len(set(a) & set(b))` -/
def sharedCount (a b : Simplex) : Nat := (a.eraseDups.filter (· ∈ b)).length

/-- the `while len(queue)` loop of `bowyer_watson`; one iteration per recorded `point_in_cicumcircle` call -/
def bwLoop (dim : Nat) : List (Simplex × Bool) → State → (queue done bad : List Simplex) →
    Except Err (State × List Simplex)
  | [], s, queue, _, bad =>
    if queue = [] then .ok (s, bad) else .error (.diverged "bowyer_watson: queue not empty but the code made no further circumcircle call")
  | (t, ans) :: rest, s, queue, done, bad =>
    if queue = [] then .error (.diverged "bowyer_watson: queue empty but the code made a further circumcircle call")
    else if t ∉ queue then .error (.diverged "bowyer_watson: the simplex the code popped is not in the model's queue")
    else
      let queue := setDel t queue
      let done := setAdd t done
      if ans then
        match deleteSimplex s t with
        | .error e => .error e
        | .ok s1 =>
          let bad := setAdd t bad
          match neighborsFromVertices s1.vts t.eraseDups with
          | .error e => .error e
          | .ok nb =>
            let nb := setDiff nb done
            let nb := nb.filter (fun u => sharedCount u t = dim)
            bwLoop dim rest s1 (setUnion queue nb) done bad
      else bwLoop dim rest s queue done bad

/-- `for face in hole_faces: if pt_index not in face: …` -/
def holeLoop (pt : Nat) : List Simplex → State → List (Simplex × Bool) → Except Err (State × List (Simplex × Bool))
  | [], s, fl => .ok (s, fl)
  | face :: fs, s, fl =>
    if pt ∈ face then holeLoop pt fs s fl
    else
      let simplex := face ++ [pt]
      match take simplex fl with
      | none => .error (.diverged "bowyer_watson: no recorded _simplex_is_almost_flat call")
      | some (isFlat, fl') =>
        if isFlat then holeLoop pt fs s fl'
        else match addSimplex s simplex with
          | .error e => .error e
          | .ok s' => holeLoop pt fs s' fl'

/-- `bowyer_watson(pt_index, containing_simplex, transform)`; returns the state, the two reported sets and
the unused `flat` records -/
def bowyerWatson (s : State) (pt : Nat) (start : Option Simplex) (circ : List (Simplex × Bool))
    (fl : List (Simplex × Bool)) : Except Err (State × List Simplex × List Simplex × List (Simplex × Bool)) :=
  let queue? : Option (List Simplex) := match start with
    | none => s.vts[pt]?
    | some c => some [c]
  match queue? with
  | none => .error .indexError
  | some queue =>
    match bwLoop s.dim circ s queue [] [] with
    | .error e => .error e
    | .ok (s1, bad) =>
      let faces := facesOf s1.dim bad
      let hole := faces.filter (fun f => faces.count f < 2)
      match holeLoop pt hole s1 fl with
      | .error e => .error e
      | .ok (s2, fl') =>
        match s2.vts[pt]? with
        | none => .error .indexError
        | some newT => .ok (s2, setDiff bad newT, setDiff newT bad, fl')

/-- `for face in hull_faces: …` of `_extend_hull` -/
def hullLoop (pt : Nat) : List Simplex → State → (new : List Simplex) → List (Simplex × Int × Int) →
    List (Simplex × Bool) → Except Err (State × List Simplex × List (Simplex × Int × Int) × List (Simplex × Bool))
  | [], s, new, ori, fl => .ok (s, new, ori, fl)
  | face :: fs, s, new, ori, fl =>
    match take face ori with
    | none => .error (.diverged "_extend_hull: no recorded orientation calls for a hull face")
    | some ((oInside, oNew), ori') =>
      if oInside = -oNew then
        let simplex := face ++ [pt]
        match take simplex fl with
        | none => .error (.diverged "_extend_hull: no recorded _simplex_is_almost_flat call")
        | some (isFlat, fl') =>
          if isFlat then hullLoop pt fs s new ori' fl'
          else match addSimplex s simplex with
            | .error e => .error e
            | .ok s' => hullLoop pt fs s' (setAdd simplex new) ori' fl'
      else hullLoop pt fs s new ori' fl

/-- `for tri in self.vertex_to_simplices[pt_index]: self.simplices.remove(tri)` -/
def removeAll : List Simplex → List Simplex → Except Err (List Simplex)
  | [], sx => .ok sx
  | t :: ts, sx => if t ∈ sx then removeAll ts (setDel t sx) else .error .keyError

/-- `_extend_hull(new_vertex)` (called after `add_point` has appended an empty set to `vts`) -/
def extendHull (s : State) (ori : List (Simplex × Int × Int)) (fl : List (Simplex × Bool)) :
    Except Err (State × List Simplex × List (Simplex × Bool)) :=
  let faces := facesOf s.dim s.simplices
  let hullFaces := (faces.filter (fun f => faces.count f = 1))
  -- `self.hull`
  if faces.any (fun f => faces.count f > 2) then .error .runtimeError
  else
    let pt := s.nVerts
    let s1 := { s with nVerts := s.nVerts + 1 }
    match hullLoop pt hullFaces s1 [] ori fl with
    | .error e => .error e
    | .ok (s2, new, ori', fl') =>
      if ori' ≠ [] then .error (.diverged "_extend_hull: the code made orientation calls the model did not ask for")
      else if new = [] then
        -- "We tried to add an internal point, revert and raise."
        match s2.vts[pt]? with
        | none => .error .indexError
        | some l => match removeAll l s2.simplices with
          | .error e => .error e
          | .ok sx =>
            if fl' ≠ [] then .error (.diverged "_extend_hull: unused _simplex_is_almost_flat records")
            else .error (.reject .insideHull { s2 with simplices := sx, vts := s2.vts.eraseIdx pt, nVerts := pt })
      else .ok (s2, new, fl')

/-- `add_point(point, simplex=hint, transform)`; `hint = none` is `simplex=None`, `some []` is `simplex=()`.
Returns the new state and `(deleted, added)`. -/
def addPoint (s : State) (hint : Option Simplex) (o : Oracle) : Except Err (State × List Simplex × List Simplex) :=
  let simplex? : Except Err Simplex := match hint with
    | some h => if o.locate = none then .ok h else .error (.diverged "add_point: locate_point called although a simplex was given")
    | none => match o.locate with
      | none => .error (.diverged "add_point: no recorded locate_point call")
      | some l => if l = [] ∨ l ∈ s.simplices then .ok l
                  else .error (.diverged "add_point: locate_point returned something that is not a simplex")
  match simplex? with
  | .error e => .error e
  | .ok simplex =>
    -- `self.vertex_to_simplices.append(set())`
    let s1 := { s with vts := s.vts ++ [[]] }
    if simplex = [] then
      if o.reduced ≠ none then .error (.diverged "add_point: get_reduced_simplex called on the hull-extension path") else
      match extendHull s1 o.orient o.flat with
      | .error e => .error e
      | .ok (s2, temp, fl) =>
        let pt := s2.nVerts - 1
        match bowyerWatson s2 pt none o.circ fl with
        | .error e => .error e
        | .ok (s3, del, add, fl') =>
          if fl' ≠ [] then .error (.diverged "add_point: unused _simplex_is_almost_flat records")
          else .ok (s3, setDiff del temp, setUnion add (setDiff temp del))
    else
      match o.reduced with
      | none => .error (.diverged "add_point: no recorded get_reduced_simplex call")
      | some red =>
        if o.orient ≠ [] then .error (.diverged "add_point: orientation calls outside _extend_hull")
        else if red = [] then
          if o.flat ≠ [] ∨ o.circ ≠ [] then .error (.diverged "add_point: predicate calls on a rejecting path")
          else .error (.reject .outsideSimplex { s1 with vts := s1.vts.dropLast })
        else if red.length = 1 then
          if o.flat ≠ [] ∨ o.circ ≠ [] then .error (.diverged "add_point: predicate calls on a rejecting path")
          else .error (.reject .duplicate { s1 with vts := s1.vts.dropLast })
        else
          let pt := s1.nVerts
          match bowyerWatson { s1 with nVerts := pt + 1 } pt (some simplex) o.circ o.flat with
          | .error e => .error e
          | .ok (s3, del, add, fl') =>
            if fl' ≠ [] then .error (.diverged "add_point: unused _simplex_is_almost_flat records")
            else .ok (s3, del, add)

end Tri
