import AdaptiveModel.Gen.QuadTables

/-!
# Polynomials as coefficient lists, and rational views of the generated quadrature tables   (C08; core only)

`Gen/QuadTables.lean` holds the exact tables of `adaptive/learner/integrator_coeffs.py` as integers.  This file
gives them their meaning:

* `legP n`     — row `n` of `legendre(34)` as a `List Rat` (constant term first, like the python lists);
* `newtonP r`  — `newton(ns[r])` as a `List Rat`;
* `xiRow r`    — node table `xi[r]` as exact rationals (every double is a dyadic rational);
* `bdefRow r`  — `scalar_product(newton(ns[r]), P_k)`, `k = 0 … ns[r]`, the exact part of `calc_bdef`;

and defines the few polynomial operations the theorems of `AdaptiveProofs/Props/C08.lean` are stated with
(`padd`, `pscale`, `pshift`, `pmul`, `peval`), the exact integral of a coefficient list over `[-1, 1]`
(`integ`: `∫ x^k = 0` for odd `k`, `2/(k+1)` for even `k`), the scalar product `inner p q = ∫_{-1}^{1} p q`
(what `scalar_product` of the module computes), Bonnet's recursion (`legRec`) and the Chebyshev polynomials of the
second kind (`chebU`).  Everything is structurally recursive so that the kernel can evaluate it.
-/
namespace QuadPoly

section ops
variable {α : Type}

/-- coefficient-wise sum; the shorter list is padded with zeros -/
def padd [Add α] : List α → List α → List α
  | [], q => q
  | a :: p, [] => a :: p
  | a :: p, b :: q => (a + b) :: padd p q

/-- `c · p` -/
def pscale [Mul α] (c : α) (p : List α) : List α := p.map (c * ·)

/-- `X · p` -/
def pshift [Zero α] (p : List α) : List α := 0 :: p

/-- product of two polynomials (school multiplication, `p = a + X p'`) -/
def pmul [Zero α] [Add α] [Mul α] : List α → List α → List α
  | [], _ => []
  | a :: p, q => padd (pscale a q) (pshift (pmul p q))

/-- value at `x` (Horner) -/
def peval [Zero α] [Add α] [Mul α] (p : List α) (x : α) : α :=
  p.foldr (fun a acc => a + x * acc) 0

end ops

/-! ## the exact integral over `[-1, 1]` -/

/-- `∫_{-1}^{1} x^k dx` -/
def mom (k : Nat) : Rat := if k % 2 = 0 then 2 / ((k : Rat) + 1) else 0

/-- `∫_{-1}^{1} x^k (c₀ + c₁ x + …) dx` -/
def integFrom (k : Nat) : List Rat → Rat
  | [] => 0
  | c :: cs => c * mom k + integFrom (k + 1) cs

/-- `∫_{-1}^{1} (c₀ + c₁ x + …) dx`, exactly -/
def integ (c : List Rat) : Rat := integFrom 0 c

/-- `∫_{-1}^{1} x^k p q = Σ_a p_a ∫_{-1}^{1} x^{k+a} q` -/
def innerFrom (k : Nat) : List Rat → List Rat → Rat
  | [], _ => 0
  | a :: p, q => a * integFrom k q + innerFrom (k + 1) p q

/-- `∫_{-1}^{1} p q`, exactly: the polynomial scalar product (what `integrator_coeffs.scalar_product` computes).
`AdaptiveProofs/Lemmas/QuadTablesPoly.lean` proves `inner p q = integ (pmul p q)`, symmetry, and that it *is* the
integral `∫ x in -1..1, p(x) q(x)` over the reals. -/
def inner (p q : List Rat) : Rat := innerFrom 0 p q

/-! ## rational views of the generated tables -/

/-- integer numerators over a common denominator -/
def ratRow (num : List Int) (den : Nat) : List Rat := num.map (fun (a : Int) => (a : Rat) / (den : Rat))

open Gen.QuadTables

/-- `legendre(34)[n]` (empty list beyond the table) -/
def legP (n : Nat) : List Rat := ratRow (legNum.getD n []) (legDen.getD n 1)

/-- `newton(ns[r])`, `r = 0 … 3` -/
def newtonP (r : Nat) : List Rat := ratRow (newtonNum.getD r []) (newtonDen.getD r 1)

/-- `xi[r]`, `r = 0 … 3`, exact values of the doubles -/
def xiRow (r : Nat) : List Rat := ratRow (xiNum.getD r []) xiDen

/-- `[scalar_product(newton(ns[r]), P_k) for k in 0 … ns[r]]` -/
def bdefRow (r : Nat) : List Rat := ratRow (bdefNum.getD r []) (bdefDen.getD r 1)

/-- `ns[r]` -/
def nsAt (r : Nat) : Nat := ns.getD r 0

/-- exact value of the finite IEEE-754 binary64 number with bit pattern `b` -/
def bitsValue (b : Nat) : Rat :=
  let sign : Rat := if b / 2 ^ 63 % 2 = 1 then -1 else 1
  let e : Nat := b / 2 ^ 52 % 2048
  let m : Nat := b % 2 ^ 52
  let mant : Nat := if e = 0 then m else 2 ^ 52 + m
  let ee : Nat := if e = 0 then 1 else e
  if ee ≥ 1075 then sign * ((mant * 2 ^ (ee - 1075) : Nat) : Rat)
  else sign * ((mant : Nat) : Rat) / ((2 ^ (1075 - ee) : Nat) : Rat)

/-! ## the classical recursions -/

/-- `(P_n, P_{n+1})` by Bonnet's recursion `(n+2) P_{n+2} = (2n+3) X P_{n+1} − (n+1) P_n`, `P_0 = 1`, `P_1 = X` -/
def legRecPair : Nat → List Rat × List Rat
  | 0 => ([1], [0, 1])
  | n + 1 =>
    let ab := legRecPair n
    (ab.2, pscale (1 / ((n : Rat) + 2))
      (padd (pscale (2 * (n : Rat) + 3) (pshift ab.2)) (pscale (-((n : Rat) + 1)) ab.1)))

/-- the classical Legendre polynomial `P_n` (coefficient list) -/
def legRec (n : Nat) : List Rat := (legRecPair n).1

/-- `(U_k, U_{k+1})`: Chebyshev polynomials of the second kind, `U_0 = 1`, `U_1 = 2X`, `U_{k+2} = 2X U_{k+1} − U_k` -/
def chebPair : Nat → List Int × List Int
  | 0 => ([1], [0, 2])
  | k + 1 =>
    let ab := chebPair k
    (ab.2, padd (pscale 2 (pshift ab.2)) (pscale (-1) ab.1))

/-- `U_k` (integer coefficient list) -/
def chebU (k : Nat) : List Int := (chebPair k).1

/-- `(X² − 1) · U_{n−2} / 2^{n−2}`: the monic polynomial whose roots are the `n` Clenshaw–Curtis nodes
`−cos(kπ/(n−1))`, `k = 0 … n−1` -/
def ccNodal (n : Nat) : List Rat := ratRow (pmul [-1, 0, 1] (chebU (n - 2))) (2 ^ (n - 2))

end QuadPoly
