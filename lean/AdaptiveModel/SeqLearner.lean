import AdaptiveModel.Seq
import AdaptiveModel.Learner
/-- the SequenceLearner model packaged as a `Learner` (points = indices) -/
def Seq.asLearner (β : Type) : Learner (Seq.State β) Nat β where
  ask s n c := Seq.ask s n c
  tell s i v := Seq.tell s i v
  tellPending s i := Seq.tellPending s i
  removeUnfinished s := Seq.removeUnfinished s
