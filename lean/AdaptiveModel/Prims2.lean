import AdaptiveModel.Gen.Prims
/-!
Hand models of the loss / geometry primitives of property C20 that `harness/translate.py` does not generate
(array code over a whole triangulation, closures, `numpy.linalg`): followed line by line for ONE triangle / ONE
interval, scalar values.  Core Lean only; polymorphic in the scalar; `sqrt` / `abs` are explicit parameters (as in
`Gen/Prims.lean`).  Executed at `Float` by `Drv/Prims2.lean`, tied bit for bit to the real functions by
`harness/prims2_corr.py`, proved about in `AdaptiveProofs/Lemmas/Prims2.lean` and `Props/C20More.lean`.

## A. `adaptive/learner/learner2D.py`

```
def areas(ip):
    p = ip.tri.points[ip.tri.simplices]
    q = p[:, :-1, :] - p[:, -1, None, :]
    areas = abs(q[:, 0, 0] * q[:, 1, 1] - q[:, 0, 1] * q[:, 1, 0]) / 2

def uniform_loss(ip):  return np.sqrt(areas(ip))

def minimize_triangle_surface_loss(ip):
    points = tri.points[tri.simplices]
    values = ip.values[tri.simplices]
    values = values / (np.ptp(ip.values, axis=0).max() or 1)
    def _get_vectors(points):
        delta = points - points[:, -1, :][:, None, :]
        vectors = delta[:, :2, :]
        return vectors[:, 0, :], vectors[:, 1, :]
    a_xy, b_xy = _get_vectors(points);  a_z, b_z = _get_vectors(values)
    a = np.hstack([a_xy, a_z]);  b = np.hstack([b_xy, b_z])
    return np.linalg.norm(np.cross(a, b) / 2, axis=1)

def choose_point_in_triangle(triangle, max_badness):
    a, b, c = triangle
    (ux, uy), (vx, vy) = b - a, c - a
    area = 0.5 * abs(ux * vy - uy * vx)
    triangle_roll = np.roll(triangle, 1, axis=0)
    edge_lengths = np.linalg.norm(triangle - triangle_roll, axis=1)
    i = edge_lengths.argmax()
    badness = (edge_lengths[i] ** 2 / area) * (sqrt(3) / 4)
    if badness > max_badness:
        point = (triangle_roll[i] + triangle[i]) / 2
    else:
        point = triangle.mean(axis=0)
```

Numerical facts measured on the real code (numpy 2.5.3 / scipy 1.18.1, `prims2_corr.py`):
* `np.cross(a, b)` for 3-vectors is `(a1*b2 - a2*b1, a2*b0 - a0*b2, a0*b1 - a1*b0)`, each product and the difference
  rounded separately (separate ufunc calls, no fused multiply-add);
* `np.linalg.norm(x, axis=1)` is `sqrt(add.reduce(x*x, axis=1))`; for rows of length 3 the sum is `(s0 + s1) + s2`,
  for rows of length 2 `s0 + s1`;
* `triangle.mean(axis=0)` is `((a + b) + c) / 3` per coordinate;
* `edge_lengths[i] ** 2` is `pow(x, 2.0)` of the C library on a numpy scalar, which differs from `x * x` (what the
  model computes) by one unit in the last place in about 0.08 % of the arguments: the badness can be 1-3 ulp off, which
  matters only for a badness within that distance of `max_badness` (the returned point itself is computed exactly);
* `argmax` takes the FIRST maximum.

## B. `adaptive/learner/learner1D.py`: `resolution_loss_function`, `curvature_loss_function`
## C. `adaptive/learner/learnerND.py`: `default_loss` (2-D domain, scalar values)
## D. `adaptive/learner/triangulation.py`: `orientation`
(quoted at the definitions)
-/
set_option linter.unusedVariables false
namespace Prims2
open Gen.Prims

variable {α : Type}

/-! ## A. Learner2D, one triangle -/
section l2d

/-- `learner2D.areas` for ONE triangle whose three points (in the order of `ip.tri.simplices[k]`) are `p0 p1 p2`:
the LAST vertex is subtracted -/
def l2d_area [Sub α] [Mul α] [Div α] [OfNat α 2] (abs : α → α) (x0 y0 x1 y1 x2 y2 : α) : α :=
  let q00 : α := x0 - x2
  let q01 : α := y0 - y2
  let q10 : α := x1 - x2
  let q11 : α := y1 - y2
  (abs ((q00 * q11) - (q01 * q10))) / (2 : α)

/-- `learner2D.uniform_loss` for one triangle -/
def l2d_uniform_loss [Sub α] [Mul α] [Div α] [OfNat α 2] (sqrt abs : α → α) (x0 y0 x1 y1 x2 y2 : α) : α :=
  sqrt (l2d_area abs x0 y0 x1 y1 x2 y2)

/-- the normalisation constant of `minimize_triangle_surface_loss`: `np.ptp(ip.values, axis=0).max() or 1` from the
smallest and the largest value of the whole interpolator -/
def l2d_value_scale [Sub α] [LT α] [DecidableLT α] [OfNat α 0] [OfNat α 1] (vmin vmax : α) : α :=
  let ptp : α := vmax - vmin
  if (0 : α) < ptp then ptp else (1 : α)

/-- the three components of `np.cross(a, b) / 2` for one triangle; `c` is the normalisation constant -/
def l2d_surface_cross [Sub α] [Mul α] [Div α] [OfNat α 2]
    (x0 y0 x1 y1 x2 y2 : α) (v0 v1 v2 : α) (c : α) : α × α × α :=
  let w0 : α := v0 / c
  let w1 : α := v1 / c
  let w2 : α := v2 / c
  let a0 : α := x0 - x2
  let a1 : α := y0 - y2
  let b0 : α := x1 - x2
  let b1 : α := y1 - y2
  let a2 : α := w0 - w2
  let b2 : α := w1 - w2
  let cp0 : α := ((a1 * b2) - (a2 * b1)) / (2 : α)
  let cp1 : α := ((a2 * b0) - (a0 * b2)) / (2 : α)
  let cp2 : α := ((a0 * b1) - (a1 * b0)) / (2 : α)
  (cp0, cp1, cp2)

/-- argument of the final square root of `minimize_triangle_surface_loss` -/
def l2d_surface_loss_radicand [Add α] [Sub α] [Mul α] [Div α] [OfNat α 2]
    (x0 y0 x1 y1 x2 y2 : α) (v0 v1 v2 : α) (c : α) : α :=
  let cp : α × α × α := l2d_surface_cross x0 y0 x1 y1 x2 y2 v0 v1 v2 c
  ((cp.1 * cp.1) + (cp.2.1 * cp.2.1)) + (cp.2.2 * cp.2.2)

/-- `learner2D.minimize_triangle_surface_loss` for one triangle with scalar values -/
def l2d_surface_loss [Add α] [Sub α] [Mul α] [Div α] [OfNat α 2] (sqrt : α → α)
    (x0 y0 x1 y1 x2 y2 : α) (v0 v1 v2 : α) (c : α) : α :=
  sqrt (l2d_surface_loss_radicand x0 y0 x1 y1 x2 y2 v0 v1 v2 c)

/-- `np.argmax` of three entries: index of the FIRST maximum -/
def argmax3 [LT α] [DecidableLT α] (e0 e1 e2 : α) : Nat :=
  if e1 > e0 then (if e2 > e1 then 2 else 1) else (if e2 > e0 then 2 else 0)

/-- `edge_lengths = np.linalg.norm(triangle - triangle_roll, axis=1)`: `|a - c|, |b - a|, |c - b|` -/
def l2d_edge_lengths [Add α] [Sub α] [Mul α] (sqrt : α → α) (ax ay bx by' cx cy : α) : α × α × α :=
  let d0x : α := ax - cx
  let d0y : α := ay - cy
  let d1x : α := bx - ax
  let d1y : α := by' - ay
  let d2x : α := cx - bx
  let d2y : α := cy - by'
  (sqrt ((d0x * d0x) + (d0y * d0y)), sqrt ((d1x * d1x) + (d1y * d1y)), sqrt ((d2x * d2x) + (d2y * d2y)))

/-- `area = 0.5 * abs(ux * vy - uy * vx)` with `u = b - a`, `v = c - a` -/
def l2d_choose_area [Sub α] [Mul α] [Div α] [OfNat α 1] [OfNat α 2] (abs : α → α) (ax ay bx by' cx cy : α) : α :=
  let ux : α := bx - ax
  let uy : α := by' - ay
  let vx : α := cx - ax
  let vy : α := cy - ay
  ((1 : α) / (2 : α)) * (abs ((ux * vy) - (uy * vx)))

/-- `i = edge_lengths.argmax()` -/
def l2d_longest [Add α] [Sub α] [Mul α] [LT α] [DecidableLT α] (sqrt : α → α) (ax ay bx by' cx cy : α) : Nat :=
  let e : α × α × α := l2d_edge_lengths sqrt ax ay bx by' cx cy
  argmax3 e.1 e.2.1 e.2.2

def sel3 (i : Nat) (e : α × α × α) : α :=
  match i with
  | 0 => e.1
  | 1 => e.2.1
  | _ => e.2.2

/-- `badness = (edge_lengths[i] ** 2 / area) * (sqrt(3) / 4)` -/
def l2d_badness [Add α] [Sub α] [Mul α] [Div α] [LT α] [DecidableLT α] [OfNat α 1] [OfNat α 2] [OfNat α 3] [OfNat α 4]
    (sqrt abs : α → α) (ax ay bx by' cx cy : α) : α :=
  let area : α := l2d_choose_area abs ax ay bx by' cx cy
  let e : α × α × α := l2d_edge_lengths sqrt ax ay bx by' cx cy
  let i : Nat := argmax3 e.1 e.2.1 e.2.2
  let ei : α := sel3 i e
  ((ei * ei) / area) * ((sqrt (3 : α)) / (4 : α))

/-- `(triangle_roll[i] + triangle[i]) / 2` with `triangle_roll = [c, a, b]` -/
def l2d_edge_mid [Add α] [Div α] [OfNat α 2] (i : Nat) (ax ay bx by' cx cy : α) : α × α :=
  match i with
  | 0 => ((cx + ax) / (2 : α), (cy + ay) / (2 : α))
  | 1 => ((ax + bx) / (2 : α), (ay + by') / (2 : α))
  | _ => ((bx + cx) / (2 : α), (by' + cy) / (2 : α))

/-- `triangle.mean(axis=0)` -/
def l2d_centroid [Add α] [Div α] [OfNat α 3] (ax ay bx by' cx cy : α) : α × α :=
  (((ax + bx) + cx) / (3 : α), ((ay + by') + cy) / (3 : α))

/-- `learner2D.choose_point_in_triangle(np.array([a, b, c]), max_badness)` -/
def l2d_choose [Add α] [Sub α] [Mul α] [Div α] [LT α] [DecidableLT α] [OfNat α 1] [OfNat α 2] [OfNat α 3] [OfNat α 4]
    (sqrt abs : α → α) (max_badness : α) (ax ay bx by' cx cy : α) : α × α :=
  if l2d_badness sqrt abs ax ay bx by' cx cy > max_badness then
    l2d_edge_mid (l2d_longest sqrt ax ay bx by' cx cy) ax ay bx by' cx cy
  else
    l2d_centroid ax ay bx by' cx cy

end l2d

/-! ## B. Learner1D cut-offs and the curvature loss

```
def resolution_loss_function(min_length=0, max_length=1):
    @uses_nth_neighbors(0)
    def resolution_loss(xs, ys):
        loss = uniform_loss(xs, ys)
        if loss < min_length:
            return 0
        if loss > max_length:
            return np.inf
        loss = default_loss(xs, ys)
        return loss

def curvature_loss_function(area_factor=1, euclid_factor=0.02, horizontal_factor=0.02):
    @uses_nth_neighbors(1)
    def curvature_loss(xs, ys):
        xs_middle = xs[1:3];  ys_middle = ys[1:3]
        triangle_loss_ = triangle_loss(xs, ys)
        default_loss_ = default_loss(xs_middle, ys_middle)
        dx = xs_middle[1] - xs_middle[0]
        return (area_factor * (triangle_loss_**0.5) + euclid_factor * default_loss_ + horizontal_factor * dx)
```
`uniform_loss`, `default_loss`, `triangle_loss` are the GENERATED `l1d_uniform_loss`, `l1d_default_loss`,
`l1d_triangle_loss4 / 3l / 3r / 2`.  Measured: `x ** 0.5` (C `pow`) differs from `sqrt x` by at most 1 ulp (0.08 % of
the arguments), `np.hypot` from `sqrt(dx*dx + dy*dy)` by at most 1 ulp: the resolution loss is within 1 ulp, the
curvature loss within 2 ulp (non-negative factors) of the model. -/
section l1d

/-- the three possible outcomes of `resolution_loss` -/
inductive Cut (α : Type) where
  | zero : Cut α
  | infinite : Cut α
  | loss (v : α) : Cut α
  deriving DecidableEq, Repr

/-- the number the code returns (`inf` = `np.inf`) -/
def Cut.toScalar [OfNat α 0] (inf : α) : Cut α → α
  | .zero => (0 : α)
  | .infinite => inf
  | .loss v => v

/-- `resolution_loss_function(min_length, max_length)(xs, ys)`, scalar values: both comparisons are STRICT -/
def l1d_resolution_cut [Add α] [Sub α] [Mul α] [LT α] [DecidableLT α] (sqrt : α → α) (min_length max_length : α)
    (xs_0 xs_1 : α) (ys_0 ys_1 : α) : Cut α :=
  let loss : α := l1d_uniform_loss xs_0 xs_1 ys_0 ys_1
  if loss < min_length then
    Cut.zero
  else if loss > max_length then
    Cut.infinite
  else
    Cut.loss (l1d_default_loss sqrt xs_0 xs_1 ys_0 ys_1)

def l1d_resolution_loss [Add α] [Sub α] [Mul α] [LT α] [DecidableLT α] [OfNat α 0] (sqrt : α → α) (inf : α)
    (min_length max_length : α) (xs_0 xs_1 : α) (ys_0 ys_1 : α) : α :=
  (l1d_resolution_cut sqrt min_length max_length xs_0 xs_1 ys_0 ys_1).toScalar inf

/-- the combination `curvature_loss` computes from its three ingredients -/
def l1d_curvature_combine [Add α] [Mul α] (sqrt : α → α) (area_factor euclid_factor horizontal_factor : α)
    (triangle_loss_ default_loss_ dx : α) : α :=
  ((area_factor * (sqrt triangle_loss_)) + (euclid_factor * default_loss_)) + (horizontal_factor * dx)

/-- `curvature_loss_function(area_factor, euclid_factor, horizontal_factor)(xs, ys)`, both outer neighbours present -/
def l1d_curvature_loss4 [Add α] [Sub α] [Mul α] [Div α] [OfNat α 0] [OfNat α 2] (sqrt abs : α → α)
    (area_factor euclid_factor horizontal_factor : α) (xs_0 xs_1 xs_2 xs_3 : α) (ys_0 ys_1 ys_2 ys_3 : α) : α :=
  l1d_curvature_combine sqrt area_factor euclid_factor horizontal_factor
    (l1d_triangle_loss4 abs xs_0 xs_1 xs_2 xs_3 ys_0 ys_1 ys_2 ys_3)
    (l1d_default_loss sqrt xs_1 xs_2 ys_1 ys_2) (xs_2 - xs_1)

/-- … left neighbour missing (`xs = (None, x1, x2, x3)`) -/
def l1d_curvature_loss3l [Add α] [Sub α] [Mul α] [Div α] [OfNat α 0] [OfNat α 1] [OfNat α 2] (sqrt abs : α → α)
    (area_factor euclid_factor horizontal_factor : α) (xs_1 xs_2 xs_3 : α) (ys_1 ys_2 ys_3 : α) : α :=
  l1d_curvature_combine sqrt area_factor euclid_factor horizontal_factor
    (l1d_triangle_loss3l abs xs_1 xs_2 xs_3 ys_1 ys_2 ys_3)
    (l1d_default_loss sqrt xs_1 xs_2 ys_1 ys_2) (xs_2 - xs_1)

/-- … right neighbour missing (`xs = (x0, x1, x2, None)`) -/
def l1d_curvature_loss3r [Add α] [Sub α] [Mul α] [Div α] [OfNat α 0] [OfNat α 1] [OfNat α 2] (sqrt abs : α → α)
    (area_factor euclid_factor horizontal_factor : α) (xs_0 xs_1 xs_2 : α) (ys_0 ys_1 ys_2 : α) : α :=
  l1d_curvature_combine sqrt area_factor euclid_factor horizontal_factor
    (l1d_triangle_loss3r abs xs_0 xs_1 xs_2 ys_0 ys_1 ys_2)
    (l1d_default_loss sqrt xs_1 xs_2 ys_1 ys_2) (xs_2 - xs_1)

/-- … both missing (`xs = (None, x1, x2, None)`): `triangle_loss` is the interval width -/
def l1d_curvature_loss2 [Add α] [Sub α] [Mul α] (sqrt : α → α)
    (area_factor euclid_factor horizontal_factor : α) (xs_1 xs_2 : α) (ys_1 ys_2 : α) : α :=
  l1d_curvature_combine sqrt area_factor euclid_factor horizontal_factor
    (l1d_triangle_loss2 xs_1 xs_2 ys_1 ys_2)
    (l1d_default_loss sqrt xs_1 xs_2 ys_1 ys_2) (xs_2 - xs_1)

end l1d

/-! ## C. LearnerND `default_loss`, 2-D domain, scalar values

```
def default_loss(simplex, values, value_scale):
    pts = [(*x, y) for x, y in zip(simplex, values)]
    return simplex_volume_in_embedding(pts)

def simplex_volume_in_embedding(vertices):
    vertices = asarray(vertices, dtype=float)
    dim = len(vertices[0])
    if dim == 2: ... Heron ...
    sq_dists = scipy.spatial.distance.pdist(vertices, metric="sqeuclidean")
    num_verts = scipy.spatial.distance.num_obs_y(sq_dists)
    bordered = concatenate((ones(num_verts), sq_dists))
    sq_dists_mat = scipy.spatial.distance.squareform(bordered)
    coeff = -((-2) ** (num_verts - 1)) * factorial(num_verts - 1) ** 2
    vol_square = fast_det(sq_dists_mat) / coeff
    if vol_square < 0:
        if vol_square > -1e-15:
            return 0
        raise ValueError("Provided vertices do not form a simplex")
    return sqrt(vol_square)
```
The three embedded points `(x, y, value)` have `dim = len(vertices[0]) = 3`, so the Heron branch (`dim == 2`: points
of the PLANE) is NOT taken: the code goes through the 4×4 Cayley-Menger determinant
`[[0,1,1,1],[1,0,d01,d02],[1,d01,0,d12],[1,d02,d12,0]]`, `coeff = -16`, and `fast_det` of a 4×4 matrix is
`numpy.linalg.det` (LAPACK LU with partial pivoting).  The model takes the determinant by cofactor expansion along
the first row (with the generated `fast_det3`), which is the same number over a field; at `Float` the two differ by
rounding (measured in `prims2_corr.py`: <= 56 ulp on well-conditioned triangles).  For a BIT-EXACT tie the driver also
evaluates `nd_default_loss2_of_volsq` on the `vol_square` obtained with an operation-by-operation emulation of
`numpy.linalg.det` (`Drv/NumpyDet.lean`: OpenBLAS left-looking LU with fused multiply-add, then
`sign * exp(sum log |u_ii|)`) applied to the model's own `sqeuclid3` distances (`prims2 call nd_default_loss2_np`). -/
section lnd

/-- one entry of `pdist(vertices, metric="sqeuclidean")` for points of space -/
def sqeuclid3 [Add α] [Sub α] [Mul α] (ax ay az bx by' bz : α) : α :=
  let dx : α := ax - bx
  let dy : α := ay - by'
  let dz : α := az - bz
  ((dx * dx) + (dy * dy)) + (dz * dz)

/-- determinant of a 4×4 matrix, cofactor expansion along the first row -/
def det4 [Add α] [Sub α] [Mul α]
    (m00 m01 m02 m03 m10 m11 m12 m13 m20 m21 m22 m23 m30 m31 m32 m33 : α) : α :=
  (((m00 * (fast_det3 m11 m12 m13 m21 m22 m23 m31 m32 m33))
    - (m01 * (fast_det3 m10 m12 m13 m20 m22 m23 m30 m32 m33)))
    + (m02 * (fast_det3 m10 m11 m13 m20 m21 m23 m30 m31 m33)))
    - (m03 * (fast_det3 m10 m11 m12 m20 m21 m22 m30 m31 m32))

/-- the Cayley-Menger determinant of three points with squared distances `d01 d02 d12`
(`squareform(concatenate((ones(3), sq_dists)))`) -/
def cayleyMenger3 [Add α] [Sub α] [Mul α] [OfNat α 0] [OfNat α 1] (d01 d02 d12 : α) : α :=
  det4 (0 : α) (1 : α) (1 : α) (1 : α)
       (1 : α) (0 : α) d01 d02
       (1 : α) d01 (0 : α) d12
       (1 : α) d02 d12 (0 : α)

/-- `vol_square` of `default_loss(simplex, values, _)` for a triangle of the plane with scalar values;
`coeff = -((-2) ** 2) * factorial(2) ** 2 = -16` -/
def nd_default_loss2_volsq [Add α] [Sub α] [Mul α] [Div α] [Neg α] [OfNat α 0] [OfNat α 1] [OfNat α 16]
    (x0 y0 x1 y1 x2 y2 : α) (v0 v1 v2 : α) : α :=
  let d01 : α := sqeuclid3 x0 y0 v0 x1 y1 v1
  let d02 : α := sqeuclid3 x0 y0 v0 x2 y2 v2
  let d12 : α := sqeuclid3 x1 y1 v1 x2 y2 v2
  (cayleyMenger3 d01 d02 d12) / (-(16 : α))

/-- the tail of `simplex_volume_in_embedding` from `vol_square` on; `none` = `raise ValueError`; `negtol` is the
literal `-1e-15` (`Gen.Constants.volume_embedding_neg_tol`) -/
def nd_default_loss2_of_volsq [LT α] [DecidableLT α] [OfNat α 0] (sqrt : α → α) (negtol : α) (vol_square : α) :
    Option α :=
  if vol_square < (0 : α) then
    if vol_square > negtol then some (0 : α) else none
  else
    some (sqrt vol_square)

/-- `learnerND.default_loss(simplex, values, value_scale)` for a triangle of the plane with scalar values -/
def nd_default_loss2 [Add α] [Sub α] [Mul α] [Div α] [Neg α] [LT α] [DecidableLT α] [OfNat α 0] [OfNat α 1] [OfNat α 16]
    (sqrt : α → α) (negtol : α) (x0 y0 x1 y1 x2 y2 : α) (v0 v1 v2 : α) (value_scale : α) : Option α :=
  nd_default_loss2_of_volsq sqrt negtol (nd_default_loss2_volsq x0 y0 x1 y1 x2 y2 v0 v1 v2)

end lnd

/-! ## D. `triangulation.orientation`

```
def orientation(face, origin):
    vectors = array(face)
    sign, logdet = slogdet(vectors - origin)
    if logdet < -50:  # assume it to be zero when it's close to zero
        return 0
    return sign
```
EXACT model: `slogdet` returns the sign and `log |det|` of the determinant of the rows `face_i - origin`; the cut
`log |det| < -50` is `|det| < exp(-50)` (`thr`, a parameter).  The determinant is taken with the generated
`fast_det2 / fast_det3` (numpy: LU), so at `Float` only the resulting sign can be compared, away from the cut and from
zero. -/
section orientation

/-- sign of a number as an integer -/
def sgn [LT α] [DecidableLT α] [OfNat α 0] (d : α) : Int :=
  if d > (0 : α) then 1 else if d < (0 : α) then -1 else 0

/-- determinant of the rows `face_i - origin`, plane -/
def orientation_det2 [Sub α] [Mul α] (f0x f0y f1x f1y ox oy : α) : α :=
  fast_det2 (f0x - ox) (f0y - oy) (f1x - ox) (f1y - oy)

/-- determinant of the rows `face_i - origin`, space -/
def orientation_det3 [Add α] [Sub α] [Mul α] (f0x f0y f0z f1x f1y f1z f2x f2y f2z ox oy oz : α) : α :=
  fast_det3 (f0x - ox) (f0y - oy) (f0z - oz) (f1x - ox) (f1y - oy) (f1z - oz) (f2x - ox) (f2y - oy) (f2z - oz)

/-- the cut and the sign -/
def orientation_of_det [LT α] [DecidableLT α] [OfNat α 0] (abs : α → α) (thr : α) (d : α) : Int :=
  if abs d < thr then 0 else sgn d

/-- `triangulation.orientation(face, origin)` in the plane (`face` = 2 points) -/
def orientation2 [Sub α] [Mul α] [LT α] [DecidableLT α] [OfNat α 0] (abs : α → α) (thr : α)
    (f0x f0y f1x f1y ox oy : α) : Int :=
  orientation_of_det abs thr (orientation_det2 f0x f0y f1x f1y ox oy)

/-- `triangulation.orientation(face, origin)` in space (`face` = 3 points) -/
def orientation3 [Add α] [Sub α] [Mul α] [LT α] [DecidableLT α] [OfNat α 0] (abs : α → α) (thr : α)
    (f0x f0y f0z f1x f1y f1z f2x f2y f2z ox oy oz : α) : Int :=
  orientation_of_det abs thr (orientation_det3 f0x f0y f0z f1x f1y f1z f2x f2y f2z ox oy oz)

end orientation
end Prims2
