/-!
# Bookkeeping model of `adaptive/learner/learner2D.py: Learner2D`

Only the BOOKKEEPING of the learner is modelled: `data` (an `OrderedDict` point → value),
`pending_points` (a set), the private suggestion stack `_stack` (an `OrderedDict` point → loss improvement,
initialised with the corner points at `inf`), `stack_size`, `npoints`, `bounds_are_done`, and the methods `tell`,
`tell_pending`, `_fill_stack`, `ask`, `remove_unfinished`.

The geometry (SciPy Delaunay / `LinearNDInterpolator`, the loss per triangle, `choose_point_in_triangle`, the clipping) is an
ORACLE `cands : data → pending → List (point × loss)`: the candidate (point, loss) of every triangle in the order the loop of
`_fill_stack` visits them (repeated `argmax`).  Points are abstract ids (`Nat`), `inB` is `inside_bounds`, values `V` and losses
`L` are abstract; `inf : L` is the loss improvement the corner points are queued with.

`ask` follows the code AFTER the two repairs of `ask(n, tell_pending=False)` (commits e806eb2 and 844d031 of /repo):
* the clean-up of a non-committing `ask` that returns discards from `pending_points` only those returned points that were NOT
  pending when `ask` was called (`was_pending`), so a point that was pending before stays pending (`uncommit`);
* a non-committing `ask` whose refill loop raises (`tooFew`: the `ValueError` of `_fill_stack`) puts the stack entries it held
  at the start back, sets `pending_points` back to `was_pending`, and re-raises (`unwind`).
A committing `ask` is unchanged (also when it raises: marks and shortened stack stay).  `diverge` - a round of the loop that
yields no point, which the real `while` repeats for ever - is not an exception and is left as it was.

Core Lean only (no Mathlib).
-/
namespace L2D

/-- the constants of one learner: `inside_bounds`, `_bounds_points`, `np.inf`, `stack_size` -/
structure Cfg (L : Type) where
  inB : Nat → Bool
  corners : List Nat
  inf : L
  stackSize : Nat := 10

/-- `data`, `pending_points`, `_stack` -/
structure State (V L : Type) where
  /-- `self.data`: insertion order, one entry per key -/
  data : List (Nat × V) := []
  /-- `self.pending_points` (a set; kept in insertion order, duplicate free) -/
  pending : List Nat := []
  /-- `self._stack`: insertion order, one entry per key -/
  stack : List (Nat × L) := []
deriving DecidableEq, Repr

variable {V L α : Type}

/-! ### `OrderedDict` and `set` primitives -/

/-- `k in d` -/
def hasKey (l : List (Nat × α)) (k : Nat) : Bool := l.any (fun e => e.1 == k)

/-- `d[k] = v`: an existing key keeps its position and gets the new value, a new key is appended -/
def aset : List (Nat × α) → Nat → α → List (Nat × α)
  | [], k, v => [(k, v)]
  | (k', v') :: t, k, v => if k' = k then (k, v) :: t else (k', v') :: aset t k v

/-- `d.pop(k, None)` -/
def apop (l : List (Nat × α)) (k : Nat) : List (Nat × α) := l.filter (fun e => e.1 != k)

/-- `d.get(k)` -/
def aget : List (Nat × α) → Nat → Option α
  | [], _ => none
  | (k', v') :: t, k => if k' = k then some v' else aget t k

/-- `OrderedDict(pairs)` -/
def ofPairs (l : List (Nat × α)) : List (Nat × α) := l.foldl (fun d e => aset d e.1 e.2) []

/-- `s.add(p)` -/
def padd (l : List Nat) (p : Nat) : List Nat := if l.contains p then l else l ++ [p]

/-- `s.discard(p)` -/
def pdiscard (l : List Nat) (p : Nat) : List Nat := l.filter (fun q => q != p)

/-! ### the learner -/

/-- `__init__`: empty data, nothing pending, the corner points on the stack at `inf` (`self._stack.update({p: np.inf ...})`) -/
def init (c : Cfg L) : State V L :=
  { data := [], pending := [], stack := c.corners.foldl (fun st p => aset st p c.inf) [] }

/-- `npoints = len(self.data)` -/
def npoints (s : State V L) : Nat := s.data.length

/-- `bounds_are_done` -/
def boundsAreDone (c : Cfg L) (s : State V L) : Bool :=
  !(c.corners.any fun p => s.pending.contains p || hasKey s.stack p)

/-- `tell(point, value)`: the value is stored (OVERWRITING an earlier one); a point outside the bounds returns early -/
def tell (c : Cfg L) (s : State V L) (p : Nat) (v : V) : State V L :=
  let d := aset s.data p v
  if c.inB p then { data := d, pending := pdiscard s.pending p, stack := apop s.stack p }
  else { s with data := d }

/-- `tell_pending(point)` -/
def tellPending (c : Cfg L) (s : State V L) (p : Nat) : State V L :=
  if c.inB p then { s with pending := padd s.pending p, stack := apop s.stack p } else s

/-- `for p in pts: self.tell_pending(p)` -/
def tellPendingAll (c : Cfg L) (s : State V L) (pts : List (Nat × L)) : State V L :=
  pts.foldl (fun s e => tellPending c s e.1) s

/-- `remove_unfinished()`: pending emptied; every corner without a value is (re-)assigned `inf` on the stack -/
def removeUnfinished (c : Cfg L) (s : State V L) : State V L :=
  { s with pending := [],
           stack := c.corners.foldl (fun st p => if hasKey s.data p then st else aset st p c.inf) s.stack }

/-- the loop of `_fill_stack` over the candidates in visiting order: returns the stack and `(points_new, losses_new)`.
Every visited candidate is assigned into the stack; the loop stops right after the assignment that makes
`len(self._stack) >= stack_till`. -/
def fillLoop (stackTill : Nat) : List (Nat × L) → List (Nat × L) → List (Nat × L) × List (Nat × L)
  | [], st => (st, [])
  | e :: rest, st =>
    let st' := aset st e.1 e.2
    if st'.length ≥ stackTill then (st', [e])
    else
      let r := fillLoop stackTill rest st'
      (r.1, e :: r.2)

/-- the oracle: candidates for the given `data` and `pending_points` -/
abbrev Oracle (V L : Type) := List (Nat × V) → List Nat → List (Nat × L)

/-- `_fill_stack(stack_till)`; `none` is `ValueError("too few points...")` (`len(data) + len(pending) < ndim + 1`) -/
def fillStack (cands : Oracle V L) (s : State V L) (stackTill : Nat) : Option (State V L × List (Nat × L)) :=
  if s.data.length + s.pending.length < 3 then none
  else
    let r := fillLoop stackTill (cands s.data s.pending) s.stack
    some ({ s with stack := r.1 }, r.2)

/-- how a call of `ask` ends -/
inductive Outcome (L : Type) where
  /-- returns; the payload is the (point, loss improvement) list -/
  | ok (pts : List (Nat × L))
  /-- `ValueError("too few points...")` out of `_fill_stack` -/
  | tooFew
  /-- a round of the `while n_left > 0` loop produced no point: `n_left` does not decrease and nothing changed, so the
  real loop repeats the same round for ever -/
  | diverge
deriving DecidableEq, Repr

/-- the `while n_left > 0` loop of `ask`.  `fuel` bounds the number of rounds; a round that yields at least one point
decreases `n_left`, so `fuel = n_left` is never exhausted (`askLoop_fuel`, in the proofs).  `pts` accumulates
`points`/`loss_improvements`. -/
def askLoop (c : Cfg L) (cands : Oracle V L) : Nat → Nat → State V L → List (Nat × L) → State V L × Outcome L
  | _, 0, s, pts => (s, .ok pts)
  | 0, _ + 1, s, _ => (s, .diverge)
  | fuel + 1, nl + 1, s, pts =>
    match fillStack cands s (max (nl + 1) c.stackSize) with
    | none => (s, .tooFew)
    | some (s1, new) =>
      if new.isEmpty then (s1, .diverge)
      else
        let s2 := tellPendingAll c s1 (new.take (nl + 1))
        askLoop c cands fuel (nl + 1 - new.length) s2 (pts ++ new)

/-- everything `ask` does before the `if not tell_pending` / `except` blocks (the marks of `points[:n]` and the `while` loop
inside the `try`): the state and the complete `points`/`loss_improvements` -/
def askCore (c : Cfg L) (cands : Oracle V L) (s : State V L) (n : Nat) : State V L × Outcome L :=
  let s1 := tellPendingAll c s (s.stack.take n)
  askLoop c cands (n - s.stack.length) (n - s.stack.length) s1 s.stack

/-- the `if not tell_pending` block of an `ask` that returns: `_stack` rewritten with
`zip(points[:stack_size], loss_improvements)`; of `points[:n]` those that were NOT pending when `ask` was called
(`pd0` is `was_pending = set(self.pending_points)`, taken before the first mark) are discarded from the pending points.
A point that was pending before the call stays pending. -/
def uncommit (c : Cfg L) (s : State V L) (pts : List (Nat × L)) (n : Nat) (pd0 : List Nat) : State V L :=
  { s with stack := ofPairs (pts.take c.stackSize),
           pending := (pts.take n).foldl (fun pd e => if pd0.contains e.1 then pd else pdiscard pd e.1) s.pending }

/-- the `except Exception:` block of a non-committing `ask` (`s0` is the state `ask` was called with, `s` the state in which
`_fill_stack` raised): `_stack = OrderedDict(zip(points[:n_stack], loss_improvements[:n_stack]))` - `points` and
`loss_improvements` start as the keys and values of the stack and only ever grow at the end, so their first `n_stack` entries
are the entries of the original stack, in order - and `pending_points = was_pending`.  `data` is never touched. -/
def unwind (s0 s : State V L) : State V L :=
  { s with stack := ofPairs s0.stack, pending := s0.pending }

/-- `ask(n, tell_pending)`.  A committing `ask` that raises leaves the state as it was when the exception was raised (the
stack entries taken so far are pending); a non-committing `ask` that raises takes its marks back (`unwind`) and re-raises.
`diverge` is non-termination of the real loop, not an exception: the state is the one the loop is stuck in. -/
def ask (c : Cfg L) (cands : Oracle V L) (s : State V L) (n : Nat) (commit : Bool) : State V L × Outcome L :=
  match askCore c cands s n with
  | (s2, .ok pts) => if commit then (s2, .ok (pts.take n)) else (uncommit c s2 pts n s.pending, .ok (pts.take n))
  | (s2, .tooFew) => if commit then (s2, .tooFew) else (unwind s s2, .tooFew)
  | r => r

/-- `tell_many(xs, ys)` (inherited): one `tell` per pair, in order -/
def tellMany (c : Cfg L) (s : State V L) (xs : List (Nat × V)) : State V L :=
  xs.foldl (fun s e => tell c s e.1 e.2) s

end L2D

/-! ## Saving / restoring (`_get_data`, `_set_data`, `__getstate__`, `__setstate__`; `BaseLearner.save` / `load` / `copy_from`)

`save` writes `_get_data()`; `load` and `copy_from` call `_set_data(data)` on the receiving learner (a fresh one in the restore
scenarios).  The pickle protocol of `Learner2D` is its own: `__getstate__` returns `(function, bounds, loss_per_triangle, _stack,
_get_data())`, `__setstate__` runs `__init__`, then `_set_data(data)`, then OVERWRITES `_stack` with the pickled one.  The pending
set is in neither. -/
namespace L2D
variable {V L : Type}

/-- `_get_data()` is `self.data` -/
def getData (s : State V L) : List (Nat × V) := s.data

/-- `_set_data(data)`: `self.data = data`, then `for point in copy(self._stack): if point in self.data: self._stack.pop(point)`
(the loop runs over a COPY of the stack, popping from the live one) -/
def setData (_c : Cfg L) (s : State V L) (d : List (Nat × V)) : State V L :=
  { s with data := d,
           stack := s.stack.foldl (fun st e => if hasKey d e.1 then apop st e.1 else st) s.stack }

/-- `load(fname)` / `copy_from(other)` on a fresh learner: `_set_data` of the saved data, nothing else -/
def restoreFile (c : Cfg L) (d : List (Nat × V)) : State V L := setData c (init c) d

/-- the part of `__getstate__` that is learner state: `(self._stack, self._get_data())` -/
def getState (s : State V L) : List (Nat × L) × List (Nat × V) := (s.stack, getData s)

/-- `__setstate__`: `__init__`, `_set_data(data)`, then `self._stack = _stack` (the pickled stack replaces whatever `_set_data`
left); `pending_points` is the empty set of `__init__` -/
def setState (c : Cfg L) (st : List (Nat × L) × List (Nat × V)) : State V L :=
  { (setData c (init c) st.2) with stack := st.1 }

end L2D
