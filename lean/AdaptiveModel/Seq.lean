/-
Model of `adaptive/learner/sequence_learner.py` (SequenceLearner).

Hand-written; tied to /repo by the correspondence check `harness/props/c17.py`
(the same op lines are run on the real class and on `Seq.step` below).

State mirrors the attributes of the class:
  `_ntotal`            ↦ `ntotal`
  `_to_do_indices`     ↦ `todo`     (SortedSet: strictly increasing list)
  `pending_points`     ↦ `pending`  (set: duplicate-free list, order irrelevant)
  `data` (SortedDict)  ↦ `data`     (strictly increasing in the key)
Elements of the sequence are opaque to the learner (`sequence[index]` is only
looked up and handed back), so a point is represented by its index.
Values are an arbitrary type `β`.
-/
namespace Seq

/-- insertion into a strictly increasing list (SortedSet.add) -/
def sinsert (x : Nat) : List Nat → List Nat
  | [] => [x]
  | y :: ys => if x < y then x :: y :: ys else if x = y then y :: ys else y :: sinsert x ys

/-- `SortedDict.__setitem__` -/
def dinsert {β : Type} (k : Nat) (v : β) : List (Nat × β) → List (Nat × β)
  | [] => [(k, v)]
  | (k', v') :: r =>
    if k < k' then (k, v) :: (k', v') :: r
    else if k = k' then (k, v) :: r
    else (k', v') :: dinsert k v r

structure State (β : Type) where
  ntotal : Nat
  todo : List Nat
  pending : List Nat
  data : List (Nat × β)
deriving Repr

def init {β : Type} (n : Nat) : State β :=
  { ntotal := n, todo := List.range n, pending := [], data := [] }

def keys {β : Type} (s : State β) : List Nat := s.data.map Prod.fst

/-- `tell_pending((index, point))` -/
def tellPending {β : Type} (s : State β) (i : Nat) : State β :=
  { s with pending := if i ∈ s.pending then s.pending else i :: s.pending,
           todo := s.todo.erase i }

/-- `tell((index, point), value)` -/
def tell {β : Type} (s : State β) (i : Nat) (v : β) : State β :=
  { s with data := dinsert i v s.data,
           pending := s.pending.erase i,
           todo := s.todo.erase i }

/-- the indices `ask(n)` iterates over: the first `n` of `_to_do_indices` -/
def askPoints {β : Type} (s : State β) (n : Nat) : List Nat := s.todo.take n

/-- `ask(n, tell_pending)`; returns the indices handed out and the new state -/
def ask {β : Type} (s : State β) (n : Nat) (commit : Bool) : List Nat × State β :=
  let pts := askPoints s n
  (pts, if commit then pts.foldl tellPending s else s)

/-- `remove_unfinished()` -/
def removeUnfinished {β : Type} (s : State β) : State β :=
  { s with todo := s.pending.foldl (fun t i => sinsert i t) s.todo, pending := [] }

def done {β : Type} (s : State β) : Bool := s.todo.isEmpty && s.pending.isEmpty

def npoints {β : Type} (s : State β) : Nat := s.data.length

/-- numerator of `loss(real)`; the denominator is `ntotal`
    (`0.0` is returned by the code when nothing is to do or pending). -/
def lossNum {β : Type} (s : State β) (real : Bool) : Nat :=
  if done s then 0
  else s.ntotal - (npoints s + (if real then 0 else s.pending.length))

/-- `result()`: `none` models the raised exception -/
def result {β : Type} (s : State β) : Option (List β) :=
  if done s then some (s.data.map Prod.snd) else none

/-- `_get_data` / `_set_data` (via `tell_many`) -/
def getData {β : Type} (s : State β) : List (Nat × β) := s.data
def setData {β : Type} (s : State β) (d : List (Nat × β)) : State β :=
  d.foldl (fun s kv => tell s kv.1 kv.2) s

inductive Op (β : Type) where
  | ask (n : Nat) (commit : Bool)
  | tell (i : Nat) (v : β)
  | tellPending (i : Nat)
  | removeUnfinished
deriving Repr

def step {β : Type} (s : State β) : Op β → State β
  | .ask n c => (ask s n c).2
  | .tell i v => tell s i v
  | .tellPending i => tellPending s i
  | .removeUnfinished => removeUnfinished s

def run {β : Type} (s : State β) (ops : List (Op β)) : State β := ops.foldl step s

/-- the property's quantifier: tells carry an index of the sequence; an explicit
`tell_pending` marks an element that has no result yet -/
def ValidOp {β : Type} (s : State β) : Op β → Prop
  | .tell i _ => i < s.ntotal
  | .tellPending i => i < s.ntotal ∧ i ∉ keys s
  | _ => True

/-- indices handed out by committing asks along a run (ghost trace) -/
def handedOut {β : Type} (s : State β) : List (Op β) → List Nat
  | [] => []
  | op :: ops =>
    (match op with
      | .ask n true => askPoints s n
      | _ => []) ++ handedOut (step s op) ops

/-- the value of the last `tell` for index `i` in an op list, starting from `acc` -/
def lastToldFrom {β : Type} (acc : Option β) (ops : List (Op β)) (i : Nat) : Option β :=
  ops.foldl (fun acc op => match op with
    | .tell j v => if j = i then some v else acc
    | _ => acc) acc

def lastTold {β : Type} (ops : List (Op β)) (i : Nat) : Option β := lastToldFrom none ops i

end Seq
