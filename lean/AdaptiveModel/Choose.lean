import AdaptiveModel.Gen.Prims
/-!
`adaptive.learner.learnerND.choose_point_in_simplex(simplex, transform=None)` for dimension 2 (triangles), followed
line by line, for `transform = None` or a DIAGONAL transform `diag(t0, t1)` (LearnerND only ever passes
`diag(1 / width_k)`, `LearnerND._transform`).

```
    if transform is not None:
        simplex = np.dot(simplex, transform)
    center, _radius = circumsphere(simplex)
    if point_in_simplex(center, simplex):
        point = np.average(simplex, axis=0)
    else:
        distances = scipy.spatial.distance.pdist(simplex)
        distance_matrix = scipy.spatial.distance.squareform(distances)
        i, j = np.unravel_index(np.argmax(distance_matrix), distance_matrix.shape)
        point = (simplex[i, :] + simplex[j, :]) / 2
    if transform is not None:
        point = np.linalg.solve(transform, point)  # undo the transform
    return point
```

`circumsphere` / `point_in_simplex` (which dispatch to `fast_2d_circumcircle` / `fast_2d_point_in_simplex` for
dimension 2) are the mechanically generated definitions of `Gen/Prims.lean`.  Core Lean only; polymorphic in the
scalar; `sqrt` and the tolerance `eps` of `point_in_simplex` (python default `1e-8`,
`Gen.Constants.point_in_simplex_eps`) are parameters.

Numerical facts the model relies on, measured on the real code (numpy 2.5.3 / scipy 1.18.1, `corr_choose.py`):
* `np.dot(simplex, diag(t0, t1))[i] = (0 + x*t0 + y*0, 0 + x*0 + y*t1)` — the accumulator of the matrix product
  starts at `+0.0`, so a product `x*t0 = -0.0` comes out as `+0.0`; otherwise this is `x*t0`, `y*t1` exactly;
* `np.average(simplex, axis=0) = ((a + b) + c) / 3` per coordinate (pairwise-sum order of `add.reduce`);
* `pdist` (euclidean) `= sqrt(dx*dx + dy*dy)` with `dx = x_i - x_j`, `dy = y_i - y_j`, `i < j`;
* `np.linalg.solve(diag(t0, t1), p) = (p0 / t0, p1 / t1)` exactly (LU of a diagonal matrix: no pivoting, the
  eliminations subtract `0 * …`).
-/
namespace Choose
open Gen.Prims

variable {α : Type}

/-- a point of the plane -/
abbrev P2 (α : Type) := α × α

section defs
variable [Add α] [Sub α] [Mul α] [Div α] [Neg α] [LT α] [LE α] [DecidableLT α] [DecidableLE α]
  [OfNat α 0] [OfNat α 1] [OfNat α 2] [OfNat α 3]

/-- one row of `np.dot(simplex, transform)` for `transform = diag(t.1, t.2)` -/
def dotDiag (p t : P2 α) : P2 α :=
  (((0 : α) + p.1 * t.1) + p.2 * (0 : α), ((0 : α) + p.1 * (0 : α)) + p.2 * t.2)

/-- `if transform is not None: simplex = np.dot(simplex, transform)` (one row) -/
def applyT (t : Option (P2 α)) (p : P2 α) : P2 α :=
  match t with
  | none => p
  | some t => dotDiag p t

/-- `if transform is not None: point = np.linalg.solve(transform, point)` for `transform = diag(t.1, t.2)` -/
def undoT (t : Option (P2 α)) (p : P2 α) : P2 α :=
  match t with
  | none => p
  | some t => (p.1 / t.1, p.2 / t.2)

/-- one entry of `scipy.spatial.distance.pdist(simplex)` (euclidean) -/
def pdist2 (sqrt : α → α) (a b : P2 α) : α :=
  let dx : α := a.1 - b.1
  let dy : α := a.2 - b.2
  sqrt ((dx * dx) + (dy * dy))

/-- `np.argmax` of a flat array: the index of the FIRST maximum (scan keeping the best so far, replaced only by a
strictly larger entry) -/
def argmaxFrom (best : α) (bi : Nat) (i : Nat) : List α → Nat
  | [] => bi
  | x :: xs => if x > best then argmaxFrom x i (i + 1) xs else argmaxFrom best bi (i + 1) xs

def argmax : List α → Nat
  | [] => 0
  | x :: xs => argmaxFrom x 0 1 xs

/-- `simplex[i, :]` -/
def vtx (s0 s1 s2 : P2 α) : Nat → P2 α
  | 0 => s0
  | 1 => s1
  | _ => s2

/-- `np.average(simplex, axis=0)` -/
def centroid (s0 s1 s2 : P2 α) : P2 α :=
  (((s0.1 + s1.1) + s2.1) / (3 : α), ((s0.2 + s1.2) + s2.2) / (3 : α))

/-- the flattened `squareform(pdist(simplex))`, row major, zero diagonal -/
def distMatrix (sqrt : α → α) (s0 s1 s2 : P2 α) : List α :=
  let d01 : α := pdist2 sqrt s0 s1
  let d02 : α := pdist2 sqrt s0 s2
  let d12 : α := pdist2 sqrt s1 s2
  [(0 : α), d01, d02, d01, (0 : α), d12, d02, d12, (0 : α)]

/-- the `else` branch: midpoint of the edge `(i, j) = unravel_index(argmax(distance_matrix), (3, 3))` -/
def longestEdgeMid (sqrt : α → α) (s0 s1 s2 : P2 α) : P2 α :=
  let k : Nat := argmax (distMatrix sqrt s0 s1 s2)
  let i : Nat := k / 3
  let j : Nat := k % 3
  let vi : P2 α := vtx s0 s1 s2 i
  let vj : P2 α := vtx s0 s1 s2 j
  ((vi.1 + vj.1) / (2 : α), (vi.2 + vj.2) / (2 : α))

/-- the test of the `if`: is the circumcentre accepted by `point_in_simplex` (tolerance `eps`) -/
def centerInside (sqrt : α → α) (eps : α) (s0 s1 s2 : P2 α) : Bool :=
  let center : P2 α := (circumsphere2 sqrt s0.1 s0.2 s1.1 s1.2 s2.1 s2.2).1
  point_in_simplex2 center.1 center.2 s0.1 s0.2 s1.1 s1.2 s2.1 s2.2 eps

/-- the point chosen in the (already transformed) triangle -/
def chooseCore (sqrt : α → α) (eps : α) (s0 s1 s2 : P2 α) : P2 α :=
  if centerInside sqrt eps s0 s1 s2 = true then centroid s0 s1 s2 else longestEdgeMid sqrt s0 s1 s2

/-- `choose_point_in_simplex(np.array([p0, p1, p2]), transform)`, `transform = None` (`t = none`) or
`np.diag([t0, t1])` (`t = some (t0, t1)`); `eps` is the default tolerance of `point_in_simplex` -/
def choosePoint2 (sqrt : α → α) (eps : α) (p0 p1 p2 : P2 α) (t : Option (P2 α)) : P2 α :=
  undoT t (chooseCore sqrt eps (applyT t p0) (applyT t p1) (applyT t p2))

end defs
end Choose
