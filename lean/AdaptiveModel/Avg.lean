import AdaptiveModel.Scalar
/-
Model of `adaptive/learner/average_learner.py` (AverageLearner).

Polymorphic in the scalar type `α`; `sqrt` is a parameter.  `atol`/`rtol` are `Option α`
with `none` = `np.inf`.  `ask`'s fallback branch iterates a hash `set`, so the model is
relational there: it receives the code's choice and checks that it is an allowed one.
Hand-written; tied to /repo by `harness/props/c16.py`.
-/
namespace Avg

structure State (α : Type) where
  data : List (Nat × α) := []      -- dict, insertion order
  pending : List Nat := []         -- set
  npoints : Nat := 0
  sumF : α
  sumFsq : α
  atol : Option α
  rtol : Option α
  minNpoints : Nat

variable {α : Type}

def init [OfNat α 0] (atol rtol : Option α) (minNpoints : Nat) : State α :=
  { sumF := 0, sumFsq := 0, atol := atol, rtol := rtol, minNpoints := max minNpoints 2 }

def hasKey (k : Nat) (d : List (Nat × α)) : Bool := d.any (fun kv => kv.1 == k)

def nRequested (s : State α) : Nat := s.npoints + s.pending.length

/-- `tell(n, value)` -/
def tell [Add α] [Mul α] (s : State α) (k : Nat) (v : α) : State α :=
  if hasKey k s.data then s else
  { s with data := s.data ++ [(k, v)],
           pending := s.pending.erase k,
           sumF := s.sumF + v,
           sumFsq := s.sumFsq + v * v,
           npoints := s.npoints + 1 }

/-- `tell_pending(n)` -/
def tellPending (s : State α) (k : Nat) : State α :=
  if hasKey k s.data then s else
  if k ∈ s.pending then s else { s with pending := k :: s.pending }

def removeUnfinished (s : State α) : State α := { s with pending := [] }

def known (s : State α) (p : Nat) : Bool := hasKey p s.data || s.pending.contains p

/-- the candidates of the fallback branch: `set(range(n_requested+n)) - data - pending` -/
def freeSeeds (s : State α) (n : Nat) : List Nat :=
  (List.range (nRequested s + n)).filter (fun p => !(known s p))

/-- a choice the fallback branch may make: `n` distinct free seeds -/
def validChoice (s : State α) (n : Nat) (choice : List Nat) : Bool :=
  choice.length == n && choice.Nodup && choice.all (fun p => (freeSeeds s n).contains p)

/-- points of `ask(n)`; `choice` is consulted only in the fallback branch;
`none` = the offered choice is not an allowed one -/
def askPoints (s : State α) (n : Nat) (choice : List Nat) : Option (List Nat) :=
  let pts := List.range' (nRequested s) n
  if pts.any (known s) then
    (if validChoice s n choice then some choice else none)
  else some pts

def mean [Div α] [NatCast α] (s : State α) : α := s.sumF / (s.npoints : α)

/-- `sum_f_sq - n * mean**2` -/
def varNumer [Sub α] [Mul α] [Div α] [NatCast α] (s : State α) : α :=
  s.sumFsq - (s.npoints : α) * (mean s * mean s)

/-- `std`; `none` = `np.inf` (fewer than `min_npoints` points) -/
def std [Sub α] [Mul α] [Div α] [NatCast α] [OfNat α 0] [LT α] [DecidableLT α]
    (sqrt : α → α) (s : State α) : Option α :=
  if s.npoints < s.minNpoints then none
  else
    let num := varNumer s
    if num < 0 then some 0 else some (sqrt (num / ((s.npoints - 1 : Nat) : α)))

/-- `loss(real, n=…)`; `none` = `np.inf` -/
def lossN [Sub α] [Mul α] [Div α] [Neg α] [NatCast α] [OfNat α 0] [LT α] [DecidableLT α] [DecidableEq α]
    (sqrt : α → α) (s : State α) (n : Nat) : Option α :=
  if n < s.minNpoints then none else
  match std sqrt s with
  | none => none      -- cannot happen for n ≥ npoints ≥ min_npoints; inf/…=nan otherwise (not modelled)
  | some sd =>
    let se := sd / sqrt (n : α)
    let aloss := Scalar.divOpt se s.atol
    let rloss := Scalar.divOpt se s.rtol
    let m := mean s
    let rloss := if m = 0 then rloss else rloss / (if m < 0 then -m else m)
    some (if aloss < rloss then rloss else aloss)      -- max(aloss, rloss)

def loss [Sub α] [Mul α] [Div α] [Neg α] [NatCast α] [OfNat α 0] [LT α] [DecidableLT α] [DecidableEq α]
    (sqrt : α → α) (s : State α) (real : Bool) : Option α :=
  lossN sqrt s (if real then s.npoints else nRequested s)

/-- `loss(real, n)` is NaN in the code when `n ≥ min_npoints` although fewer than `min_npoints`
values are held (`std = inf`) and `atol` is infinite: `inf / inf`.  (`max(aloss, rloss)` returns its
first argument unless the second is greater, so a NaN `rloss` alone does not surface.) -/
def lossIsNaN (s : State α) (n : Nat) : Bool :=
  decide (s.minNpoints ≤ n) && decide (s.npoints < s.minNpoints) && s.atol.isNone

inductive Op (α : Type) where
  | tell (k : Nat) (v : α)
  | tellPending (k : Nat)
  | removeUnfinished
  | askCommit (pts : List Nat)     -- a committing ask that returned `pts`

def step [Add α] [Mul α] (s : State α) : Op α → State α
  | .tell k v => tell s k v
  | .tellPending k => tellPending s k
  | .removeUnfinished => removeUnfinished s
  | .askCommit pts => pts.foldl tellPending s

def run [Add α] [Mul α] (s : State α) (ops : List (Op α)) : State α := ops.foldl step s

end Avg
