/-
Scalar interface for the numeric models.  Model functions are written once over a type
`α` using only core classes, and are
  * executed at `Float` (IEEE double, same rounding as CPython/NumPy `+ - * /` and `sqrt`)
    in the correspondence runs, and
  * proved about over Mathlib's ordered fields in `AdaptiveProofs`.
Functions without a field counterpart (`sqrt`) are explicit parameters of the models.
-/
namespace Scalar

/-- doubles cross the line protocol as their 64-bit patterns -/
def ofBits (n : Nat) : Float := Float.ofBits (UInt64.ofNat n)
def showF (x : Float) : String := "#" ++ toString x.toBits.toNat

def parseF (s : String) : Option Float := s.toNat?.map ofBits

def parseFs (s : String) : Option (List Float) :=
  if s = "" || s = "-" then some [] else (s.splitOn ",").mapM parseF

/-- `x / inf`-style optional tolerance: `none` is `np.inf` -/
def divOpt {α : Type} [Div α] [OfNat α 0] (x : α) : Option α → α
  | none => 0
  | some t => x / t

end Scalar
