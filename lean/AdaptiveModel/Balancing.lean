/-
Model of `adaptive/learner/balancing_learner.py` (BalancingLearner) over arbitrary children.

A child is given by its operations (`Child`); `ask1 s commit` is `learner.ask(n=1, tell_pending=commit)`
(first point, first improvement, new child state), `total s = npoints + len(pending_points)`,
`restore s` is what `utils.restore` (`__setstate__(__getstate__())` + re-marking the pending points)
leaves of a child that was in state `s` when the snapshot was taken.
The balancing learner's own state: the three caches (`_ask_cache`, `_loss`, `_pending_loss`, one optional
entry per child), the strategy and the position of `itertools.cycle`.
Mirrors: the four `_ask_and_tell_based_on_*` loops, `ask` (with the roll-back of children, caches and cycle
position when `tell_pending=False`), `tell`, `tell_pending`, `remove_unfinished`, `_losses`, `loss`
(which fills the loss caches: it is a state-changing operation of the model), the `strategy` setter.
Hand-written; tied to /repo by `harness/props/c15.py`.
-/
namespace Balancing

structure Child (σ P V L : Type) where
  ask1 : σ → Bool → (P × L) × σ
  tell : σ → P → V → σ
  tellPending : σ → P → σ
  removeUnfinished : σ → σ
  loss : σ → Bool → L
  total : σ → Nat
  restore : σ → σ

inductive Strategy where
  | lossImprovements | loss | npoints | cycle
deriving Repr, DecidableEq

structure State (σ P L : Type) where
  kids : List σ
  askCache : List (Option (P × L))
  lossC : List (Option L)
  plossC : List (Option L)
  strat : Strategy
  cyc : Nat

variable {σ P V L : Type}

def init (kids : List σ) (st : Strategy) : State σ P L :=
  { kids := kids, askCache := kids.map (fun _ => none), lossC := kids.map (fun _ => none),
    plossC := kids.map (fun _ => none), strat := st, cyc := 0 }

/-- the `strategy` setter (re-creates the cycle iterator for `cycle`) -/
def setStrategy (s : State σ P L) (st : Strategy) : State σ P L :=
  { s with strat := st, cyc := if st = .cycle then 0 else s.cyc }

section ops
variable (C : Child σ P V L)

/-- `tell((index, x), y)` -/
def tell (s : State σ P L) (i : Nat) (x : P) (y : V) : State σ P L :=
  { s with askCache := s.askCache.set i none, lossC := s.lossC.set i none, plossC := s.plossC.set i none,
           kids := s.kids.modify i (fun k => C.tell k x y) }

/-- `tell_pending((index, x))` -/
def tellPending (s : State σ P L) (i : Nat) (x : P) : State σ P L :=
  { s with askCache := s.askCache.set i none, lossC := s.lossC.set i none, plossC := s.plossC.set i none,
           kids := s.kids.modify i (fun k => C.tellPending k x) }

/-- `remove_unfinished()` -/
def removeUnfinished (s : State σ P L) : State σ P L :=
  { s with kids := s.kids.map C.removeUnfinished,
           askCache := s.kids.map (fun _ => none), lossC := s.kids.map (fun _ => none),
           plossC := s.kids.map (fun _ => none) }

/-- `_losses(real)`: fills the cache, returns the list -/
def losses (s : State σ P L) (real : Bool) : List L × State σ P L :=
  let cache := if real then s.lossC else s.plossC
  let filled := (s.kids.zip cache).map (fun kc => match kc.2 with | some v => v | none => C.loss kc.1 real)
  (filled, if real then { s with lossC := filled.map some } else { s with plossC := filled.map some })

variable [LT L] [DecidableLT L]

/-- `max(list)` — first maximal element -/
def maxL (d : L) : List L → L
  | [] => d
  | x :: r => r.foldl (fun m y => if m < y then y else m) x

/-- `loss(real)` -/
def loss (d : L) (s : State σ P L) (real : Bool) : L × State σ P L :=
  let (ls, s') := losses C s real
  (maxL d ls, s')

/-- index of the first maximum of keys `(a, -t)` compared lexicographically (python `max(..., key=)`) -/
def argmaxKey (keys : List (L × Nat)) : Nat :=
  let better (a b : L × Nat) : Bool := decide (a.1 < b.1) || (!(decide (b.1 < a.1)) && decide (b.2 < a.2))
  -- `better a b`: key b is strictly greater than key a, where key = (value, -total)
  (keys.zipIdx.foldl (fun (best : Option ((L × Nat) × Nat)) kv =>
      match best with
      | none => some kv
      | some b => if better b.1 kv.1 then some kv else some b) none).elim 0 (·.2)

/-- `np.argmin(total_points)` — first minimum -/
def argminNat (l : List Nat) : Nat :=
  (l.zipIdx.foldl (fun (best : Option (Nat × Nat)) kv =>
      match best with
      | none => some kv
      | some b => if kv.1 < b.1 then some kv else some b) none).elim 0 (·.2)

/-- fetch the cached `ask(n=1)` answer of child `i` or compute (and cache) it -/
def cachedAsk (s : State σ P L) (i : Nat) (commit : Bool) : Option ((P × L) × State σ P L) :=
  match s.askCache[i]?, s.kids[i]? with
  | some (some pl), _ => some (pl, s)
  | some none, some k =>
    let (pl, k') := C.ask1 k commit
    some (pl, { s with askCache := s.askCache.set i (some pl), kids := s.kids.set i k' })
  | _, _ => none

/-- one iteration of a selection loop: returns the selected `(index, point)`, improvement, new state and
new `total_points` -/
def selectStep (s : State σ P L) (tot : List Nat) : Option (((Nat × P) × L) × State σ P L × List Nat) :=
  match s.strat with
  | .lossImprovements =>
    -- fill the cache for every child (no commit), then take the best improvement
    let filled := (List.range s.kids.length).foldl
      (fun (acc : Option (State σ P L)) i => acc.bind (fun s => (cachedAsk C s i false).map (·.2))) (some s)
    filled.bind fun s1 =>
      let keys := (s1.askCache.zip tot).filterMap (fun ct => ct.1.map (fun pl => (pl.2, ct.2)))
      let i := argmaxKey keys
      match s1.askCache[i]? with
      | some (some pl) =>
        some (((i, pl.1), pl.2), tellPending C s1 i pl.1, tot.modify i (· + 1))
      | _ => none
  | .loss =>
    let (ls, s1) := losses C s false
    let i := argmaxKey (ls.zip tot)
    (cachedAsk C s1 i true).map fun (pl, s2) =>
      (((i, pl.1), pl.2), tellPending C s2 i pl.1, tot.modify i (· + 1))
  | .npoints =>
    let i := argminNat tot
    (cachedAsk C s i true).map fun (pl, s2) =>
      (((i, pl.1), pl.2), tellPending C s2 i pl.1, tot.modify i (· + 1))
  | .cycle =>
    let i := s.cyc % s.kids.length
    match s.kids[i]? with
    | some k =>
      let (pl, k') := C.ask1 k true
      let s1 := { s with kids := s.kids.set i k', cyc := s.cyc + 1 }
      some (((i, pl.1), pl.2), tellPending C s1 i pl.1, tot)
    | none => none

/-- `_ask_and_tell(n)` -/
def askAndTell (s : State σ P L) : Nat → List Nat → List ((Nat × P) × L) → List ((Nat × P) × L) × State σ P L
  | 0, _, acc => (acc.reverse, s)
  | n + 1, tot, acc =>
    match selectStep C s tot with
    | some (sel, s', tot') => askAndTell s' n tot' (sel :: acc)
    | none => (acc.reverse, s)

/-- `ask(n, tell_pending)` -/
def ask (s : State σ P L) (n : Nat) (commit : Bool) : List ((Nat × P) × L) × State σ P L :=
  if n = 0 then ([], s) else
  let (sel, s') := askAndTell C s n (s.kids.map C.total) []
  if commit then (sel, s')
  else (sel, { s with kids := s.kids.map C.restore })

inductive Op (P V : Type) where
  | ask (n : Nat) (commit : Bool)
  | tell (i : Nat) (x : P) (y : V)
  | tellPending (i : Nat) (x : P)
  | removeUnfinished
  | loss (real : Bool)
  | setStrategy (st : Strategy)

def step (d : L) (s : State σ P L) : Op P V → State σ P L
  | .ask n c => (ask C s n c).2
  | .tell i x y => tell C s i x y
  | .tellPending i x => tellPending C s i x
  | .removeUnfinished => removeUnfinished C s
  | .loss real => (loss C d s real).2
  | .setStrategy st => setStrategy s st

def run (d : L) (s : State σ P L) (ops : List (Op P V)) : State σ P L := ops.foldl (step C d) s

end ops
end Balancing
