import AdaptiveModel.L1D
import AdaptiveModel.Avg1D
/-
FULL model of `adaptive/learner/average_learner1D.py` (class AverageLearner1D(Learner1D)).

State = the Learner1D state (`base : L1D.State α`: `data` = running mean per abscissa, `neighbors`,
`neighbors_combined`, `losses`, `losses_combined`, `_bbox`, `_scale`, `_oldscale`) + the sampling
state of `Avg1D.lean` (`samp : Avg1D.State α`: `_data_samples`, `data`, `_number_samples`, `error`,
`_undersampled_points`, `min_samples`, `max_samples`, `neighbor_sampling`) + `pending_points`
(a set of `(seed, x)` pairs), `_distances`, `rescaled_error` (an `ItemSortedDict` ordered by
`-value`, ties in insertion order: `SortedKeyList.add` uses `bisect_right`), `delta`, `min_error`.

Mirrors, line by line and with the quirks of the code AS IT IS:
  `ask` (three branches), `_ask_for_more_samples`, `_ask_for_new_point`, `tell_pending`, `tell`
  (`_update_data`, `_update_data_structures` for "new" and "resampled"), `_update_distances`,
  `_update_rescaled_error_in_mean`, `_update_losses_resampling`, `tell_many`, `tell_many_at_point`,
  `remove_unfinished`, `loss`.
Quirks kept:
  * `pending_points` holds `(seed, x)` tuples, so the inherited `_missing_bounds` never finds a
    bound "pending": `base.pending` stays `[]` and a pending bound is still reported missing;
  * the three re-computation loops `for interval in reversed(self.losses): …` iterate the LIVE
    container they mutate (Learner1D.tell was repaired to iterate a snapshot, AverageLearner1D was
    not): `recomputeLive` visits position `len-1, len-2, …, 0` of the current list, so an entry whose
    loss grows is visited twice and its predecessor is skipped;
  * `_update_scale` is fed the raw sample (`tell`) or the min and max of all samples
    (`tell_many_at_point`), not the mean;
  * `tell_many_at_point` drops `x` from the under-sampled set when `n > min_samples` whatever the
    neighbours hold, `tell` when `n >= min_samples` and `n > neighbor_sampling * nneighbor`;
  * `rescaled_error[x]` of the only abscissa is never refreshed (early `return`).

Parameters that are not field operations: `lossFn`, `r12` (as in `L1D.lean`), `sqrt`
(`(…) ** 0.5`, `np.sqrt`), `tq` (`scipy.stats.t.ppf(1 - alpha, df)`; `alpha` enters only here),
`hypot` (`math.hypot`).  `next(iter(self._undersampled_points))` iterates a hash set: relational
(the code's choice is an input that must be a member).
Out of scope (excluded by the property's quantifier): abscissae outside the bounds, NaN, `ask(0)`,
`bounds[0] == bounds[1]`.
Hand-written; tied to /repo by the third correspondence of `harness/props/c16.py`.
-/
namespace Avg1DFull
open L1D (Loss Ival)

structure State (α : Type) where
  base : L1D.State α
  samp : Avg1D.State α
  pend : List (Nat × α) := []          -- `pending_points`: set of (seed, x)
  dist : List (α × α) := []            -- `_distances`: x ↦ distance to the right neighbour
  resc : List (α × Loss α) := []       -- `rescaled_error`, in container order
  delta : α
  minError : α
deriving Repr

variable {α : Type}

section ops
variable [Add α] [Sub α] [Mul α] [Div α] [OfNat α 0] [OfNat α 1] [NatCast α]
  [LT α] [DecidableLT α] [DecidableEq α]

def init (lo hi factor dxEps : α) (nn : Nat) (delta minError : α) (minSamples maxSamples : Nat)
    (neighborSampling : α) : State α :=
  { base := L1D.init lo hi factor dxEps nn,
    samp := { minSamples := minSamples, maxSamples := maxSamples, neighborSampling := neighborSampling },
    delta := delta, minError := minError }

/-! ### `decreasing_dict()`: `ItemSortedDict(lambda key, value: -value)` -/

/-- `a < b` on values that may be `inf` -/
def lossLt : Loss α → Loss α → Bool
  | .fin a, .fin b => decide (a < b)
  | .fin _, .inf => true
  | .inf, _ => false

/-- `SortedKeyList.add` with key `-value`: after every entry whose value is `≥` the new one -/
def rinsert (e : α × Loss α) : List (α × Loss α) → List (α × Loss α)
  | [] => [e]
  | f :: r => if lossLt f.2 e.2 then e :: f :: r else f :: rinsert e r

def rerase (x : α) (l : List (α × Loss α)) : List (α × Loss α) :=
  l.filter (fun e => !(decide (e.1 = x)))

/-- `rescaled_error[x] = v` -/
def rset (x : α) (v : Loss α) (l : List (α × Loss α)) : List (α × Loss α) :=
  rinsert (x, v) (rerase x l)

def rget (x : α) (l : List (α × Loss α)) : Option (Loss α) :=
  (l.find? (fun e => e.1 = x)).map Prod.snd

/-! ### `_distances` (only looked up by key) -/

def dget (x : α) (l : List (α × α)) : Option α := (l.find? (fun e => e.1 = x)).map Prod.snd

def dset (x v : α) (l : List (α × α)) : List (α × α) :=
  if (dget x l).isSome then l.map (fun e => if e.1 = x then (x, v) else e) else l ++ [(x, v)]

/-- `dists[x]` (a missing key would be a `KeyError`; unreachable for in-bounds histories) -/
def dgetD (l : List (α × α)) (x : α) : α := (dget x l).getD 0

/-- python `min(a, b)` -/
def minA (a b : α) : α := if b < a then b else a

/-! ### accessors -/

/-- `self.data[x]` (scalar) -/
def yOf (s : State α) (x : α) : α := ((L1D.dataGet s.base.data x).getD []).headD 0

/-- `self.error[x]`, `none` = inf -/
def errOf (s : State α) (x : α) : Option α := (Avg1D.find? s.samp x).bind (·.err)

/-- `self._number_samples.get(x, 0)` -/
def nOf (s : State α) (x : α) : Nat := match Avg1D.find? s.samp x with
  | some p => p.n
  | none => 0

/-- `self.error[x] / norm` -/
def errDiv : Option α → α → Loss α
  | none, _ => .inf
  | some e, d => .fin (e / d)

/-- `self.data[x] = y`: a known key keeps its position -/
def dataPut (d : List (α × List α)) (x : α) (y : List α) : List (α × List α) :=
  if (L1D.dataGet d x).isSome then d.map (fun kv => if kv.1 = x then (x, y) else kv) else d ++ [(x, y)]

/-- `self.neighbors[x]` -/
def nbrs (s : State α) (x : α) : Option α × Option α := L1D.findNeighbors x s.base.xs

/-! ### `_update_distances`, `_update_rescaled_error_in_mean` -/

/-- `_update_distances(x)` -/
def updateDistances (hypot : α → α → α) (s : State α) (x : α) : State α :=
  let (xl, xr) := nbrs s x
  let y := yOf s x
  let d := match xl with
    | some l => dset l (hypot (x - l) (y - yOf s l)) s.dist
    | none => s.dist
  let d := match xr with
    | some r => dset x (hypot (r - x) (yOf s r - y)) d
    | none => d
  { s with dist := d }

/-- `_update_rescaled_error_in_mean(x, point_type)`; `resampled = (point_type == "resampled")` -/
def updateRescaled (s : State α) (x : α) (resampled : Bool) : State α :=
  let (xl, xr) := nbrs s x
  let dists := s.dist
  match xl, xr with
  | none, none => s
  | _, _ =>
    let (dLeft, s) := match xl with
      | none => (dgetD dists x, s)
      | some l =>
        let s := if (rget l s.resc).isSome then
            let norm := match (nbrs s l).1 with
              | none => dgetD dists l
              | some ll => minA (dgetD dists ll) (dgetD dists l)
            { s with resc := rset l (errDiv (errOf s l) norm) s.resc }
          else s
        (dgetD dists l, s)
    let (dRight, s) := match xr with
      | none => (match xl with
          | some l => dgetD dists l
          | none => dgetD dists x, s)      -- `dists[x_left]`
      | some r =>
        let s := if (rget r s.resc).isSome then
            let norm := match (nbrs s r).2 with
              | none => dgetD dists x
              | some _ => minA (dgetD dists x) (dgetD dists r)
            { s with resc := rset r (errDiv (errOf s r) norm) s.resc }
          else s
        (dgetD dists x, s)
    if resampled then { s with resc := rset x (errDiv (errOf s x) (minA dLeft dRight)) s.resc } else s

/-- `if self.error[x] <= self.min_error or n >= self.max_samples: self.rescaled_error.pop(x, None)` -/
def popCheck (s : State α) (x : α) : State α :=
  let small := match errOf s x with
    | none => false
    | some e => !(decide (s.minError < e))
  if small || decide (s.samp.maxSamples ≤ nOf s x) then { s with resc := rerase x s.resc } else s

/-! ### the inherited loss machinery, where AverageLearner1D differs from Learner1D -/

variable (lossFn : List (Option α) → List (Option (List α)) → Loss α) (r12 : α → α)

/-- `_update_losses_resampling(x, real)`: `_update_losses` without the three `pop`s -/
def updateLossesResampling (s : L1D.State α) (x : α) (real : Bool) : L1D.State α :=
  let (xl, xr) := L1D.findNeighbors x s.xs
  let (a, b) := L1D.findNeighbors x s.xsC
  let s :=
    if real then
      (L1D.getIntervals s x).foldl (fun s iv => L1D.updInterp lossFn r12 s iv.1 iv.2) s
    else
      match xl, xr, a, b with
      | some xl, some xr, some a, some b =>
        let dx := xr - xl
        let loss := (L1D.lget (xl, xr) s.losses).getD .inf
        let lc := L1D.lset r12 s.lossScale (a, x) (L1D.Loss.mulDiv (x - a) loss dx) s.lossesC
        let lc := L1D.lset r12 s.lossScale (x, b) (L1D.Loss.mulDiv (b - x) loss dx) lc
        { s with lossesC := lc }
      | _, _, _, _ => s
  let leftUnknown := xl.isNone || (!real && xr.isNone)
  let s := match a with
    | some a => if leftUnknown then { s with lossesC := L1D.lset r12 s.lossScale (a, x) .inf s.lossesC } else s
    | none => s
  let rightUnknown := xr.isNone || (!real && xl.isNone)
  match b with
  | some b => if rightUnknown then { s with lossesC := L1D.lset r12 s.lossScale (x, b) .inf s.lossesC } else s
  | none => s

/-- `for interval in reversed(self.losses): self._update_interpolated_loss_in_interval(*interval)`
on the LIVE container: a list reverse-iterator holds a position that only decreases; every
visit re-inserts the visited entry (the length never changes).  `i` = position to visit next. -/
def recomputeLive (s : L1D.State α) : Nat → L1D.State α
  | 0 => match s.losses[0]? with
    | some e => L1D.updInterp lossFn r12 s e.1.1 e.1.2
    | none => s
  | i + 1 => match s.losses[i + 1]? with
    | some e => recomputeLive (L1D.updInterp lossFn r12 s e.1.1 e.1.2) i
    | none => s

/-- `if self._scale[1] > self._recompute_losses_factor * self._oldscale[1]: …` -/
def maybeRescaleLive (s : L1D.State α) : L1D.State α :=
  if s.factor * s.oldScaleY < s.scaleY then
    let s := if s.losses.isEmpty then s else recomputeLive lossFn r12 s (s.losses.length - 1)
    { s with oldScaleY := s.scaleY }
  else s

/-! ### tell -/

variable (sqrt : α → α) (tq : Nat → α) (hypot : α → α → α)

/-- `_update_data(x, y, "new")` + `_update_data_structures((seed, x), y, "new")`, `x` in bounds
and not in `data` -/
def tellNew (s : State α) (seed : Nat) (x y : α) : State α :=
  -- `_data_samples[x] = {seed: y}`, `_number_samples[x] = 1`, `_undersampled_points.add(x)`,
  -- `error[x] = inf` (the "new" branch of `Avg1D.tell`)
  let samp := Avg1D.tell sqrt tq s.samp seed x y
  let b := s.base
  let b := { b with data := b.data ++ [(x, [y])] }
  let b := { b with xsC := L1D.sinsert x b.xsC, xs := L1D.sinsert x b.xs }
  let b := L1D.updateScale b x [y]
  let b := L1D.updateLosses lossFn r12 b x true
  let b := maybeRescaleLive lossFn r12 b
  let s := { s with base := b, samp := samp, resc := rset x .inf s.resc }
  let s := updateDistances hypot s x
  updateRescaled s x false

/-- the part of both "resampled" paths after the sample store, mean, count, under-sampled set
and error have been updated (`samp`); `scaleYs` = the values fed to `_update_scale` -/
def afterResample (s : State α) (samp : Avg1D.State α) (x : α) (scaleYs : List α) : State α :=
  let m := match Avg1D.find? samp x with
    | some p => p.mean
    | none => 0
  let s := { s with base := { s.base with data := dataPut s.base.data x [m] }, samp := samp }
  let s := updateDistances hypot s x
  let s := updateRescaled s x true
  let s := popCheck s x
  let b := scaleYs.foldl (fun b y => L1D.updateScale b x [y]) s.base
  let b := updateLossesResampling lossFn r12 b x true
  let b := maybeRescaleLive lossFn r12 b
  { s with base := b }

/-- `_update_data(x, y, "resampled")` + `_update_data_structures((seed, x), y, "resampled")`,
`x` in `data`, `seed` not yet in `_data_samples[x]` -/
def tellResampled (s : State α) (seed : Nat) (x y : α) : State α :=
  afterResample lossFn r12 hypot s (Avg1D.tell sqrt tq s.samp seed x y) x [y]

def pendErase (l : List (Nat × α)) (seed : Nat) (x : α) : List (Nat × α) :=
  l.filter (fun q => !(q.1 == seed && decide (q.2 = x)))

/-- `tell((seed, x), y)` for `lo ≤ x ≤ hi` -/
def tell (s : State α) (seed : Nat) (x y : α) : State α :=
  let s' := match Avg1D.find? s.samp x with
    | none => tellNew lossFn r12 sqrt tq hypot s seed x y
    | some p =>
      if p.samples.any (fun sy => sy.1 == seed) then s      -- seed already known: ignored
      else tellResampled lossFn r12 sqrt tq hypot s seed x y
  { s' with pend := pendErase s'.pend seed x }

/-- `tell_pending((seed, x))` -/
def tellPending (s : State α) (seed : Nat) (x : α) : State α :=
  let s := { s with pend := if s.pend.any (fun q => q.1 == seed && decide (q.2 = x)) then s.pend
                            else (seed, x) :: s.pend }
  if L1D.hasData s.base x then s else
  let b := { s.base with xsC := L1D.sinsert x s.base.xsC }
  { s with base := L1D.updateLosses lossFn r12 b x false }

/-- `remove_unfinished()` (inherited) -/
def removeUnfinished (s : State α) : State α :=
  { s with pend := [], base := L1D.removeUnfinished s.base }

/-- `loss(real)` (inherited; `base.pending = []`, so a bound counts only once it has a value) -/
def loss (s : State α) (real : Bool) : Loss α := L1D.loss s.base real

/-- all sample values at `x`, in dict order -/
def samplesOf (samp : Avg1D.State α) (x : α) : List α := match Avg1D.find? samp x with
  | some p => p.samples.map Prod.snd
  | none => []

/-- `tell_many_at_point(x, seed_y_mapping)` for `lo ≤ x ≤ hi`; `mapping` in dict order -/
def tellManyAtPoint (s : State α) (x : α) (mapping : List (Nat × α)) : State α :=
  -- `self.pending_points.difference_update((seed, x) for seed in seed_y_mapping)`
  let s := { s with pend := mapping.foldl (fun l kv => pendErase l kv.1 x) s.pend }
  let (s, mapping) :=
    match Avg1D.find? s.samp x, mapping with
    | none, (seed, y) :: rest => (tellNew lossFn r12 sqrt tq hypot s seed x y, rest)
    | _, _ => (s, mapping)
  match mapping with
  | [] => s
  | _ :: _ =>
    -- `_data_samples[x].update(…)`, `data[x] = (np.mean(ys)·len(ys) + data[x]·n_old)/n`, `_number_samples[x] = n`,
    -- `if n > min_samples: discard`, `error[x] = …`  (the batch part of `Avg1D.tellManyAtPoint`; `x` is known here)
    let samp := Avg1D.tellManyAtPoint sqrt tq s.samp x mapping
    let ys := samplesOf samp x
    afterResample lossFn r12 hypot s samp x [L1D.minOfL ys, L1D.maxOfL ys]

/-- the `mapping` of `tell_many`: abscissae in first-seen order, per abscissa seed ↦ y in dict order -/
def groupPts (pts : List ((Nat × α) × α)) : List (α × List (Nat × α)) :=
  pts.foldl (fun m p =>
    if m.any (fun e => decide (e.1 = p.1.2)) then
      m.map (fun e => if e.1 = p.1.2 then (e.1, Avg1D.dictUpdate e.2 [(p.1.1, p.2)]) else e)
    else m ++ [(p.1.2, [(p.1.1, p.2)])]) []

/-- `tell_many(xs, ys)` (all abscissae in bounds) -/
def tellMany (s : State α) (pts : List ((Nat × α) × α)) : State α :=
  (groupPts pts).foldl (fun s g =>
    match g.2 with
    | [] => s
    | [(seed, y)] => tell lossFn r12 sqrt tq hypot s seed g.1 y
    | m => tellManyAtPoint lossFn r12 sqrt tq hypot s g.1 m) s

/-! ### ask -/

def lossAvg2 : Loss α → Loss α → Loss α      -- `(loss_left + loss_right) / 2`
  | .fin a, .fin b => .fin ((a + b) / ((2 : Nat) : α))
  | _, _ => .inf

/-- `_ask_for_more_samples(x, n)` -/
def askMore (s : State α) (x : α) (n : Nat) : List (Nat × α) × List (Loss α) :=
  let nExisting := nOf s x
  let pts := (List.range n).map fun seed => (seed + nExisting, x)
  let (xl, xr) := L1D.findNeighbors x s.base.xsC
  let lossLeft := match xl with
    | some l => (L1D.lget (l, x) s.base.lossesC).getD .inf
    | none => .inf
  let lossRight := match xr with
    | some r => (L1D.lget (x, r) s.base.lossesC).getD .inf
    | none => .inf
  let imp : Loss α := match lossAvg2 lossLeft lossRight with
    | .inf => .inf
    | .fin v => .fin (v - v * sqrt (nExisting : α) / sqrt ((nExisting + n : Nat) : α))
  (pts, List.replicate n (L1D.Loss.divNat imp n))

/-- `_ask_for_new_point(n)`: Learner1D's `_ask_points_without_adding(1)`, the single point
handed out with seeds `0 … n-1` -/
def askNew (s : State α) (n : Nat) : List (Nat × α) × List (Loss α) :=
  match L1D.askPoints r12 s.base 1 with
  | ([p], [imp]) => ((List.range n).map fun seed => (seed, p), List.replicate n (L1D.Loss.divNat imp n))
  | _ => ([], [])       -- the code's tuple unpacking raises here; unreachable for `lo < hi`

inductive Branch where
  | under | resample | newPoint
deriving Repr, DecidableEq

/-- which branch `ask` takes and for which abscissa; `choice` = the element the code took from
the under-sampled set (`none` result: the offered choice is not a member) -/
def askBranch (s : State α) (choice : α) : Option (Branch × α) :=
  if !s.samp.under.isEmpty then
    if choice ∈ s.samp.under then some (.under, choice) else none
  else if s.base.data.length ≤ 1 then some (.newPoint, choice)
  else match s.resc with
    | (x, re) :: _ => if lossLt (.fin s.delta) re then some (.resample, x) else some (.newPoint, choice)
    | [] => some (.newPoint, choice)

/-- the points and loss improvements of `ask(n)` -/
def askPts (s : State α) (n : Nat) (choice : α) : Option (List (Nat × α) × List (Loss α)) :=
  match askBranch s choice with
  | none => none
  | some (.under, x) => some (askMore sqrt s x n)
  | some (.resample, x) => some (askMore sqrt s x n)
  | some (.newPoint, _) => some (askNew r12 s n)

/-- `ask(n, tell_pending)` -/
def ask (s : State α) (n : Nat) (choice : α) (commit : Bool) :
    Option ((List (Nat × α) × List (Loss α)) × State α) :=
  (askPts r12 sqrt s n choice).map fun r =>
    (r, if commit then r.1.foldl (fun s p => tellPending lossFn r12 s p.1 p.2) s else s)

/-! ### operations and runs -/
inductive Op (α : Type) where
  | tell (seed : Nat) (x y : α)
  | tellPending (seed : Nat) (x : α)
  | tellMany (pts : List ((Nat × α) × α))
  | tellManyAtPoint (x : α) (mapping : List (Nat × α))
  | removeUnfinished
  | ask (n : Nat) (choice : α) (commit : Bool)
deriving Repr

def step (s : State α) : Op α → State α
  | .tell seed x y => tell lossFn r12 sqrt tq hypot s seed x y
  | .tellPending seed x => tellPending lossFn r12 s seed x
  | .tellMany pts => tellMany lossFn r12 sqrt tq hypot s pts
  | .tellManyAtPoint x m => tellManyAtPoint lossFn r12 sqrt tq hypot s x m
  | .removeUnfinished => removeUnfinished s
  | .ask n c commit => match ask lossFn r12 sqrt s n c commit with
    | some r => r.2
    | none => s

def run (s : State α) (ops : List (Op α)) : State α :=
  ops.foldl (step lossFn r12 sqrt tq hypot) s

end ops
end Avg1DFull
