/-
Model of the BOOKKEEPING of `adaptive/learner/integrator_learner.py`
(classes `_Interval` and `IntegratorLearner`), as the code is after the repairs "queue an interval only once
(and only a live one) for a forced split", "skip queued intervals that were dropped", "`min_sep` test on magnitudes".

What is modelled, line by line:
  `_Interval`:  `a b depth rdepth ndiv parent children data(keys) done_leaves depth_complete removed err igral`,
                `refinement_complete`, `refine`, `split`, `update_heuristic_err`, the bookkeeping of `calc_err`
                (new error, heuristic errors of unfinished children), `calc_ndiv`, `update_ndiv_recursively`,
                `complete_process` (order of the calls, early return of the first interval, the done-leaves walk).
  `IntegratorLearner`: `ivals priority_split _stack pending_points data(keys) x_mapping first_ival`,
                `tell` (with the loop that completes several depths), `propagate_removed`, `add_ival`,
                `_fill_stack`, `pop_from_stack`, `_ask_and_tell_pending`, `ask` (roll-back when not committing),
                `approximating_intervals`, `igral`, `err`, `done`, `npoints`.
What is NOT modelled (enters as an oracle, recorded on the real code by the harness):
  * `pts a b depth`      — the abscissae `_Interval.points(depth)` of the interval `(a, b)`;
  * `cp id depth`        — the numeric outcome of `complete_process(depth)` of interval number `id`
                           (`igral`, `force_split`, `remove`, the new `err` of every `calc_err` call and the
                           boolean `div` of every `calc_ndiv` call it makes).
Exceptions are outcomes: every step returns the state reached (mutations made before a `raise` persist, as in
Python) and `Option Err`.  Intervals are numbered in creation order (`first_ival` = 0).
Python `set`s are duplicate-free lists (order irrelevant for every observable), `x_mapping[x]` is the
`SortedSet(key=rdepth)`: ascending `rdepth`, ties in insertion order.
Polymorphic in the number type `α` (run at `Float`; theorems hold for every `α`, every oracle).
Recursions over the interval tree take fuel (the number of intervals is always enough).
-/
namespace Integ

inductive Err where
  | value                       -- ValueError: abscissa belongs to no interval; `max()` of no interval
  | runtime                     -- RuntimeError("No way to improve the integral estimate.")
  | divergent                   -- DivergentIntegralError
  | internal (what : String)    -- AssertionError / KeyError raised inside the learner
  | fuel                        -- model artefact: recursion budget exhausted
deriving Repr, DecidableEq

structure Ival (α : Type) where
  a : α
  b : α
  depth : Nat
  rdepth : Nat
  ndiv : Nat := 0
  parent : Option Nat := none
  children : List Nat := []
  data : List α := []                       -- keys of `ival.data`
  doneLeaves : Option (List Nat) := some [] -- `None` = handed to the ancestors
  depthComplete : Option Nat := none
  removed : Bool := false
  err : α
  igral : α
deriving Repr

/-- numeric outcome of one `complete_process` call -/
structure CPOut (α : Type) where
  igral : α
  forceSplit : Bool
  remove : Bool
  selfErr : α              -- `self.err` after `self.calc_err(c_old)` (when that call is made)
  selfDiv : Bool           -- `div` of `self.calc_ndiv()`
  childDiv : List Bool     -- `div` of `child.calc_ndiv()`, by position in `children`
  childErr : List α        -- `child.err` after `child.calc_err(c_old)`, by position

structure Oracle (α : Type) where
  pts : α → α → Nat → List α
  cp : Nat → Nat → CPOut α

structure Params (α : Type) where
  minSep : α
  tol : α
  inf : α
  ndivMax : Nat := 20
  maxIvals : Nat := 1000

abbrev Forest (α : Type) := List (Ival α)

structure St (α : Type) where
  F : Forest α
  ivals : List Nat := []
  prio : List Nat := []               -- `priority_split` (a list; popped at the end)
  stack : List α := []                -- `_stack`
  pending : List α := []
  data : List α := []                 -- keys of `learner.data`
  xmap : List (α × List Nat) := []
  -- ghost (not in the code)
  pushed : List α := []               -- every abscissa ever appended to `_stack`, in order
  popped : List α := []               -- every abscissa ever taken off `_stack`, in order
  handed : List α := []               -- every abscissa returned by a committing `ask`, in order
  cpLog : List (Nat × Nat) := []      -- `complete_process` calls `(interval, depth)`, in order
deriving Repr

/-- `coeff.ns` -/
def ns : Nat → Nat
  | 0 => 5
  | 1 => 9
  | 2 => 17
  | _ => 33

variable {α : Type}

/-! ### containers -/
def modAt {β : Type} : List β → Nat → (β → β) → List β
  | [], _, _ => []
  | x :: r, 0, f => f x :: r
  | x :: r, i + 1, f => x :: modAt r i f

/-- `set.add` -/
def sadd {β : Type} [DecidableEq β] (x : β) (l : List β) : List β := if x ∈ l then l else l ++ [x]

/-- `set.update` -/
def sunion {β : Type} [DecidableEq β] (l m : List β) : List β := m.foldl (fun acc x => sadd x acc) l

section forest
variable [OfNat α 0]

def dummy : Ival α := { a := 0, b := 0, depth := 0, rdepth := 0, err := 0, igral := 0 }

def getI (F : Forest α) (i : Nat) : Ival α := F.getD i dummy

variable [DecidableEq α] [Div α] [OfNat α 2]

def half (v : α) : α := v / 2

/-- `refinement_complete(depth)` -/
def refinementComplete (O : Oracle α) (I : Ival α) (depth : Nat) : Bool :=
  if I.data.length < ns depth then false
  else (O.pts I.a I.b depth).all (fun p => p ∈ I.data)

/-- the `continue` test of `update_heuristic_err`:
`child.depth_complete or (child.depth_complete == 0 and self.depth_complete is not None)` -/
def heurSkip (C J : Ival α) : Bool :=
  match C.depthComplete with
  | some (_ + 1) => true
  | some 0 => J.depthComplete.isSome
  | none => false

/-- `update_heuristic_err(value)` of interval `j` -/
def updHeur : Nat → Forest α → Nat → α → Forest α
  | 0, F, _, _ => F
  | fuel + 1, F, j, v =>
    let F := modAt F j (fun I => { I with err := v })
    (getI F j).children.foldl
      (fun F c => if heurSkip (getI F c) (getI F j) then F else updHeur fuel F c (half v)) F

/-- bookkeeping of `calc_err`: the new error `e` and the heuristic errors of the children
that have no completed rule yet -/
def calcErr (F : Forest α) (j : Nat) (e : α) : Forest α :=
  let F := modAt F j (fun I => { I with err := e })
  (getI F j).children.foldl
    (fun F c => if (getI F c).depthComplete.isNone then updHeur F.length F c (half e) else F) F

/-- `ndiv > coeff.ndiv_max and 2 * ndiv > rdepth` -/
def divergent (P : Params α) (I : Ival α) : Bool :=
  decide (I.ndiv > P.ndivMax) && decide (2 * I.ndiv > I.rdepth)

/-- a loop over a list that stops at the first raised exception -/
def forEach {σ β : Type} (f : σ → β → σ × Option Err) : List β → σ → σ × Option Err
  | [], s => (s, none)
  | x :: r, s =>
    match f s x with
    | (s', none) => forEach f r s'
    | (s', some e) => (s', some e)

/-- `update_ndiv_recursively()` of interval `j` -/
def updNdivRec (P : Params α) : Nat → Forest α → Nat → Forest α × Option Err
  | 0, F, _ => (F, some .fuel)
  | fuel + 1, F, j =>
    let F := modAt F j (fun I => { I with ndiv := I.ndiv + 1 })
    if divergent P (getI F j) then (F, some .divergent)
    else forEach (fun F c => updNdivRec P fuel F c) (getI F j).children F

/-- `calc_ndiv()` of interval `j`, with `div` from the oracle -/
def calcNdiv (P : Params α) (F : Forest α) (j : Nat) (div : Bool) : Forest α × Option Err :=
  let F := modAt F j (fun I => { I with ndiv := I.ndiv + (if div then 1 else 0) })
  if divergent P (getI F j) then (F, some .divergent)
  else if div then forEach (fun F c => updNdivRec P F.length F c) (getI F j).children F
  else (F, none)

/-- one round of the `while ival is not None` loop of `complete_process` at ancestor `p`;
`none` = `break` -/
def walkStep (F : Forest α) (p : Nat) (old : List Nat) : Option (Forest α × List Nat) :=
  let P := getI F p
  let unused := P.children.filter (fun c => (getI F c).doneLeaves.isSome)
  if unused.all (fun c => match (getI F c).doneLeaves with | some l => !l.isEmpty | none => true) then
    let old := sadd p old
    let r := P.children.foldl
      (fun (r : List Nat × Forest α) c =>
        match (getI r.2 c).doneLeaves with
        | none => r
        | some l => (sunion r.1 l, modAt r.2 c (fun C => { C with doneLeaves := none })))
      (P.doneLeaves.getD [], F)
    some (modAt r.2 p (fun I => { I with doneLeaves := some (r.1.filter (fun x => x ∉ old)) }), old)
  else none

/-- the `while ival is not None` loop -/
def walkUp : Nat → Forest α → Option Nat → List Nat → Forest α
  | 0, F, _, _ => F
  | _ + 1, F, none, _ => F
  | fuel + 1, F, some p, old =>
    match walkStep F p old with
    | none => F
    | some (F', old') => walkUp fuel F' (getI F' p).parent old'

/-- the done-leaves part of `complete_process` -/
def propagateDone (F : Forest α) (i : Nat) : Forest α :=
  match (getI F i).doneLeaves with
  | some [] =>
    let F := modAt F i (fun I => { I with doneLeaves := some [i] })
    walkUp F.length F (getI F i).parent []
  | _ => F

structure CPRes (α : Type) where
  F : Forest α
  err : Option Err := none
  forceSplit : Bool := false
  remove : Bool := false

/-- `child.calc_ndiv()` / `child.calc_err(c_old)` loop of the split branch -/
def cpChildren (P : Params α) (o : CPOut α) : List Nat → Nat → Forest α → Forest α × Option Err
  | [], _, F => (F, none)
  | c :: r, k, F =>
    match (if (getI F c).depthComplete.isSome then calcNdiv P F c (o.childDiv.getD k false) else (F, none)) with
    | (F, some e) => (F, some e)
    | (F, none) =>
      let F := if (getI F c).depthComplete = some 0 then calcErr F c (o.childErr.getD k 0) else F
      cpChildren P o r (k + 1) F

/-- `complete_process(depth)` of interval `i` -/
def completeProcess (O : Oracle α) (P : Params α) (F : Forest α) (i depth : Nat) : CPRes α :=
  let I := getI F i
  if !(I.depthComplete.isNone || I.depthComplete = some (depth - 1) && depth ≠ 0) then
    { F := F, err := some (.internal "assert self.depth_complete is None or self.depth_complete == depth - 1") }
  else
  let o := O.cp i depth
  let F := modAt F i (fun I => { I with depthComplete := some depth })
  if I.parent.isNone && depth = 2 then { F := F }          -- first_ival: `return False, False`
  else
  let F := modAt F i (fun I => { I with igral := o.igral })
  let r : Forest α × Option Err × Bool :=
    if depth ≠ 0 then (calcErr F i o.selfErr, none, o.forceSplit)
    else
      let r1 : Forest α × Option Err :=
        match I.parent with
        | none => (F, some (.internal "assert self.parent is not None"))
        | some p =>
          if (getI F p).depthComplete.isSome then calcNdiv P (calcErr F i o.selfErr) i o.selfDiv
          else (F, none)
      match r1 with
      | (F, some e) => (F, some e, false)
      | (F, none) =>
        let r2 := cpChildren P o (getI F i).children 0 F
        (r2.1, r2.2, false)
  match r with
  | (F, some e, _) => { F := F, err := some e }
  | (F, none, fs) => { F := propagateDone F i, forceSplit := fs, remove := o.remove }

/-- `_propagate_removed_down`: marks the subtree, returns the intervals to discard from `ivals` -/
def removeDown : Nat → Forest α → Nat → Forest α × List Nat
  | 0, F, _ => (F, [])
  | fuel + 1, F, j =>
    let F := modAt F j (fun I => { I with removed := true })
    (getI F j).children.foldl
      (fun (r : Forest α × List Nat) c => let r' := removeDown fuel r.1 c; (r'.1, r.2 ++ r'.2)) (F, [j])

end forest

/-! ### the learner -/
section learner
variable [OfNat α 0] [DecidableEq α] [Div α] [OfNat α 2] [LT α] [DecidableLT α] [Sub α] [Mul α] [Add α] [Neg α]

/-- `SortedSet(key=rdepth).add` -/
def insByRdepth (F : Forest α) (i : Nat) : List Nat → List Nat
  | [] => [i]
  | j :: r => if (getI F i).rdepth < (getI F j).rdepth then i :: j :: r else j :: insByRdepth F i r

def xmapAdd (F : Forest α) (x : α) (i : Nat) : List (α × List Nat) → List (α × List Nat)
  | [] => [(x, [i])]
  | (y, l) :: r => if y = x then (y, if i ∈ l then l else insByRdepth F i l) :: r else (y, l) :: xmapAdd F x i r

def xmapGet (m : List (α × List Nat)) (x : α) : Option (List Nat) := (m.find? (fun e => e.1 = x)).map Prod.snd

/-- body of the `for depth in range(from_depth, ival.depth + 1)` loop of `tell` -/
def depthStep (O : Oracle α) (P : Params α) (i : Nat) (s : St α) (d : Nat) : St α × Option Err :=
  if refinementComplete O (getI s.F i) d then
    let r := completeProcess O P s.F i d
    let s := { s with F := r.F, cpLog := s.cpLog ++ [(i, d)] }
    match r.err with
    | some e => (s, some e)
    | none =>
      if r.remove then
        let rd := removeDown s.F.length s.F i
        ({ s with F := rd.1, ivals := s.ivals.filter (fun j => j ∉ rd.2) }, none)
      else if r.forceSplit && (getI s.F i).children.isEmpty && decide (i ∉ s.prio) && decide (i ∈ s.ivals) then
        ({ s with prio := s.prio ++ [i] }, none)
      else (s, none)
  else (s, none)

/-- body of the `for ival in ivals` loop of `tell` -/
def tellIval (O : Oracle α) (P : Params α) (x : α) (s : St α) (i : Nat) : St α × Option Err :=
  let s := { s with F := modAt s.F i (fun I => { I with data := sadd x I.data }) }
  let I := getI s.F i
  let fromD := match I.depthComplete with
    | none => if I.parent.isSome then 0 else 2
    | some d => d + 1
  forEach (depthStep O P i) (List.range' fromD (I.depth + 1 - fromD)) s

/-- `tell(point, value)` (the value only feeds the numerics, i.e. the oracle) -/
def tell (O : Oracle α) (P : Params α) (s : St α) (x : α) : St α × Option Err :=
  match xmapGet s.xmap x with
  | none => (s, some .value)
  | some ids =>
    let s := { s with data := sadd x s.data, pending := s.pending.filter (fun y => y ≠ x) }
    forEach (tellIval O P x) ids s

/-- body of the loop of `add_ival` -/
def addPoint (O : Oracle α) (P : Params α) (i : Nat) (s : St α) (x : α) : St α × Option Err :=
  let s := { s with xmap := xmapAdd s.F x i s.xmap }
  if x ∈ s.data then tell O P s x
  else if x ∉ s.pending then
    ({ s with pending := s.pending ++ [x], stack := s.stack ++ [x], pushed := s.pushed ++ [x] }, none)
  else (s, none)

/-- `add_ival(ival)` -/
def addIval (O : Oracle α) (P : Params α) (s : St α) (i : Nat) : St α × Option Err :=
  let I := getI s.F i
  match forEach (addPoint O P i) (O.pts I.a I.b I.depth) s with
  | (s, some e) => (s, some e)
  | (s, none) => ({ s with ivals := sadd i s.ivals }, none)

/-- `(x.err, x.a)` tuple order -/
def keyLt (I J : Ival α) : Bool := decide (I.err < J.err) || (!decide (J.err < I.err) && decide (I.a < J.a))

/-- `max(self.ivals, key=...)` -/
def argmax (F : Forest α) : List Nat → Option Nat
  | [] => none
  | i :: r => some (r.foldl (fun m j => if keyLt (getI F m) (getI F j) then j else m) i)

/-- `min(self.ivals, key=...)` -/
def argmin (F : Forest α) : List Nat → Option Nat
  | [] => none
  | i :: r => some (r.foldl (fun m j => if keyLt (getI F j) (getI F m) then j else m) i)

/-- `self.ivals.remove(ival)` -/
def removeIval (s : St α) (i : Nat) : St α × Option Err :=
  if i ∈ s.ivals then ({ s with ivals := s.ivals.filter (fun j => j ≠ i) }, none)
  else (s, some (.internal "KeyError: self.ivals.remove(ival)"))

def absA (x : α) : α := if x < 0 then -x else x

/-- `points[1] - points[0] < abs(points[0]) * min_sep or points[-1] - points[-2] < abs(points[-2]) * min_sep` -/
def tooNarrow (P : Params α) (pts : List α) : Bool :=
  let n := pts.length
  decide (pts.getD 1 0 - pts.getD 0 0 < absA (pts.getD 0 0) * P.minSep) ||
  decide (pts.getD (n - 1) 0 - pts.getD (n - 2) 0 < absA (pts.getD (n - 2) 0) * P.minSep)

/-- `while self.priority_split and self.priority_split[-1] not in self.ivals: self.priority_split.pop()` -/
def dropDead (ivals : List Nat) : List Nat → List Nat
  | [] => []
  | i :: r =>
    match dropDead ivals r with
    | [] => if i ∈ ivals then [i] else []
    | r' => i :: r'

/-- `ival.split()`: appends the two children to the forest -/
def split (s : St α) (i : Nat) (pts : List α) : St α × Nat × Nat :=
  let I := getI s.F i
  let m := pts.getD (pts.length / 2) 0
  let l := s.F.length
  let mk (a b : α) : Ival α :=
    { a := a, b := b, depth := 0, rdepth := I.rdepth + 1, ndiv := I.ndiv, parent := some i,
      err := half I.err, igral := 0 }
  let F := modAt s.F i (fun I => { I with children := [l, l + 1] })
  ({ s with F := F ++ [mk I.a m, mk m I.b] }, l, l + 1)

/-- `_fill_stack()` -/
def fillStack (O : Oracle α) (P : Params α) (s : St α) : St α × Option Err :=
  let s := { s with prio := dropDead s.ivals s.prio }
  let force := !s.prio.isEmpty
  let pick : Option Nat × List Nat :=
    if force then (s.prio.getLast?, s.prio.dropLast) else (argmax s.F s.ivals, s.prio)
  match pick with
  | (none, _) => (s, some .value)
  | (some i, prio') =>
    let s := { s with prio := prio' }
    let I := getI s.F i
    if !I.children.isEmpty then (s, some (.internal "assert not ival.children")) else
    let pts := O.pts I.a I.b I.depth
    let r : St α × Option Err :=
      if tooNarrow P pts then removeIval s i
      else if I.depth = 3 || force then
        match removeIval s i with
        | (s, some e) => (s, some e)
        | (s, none) =>
          let (s, l, r) := split s i pts
          match addIval O P s l with
          | (s, some e) => (s, some e)
          | (s, none) => addIval O P s r
      else addIval O P { s with F := modAt s.F i (fun I => { I with depth := I.depth + 1 }) } i
    match r with
    | (s, some e) => (s, some e)
    | (s, none) =>
      if s.ivals.length > P.maxIvals then
        match argmin s.F s.ivals with
        | some m => ({ s with ivals := s.ivals.filter (fun j => j ≠ m) }, none)
        | none => (s, some .value)
      else (s, none)

/-- `max(ival.err for ival in self.x_mapping[x])` -/
def lossImprovement (s : St α) (x : α) : α :=
  match xmapGet s.xmap x with
  | some (i :: r) => r.foldl (fun m j => if m < (getI s.F j).err then (getI s.F j).err else m) (getI s.F i).err
  | _ => 0

/-- `pop_from_stack(n)` -/
def popFromStack (s : St α) (n : Nat) : St α × List α × List α :=
  let pts := s.stack.take n
  ({ s with stack := s.stack.drop n, popped := s.popped ++ pts }, pts, pts.map (lossImprovement s))

/-- the `while n_left > 0` loop of `_ask_and_tell_pending` -/
def askLoop (O : Oracle α) (P : Params α) : Nat → St α → Nat → List α → List α → St α × Option Err × List α × List α
  | 0, s, nLeft, pts, imps => (s, if nLeft = 0 then none else some .fuel, pts, imps)
  | fuel + 1, s, nLeft, pts, imps =>
    if nLeft = 0 then (s, none, pts, imps) else
    match fillStack O P s with
    | (s, some .value) => (s, some .runtime, pts, imps)
    | (s, some .divergent) => (s, some .runtime, pts, imps)      -- DivergentIntegralError is a ValueError
    | (s, some e) => (s, some e, pts, imps)
    | (s, none) =>
      let (s, np, ni) := popFromStack s nLeft
      askLoop O P fuel s (nLeft - np.length) (pts ++ np) (imps ++ ni)

/-- `_ask_and_tell_pending(n)` -/
def askCommit (O : Oracle α) (P : Params α) (fuel : Nat) (s : St α) (n : Nat) : St α × Option Err × List α × List α :=
  let (s, pts, imps) := popFromStack s n
  askLoop O P fuel s (n - pts.length) pts imps

/-- `ask(n, tell_pending)`; without commit the whole state is rolled back (`restore`) -/
def ask (O : Oracle α) (P : Params α) (fuel : Nat) (s : St α) (n : Nat) (commit : Bool) :
    St α × Option Err × List α × List α :=
  match askCommit O P fuel s n with
  | (s', none, pts, imps) =>
    if commit then ({ s' with handed := s'.handed ++ pts }, none, pts, imps) else (s, none, pts, imps)
  | (s', some e, _, _) => (if commit then s' else s, some e, [], [])

/-- `rdepth` ascending (the order of a `SortedSet(key=rdepth)`) -/
def sortedByRdepth (F : Forest α) : List Nat → Bool
  | [] => true
  | [_] => true
  | i :: j :: r => decide ((getI F i).rdepth ≤ (getI F j).rdepth) && sortedByRdepth F (j :: r)

/-- environment event: the deep copy made by `ask(n, tell_pending=False)` (`utils.restore`) rebuilds every
`x_mapping[x]` from a hash set, so members of equal `rdepth` come back in an arbitrary order; `ids` is that order -/
def reorder (s : St α) (x : α) (ids : List Nat) : St α :=
  match xmapGet s.xmap x with
  | none => s
  | some old =>
    if ids.isPerm old && sortedByRdepth s.F ids then
      { s with xmap := s.xmap.map (fun e => if e.1 = x then (e.1, ids) else e) }
    else s

/-- `IntegratorLearner.__init__`; `errMax` is `sys.float_info.max` -/
def init (O : Oracle α) (P : Params α) (a b errMax : α) : St α × Option Err :=
  let root : Ival α := { a := a, b := b, depth := 2, rdepth := 1, err := errMax, igral := 0 }
  addIval O P { F := [root] } 0

/-! ### observables -/
/-- `approximating_intervals` (`none` = the assertion `first_ival.done_leaves is not None` fails) -/
def approximating (s : St α) : Option (List Nat) := (getI s.F 0).doneLeaves

def sumOver (s : St α) (f : Ival α → α) (l : List Nat) : α := l.foldl (fun acc i => acc + f (getI s.F i)) 0

/-- `igral` (sum over the approximating intervals, in the order of `l`) -/
def igralOf (s : St α) (l : List Nat) : α := sumOver s (·.igral) l

/-- `err` -/
def errOf (P : Params α) (s : St α) (l : List Nat) : α := if l.isEmpty then P.inf else sumOver s (·.err) l

/-- `done()` -/
def doneOf (P : Params α) (s : St α) (l : List Nat) : Bool :=
  let err := errOf P s l
  let ig := igralOf s l
  let ex := sumOver s (·.err) (l.filter (fun i => (getI s.F i).removed))
  let t := absA ig * P.tol
  decide (err = 0) || decide (err < t) || (decide (err - ex < t) && decide (t < ex)) || s.ivals.isEmpty

def npoints (s : St α) : Nat := s.data.length

/-! ### decidable property predicates (evaluated by the driver on reached states) -/
/-- concatenation of the results, `none` if one is missing -/
def joinOpts : List (Option (List Nat)) → Option (List Nat)
  | [] => some []
  | none :: _ => none
  | some x :: r => (joinOpts r).map (x ++ ·)

/-- walk down from `i`, stopping at members of `S`: the members met, `none` if some path reaches a childless
interval without meeting `S` -/
def descend (F : Forest α) (S : List Nat) : Nat → Nat → Option (List Nat)
  | 0, _ => none
  | fuel + 1, i =>
    if i ∈ S then some [i]
    else if (getI F i).children = [] then none
    else joinOpts ((getI F i).children.map (descend F S fuel))

/-- `S` is a cut of the subtree of `i`: every way down from `i` meets `S`, and `S` has nothing else -/
def isCutB (F : Forest α) (i : Nat) (S : List Nat) : Bool :=
  match descend F S F.length i with
  | some L => L.isPerm S
  | none => false

/-- every interval with a non-empty `done_leaves` holds a cut of its own subtree -/
def cutOK (F : Forest α) : Bool :=
  (List.range F.length).all fun i =>
    match (getI F i).doneLeaves with
    | some (x :: S) => isCutB F i (x :: S)
    | _ => true

end learner
end Integ
