/-
Model of `adaptive/runner.py`: `BaseRunner` bookkeeping (`_ask`, `_get_futures`,
`_process_futures`, `_remove_unfinished`, `_do_raise`, `failed`) and the run loops of
`BlockingRunner._run` and `AsyncRunner._run`.

The learner, the goal and the executor are the *environment*: what `learner.ask`
returned, what the goal evaluated to, which futures completed with which outcome, and
when a cancellation arrived are events of a schedule.  The theorems quantify over all
event lists, hence over all learners, goals, functions and completion orders.

Points are opaque labels (`Nat`), values are `Int`, futures are numbered in
submission order, pids are the runner's own `itertools.count()`.
Hand-written; tied to /repo by `harness/props/runner_common.py` (real runners driven
by deterministic schedules, call traces compared line by line).
-/
namespace Runner

inductive Outcome where
  | ok (y : Int)
  | fail
deriving Repr, DecidableEq

/-- calls made by the runner to the learner, the goal and the executor (ghost trace) -/
inductive Call where
  | goal (b : Bool)
  | ask (n : Nat) (pts : List Nat)
  | submit (fut pid x : Nat)
  | tell (fut pid x : Nat) (y : Int)
  | removeUnfinished
  | cancel (fut : Nat)
  | raise (pid x : Nat)
  | evalFailed (fut pid : Nat)            -- ghost: a failed evaluation of `pid` was processed
deriving Repr, DecidableEq

inductive LogEntry where
  | ask (n : Nat)
  | tell (x : Nat) (y : Int)
deriving Repr, DecidableEq

structure Cfg where
  ntasks : Nat
  retries : Nat
  raiseIf : Bool
  blocking : Bool
  doLog : Bool
deriving Repr

inductive Status where
  | finished
  | cancelled
  | failed (pid x : Nat)
deriving Repr, DecidableEq

inductive Phase where
  | head                                   -- about to evaluate the goal
  | asking (n : Nat) (pids : List Nat)     -- inside `_ask`: waiting for `learner.ask`
  | waiting                                -- inside `wait(…, FIRST_COMPLETED)`
  | exitWait (st : Status)                 -- `finally`: waiting for the remaining futures
  | stopped (st : Status)
  | stuck                                  -- the schedule offered an event that cannot occur here
deriving Repr, DecidableEq

structure State where
  cfg : Cfg
  pending : List (Nat × Nat) := []        -- `_pending_tasks`: (fut, pid), insertion order
  idToPoint : List (Nat × Nat) := []      -- `_id_to_point`
  toRetry : List (Nat × Nat) := []        -- `_to_retry`: (pid, number of failures)
  tracebacks : List Nat := []             -- keys of `_tracebacks`
  nextId : Nat := 0
  nextFut : Nat := 0
  log : List LogEntry := []
  trace : List Call := []                 -- ghost: every call, oldest first
  phase : Phase := .head
  cleaned : Bool := false                 -- `_cleanup()` ran
deriving Repr

def init (cfg : Cfg) : State := { cfg := cfg }

/-! ### insertion-ordered dictionaries as association lists -/
def aget (k : Nat) : List (Nat × Nat) → Option Nat
  | [] => none
  | (k', v) :: r => if k = k' then some v else aget k r

def aerase (k : Nat) : List (Nat × Nat) → List (Nat × Nat)
  | [] => []
  | (k', v) :: r => if k = k' then r else (k', v) :: aerase k r

/-- `d[k] = v`: keeps the position of an existing key, appends a new one -/
def aset (k v : Nat) : List (Nat × Nat) → List (Nat × Nat)
  | [] => [(k, v)]
  | (k', v') :: r => if k = k' then (k, v) :: r else (k', v') :: aset k v r

def emit (s : State) (c : Call) : State := { s with trace := s.trace ++ [c] }

def logIf (s : State) (e : LogEntry) : State :=
  if s.cfg.doLog then { s with log := s.log ++ [e] } else s

/-- pids in `_to_retry` that are not in flight, in dict order -/
def retryPids (s : State) : List Nat :=
  (s.toRetry.map Prod.fst).filter (fun pid => !(s.pending.any (fun fp => fp.2 == pid)))

/-- `_submit` for each pid, in order -/
def submitAll (s : State) : List Nat → State
  | [] => s
  | pid :: pids =>
    let x := (aget pid s.idToPoint).getD 0
    let s1 := emit s (.submit s.nextFut pid x)
    submitAll { s1 with pending := s1.pending ++ [(s1.nextFut, pid)], nextFut := s1.nextFut + 1 } pids

/-- `_get_futures` up to the point where `learner.ask` is needed -/
def beginGet (s : State) : State :=
  let n := s.cfg.ntasks - s.pending.length
  let s := logIf s (.ask n)
  let pids := (retryPids s).take n
  if pids.length < n then { s with phase := .asking n pids }
  else { submitAll s pids with phase := .waiting }

/-- the rest of `_ask`/`_get_futures` once the learner answered with `pts` -/
def finishAsk (s : State) (n : Nat) (pids : List Nat) (pts : List Nat) : State :=
  let s := emit s (.ask (n - pids.length) pts)
  let newPids := List.range' s.nextId pts.length
  let s := { s with idToPoint := s.idToPoint ++ newPids.zip pts, nextId := s.nextId + pts.length }
  { submitAll s (pids ++ newPids) with phase := .waiting }

/-- one iteration of the loop in `_process_futures`; `some (pid,x)` = `_do_raise` -/
def processOne (s : State) (fut : Nat) (o : Outcome) : State × Option (Nat × Nat) :=
  match aget fut s.pending with
  | none => ({ s with phase := .stuck }, none)          -- KeyError: not a pending future
  | some pid =>
    let s := { s with pending := aerase fut s.pending }
    match o with
    | .ok y =>
      let x := (aget pid s.idToPoint).getD 0
      let s := { s with toRetry := aerase pid s.toRetry,
                        tracebacks := s.tracebacks.erase pid,
                        idToPoint := aerase pid s.idToPoint }
      let s := logIf s (.tell x y)
      (emit s (.tell fut pid x y), none)
    | .fail =>
      let s := emit s (.evalFailed fut pid)
      let s := { s with tracebacks := if pid ∈ s.tracebacks then s.tracebacks else s.tracebacks ++ [pid] }
      let cnt := (aget pid s.toRetry).getD 0 + 1
      let s := { s with toRetry := aset pid cnt s.toRetry }
      if cnt > s.cfg.retries then
        let s := { s with toRetry := aerase pid s.toRetry }
        if s.cfg.raiseIf then
          let x := (aget pid s.idToPoint).getD 0
          (emit s (.raise pid x), some (pid, x))
        else (s, none)
      else (s, none)

/-- `_process_futures(done)`: stops at the first raise -/
def processFutures (s : State) : List (Nat × Outcome) → State × Option (Nat × Nat)
  | [] => (s, none)
  | (fut, o) :: r =>
    match processOne s fut o with
    | (s', some e) => (s', some e)
    | (s', none) => if s'.phase = .stuck then (s', none) else processFutures s' r

def cancelAll (s : State) : List (Nat × Nat) → State
  | [] => s
  | (fut, _) :: r => cancelAll (emit s (.cancel fut)) r

/-- `finally:` `_remove_unfinished()`; with nothing remaining, `_cleanup()` -/
def beginExit (s : State) (st : Status) : State :=
  let s := emit s .removeUnfinished
  let s := cancelAll s s.pending
  if s.pending.isEmpty then { s with phase := .stopped st, cleaned := true }
  else { s with phase := .exitWait st }

/-- after `wait(remaining)`: Blocking consumes the results of futures that could not be
cancelled; Async awaits them and drops the results -/
def finishExit (s : State) (st : Status) (withResult : List (Nat × Outcome)) : State :=
  if s.cfg.blocking then
    match processFutures s withResult with
    | (s', some (pid, x)) => { s' with phase := .stopped (.failed pid x) }   -- raised inside `finally`: no `_cleanup`
    | (s', none) => if s'.phase = .stuck then s' else { s' with phase := .stopped st, cleaned := true }
  else { s with phase := .stopped st, cleaned := true }

inductive Ev where
  | goal (b : Bool)
  | asked (pts : List Nat)
  | done (l : List (Nat × Outcome))
  | cancel
  | remaining (l : List (Nat × Outcome))
deriving Repr

def step (s : State) (e : Ev) : State :=
  match s.phase, e with
  | .head, .goal b =>
    let s := emit s (.goal b)
    if b then beginExit s .finished else beginGet s
  | .asking n pids, .asked pts => finishAsk s n pids pts
  | .waiting, .done l =>
    if l.isEmpty then { s with phase := .stuck } else
    match processFutures s l with
    | (s', some (pid, x)) => beginExit s' (.failed pid x)
    | (s', none) => if s'.phase = .stuck then s' else { s' with phase := .head }
  | .waiting, .cancel => if s.cfg.blocking then { s with phase := .stuck } else beginExit s .cancelled
  | .exitWait st, .remaining l => finishExit s st l
  | .exitWait _, .cancel =>
    if s.cfg.blocking then { s with phase := .stuck } else { s with phase := .stopped .cancelled }
  | .stopped _, _ => s
  | _, _ => { s with phase := .stuck }

def run (s : State) (evs : List Ev) : State := evs.foldl step s

/-- `runner.failed` = `set(_tracebacks) - set(_to_retry)` -/
def failed (s : State) : List Nat :=
  s.tracebacks.filter (fun pid => (aget pid s.toRetry).isNone)

/-! ### ghost projections of the call trace (used by the theorems) -/

/-- all points the learner handed out, in order: the point of pid `k` is entry `k` -/
def askedPts : List Call → List Nat
  | [] => []
  | .ask _ pts :: r => pts ++ askedPts r
  | _ :: r => askedPts r

def nSubmit (pid : Nat) (tr : List Call) : Nat :=
  (tr.filter fun c => match c with | .submit _ p _ => p == pid | _ => false).length

def nFail (pid : Nat) (tr : List Call) : Nat :=
  (tr.filter fun c => match c with | .evalFailed _ p => p == pid | _ => false).length

def nTell (pid : Nat) (tr : List Call) : Nat :=
  (tr.filter fun c => match c with | .tell _ p _ _ => p == pid | _ => false).length

/-- projection of the trace onto what `log=True` records -/
def logProj : List Call → List LogEntry
  | [] => []
  | .ask n _ :: r => .ask n :: logProj r
  | .tell _ _ x y :: r => .tell x y :: logProj r
  | _ :: r => logProj r

/-- the learner answered an `ask(k)` with at most `k` points -/
def EvOK (s : State) : Ev → Prop
  | .asked pts => match s.phase with
    | .asking n pids => pts.length ≤ n - pids.length
    | _ => True
  | _ => True

def EvsOK (s : State) : List Ev → Prop
  | [] => True
  | e :: es => EvOK s e ∧ EvsOK (step s e) es

/-- no evaluation fails in the schedule -/
def noFail : List Ev → Bool
  | [] => true
  | .done l :: r => l.all (fun fo => fo.2 != Outcome.fail) && noFail r
  | .remaining l :: r => l.all (fun fo => fo.2 != Outcome.fail) && noFail r
  | _ :: r => noFail r

/-! ### replaying a log on a learner (`adaptive.runner.replay_log`) -/

/-- a deterministic learner as the runner sees it -/
structure LearnerModel (σ : Type) where
  ask : σ → Nat → List Nat × σ          -- `ask(n)` (committing)
  tell : σ → Nat → Int → σ
  removeUnfinished : σ → σ

/-- effect of one runner call on the learner -/
def applyCall {σ : Type} (L : LearnerModel σ) (st : σ) : Call → σ
  | .ask n _ => (L.ask st n).2
  | .tell _ _ x y => L.tell st x y
  | .removeUnfinished => L.removeUnfinished st
  | _ => st

def applyTrace {σ : Type} (L : LearnerModel σ) (st : σ) (tr : List Call) : σ :=
  tr.foldl (applyCall L) st

/-- `replay_log(learner, log)` -/
def applyLog {σ : Type} (L : LearnerModel σ) (st : σ) (log : List LogEntry) : σ :=
  log.foldl (fun st e => match e with
    | .ask n => (L.ask st n).2
    | .tell x y => L.tell st x y) st

end Runner
