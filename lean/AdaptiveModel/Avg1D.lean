import AdaptiveModel.Scalar
/-
Model of the sampling bookkeeping of `adaptive/learner/average_learner1D.py`
(AverageLearner1D): per-abscissa sample store (`_data_samples`), running mean (`data`),
counts (`_number_samples`), Student-t error (`error`), the under-sampled set and the
branch of `ask` that serves it.  The interval-loss machinery inherited from Learner1D and
the rescaled-error ordering are NOT in this model (see DESIGN.md, C16): when no abscissa
is under-sampled the model only reports that `ask` takes another branch.

Polymorphic in `α`; `sqrt` and the Student-t quantile `tq : Nat → α` (argument: degrees of
freedom `n-1`; value `scipy.stats.t.ppf(1-alpha, df)`) are parameters.
`next(iter(self._undersampled_points))` iterates a hash set: relational (the code's choice
is an input that must be a member).
-/
namespace Avg1D

structure Pt (α : Type) where
  x : α
  samples : List (Nat × α)     -- `_data_samples[x]`: dict seed → y, insertion order
  mean : α                     -- `data[x]`
  n : Nat                      -- `_number_samples[x]`
  err : Option α               -- `error[x]`, `none` = inf
deriving Repr

structure State (α : Type) where
  pts : List (Pt α) := []      -- sorted by x (SortedDict)
  under : List α := []         -- `_undersampled_points` (set)
  minSamples : Nat
  maxSamples : Nat
  neighborSampling : α
deriving Repr

variable {α : Type}

def find? [DecidableEq α] (s : State α) (x : α) : Option (Pt α) := s.pts.find? (fun p => p.x = x)

/-- insert keeping the abscissae increasing -/
def insertPt [LT α] [DecidableLT α] (p : Pt α) : List (Pt α) → List (Pt α)
  | [] => [p]
  | q :: r => if p.x < q.x then p :: q :: r else q :: insertPt p r

def updatePt [DecidableEq α] (p : Pt α) (l : List (Pt α)) : List (Pt α) :=
  l.map (fun q => if q.x = p.x then p else q)

/-- left and right neighbour counts of `x` among the evaluated abscissae -/
def neighborCounts [LT α] [DecidableLT α] (s : State α) (x : α) : Option Nat × Option Nat :=
  let left := (s.pts.filter (fun p => p.x < x)).getLast?
  let right := (s.pts.filter (fun p => x < p.x)).head?
  (left.map (·.n), right.map (·.n))

/-- `sum((y - y_avg)**2 for y in ys)` -/
def sumSqDev [Add α] [Sub α] [Mul α] [OfNat α 0] (ys : List α) (m : α) : α :=
  ys.foldl (fun acc y => acc + (y - m) * (y - m)) 0

/-- `_calc_error_in_mean(ys, y_avg, n)` -/
def calcError [Add α] [Sub α] [Mul α] [Div α] [OfNat α 0] [NatCast α]
    (sqrt : α → α) (tq : Nat → α) (ys : List α) (m : α) (n : Nat) : α :=
  let varianceInMean := sumSqDev ys m / ((n - 1 : Nat) : α)
  tq (n - 1) * sqrt (varianceInMean / (n : α))

/-- `tell((seed, x), y)` for an in-bounds `x` -/
def tell [Add α] [Sub α] [Mul α] [Div α] [OfNat α 0] [NatCast α] [LT α] [DecidableLT α] [DecidableEq α]
    (sqrt : α → α) (tq : Nat → α) (s : State α) (seed : Nat) (x y : α) : State α :=
  match find? s x with
  | none =>
    -- "new"
    { s with pts := insertPt { x := x, samples := [(seed, y)], mean := y, n := 1, err := none } s.pts,
             under := if x ∈ s.under then s.under else x :: s.under }
  | some p =>
    if p.samples.any (fun sy => sy.1 == seed) then s    -- seed already known: ignored
    else
      -- "resampled"
      let k := p.samples.length
      let mean' := p.mean * (k : α) / ((k + 1 : Nat) : α) + y / ((k + 1 : Nat) : α)
      let samples' := p.samples ++ [(seed, y)]
      let n' := p.n + 1
      let under' :=
        if x ∈ s.under ∧ n' ≥ s.minSamples then
          let (l, r) := neighborCounts s x
          let nneighbor : α := match l, r with
            | some a, some b => ((a + b : Nat) : α) / ((2 : Nat) : α)
            | some a, none => (a : α)
            | none, some b => (b : α)
            | none, none => ((0 : Nat) : α)
          if s.neighborSampling * nneighbor < (n' : α) then s.under.erase x else s.under
        else s.under
      let err' := calcError sqrt tq (samples'.map Prod.snd) mean' n'
      { s with pts := updatePt { p with samples := samples', mean := mean', n := n', err := some err' } s.pts,
               under := under' }

/-- `dict.update`: existing keys keep their position and take the new value -/
def dictUpdate (d : List (Nat × α)) (m : List (Nat × α)) : List (Nat × α) :=
  m.foldl (fun d kv =>
    if d.any (fun e => e.1 == kv.1) then d.map (fun e => if e.1 == kv.1 then kv else e) else d ++ [kv]) d

/-- `tell_many_at_point(x, seed_y_mapping)` for an in-bounds `x`;
`mapping` in dict order, seeds distinct -/
def tellManyAtPoint [Add α] [Sub α] [Mul α] [Div α] [OfNat α 0] [NatCast α] [LT α] [DecidableLT α] [DecidableEq α]
    (sqrt : α → α) (tq : Nat → α) (s : State α) (x : α) (mapping : List (Nat × α)) : State α :=
  let (s, mapping) :=
    match find? s x, mapping with
    | none, (seed, y) :: rest => (tell sqrt tq s seed x y, rest)
    | _, _ => (s, mapping)
  match find? s x, mapping with
  | some p, _ :: _ =>
    let ys := mapping.map Prod.snd
    let samples' := dictUpdate p.samples mapping
    let n' := ys.length + p.n
    let npMean := ys.foldl (· + ·) 0 / (ys.length : α)       -- np.mean(ys)
    let mean' := (npMean * (ys.length : α) + p.mean * (p.n : α)) / (n' : α)
    let under' := if n' > s.minSamples then s.under.erase x else s.under
    let err' := calcError sqrt tq (samples'.map Prod.snd) mean' n'
    { s with pts := updatePt { p with samples := samples', mean := mean', n := n', err := some err' } s.pts,
             under := under' }
  | _, _ => s

/-- the branch of `ask(n)` that serves an under-sampled abscissa: `choice` is the element
the code took from the set.  `none` = no abscissa is under-sampled (another branch runs)
or the offered choice is not a member. -/
def askUnder [DecidableEq α] (s : State α) (n : Nat) (choice : α) : Option (List (Nat × α)) :=
  if s.under.isEmpty then none
  else if choice ∈ s.under then
    let nExisting := match find? s choice with
      | some p => p.n
      | none => 0
    some ((List.range n).map fun seed => (seed + nExisting, choice))
  else none

end Avg1D
