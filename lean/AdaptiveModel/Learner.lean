/-
The learner interface as the wrappers (`DataSaver`, `BalancingLearner`) see it.
`σ` state, `P` points, `V` values.  `ask s n commit` returns the points and the new state
(`commit = tell_pending`).
-/
structure Learner (σ P V : Type) where
  ask : σ → Nat → Bool → List P × σ
  tell : σ → P → V → σ
  tellPending : σ → P → σ
  removeUnfinished : σ → σ

namespace Learner

/-- operations a client can perform on a learner -/
inductive Op (P V : Type) where
  | ask (n : Nat) (commit : Bool)
  | tell (x : P) (v : V)
  | tellPending (x : P)
  | removeUnfinished
deriving Repr

def step {σ P V : Type} (L : Learner σ P V) (s : σ) : Op P V → σ
  | .ask n c => (L.ask s n c).2
  | .tell x v => L.tell s x v
  | .tellPending x => L.tellPending s x
  | .removeUnfinished => L.removeUnfinished s

def run {σ P V : Type} (L : Learner σ P V) (s : σ) (ops : List (Op P V)) : σ := ops.foldl L.step s

/-- what `ask` returned along a run (the observable answers) -/
def answers {σ P V : Type} (L : Learner σ P V) (s : σ) : List (Op P V) → List (List P)
  | [] => []
  | .ask n c :: r => (L.ask s n c).1 :: answers L (L.step s (.ask n c)) r
  | op :: r => answers L (L.step s op) r

end Learner
