import AdaptiveModel.QuadPoly
import AdaptiveModel.Drv.Util
/-! Line protocol for the quadrature tables and the list-polynomial functions (C08), stateless.  Rationals cross the
protocol as `num/den` in lowest terms (`num` alone when `den = 1`), exactly like `str(fractions.Fraction)`; lists are comma
separated, the empty list is `-`.

`quad leg <n>` / `newton <r>` / `xi <r>` / `bdef <r>` → the table row as the theorems read it (`legP`, `newtonP`, `xiRow`, `bdefRow`);
`quad xibits <r>`      → `bitsValue` of the bit patterns of row `r` (must equal `xi <r>`);
`quad legrec <n>`      → `legRec n` (Bonnet's recursion; the live `legendre(n+1)[n]`);
`quad ccnodal <n>`     → `ccNodal n` (the live `newton(n)` whenever that is exact);
`quad sp <p> <q>`      → `inner p q` (the live `scalar_product(p, q)`);
`quad integ <p>`       → `integ p`;
`quad mul <p> <q>`     → `pmul p q`;
`quad eval <p> <x>`    → `peval p x`. -/
namespace Quad.Drv
open _root_.Drv QuadPoly

def showRat (q : Rat) : String := if q.den = 1 then toString q.num else toString q.num ++ "/" ++ toString q.den

def showRats (l : List Rat) : String := if l.isEmpty then "-" else ",".intercalate (l.map showRat)

def parseRat (s : String) : Option Rat :=
  match s.splitOn "/" with
  | [a] => a.toInt?.map (fun (n : Int) => (n : Rat))
  | [a, b] => match a.toInt?, b.toNat? with
    | some n, some d => if d = 0 then none else some ((n : Rat) / (d : Rat))
    | _, _ => none
  | _ => none

def parseRats (s : String) : Option (List Rat) :=
  if s = "" || s = "-" then some [] else (s.splitOn ",").mapM parseRat

def stepLine : List String → String
  | ["leg", n] => match n.toNat? with | some n => showRats (legP n) | none => "bad-op"
  | ["newton", r] => match r.toNat? with | some r => showRats (newtonP r) | none => "bad-op"
  | ["xi", r] => match r.toNat? with | some r => showRats (xiRow r) | none => "bad-op"
  | ["bdef", r] => match r.toNat? with | some r => showRats (bdefRow r) | none => "bad-op"
  | ["xibits", r] => match r.toNat? with
    | some r => showRats ((Gen.QuadTables.xiBits.getD r []).map bitsValue)
    | none => "bad-op"
  | ["legrec", n] => match n.toNat? with | some n => showRats (legRec n) | none => "bad-op"
  | ["ccnodal", n] => match n.toNat? with | some n => showRats (ccNodal n) | none => "bad-op"
  | ["sp", p, q] => match parseRats p, parseRats q with
    | some p, some q => showRat (inner p q)
    | _, _ => "bad-op"
  | ["integ", p] => match parseRats p with | some p => showRat (integ p) | none => "bad-op"
  | ["mul", p, q] => match parseRats p, parseRats q with
    | some p, some q => showRats (pmul p q)
    | _, _ => "bad-op"
  | ["eval", p, x] => match parseRats p, parseRat x with
    | some p, some x => showRat (peval p x)
    | _, _ => "bad-op"
  | _ => "bad-op"

end Quad.Drv
