import AdaptiveModel.Prims2
import AdaptiveModel.Drv.NumpyDet
import AdaptiveModel.Gen.Constants
import AdaptiveModel.Scalar
import AdaptiveModel.Drv.Util
/-! Line protocol for the hand-modelled primitives of `AdaptiveModel/Prims2.lean` (C20), stateless:
`prims2 call <name> <doubles as bit patterns, comma separated>`
  → the components of the result evaluated at `Float` (`sqrt := Float.sqrt`, `abs := Float.abs`,
    `inf := 1/0`, `thr := Float.exp (orientation_logdet_cut)`, `negtol := volume_embedding_neg_tol`), as bit patterns;
    `nd_default_loss2_np` / `nd_default_loss2_volsq_np`: the same with the Cayley-Menger determinant taken by the
    emulation of `numpy.linalg.det` (`Drv/NumpyDet.lean`) instead of the cofactor expansion;
    orientations are `1.0 / 0.0 / -1.0`, indices are naturals as doubles, a raised `ValueError` is `raised`;
`prims2 names` → the names known. -/
namespace Prims2.Drv
open _root_.Drv Scalar Prims2

def showFs (l : List Float) : String := ",".intercalate (l.map showF)

def inf : Float := 1.0 / 0.0
def thr : Float := Float.exp Gen.Constants.orientation_logdet_cut.toFloat
def negtol : Float := Gen.Constants.volume_embedding_neg_tol.toFloat

def names : List String :=
  ["l2d_area", "l2d_uniform_loss", "l2d_value_scale", "l2d_surface_loss", "l2d_surface_loss_radicand", "l2d_choose",
   "l2d_badness", "l2d_longest", "l2d_choose_branch", "l1d_resolution_loss", "l1d_curvature_loss4",
   "l1d_curvature_loss3l", "l1d_curvature_loss3r", "l1d_curvature_loss2", "nd_default_loss2", "nd_default_loss2_volsq", "nd_default_loss2_np", "nd_default_loss2_volsq_np",
   "orientation2", "orientation3", "orientation_det2", "orientation_det3", "orientation_thr"]

/-- `vol_square` with `numpy.linalg.det` emulated (`NumpyDet.det4`) on the Cayley-Menger matrix of the model's distances -/
def volsqNp (x0 y0 x1 y1 x2 y2 v0 v1 v2 : Float) : Float :=
  let d01 := sqeuclid3 x0 y0 v0 x1 y1 v1
  let d02 := sqeuclid3 x0 y0 v0 x2 y2 v2
  let d12 := sqeuclid3 x1 y1 v1 x2 y2 v2
  NumpyDet.det4 #[#[0.0, 1.0, 1.0, 1.0], #[1.0, 0.0, d01, d02], #[1.0, d01, 0.0, d12], #[1.0, d02, d12, 0.0]] / (-16.0)

def call : String → List Float → Option (List Float)
  | "l2d_area", [x0, y0, x1, y1, x2, y2] => some [l2d_area Float.abs x0 y0 x1 y1 x2 y2]
  | "l2d_uniform_loss", [x0, y0, x1, y1, x2, y2] => some [l2d_uniform_loss Float.sqrt Float.abs x0 y0 x1 y1 x2 y2]
  | "l2d_value_scale", [vmin, vmax] => some [l2d_value_scale vmin vmax]
  | "l2d_surface_loss", [x0, y0, x1, y1, x2, y2, v0, v1, v2, c] =>
    some [l2d_surface_loss Float.sqrt x0 y0 x1 y1 x2 y2 v0 v1 v2 c]
  | "l2d_surface_loss_radicand", [x0, y0, x1, y1, x2, y2, v0, v1, v2, c] =>
    some [l2d_surface_loss_radicand x0 y0 x1 y1 x2 y2 v0 v1 v2 c]
  | "l2d_choose", [mb, ax, ay, bx, by', cx, cy] =>
    let r := l2d_choose Float.sqrt Float.abs mb ax ay bx by' cx cy
    some [r.1, r.2]
  | "l2d_badness", [ax, ay, bx, by', cx, cy] => some [l2d_badness Float.sqrt Float.abs ax ay bx by' cx cy]
  | "l2d_longest", [ax, ay, bx, by', cx, cy] => some [(l2d_longest Float.sqrt ax ay bx by' cx cy).toFloat]
  | "l2d_choose_branch", [mb, ax, ay, bx, by', cx, cy] =>
    some [if l2d_badness Float.sqrt Float.abs ax ay bx by' cx cy > mb then (l2d_longest Float.sqrt ax ay bx by' cx cy).toFloat
          else 3.0]
  | "l1d_resolution_loss", [lo, hi, x0, x1, y0, y1] => some [l1d_resolution_loss Float.sqrt inf lo hi x0 x1 y0 y1]
  | "l1d_curvature_loss4", [af, ef, hf, x0, x1, x2, x3, y0, y1, y2, y3] =>
    some [l1d_curvature_loss4 Float.sqrt Float.abs af ef hf x0 x1 x2 x3 y0 y1 y2 y3]
  | "l1d_curvature_loss3l", [af, ef, hf, x1, x2, x3, y1, y2, y3] =>
    some [l1d_curvature_loss3l Float.sqrt Float.abs af ef hf x1 x2 x3 y1 y2 y3]
  | "l1d_curvature_loss3r", [af, ef, hf, x0, x1, x2, y0, y1, y2] =>
    some [l1d_curvature_loss3r Float.sqrt Float.abs af ef hf x0 x1 x2 y0 y1 y2]
  | "l1d_curvature_loss2", [af, ef, hf, x1, x2, y1, y2] => some [l1d_curvature_loss2 Float.sqrt af ef hf x1 x2 y1 y2]
  | "nd_default_loss2_volsq", [x0, y0, x1, y1, x2, y2, v0, v1, v2] =>
    some [nd_default_loss2_volsq x0 y0 x1 y1 x2 y2 v0 v1 v2]
  | "nd_default_loss2_volsq_np", [x0, y0, x1, y1, x2, y2, v0, v1, v2] => some [volsqNp x0 y0 x1 y1 x2 y2 v0 v1 v2]
  | "orientation2", [f0x, f0y, f1x, f1y, ox, oy] =>
    some [Float.ofInt (orientation2 Float.abs thr f0x f0y f1x f1y ox oy)]
  | "orientation3", [f0x, f0y, f0z, f1x, f1y, f1z, f2x, f2y, f2z, ox, oy, oz] =>
    some [Float.ofInt (orientation3 Float.abs thr f0x f0y f0z f1x f1y f1z f2x f2y f2z ox oy oz)]
  | "orientation_det2", [f0x, f0y, f1x, f1y, ox, oy] => some [orientation_det2 f0x f0y f1x f1y ox oy]
  | "orientation_det3", [f0x, f0y, f0z, f1x, f1y, f1z, f2x, f2y, f2z, ox, oy, oz] =>
    some [orientation_det3 f0x f0y f0z f1x f1y f1z f2x f2y f2z ox oy oz]
  | "orientation_thr", [] => some [thr]
  | _, _ => none

def stepLine : List String → String
  | ["names"] => ",".intercalate names
  | ["call", "nd_default_loss2", fs] => match parseFs fs with
    | some [x0, y0, x1, y1, x2, y2, v0, v1, v2, sc] =>
      match nd_default_loss2 Float.sqrt negtol x0 y0 x1 y1 x2 y2 v0 v1 v2 sc with
      | some r => showF r
      | none => "raised"
    | _ => "bad-op"
  | ["call", "nd_default_loss2_np", fs] => match parseFs fs with
    | some [x0, y0, x1, y1, x2, y2, v0, v1, v2, _sc] =>
      match nd_default_loss2_of_volsq Float.sqrt negtol (volsqNp x0 y0 x1 y1 x2 y2 v0 v1 v2) with
      | some r => showF r
      | none => "raised"
    | _ => "bad-op"
  | ["call", name, fs] => match parseFs fs with
    | some fs => match call name fs with
      | some r => showFs r
      | none => "unknown-primitive-or-arity"
    | none => "bad-op"
  | _ => "bad-op"

end Prims2.Drv
