import AdaptiveModel.Tri
import AdaptiveModel.Drv.Util
/-! Line protocol for the Triangulation model.

`tri new <dim> <nverts> <simplices>`
`tri add <hint> <locate> <reduced> <orient> <flat> <circ>`
  hint, locate, reduced: `N` (None / not called), `E` (empty), or `i,j,k`
  orient: `-` or `i,j:a:b;…` (face : orientation w.r.t. hull centre : orientation w.r.t. new point)
  flat, circ: `-` or `i,j,k:0;…` (circ in call order)
Simplex lists are `i,j,k;i,j,l`; output sets are sorted lexicographically (as Python sorts tuples). -/
namespace Tri.Drv
open _root_.Drv

def lexLe : List Nat → List Nat → Bool
  | [], _ => true
  | _ :: _, [] => false
  | a :: as, b :: bs => a < b || (a == b && lexLe as bs)

def sortSx (l : List Simplex) : List Simplex := (l.mergeSort lexLe).eraseDups
def showSx (l : List Simplex) : String :=
  if l.isEmpty then "-" else ";".intercalate ((sortSx l).map showNats)

def obs (s : State) : String :=
  s!"S={showSx s.simplices} V={"|".intercalate (s.vts.map showSx)} n={s.nVerts}"

def parseSx (s : String) : Option (List Simplex) :=
  if s = "-" || s = "" then some [] else (s.splitOn ";").mapM parseNats

/-- `N` ↦ none, `E` ↦ some [], else a list -/
def parseOpt (s : String) : Option (Option (List Nat)) :=
  if s = "N" then some none else if s = "E" then some (some []) else (parseNats s).map some

def parseKV {β : Type} (f : List String → Option β) (s : String) : Option (List (Simplex × β)) :=
  if s = "-" || s = "" then some [] else
  (s.splitOn ";").mapM fun item =>
    match item.splitOn ":" with
    | k :: vs => match parseNats k, f vs with
      | some k, some v => some (k, v)
      | _, _ => none
    | _ => none

def pBool : List String → Option Bool
  | ["1"] => some true
  | ["0"] => some false
  | _ => none

def pInt2 : List String → Option (Int × Int)
  | [a, b] => match a.toInt?, b.toInt? with
    | some a, some b => some (a, b)
    | _, _ => none
  | _ => none

def showErr : Err → String
  | .reject .outsideSimplex s => "value_error:outside_simplex " ++ obs s
  | .reject .duplicate s => "value_error:duplicate " ++ obs s
  | .reject .insideHull s => "value_error:inside_hull " ++ obs s
  | .keyError => "error:KeyError"
  | .indexError => "error:IndexError"
  | .runtimeError => "error:RuntimeError"
  | .diverged m => "diverged: " ++ m

def stepLine (s : State) : List String → State × String
  | ["new", d, n, sx] => match d.toNat?, n.toNat?, parseSx sx with
    | some d, some n, some sx => match init d n sx with
      | .ok s' => (s', "ok " ++ obs s')
      | .error e => (s, showErr e)
    | _, _, _ => (s, "bad-op")
  | ["add", hint, loc, red, ori, fl, circ] =>
    match parseOpt hint, parseOpt loc, parseOpt red, parseKV pInt2 ori, parseKV pBool fl, parseKV pBool circ with
    | some hint, some loc, some red, some ori, some fl, some circ =>
      match addPoint s hint { locate := loc, reduced := red, orient := ori, flat := fl, circ := circ } with
      | .ok (s', del, add) => (s', s!"ok D={showSx del} A={showSx add} " ++ obs s')
      | .error (.reject w s') => (s', showErr (.reject w s'))
      | .error e => (s, showErr e)
    | _, _, _, _, _, _ => (s, "bad-op")
  | _ => (s, "bad-op")

end Tri.Drv
