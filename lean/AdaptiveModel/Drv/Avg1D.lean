import AdaptiveModel.Avg1D
import AdaptiveModel.Drv.Avg
/-! Line protocol for the AverageLearner1D sampling model at `Float`. -/
namespace Avg1D.Drv
open _root_.Drv Scalar

def showPt (p : Pt Float) : String :=
  s!"{showF p.x}|{showF p.mean}|{p.n}|{Avg.Drv.showO p.err}|" ++
    ";".intercalate (p.samples.map fun sy => s!"{sy.1}~{showF sy.2}")

def obs (s : State Float) : String :=
  let under := (s.under.toArray.qsort (· < ·)).toList
  s!"pts={",".intercalate (s.pts.map showPt)} under={",".intercalate (under.map showF)}"

def stepLine (s : State Float) : List String → State Float × String
  | ["new", mn, mx, ns] => match mn.toNat?, mx.toNat?, parseF ns with
    | some mn, some mx, some ns =>
      let s' : State Float := { minSamples := mn, maxSamples := mx, neighborSampling := ns }
      (s', "ok " ++ obs s')
    | _, _, _ => (s, "bad-op")
  | ["tell", seed, x, y, t] => match seed.toNat?, parseF x, parseF y, parseF t with
    | some seed, some x, some y, some t =>
      let s' := tell Float.sqrt (fun _ => t) s seed x y; (s', "ok " ++ obs s')
    | _, _, _, _ => (s, "bad-op")
  | ["tell_many", x, seeds, ys, t] => match parseF x, parseNats seeds, parseFs ys, parseF t with
    | some x, some seeds, some ys, some t =>
      let s' := tellManyAtPoint Float.sqrt (fun _ => t) s x (seeds.zip ys); (s', "ok " ++ obs s')
    | _, _, _, _ => (s, "bad-op")
  | ["ask", n, c] => match n.toNat? with
    | some n =>
      if c = "-" then
        (s, (if s.under.isEmpty then "other-branch " else "invalid-choice ") ++ obs s)
      else match parseF c with
        | some c => match askUnder s n c with
          | some pts => (s, "pts=" ++ ",".intercalate (pts.map fun p => s!"{p.1}@{showF p.2}") ++ " " ++ obs s)
          | none => (s, (if s.under.isEmpty then "other-branch " else "invalid-choice ") ++ obs s)
        | none => (s, "bad-op")
    | none => (s, "bad-op")
  | _ => (s, "bad-op")

end Avg1D.Drv
