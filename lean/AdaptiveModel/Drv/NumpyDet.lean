/-!
`numpy.linalg.det` of a 4×4 matrix of doubles, EMULATED at `Float` operation by operation (core Lean only), for the
correspondence of `learnerND.default_loss` (`AdaptiveModel/Prims2.lean`, part C), whose Cayley-Menger determinant is
taken by `fast_det → numpy.linalg.det`.

Measured on the real code (numpy 2.5.3 with its bundled OpenBLAS, `harness/prims2_corr.py`), bit for bit:
* `numpy.linalg.det(M) = sign · exp(Σ_i log |u_ii|)` (`umath_linalg`: `slogdet_single_element`, then
  `sign * npy_exp(logdet)`), the sum taken in the order `i = 0, 1, 2, 3` from `0.0`; `sign` = parity of the row
  exchanges times the signs of the `u_ii`; a zero pivot gives `+0.0`;
* `u` is the LU factorisation of LAPACK `dgetrf` as OpenBLAS computes it for a small matrix (`getf2`, LEFT-looking,
  column by column): the pending row exchanges are applied to column `j`; `a_ij -= dot(a_i,0..i-1 , a_0..i-1,j)` for
  `0 < i < j`, then `a_ij -= dot(a_i,0..j-1 , a_0..j-1,j)` for `i ≥ j`, each dot product accumulated from `0.0` with a
  FUSED multiply-add (`s = fma(x, y, s)`) and subtracted with one rounding; pivot = first entry of largest absolute
  value; the sub-diagonal part of the column is MULTIPLIED by the rounded reciprocal `1 / pivot`;
* `log`, `exp` are those of the C library (`Float.log`, `Float.exp` call the same).

`fma` is computed exactly over the integers and rounded once to nearest-even (doubles in the normal range; overflow,
subnormal results and non-finite arguments are outside).
-/
namespace NumpyDet

/-- a finite double as `m · 2^e` with an integer `m` -/
def decomp (x : Float) : Int × Int :=
  if x == 0.0 then (0, 0) else
    let me := x.frExp
    let n : Nat := ((Float.abs me.1).scaleB 53).toUInt64.toNat
    (if x < 0.0 then -(n : Int) else (n : Int), me.2 - 53)

/-- `n · 2^e` rounded to the nearest double, ties to even (normal range) -/
def roundPow2 (n : Int) (e : Int) : Float :=
  if n == 0 then 0.0 else
    let a : Nat := n.natAbs
    let bits : Nat := a.log2 + 1
    let r : Float :=
      if bits ≤ 53 then (Float.ofNat a).scaleB e
      else
        let sh : Nat := bits - 53
        let q : Nat := a >>> sh
        let rem : Nat := a - (q <<< sh)
        let half : Nat := 1 <<< (sh - 1)
        let q' : Nat := if rem > half || (rem == half && q % 2 == 1) then q + 1 else q
        (Float.ofNat q').scaleB (e + (sh : Int))
    if n < 0 then -r else r

/-- fused multiply-add `a * b + c` with a single rounding -/
def fma (a b c : Float) : Float :=
  let da := decomp a
  let db := decomp b
  let dc := decomp c
  let mp : Int := da.1 * db.1
  let ep : Int := da.2 + db.2
  if mp == 0 then (a * b) + c
  else if dc.1 == 0 then roundPow2 mp ep
  else
    let e : Int := min ep dc.2
    roundPow2 (mp * (2 : Int) ^ (ep - e).toNat + dc.1 * (2 : Int) ^ (dc.2 - e).toNat) e

def get (A : Array (Array Float)) (i j : Nat) : Float := (A[i]!)[j]!
def set (A : Array (Array Float)) (i j : Nat) (v : Float) : Array (Array Float) := A.set! i ((A[i]!).set! j v)

def dot (A : Array (Array Float)) (i j len : Nat) : Float := Id.run do
  let mut s : Float := 0.0
  for k in [0:len] do
    s := fma (get A i k) (get A k j) s
  return s

/-- the LU factors (in place) and the pivot rows, as OpenBLAS `dgetf2` computes them -/
def lu4 (M : Array (Array Float)) : Array (Array Float) × Array Nat × Bool := Id.run do
  let n := 4
  let mut A := M
  let mut piv : Array Nat := #[0, 1, 2, 3]
  let mut singular := false
  for j in [0:n] do
    for k in [0:j] do
      let p := piv[k]!
      if p != k then
        let t := get A k j
        A := set A k j (get A p j)
        A := set A p j t
    for i in [1:j] do
      A := set A i j (get A i j - dot A i j i)
    if j > 0 then
      for i in [j:n] do
        A := set A i j (get A i j - dot A i j j)
    let mut p := j
    let mut mx := Float.abs (get A j j)
    for i in [j+1:n] do
      if Float.abs (get A i j) > mx then
        mx := Float.abs (get A i j)
        p := i
    piv := piv.set! j p
    if p != j then
      for c in [0:j+1] do
        let t := get A j c
        A := set A j c (get A p c)
        A := set A p c t
    if get A j j == 0.0 then
      singular := true
    else
      let r := 1.0 / get A j j
      for i in [j+1:n] do
        A := set A i j (get A i j * r)
  return (A, piv, singular)

/-- `numpy.linalg.det` of a 4×4 matrix (rows) -/
def det4 (M : Array (Array Float)) : Float := Id.run do
  let (A, piv, singular) := lu4 M
  if singular then return 0.0
  let mut sign : Float := 1.0
  for k in [0:4] do
    if piv[k]! != k then sign := -sign
  let mut logdet : Float := 0.0
  for i in [0:4] do
    let mut x := get A i i
    if x < 0.0 then
      sign := -sign
      x := -x
    logdet := logdet + Float.log x
  return sign * Float.exp logdet

end NumpyDet
