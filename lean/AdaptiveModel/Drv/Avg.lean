import AdaptiveModel.Avg
import AdaptiveModel.Drv.Util
/-! Line protocol for the AverageLearner model at `Float`. -/
namespace Avg.Drv
open _root_.Drv Scalar

instance : NatCast Float := ⟨Float.ofNat⟩

def showO : Option Float → String
  | none => "inf"
  | some x => showF x

def obs (s : State Float) : String :=
  let m := if s.npoints = 0 then "undef" else showF (mean s)
  s!"data={",".intercalate (s.data.map fun kv => s!"{kv.1}:{showF kv.2}")} " ++
  s!"pending={showNats (sortNats s.pending)} npoints={s.npoints} sumf={showF s.sumF} sumfsq={showF s.sumFsq} " ++
  s!"mean={m} std={if s.npoints = 0 then "inf" else showO (std Float.sqrt s)} " ++
  s!"lossT={if s.npoints = 0 then "inf" else showO (loss Float.sqrt s true)} " ++
  s!"lossF={if s.npoints = 0 then "inf" else if lossIsNaN s (nRequested s) then "nan" else showO (loss Float.sqrt s false)}"

def parseTol (t : String) : Option (Option Float) :=
  if t = "inf" then some none else (parseF t).map some

def stepLine (s : State Float) : List String → State Float × String
  | ["new", a, r, m] => match parseTol a, parseTol r, m.toNat? with
    | some a, some r, some m => let s' := init a r m; (s', "ok " ++ obs s')
    | _, _, _ => (s, "bad-op")
  | ["tell", k, v] => match k.toNat?, parseF v with
    | some k, some v => let s' := tell s k v; (s', "ok " ++ obs s')
    | _, _ => (s, "bad-op")
  | ["tell_many", ks, vs] =>
    -- `BaseLearner.tell_many`: the pairs are told one by one, in order (repeated and known seeds included)
    match parseNats ks, (vs.splitOn ",").mapM parseF with
    | some ks, some vs =>
      if ks.length = vs.length then
        let s' := (ks.zip vs).foldl (fun s kv => tell s kv.1 kv.2) s
        (s', "ok " ++ obs s')
      else (s, "bad-op")
    | _, _ => (s, "bad-op")
  | ["tell_pending", k] => match k.toNat? with
    | some k => let s' := tellPending s k; (s', "ok " ++ obs s')
    | none => (s, "bad-op")
  | ["remove_unfinished"] => let s' := removeUnfinished s; (s', "ok " ++ obs s')
  | ["ask", n, c, choice] => match n.toNat?, parseNats choice with
    | some n, some ch =>
      match askPoints s n ch with
      | none => (s, "invalid-choice " ++ obs s)
      | some pts =>
        let s' := if c == "1" then pts.foldl tellPending s else s
        (s', s!"pts={showNats pts} " ++ obs s')
    | _, _ => (s, "bad-op")
  | _ => (s, "bad-op")

end Avg.Drv
