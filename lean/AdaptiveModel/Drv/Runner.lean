import AdaptiveModel.Runner
import AdaptiveModel.Drv.Util
/-! Line protocol for the runner model. -/
namespace Runner.Drv
open _root_.Drv

def showCall : Call → String
  | .goal b => s!"goal:{b2s b}"
  | .ask n pts => s!"ask:{n}:[{";".intercalate (pts.map toString)}]"
  | .submit fut _ x => s!"submit:{fut}:{x}"
  | .tell _ _ x y => s!"tell:{x}:{y}"
  | .removeUnfinished => "remove"
  | .cancel fut => s!"cancel:{fut}"
  | .raise _ x => s!"raise:{x}"
  | .evalFailed _ _ => ""

def showLog : LogEntry → String
  | .ask n => s!"ask:{n}"
  | .tell x y => s!"tell:{x}:{y}"

def showPhase : Phase → String
  | .head => "head"
  | .asking n pids => s!"asking:{n}:{pids.length}"
  | .waiting => "waiting"
  | .exitWait _ => "exitwait"
  | .stopped .finished => "stopped:finished"
  | .stopped .cancelled => "stopped:cancelled"
  | .stopped (.failed _ x) => s!"stopped:failed:{x}"
  | .stuck => "stuck"

def pt (s : State) (pid : Nat) : String :=
  match aget pid s.idToPoint with
  | some x => toString x
  | none => "?"

def summary (s : State) : String :=
  s!"pending={",".intercalate (s.pending.map fun fp => s!"{fp.1}:{pt s fp.2}")} " ++
  s!"retry={",".intercalate (s.toRetry.map fun pn => s!"{pt s pn.1}:{pn.2}")} " ++
  s!"tb={",".intercalate (s.tracebacks.map (pt s))} " ++
  s!"failed={showNats (sortNats (failed s))} phase={showPhase s.phase}"

def parseOutcomes (t : String) : Option (List (Nat × Outcome)) :=
  if t = "-" || t = "" then some [] else
  (t.splitOn ",").mapM fun item =>
    match item.splitOn ":" with
    | [f, "ok", y] => match f.toNat?, y.toInt? with
      | some f, some y => some (f, Outcome.ok y)
      | _, _ => none
    | [f, "fail"] => f.toNat?.map (·, Outcome.fail)
    | _ => none

def parseEv : List String → Option Ev
  | ["goal", b] => some (.goal (b == "1"))
  | ["asked", pts] => (parseNats pts).map .asked
  | ["done", l] => (parseOutcomes l).map .done
  | ["cancel"] => some .cancel
  | ["remaining", l] => (parseOutcomes l).map .remaining
  | _ => none

def stepLine (s : State) : List String → State × String
  | ["new", nt, rt, ri, bl, lg] =>
    match nt.toNat?, rt.toNat? with
    | some nt, some rt =>
      let s := init { ntasks := nt, retries := rt, raiseIf := ri == "1", blocking := bl == "1", doLog := lg == "1" }
      (s, "calls= " ++ summary s)
    | _, _ => (s, "bad-op")
  | ["status"] =>
    let st := match s.phase with
      | .stopped .finished => "finished"
      | .stopped .cancelled => "cancelled"
      | .stopped (.failed _ x) => s!"failed:{x}"
      | .stuck => "stuck"
      | _ => "running"
    (s, s!"status={st} log=" ++ ",".intercalate (s.log.map showLog))
  | toks =>
    match parseEv toks with
    | none => (s, "bad-op")
    | some e =>
      let s' := step s e
      let newCalls := s'.trace.drop s.trace.length
      (s', "calls=" ++ ",".intercalate ((newCalls.map showCall).filter (· ≠ "")) ++ " " ++ summary s')

end Runner.Drv
