import AdaptiveModel.Balancing
import AdaptiveModel.Seq
import AdaptiveModel.Scalar
import AdaptiveModel.Drv.Util
/-! Line protocol for the BalancingLearner model over SequenceLearner children
(losses and improvements are doubles: `(ntotal - npoints)/ntotal`, `1/ntotal`). -/
namespace Balancing.Drv
open _root_.Drv Scalar

def seqLoss (s : Seq.State Int) (real : Bool) : Float :=
  if Seq.done s then 0.0 else
  Float.ofNat (s.ntotal - (Seq.npoints s + (if real then 0 else s.pending.length))) / Float.ofNat s.ntotal

/-- SequenceLearner as a child; `ask(n=1)` on an exhausted child is outside the driven histories -/
def seqChild : Child (Seq.State Int) Nat Int Float where
  ask1 s c := let (pts, s') := Seq.ask s 1 c; ((pts.headD 0, 1.0 / Float.ofNat s.ntotal), s')
  tell s i v := Seq.tell s i v
  tellPending s i := Seq.tellPending s i
  removeUnfinished s := Seq.removeUnfinished s
  loss := seqLoss
  total s := Seq.npoints s + s.pending.length
  restore s := s

abbrev St := State (Seq.State Int) Nat Float

def obs (s : St) : String :=
  " | ".intercalate (s.kids.map fun k =>
    s!"pending={showNats (sortNats k.pending)} data={",".intercalate (k.data.map fun kv => s!"{kv.1}:{kv.2}")}")

def parseStrat : String → Option Strategy
  | "loss_improvements" => some .lossImprovements
  | "loss" => some .loss
  | "npoints" => some .npoints
  | "cycle" => some .cycle
  | _ => none

def stepLine (s : St) : List String → St × String
  | ["new", st, ns] => match parseStrat st, parseNats ns with
    | some st, some ns => let s' : St := init (ns.map Seq.init) st; (s', "ok " ++ obs s')
    | _, _ => (s, "bad-op")
  | ["ask", n, c] => match n.toNat? with
    | some n =>
      let (sel, s') := ask seqChild s n (c == "1")
      (s', "sel=" ++ ",".intercalate (sel.map fun x => s!"{x.1.1}:{x.1.2}:{showF x.2}") ++ " " ++ obs s')
    | none => (s, "bad-op")
  | ["tell", i, p, v] => match i.toNat?, p.toNat?, v.toInt? with
    | some i, some p, some v => let s' := tell seqChild s i p v; (s', "ok " ++ obs s')
    | _, _, _ => (s, "bad-op")
  | ["tell_pending", i, p] => match i.toNat?, p.toNat? with
    | some i, some p => let s' := tellPending seqChild s i p; (s', "ok " ++ obs s')
    | _, _ => (s, "bad-op")
  | ["remove_unfinished"] => let s' := removeUnfinished seqChild s; (s', "ok " ++ obs s')
  | ["loss", r] =>
    let (v, s') := loss seqChild 0.0 s (r == "1")
    (s', s!"loss={showF v} " ++ obs s')
  | ["strategy", st] => match parseStrat st with
    | some st => let s' := setStrategy s st; (s', "ok " ++ obs s')
    | none => (s, "bad-op")
  | _ => (s, "bad-op")

end Balancing.Drv
