import AdaptiveModel.DataSaver
import AdaptiveModel.SeqLearner
import AdaptiveModel.Drv.Seq
/-! Line protocol: DataSaver around the SequenceLearner model; full results are pairs of ints. -/
namespace DataSaver.Drv

abbrev St := DataSaver.State (Seq.State Int) Nat (Int × Int)

structure D where
  st : St := { child := Seq.init 0, extra := [] }
  pickSnd : Bool := false

def learner (d : D) : Learner St Nat (Int × Int) :=
  DataSaver.wrap (Seq.asLearner Int) (if d.pickSnd then Prod.snd else Prod.fst)

def obs (d : D) : String :=
  Seq.Drv.obs d.st.child ++ " extra=" ++
    ",".intercalate (d.st.extra.map fun kv => s!"{kv.1}:({kv.2.1};{kv.2.2})")

def stepLine (d : D) : List String → D × String
  | ["new", n, p] => match n.toNat? with
    | some k => let d' : D := { st := { child := Seq.init k, extra := [] }, pickSnd := p == "1" }
                (d', "ok " ++ obs d')
    | none => (d, "bad-op")
  | ["ask", n, c] => match n.toNat? with
    | some k =>
      let (pts, s') := (learner d).ask d.st k (c == "1")
      let d' := { d with st := s' }
      (d', s!"pts={Drv.showNats pts} " ++ obs d')
    | none => (d, "bad-op")
  | ["tell", i, a, b] => match i.toNat?, a.toInt?, b.toInt? with
    | some i, some a, some b =>
      let d' := { d with st := (learner d).tell d.st i (a, b) }
      (d', "ok " ++ obs d')
    | _, _, _ => (d, "bad-op")
  | ["remove_unfinished"] =>
    let d' := { d with st := (learner d).removeUnfinished d.st }
    (d', "ok " ++ obs d')
  | ["roundtrip"] =>
    -- save/load, copy_from: `_set_data(_get_data())` on a fresh wrapper
    let fresh : St := { child := Seq.init d.st.child.ntotal, extra := [] }
    let d' := { d with st := DataSaver.setData (fun c dat => Seq.setData c dat) fresh
                                (DataSaver.getData Seq.getData d.st) }
    (d', "ok " ++ obs d')
  | _ => (d, "bad-op")

end DataSaver.Drv
