import AdaptiveModel.LND
import AdaptiveModel.Scalar
import AdaptiveModel.Drv.Util
import Std.Data.HashMap
/-!
Line protocol for the LearnerND bookkeeping model at `Float` (component prefix `lnd`).

Every oracle of `LND.Env` is a lookup table filled by `lnd oracle <kind> key=value;key=value…` lines that the
harness emits (from what it recorded on the real learner) before the operation that needs them.
A lookup the real code never made answers with a conspicuous default (NaN loss, point 999999, no simplices …)
and so surfaces as a disagreement.

  lnd new <dim> <factor bits> <bounds point ids>
  lnd oracle <kind> <records>
  lnd tell <p> <min bits> <max bits> | lnd tell_pending <p> | lnd ask <n> <0|1> | lnd remove_unfinished | lnd loss
Every operation line answers
  <status> [pts=… imps=…] loss=<bits> keys=<simplices> pending=<ids> npoints=<n> ~g=<ghost>
where the reported loss is `loss()` called after the operation (as the harness does on the real learner).
-/
namespace LND.Drv
open _root_.Drv Scalar

abbrev Tab := Std.HashMap String String

structure D where
  st : State Float := { mult := 1.0 }
  dim : Nat := 2
  factor : Float := 1.1
  bounds : List Pt := []
  tab : Tab := {}
  failed : Bool := false

def nanF : Float := 0.0 / 0.0
def infF : Float := 1.0 / 0.0

def showSx (s : List Nat) : String := ".".intercalate (s.map toString)
def showSxs (l : List (List Nat)) : String := if l.isEmpty then "-" else "/".intercalate (l.map showSx)

def parseSx (s : String) : Option (List Nat) :=
  if s = "" || s = "-" then some [] else (s.splitOn ".").mapM String.toNat?
def parseSxs (s : String) : Option (List (List Nat)) :=
  if s = "" || s = "-" then some [] else (s.splitOn "/").mapM parseSx

def parseDA (s : String) : Option (List Simplex × List Simplex) :=
  match s.splitOn "|" with
  | [d, a] => match parseSxs d, parseSxs a with
    | some d, some a => some (d, a)
    | _, _ => none
  | _ => none

/-- exact value of a finite double as `m * 2^e` -/
def ratParts (x : Float) : Option (Int × Int) :=
  let b : Nat := x.toBits.toNat
  let neg : Bool := b / 2 ^ 63 = 1
  let ex : Nat := (b / 2 ^ 52) % 2048
  let man : Nat := b % 2 ^ 52
  let sg (n : Nat) : Int := if neg then -(Int.ofNat n) else Int.ofNat n
  if ex = 2047 then none
  else if ex = 0 then some (sg man, -1074)
  else some (sg (man + 2 ^ 52), Int.ofNat ex - 1075)

/-- `round(x, 8)` of CPython (correctly rounded, ties to even on the exact binary value) in units of 1e-8 -/
def rnd8 (x : Float) : Int :=
  match ratParts x with
  | none => if x > 0.0 then (10 : Int) ^ 400 else if x < 0.0 then -((10 : Int) ^ 400) else 0
  | some (m, e) =>
    if e ≥ 0 then m * 100000000 * (2 : Int) ^ e.toNat
    else
      let num := m * 100000000
      let den : Int := (2 : Int) ^ (-e).toNat
      let q := num / den        -- floor (den > 0)
      let r := num % den        -- 0 ≤ r < den
      if 2 * r < den then q else if den < 2 * r then q + 1 else (if q % 2 = 0 then q else q + 1)

def lk (d : D) (k : String) : Option String := d.tab[k]?

def envOf (d : D) : Env Float where
  dim := d.dim
  boundsPts := d.bounds
  inside p := match lk d s!"in:{p}" with | some "0" => false | _ => true
  one := 1.0
  inf := infF
  c15 := 1e-15
  c2 := 1e-2
  factor := d.factor
  abs := Float.abs
  isZero x := x == 0.0
  rnd := rnd8
  lossFn pts m := match (lk d s!"loss:{showSx pts}@{m.toBits.toNat}").bind parseF with | some v => v | none => nanF
  vol pts := match (lk d s!"vol:{showSx pts}").bind parseF with | some v => v | none => nanF
  -- (a test the real code never made answers TRUE: the model then goes on to consult the sub-triangulation oracles, which have
  -- no record either and answer conspicuously - a containment test skipped by the code surfaces as a disagreement)
  pis p pts := match lk d s!"pis:{p}@{showSx pts}" with | some "0" => false | _ => true
  choose pts := match (lk d s!"ch:{showSx pts}").bind String.toNat? with | some p => p | none => 999999
  triInit n := match lk d s!"tinit:{n}" with | some "1" => true | _ => false
  triSimps n := match (lk d s!"tsimps:{n}").bind parseSxs with | some l => l | none => []
  triAdd n _ := match lk d s!"tadd:{n}" with
    | some v => if v = "raise" then none else parseDA v
    | none => none
  locate n p := match (lk d s!"loc:{n}@{p}").bind parseSx with | some s => s | none => []
  uord n := match (lk d s!"uord:{n}").bind parseSx with | some s => s | none => []
  subSimps vs := match (lk d s!"ssimps:{showSx vs}").bind parseSxs with | some l => l | none => []
  subAdd vs p := match lk d s!"sadd:{showSx vs}@{p}" with
    | some v => if v = "raise" then none else parseDA v
    | none => none
  randPt k := match (lk d s!"rand:{k}").bind String.toNat? with | some p => p | none => 999999

def sortSxs (l : List (List Nat)) : List (List Nat) := l.mergeSort (fun a b => decide (a ≤ b))

def errName : Err → String
  | .valueError => "TriangulationError"
  | .assertion => "AssertionError"
  | .keyError => "KeyError"

/-- observables after an operation: `loss()` is called (it may create the triangulation) -/
def finish (d : D) (s : State Float) (pre : String) : D × String :=
  match lossOp (envOf d) s with
  | .error e => ({ d with failed := true }, s!"raise:{errName e}")
  | .ok (v, s') =>
    ({ d with st := s' },
     s!"ok{pre} loss={showF v} keys={showSxs (sortSxs (keys s'.losses))} pending={showNats (sortNats s'.pending)} " ++
     s!"npoints={s'.data.length} ~g={b2s s'.book.geomOK}")

def stepLine (d : D) : List String → D × String
  | ["new", dim, fac, bounds] => match dim.toNat?, parseF fac, parseNats bounds with
    | some dim, some fac, some bs =>
      let d' : D := { dim := dim, factor := fac, bounds := bs }
      finish d' d'.st ""
    | _, _, _ => (d, "bad-op")
  | ["oracle", kind, recs] =>
    let tab := (recs.splitOn ";").foldl (fun t r =>
      match r.splitOn "=" with
      | [k, v] => t.insert (kind ++ ":" ++ k) v
      | _ => t) d.tab
    ({ d with tab := tab }, "ok")
  | ["tell", p, a, b] => match p.toNat?, parseF a, parseF b with
    | some p, some a, some b =>
      if d.failed then (d, "dead") else
      match tell (envOf d) d.st p a b with
      | .error e => ({ d with failed := true }, s!"raise:{errName e}")
      | .ok s => finish d s ""
    | _, _, _ => (d, "bad-op")
  | ["tell_pending", p] => match p.toNat? with
    | some p =>
      if d.failed then (d, "dead") else
      match tellPending (envOf d) d.st p none with
      | .error e => ({ d with failed := true }, s!"raise:{errName e}")
      | .ok s => finish d s ""
    | none => (d, "bad-op")
  | ["ask", n, c] => match n.toNat? with
    | some n =>
      if d.failed then (d, "dead") else
      match ask (envOf d) d.st n (c == "1") with
      | .error e => ({ d with failed := true }, s!"raise:{errName e}")
      | .ok (rs, s) =>
        finish d s s!" pts={showNats (rs.map (·.1))} imps={",".intercalate (rs.map fun r => showF r.2)}"
    | none => (d, "bad-op")
  | ["remove_unfinished"] =>
    if d.failed then (d, "dead") else finish d (removeUnfinished (envOf d) d.st) ""
  | ["loss"] => if d.failed then (d, "dead") else finish d d.st ""
  | _ => (d, "bad-op")

end LND.Drv
