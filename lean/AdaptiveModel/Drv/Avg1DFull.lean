import AdaptiveModel.Avg1DFull
import AdaptiveModel.Drv.L1D
import Std.Data.HashMap
/-!
Line protocol for the full AverageLearner1D model at `Float` (component prefix `a1f`).

Oracles (tables of what the real code computed, sent before the operation that needs them):
  * the loss function (`loss_per_interval`), keyed by its scaled arguments — as for `l1`;
  * `scipy.stats.t.ppf(1 - alpha, df)` keyed by `df`;
  * `sqrt` / `hypot`: the model evaluates `Float.sqrt v` and `Float.sqrt (a*a + b*b)`; the tables
    only hold the arguments at which the code's `(…) ** 0.5` (after python's compensated `sum`) and
    `math.hypot` returned a different double (the harness checks each such correction is within
    1e-9 relative of the model's own value before sending it).  The `sqrt` corrections are valid for the
    next operation only (every oracle line replaces them).
-/
namespace Avg1DFull.Drv
open _root_.Drv Scalar L1D.Drv

structure D where
  st : State Float := init 0 1 2 0 0 0 0 0 0 0
  table : Std.HashMap String (L1D.Loss Float) := {}
  tq : Std.HashMap Nat Float := {}
  sq : Std.HashMap UInt64 Float := {}
  hy : Std.HashMap (UInt64 × UInt64) Float := {}

def lossFnD (d : D) (xs : List (Option Float)) (ys : List (Option (List Float))) : L1D.Loss Float :=
  match d.table[keyOf xs ys]? with
  | some v => v
  | none => .fin nanF      -- a call the real code never made: surfaces as a NaN in the output

def sqrtD (d : D) (v : Float) : Float := (d.sq[v.toBits]?).getD (Float.sqrt v)
def hypotD (d : D) (a b : Float) : Float := (d.hy[(a.toBits, b.toBits)]?).getD (Float.sqrt (a * a + b * b))
def tqD (d : D) (df : Nat) : Float := (d.tq[df]?).getD nanF

def showResc (l : List (Float × L1D.Loss Float)) : String :=
  ",".intercalate (l.map fun e => s!"{showF e.1}:{showLoss e.2}")

def pairLe (a b : Nat × Float) : Bool := a.1 < b.1 || (a.1 == b.1 && a.2 ≤ b.2)

def obs (s : State Float) : String :=
  let under := (s.samp.under.toArray.qsort (· < ·)).toList
  let pend := (s.pend.toArray.qsort (fun a b => pairLe a b && !(pairLe b a))).toList
  let b := s.base
  s!"data={",".intercalate (b.data.map fun kv => s!"{showF kv.1}:{"/".intercalate (kv.2.map showF)}")} " ++
  s!"err={",".intercalate (s.samp.pts.map fun p => s!"{showF p.x}:{Avg.Drv.showO p.err}")} " ++
  s!"resc={showResc s.resc} " ++
  s!"ns={",".intercalate (s.samp.pts.map fun p => s!"{showF p.x}:{p.n}")} " ++
  s!"smp={",".intercalate (s.samp.pts.map fun p =>
      s!"{showF p.x}:" ++ ";".intercalate (p.samples.map fun sy => s!"{sy.1}~{showF sy.2}"))} " ++
  s!"under={",".intercalate (under.map showF)} " ++
  s!"pend={",".intercalate (pend.map fun q => s!"{q.1}@{showF q.2}")} " ++
  s!"losses={showTable b.losses} lossesC={showTable b.lossesC} " ++
  s!"lossT={showLoss (loss s true)} lossF={showLoss (loss s false)}"

def parseKV (f : String → Option α) (g : String → Option β) (t : String) : Option (List (α × β)) :=
  if t = "-" then some [] else
  (t.splitOn ",").mapM fun item =>
    match item.splitOn "=" with
    | [k, v] => match f k, g v with
      | some k, some v => some (k, v)
      | _, _ => none
    | _ => none

def parseBits (t : String) : Option UInt64 := t.toNat?.map UInt64.ofNat

def parseBits2 (t : String) : Option (UInt64 × UInt64) :=
  match t.splitOn "/" with
  | [a, b] => match parseBits a, parseBits b with
    | some a, some b => some (a, b)
    | _, _ => none
  | _ => none

/-- `seed:x:y;…` -/
def parseSamples (t : String) : Option (List ((Nat × Float) × Float)) :=
  if t = "-" then some [] else
  (t.splitOn ";").mapM fun item =>
    match item.splitOn ":" with
    | [k, x, y] => match k.toNat?, parseF x, parseF y with
      | some k, some x, some y => some ((k, x), y)
      | _, _, _ => none
    | _ => none

def branchName : Branch → String
  | .under => "under"
  | .resample => "resample"
  | .newPoint => "new"

def stepLine (d : D) : List String → D × String
  | ["new", lo, hi, fac, eps, nn, delta, minErr, minS, maxS, ns] =>
    match parseF lo, parseF hi, parseF fac, parseF eps, nn.toNat?, parseF delta, parseF minErr,
          minS.toNat?, maxS.toNat?, parseF ns with
    | some lo, some hi, some fac, some eps, some nn, some delta, some minErr, some minS, some maxS, some ns =>
      let d' : D := { st := init lo hi fac eps nn delta minErr minS maxS ns }
      (d', "ok " ++ obs d'.st)
    | _, _, _, _, _, _, _, _, _, _ => (d, "bad-op")
  | ["oracle", recs, tqs, sqs, hys] =>
    let rs := if recs = "-" then some [] else (recs.splitOn ";").mapM parseRecord
    match rs, parseKV String.toNat? parseF tqs, parseKV parseBits parseF sqs, parseKV parseBits2 parseF hys with
    | some rs, some tqs, some sqs, some hys =>
      ({ d with table := rs.foldl (fun t kv => t.insert kv.1 kv.2) d.table,
                tq := tqs.foldl (fun t kv => t.insert kv.1 kv.2) d.tq,
                sq := sqs.foldl (fun t kv => t.insert kv.1 kv.2) {},   -- replaced, not merged
                hy := hys.foldl (fun t kv => t.insert kv.1 kv.2) d.hy }, "ok")
    | _, _, _, _ => (d, "bad-op")
  | ["tell", seed, x, y] => match seed.toNat?, parseF x, parseF y with
    | some seed, some x, some y =>
      let s' := tell (lossFnD d) r12 (sqrtD d) (tqD d) (hypotD d) d.st seed x y
      ({ d with st := s' }, "ok " ++ obs s')
    | _, _, _ => (d, "bad-op")
  | ["tell_pending", seed, x] => match seed.toNat?, parseF x with
    | some seed, some x =>
      let s' := tellPending (lossFnD d) r12 d.st seed x
      ({ d with st := s' }, "ok " ++ obs s')
    | _, _ => (d, "bad-op")
  | ["tell_many", pts] => match parseSamples pts with
    | some pts =>
      let s' := tellMany (lossFnD d) r12 (sqrtD d) (tqD d) (hypotD d) d.st pts
      ({ d with st := s' }, "ok " ++ obs s')
    | none => (d, "bad-op")
  | ["tell_many_at", x, seeds, ys] => match parseF x, parseNats seeds, parseFs ys with
    | some x, some seeds, some ys =>
      let s' := tellManyAtPoint (lossFnD d) r12 (sqrtD d) (tqD d) (hypotD d) d.st x (seeds.zip ys)
      ({ d with st := s' }, "ok " ++ obs s')
    | _, _, _ => (d, "bad-op")
  | ["remove_unfinished"] => let s' := removeUnfinished d.st; ({ d with st := s' }, "ok " ++ obs s')
  | ["ask", n, c, choice] =>
    let ch : Option Float := if choice = "-" then some 0 else parseF choice
    match n.toNat?, ch with
    | some n, some ch =>
      -- `np.sqrt(n_existing)` is the correctly rounded square root: no correction table here
      match askBranch d.st ch, ask (lossFnD d) r12 Float.sqrt d.st n ch (c == "1") with
      | some (br, _), some ((pts, imps), s') =>
        ({ d with st := s' },
         s!"branch={branchName br} pts={",".intercalate (pts.map fun p => s!"{p.1}@{showF p.2}")} " ++
         s!"imps={",".intercalate (imps.map showLoss)} " ++ obs s')
      | _, _ => (d, "invalid-choice " ++ obs d.st)
    | _, _ => (d, "bad-op")
  | _ => (d, "bad-op")

end Avg1DFull.Drv
