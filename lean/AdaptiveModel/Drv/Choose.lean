import AdaptiveModel.Choose
import AdaptiveModel.Gen.Constants
import AdaptiveModel.Scalar
import AdaptiveModel.Drv.Util
/-! Line protocol for `choose_point_in_simplex` in dimension 2 (C04 / C12), stateless:
`choose call2 <x0,y0,x1,y1,x2,y2>`        → `choose_point_in_simplex(simplex)` (`transform=None`);
`choose call2 <x0,y0,x1,y1,x2,y2,t0,t1>`  → `choose_point_in_simplex(simplex, np.diag([t0, t1]))`;
`choose call2 <x0,…,y2,t00,t01,t10,t11>`  → the same with the full matrix written out (off-diagonal entries must be `±0`);
`choose why2 <…>`                         → which branch: `c` (centroid) or the flat index of the argmax;
doubles as bit patterns, comma separated; evaluated at `Float` with `Float.sqrt` and the live default tolerance
`point_in_simplex_eps` (python `1e-8`); the answer is the two coordinates as bit patterns. -/
namespace Choose.Drv
open _root_.Drv Scalar

def eps : Float := Gen.Constants.point_in_simplex_eps.toFloat

def parseArgs (fs : List Float) : Option ((P2 Float × P2 Float × P2 Float) × Option (P2 Float)) :=
  match fs with
  | [x0, y0, x1, y1, x2, y2] => some (((x0, y0), (x1, y1), (x2, y2)), none)
  | [x0, y0, x1, y1, x2, y2, t0, t1] => some (((x0, y0), (x1, y1), (x2, y2)), some (t0, t1))
  | [x0, y0, x1, y1, x2, y2, t00, t01, t10, t11] =>
    if t01 == 0 && t10 == 0 then some (((x0, y0), (x1, y1), (x2, y2)), some (t00, t11)) else none
  | _ => none

def stepLine : List String → String
  | ["call2", fs] => match (parseFs fs).bind parseArgs with
    | some ((p0, p1, p2), t) =>
      let r := choosePoint2 Float.sqrt eps p0 p1 p2 t
      showF r.1 ++ "," ++ showF r.2
    | none => "bad-op"
  | ["why2", fs] => match (parseFs fs).bind parseArgs with
    | some ((p0, p1, p2), t) =>
      if centerInside Float.sqrt eps (applyT t p0) (applyT t p1) (applyT t p2) then "c"
      else toString (argmax (distMatrix Float.sqrt (applyT t p0) (applyT t p1) (applyT t p2)))
    | none => "bad-op"
  | _ => "bad-op"

end Choose.Drv
