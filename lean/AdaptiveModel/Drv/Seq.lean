import AdaptiveModel.Seq
import AdaptiveModel.Drv.Util
/-! Line protocol for the SequenceLearner model (values are `Int`). -/
namespace Seq.Drv
open _root_.Drv

def obs (s : State Int) : String :=
  let res := match result s with
    | none => "none"
    | some vs => "[" ++ showInts vs ++ "]"
  s!"todo={showNats s.todo} pending={showNats (sortNats s.pending)} " ++
  s!"data={",".intercalate (s.data.map fun kv => s!"{kv.1}:{kv.2}")} done={b2s (done s)} " ++
  s!"lossT={lossNum s true}/{s.ntotal} lossF={lossNum s false}/{s.ntotal} " ++
  s!"npoints={npoints s} result={res}"

/-- one protocol line → new state and the output line -/
def stepLine (s : State Int) : List String → State Int × String
  | ["new", n] => match n.toNat? with
    | some k => (init k, "ok " ++ obs (init k))
    | none => (s, "bad-op")
  | ["ask", n, c] => match n.toNat? with
    | some k =>
      let (pts, s') := ask s k (c == "1")
      (s', s!"pts={showNats pts} " ++ obs s')
    | none => (s, "bad-op")
  | ["tell", i, v] => match i.toNat?, v.toInt? with
    | some i, some v => let s' := tell s i v; (s', "ok " ++ obs s')
    | _, _ => (s, "bad-op")
  | ["tell_pending", i] => match i.toNat? with
    | some i => let s' := tellPending s i; (s', "ok " ++ obs s')
    | none => (s, "bad-op")
  | ["remove_unfinished"] => let s' := removeUnfinished s; (s', "ok " ++ obs s')
  | ["tell_many", ks, vs] => match parseNats ks, parseInts vs with
    -- `BaseLearner.tell_many`: the pairs are told one by one, in order
    | some ks, some vs =>
      if ks.length = vs.length then
        let s' := (ks.zip vs).foldl (fun s kv => tell s kv.1 kv.2) s
        (s', "ok " ++ obs s')
      else (s, "bad-op")
    | _, _ => (s, "bad-op")
  | ["set_data", ks, vs] => match parseNats ks, parseInts vs with
    | some ks, some vs => let s' := setData s (ks.zip vs); (s', "ok " ++ obs s')
    | _, _ => (s, "bad-op")
  | _ => (s, "bad-op")

end Seq.Drv
