import AdaptiveModel.Integ
import AdaptiveModel.Scalar
import AdaptiveModel.Drv.Util
import Std.Data.HashMap
/-! Line protocol for the IntegratorLearner bookkeeping model at `Float`.
The abscissae of every interval and the numeric outcome of every `complete_process` call are tables of
what the real code computed (`opts` / `ocp` lines precede the operation that needs them). -/
namespace Integ.Drv
open _root_.Drv Scalar

structure D where
  st : St Float := { F := [] }
  P : Params Float := { minSep := 0, tol := 0, inf := 0 }
  pts : Std.HashMap String (List Float) := {}
  cp : Std.HashMap String (CPOut Float) := {}
  fuel : Nat := 0          -- bound on `_fill_stack` calls inside one `ask` (the harness guards the code with the same bound)

def bitsOf (x : Float) : String := toString x.toBits.toNat
def nanF : Float := 0.0 / 0.0

def oracle (d : D) : Oracle Float where
  pts a b depth := (d.pts[s!"{bitsOf a}:{bitsOf b}:{depth}"]?).getD []
  cp i depth := (d.cp[s!"{i}:{depth}"]?).getD
    { igral := nanF, forceSplit := false, remove := false, selfErr := nanF, selfDiv := false, childDiv := [], childErr := [] }

def errName : Option Err → String
  | none => "ok"
  | some .value => "value_error"
  | some .runtime => "runtime_error"
  | some .divergent => "divergent"
  | some (.internal _) => "internal_error"
  | some .fuel => "model_fuel"

def sortF (l : List Float) : List Float := (l.toArray.qsort (· < ·)).toList

def obs (d : D) : String :=
  let s := d.st
  let ai := match approximating s with
    | none => "none"
    | some l =>
      let prs := (l.map fun i => ((getI s.F i).a, (getI s.F i).b)).toArray.qsort
        (fun p q => p.1 < q.1 || (p.1 == q.1 && p.2 < q.2))
      ",".intercalate (prs.toList.map fun (p : Float × Float) => s!"{showF p.1}:{showF p.2}")
  let l := sortNats ((approximating s).getD [])
  s!"cp={",".intercalate (s.cpLog.map fun e => s!"{e.1}:{e.2}")} ai={ai} npoints={npoints s} " ++
  s!"pending={",".intercalate ((sortF s.pending).map showF)} done={b2s (doneOf d.P s l)} " ++
  s!"igral={showF (igralOf s l)} err={showF (errOf d.P s l)} nivals={s.ivals.length} prio={s.prio.length} stack={s.stack.length}"

def parseBools (t : String) : List Bool :=
  if t = "-" || t = "" then [] else (t.splitOn ",").map (· == "1")

def parsePtsRec (t : String) : Option (String × List Float) :=
  match t.splitOn "=" with
  | [k, v] => (parseFs v).map fun v => (k, v)
  | _ => none

def parseCpRec (t : String) : Option (String × CPOut Float) :=
  match t.splitOn "=" with
  | [k, v] =>
    match v.splitOn "/" with
    | [ig, fs, rm, se, sd, cd, ce] =>
      match parseF ig, parseF se, parseFs ce with
      | some ig, some se, some ce =>
        some (k, { igral := ig, forceSplit := fs == "1", remove := rm == "1", selfErr := se, selfDiv := sd == "1",
                   childDiv := parseBools cd, childErr := ce })
      | _, _, _ => none
    | _ => none
  | _ => none

def parseOrder (t : String) : Option (Float × List Nat) :=
  match t.splitOn "=" with
  | [x, ids] => match parseF x, parseNats ids with
    | some x, some ids => some (x, ids)
    | _, _ => none
  | _ => none

def stepLine (d : D) : List String → D × String
  | ["opts", recs] =>
    match (recs.splitOn ";").mapM parsePtsRec with
    | some rs => ({ d with pts := rs.foldl (fun t kv => t.insert kv.1 kv.2) d.pts }, "ok")
    | none => (d, "bad-op")
  | ["ocp", recs] =>
    match (recs.splitOn ";").mapM parseCpRec with
    | some rs => ({ d with cp := rs.foldl (fun t kv => t.insert kv.1 kv.2) d.cp }, "ok")
    | none => (d, "bad-op")
  | ["reset"] => ({}, "ok")
  | ["new", a, b, tol, minSep, errMax, inf, maxIvals, fuel] =>
    match parseF a, parseF b, parseF tol, parseF minSep, parseF errMax, parseF inf, maxIvals.toNat?, fuel.toNat? with
    | some a, some b, some tol, some minSep, some errMax, some inf, some mi, some fuel =>
      let P : Params Float := { minSep := minSep, tol := tol, inf := inf, maxIvals := mi }
      let d := { d with P := P, cp := {}, fuel := fuel }
      let (s, e) := init (oracle d) P a b errMax
      let d := { d with st := s }
      (d, s!"r={errName e} " ++ obs d)
    | _, _, _, _, _, _, _, _ => (d, "bad-op")
  | ["xorder", recs] =>
    match (recs.splitOn ";").mapM parseOrder with
    | some rs =>
      let s := rs.foldl (fun s r => reorder s r.1 r.2) d.st
      let okAll := rs.all fun r => xmapGet s.xmap r.1 == some r.2
      ({ d with st := s }, if okAll then "ok" else "bad-order")
    | none => (d, "bad-op")
  | ["cutcheck"] =>
    (d, s!"cut={b2s (cutOK d.st.F)} holders={((List.range d.st.F.length).filter fun i => match (getI d.st.F i).doneLeaves with | some (_ :: _) => true | _ => false).length}")
  | ["tell", x] =>
    match parseF x with
    | some x =>
      let (s, e) := tell (oracle d) d.P { d.st with cpLog := [] } x
      let d := { d with st := s }
      (d, s!"r={errName e} " ++ obs d)
    | none => (d, "bad-op")
  | ["ask", n, c] =>
    match n.toNat? with
    | some n =>
      let s0 := { d.st with cpLog := [] }
      let (s, e, pts, imps) := ask (oracle d) d.P d.fuel s0 n (c == "1")
      -- the calls made by a rolled-back ask are still shown (they are compared with the code's calls)
      let log := if c == "1" then s.cpLog else (askCommit (oracle d) d.P d.fuel s0 n).1.cpLog
      let d := { d with st := { s with cpLog := log } }
      (d, s!"r={errName e} pts={",".intercalate (pts.map showF)} imps={",".intercalate (imps.map showF)} " ++ obs d)
    | none => (d, "bad-op")
  | _ => (d, "bad-op")

end Integ.Drv
