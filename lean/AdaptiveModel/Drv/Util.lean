/-! Token helpers shared by the line-protocol drivers (core only). -/
namespace Drv

def showNats (l : List Nat) : String := ",".intercalate (l.map toString)
def showInts (l : List Int) : String := ",".intercalate (l.map toString)
def sortNats (l : List Nat) : List Nat := l.mergeSort (fun a b => a ≤ b)

def parseNats (s : String) : Option (List Nat) :=
  if s = "" || s = "-" then some [] else (s.splitOn ",").mapM String.toNat?

def parseInts (s : String) : Option (List Int) :=
  if s = "" || s = "-" then some [] else (s.splitOn ",").mapM String.toInt?

def b2s (b : Bool) : String := if b then "1" else "0"

end Drv
