import AdaptiveModel.SaveFs
import AdaptiveModel.Drv.Util
/-! Line protocol for the save model: one line = one complete save under a fault assignment. -/
namespace SaveFs.Drv

def parseStep : String → Option Step
  | "makedirs" => some .makedirs | "open" => some .open | "write" => some .write
  | "close" => some .close | "replace" => some .replace | "exists" => some .exists
  | "remove" => some .remove | _ => none

def showStep : Step → String
  | .makedirs => "makedirs" | .open => "open" | .write => "write" | .close => "close"
  | .replace => "replace" | .exists => "exists" | .remove => "remove"

def parseFaults (spec : String) (prefixLen : Nat) : Option Faults :=
  if spec = "-" then some { on := fun _ => none, prefixLen := prefixLen } else
  let items := (spec.splitOn ",").mapM fun it =>
    match it.splitOn ":" with
    | [s, "oserror"] => (parseStep s).map (·, FaultKind.oserror)
    | [s, "death"] => (parseStep s).map (·, FaultKind.death)
    | _ => none
  items.map fun l => { on := fun s => (l.find? (·.1 == s)).map (·.2), prefixLen := prefixLen }

def oldBlob : Blob := [7, 7, 7]
def newBlob (n : Nat) : Blob := (List.range n).map (· + 100)

def classify (b : Option Blob) (n : Nat) : String :=
  match b with
  | none => "none"
  | some b => if b = oldBlob then "old" else if b = newBlob n then "new" else s!"partial:{b.length}"

def stepLine : List String → String
  | ["run", hasOld, hasDir, n, k, spec] =>
    match n.toNat?, k.toNat? with
    | some n, some k =>
      match parseFaults spec k with
      | some f =>
        let fs : FS := { dest := if hasOld == "1" then some oldBlob else none, temp := none }
        let o := save f (hasDir == "1") fs (newBlob n)
        let r := match o.result with
          | .ret true => "true" | .ret false => "false" | .raised => "raised" | .died => "died"
        s!"trace={",".intercalate (o.trace.map showStep)} result={r} dest={classify o.fs.dest n} temp={classify o.fs.temp n}"
      | none => "bad-op"
    | _, _ => "bad-op"
  | _ => "bad-op"

end SaveFs.Drv
