import AdaptiveModel.Gen.Prims
import AdaptiveModel.Gen.PrimsRun
import AdaptiveModel.Gen.Constants
import AdaptiveModel.Scalar
import AdaptiveModel.Drv.Util
/-! Line protocol for the generated primitives (C20), stateless:
`prims call <name> <doubles as bit patterns, comma separated | -> [<naturals>]`
  → the components of the result of the generated definition evaluated at `Float`
    (`sqrt := Float.sqrt`, `abs := Float.abs`), as bit patterns; booleans are 1.0 / 0.0;
`prims names` → the names the generated evaluation table knows;
`prims const <name>` → bit pattern of a generated constant. -/
namespace Prims.Drv
open _root_.Drv Scalar

def showFs (l : List Float) : String := ",".intercalate (l.map showF)

def stepLine : List String → String
  | ["names"] => ",".intercalate Gen.PrimsRun.names
  | ["const", name] => match Gen.PrimsRun.constBits name with
    | some b => "#" ++ toString b
    | none => "unknown-constant"
  | ["call", name, fs] => match parseFs fs with
    | some fs => match Gen.PrimsRun.call name fs [] with
      | some r => showFs r
      | none => "unknown-primitive-or-arity"
    | none => "bad-op"
  | ["call", name, fs, ns] => match parseFs fs, parseNats ns with
    | some fs, some ns => match Gen.PrimsRun.call name fs ns with
      | some r => showFs r
      | none => "unknown-primitive-or-arity"
    | _, _ => "bad-op"
  | _ => "bad-op"

end Prims.Drv
