import AdaptiveModel.L2D
import AdaptiveModel.Drv.Util
/-!
Line protocol for the Learner2D bookkeeping model (component prefix `l2d`).  Points are ids, values and losses are the
64-bit patterns of the doubles (`Nat`).

  l2d new <corner ids>
  l2d oracle in <id>=<0|1>;…             inside_bounds of ids (recorded when an id is first used)
  l2d oracle cands <sorted pending ids>=<id:lossbits;…>   the complete candidate list of one `_fill_stack` call, keyed by the
                                           pending set the call sees (`data` is constant during one `ask`); cleared after every ask
  l2d tell <id> <inB> <value bits> | l2d tell_pending <id> <inB> | l2d ask <n> <0|1> | l2d remove_unfinished
  l2d save_load      the state is replaced by `restoreFile` of its own data (save + load / copy_from into a fresh learner)
  l2d pickle         the state is replaced by `setState (getState s)` (pickle.loads(pickle.dumps(learner)))
Every operation line answers
  <status> [pts=… imps=…] data=<id:bits,…> pending=<sorted ids> stack=<id:bits,…> npoints=<n> done=<bounds_are_done>
A candidate lookup the real code never made answers the conspicuous point 999999.
-/
namespace L2D.Drv
open _root_.Drv

def infBits : Nat := 0x7FF0000000000000

structure D where
  st : State Nat Nat := {}
  corners : List Nat := []
  inIds : List Nat := []
  tab : List (List Nat × List (Nat × Nat)) := []

def cfg (d : D) : Cfg Nat :=
  { inB := fun p => d.inIds.contains p, corners := d.corners, inf := infBits, stackSize := 10 }

def oracle (d : D) : Oracle Nat Nat := fun _ pd =>
  match d.tab.find? (fun e => e.1 == sortNats pd) with
  | some e => e.2
  | none => [(999999, 0)]

def showPairs (l : List (Nat × Nat)) : String :=
  if l.isEmpty then "-" else ",".intercalate (l.map fun e => s!"{e.1}:{e.2}")

def showIds (l : List Nat) : String := if l.isEmpty then "-" else showNats l

def obs (d : D) : String :=
  s!"data={showPairs d.st.data} pending={showIds (sortNats d.st.pending)} stack={showPairs d.st.stack} " ++
  s!"npoints={npoints d.st} done={b2s (boundsAreDone (cfg d) d.st)}"

def parsePair (s : String) : Option (Nat × Nat) :=
  match s.splitOn ":" with
  | [a, b] => match a.toNat?, b.toNat? with
    | some a, some b => some (a, b)
    | _, _ => none
  | _ => none

def parsePairs (s : String) (sep : String) : Option (List (Nat × Nat)) :=
  if s = "" || s = "-" then some [] else (s.splitOn sep).mapM parsePair

def setIn (d : D) (p : Nat) (b : Bool) : D :=
  if b then (if d.inIds.contains p then d else { d with inIds := p :: d.inIds })
  else { d with inIds := d.inIds.filter (· != p) }

def stepLine (d : D) : List String → D × String
  | ["new", cs] => match parseNats cs with
    | some cs =>
      let d0 : D := { corners := cs, inIds := cs }
      let d1 := { d0 with st := init (cfg d0) }
      (d1, "ok " ++ obs d1)
    | none => (d, "bad-op")
  | ["oracle", "in", recs] =>
    let rs := (recs.splitOn ";").filterMap fun r => match r.splitOn "=" with
      | [a, b] => match a.toNat? with
        | some a => some (a, b == "1")
        | none => none
      | _ => none
    (rs.foldl (fun d r => setIn d r.1 r.2) d, "ok")
  | ["oracle", "cands", rec] => match rec.splitOn "=" with
    | [k, v] => match parseNats k, parsePairs v ";" with
      | some k, some v => ({ d with tab := d.tab ++ [(sortNats k, v)] }, "ok")
      | _, _ => (d, "bad-op")
    | _ => (d, "bad-op")
  | ["tell", p, b, v] => match p.toNat?, v.toNat? with
    | some p, some v =>
      let d := setIn d p (b == "1")
      let d' := { d with st := tell (cfg d) d.st p v }
      (d', "ok " ++ obs d')
    | _, _ => (d, "bad-op")
  | ["tell_pending", p, b] => match p.toNat? with
    | some p =>
      let d := setIn d p (b == "1")
      let d' := { d with st := tellPending (cfg d) d.st p }
      (d', "ok " ++ obs d')
    | none => (d, "bad-op")
  | ["ask", n, c] => match n.toNat? with
    | some n =>
      let (s', out) := ask (cfg d) (oracle d) d.st n (c == "1")
      let d' := { d with st := s', tab := [] }
      let hd := match out with
        | .ok pts => s!"ok pts={showIds (pts.map (·.1))} imps={showIds (pts.map (·.2))}"
        | .tooFew => "too-few-points"
        | .diverge => "diverges"
      (d', hd ++ " " ++ obs d')
    | none => (d, "bad-op")
  | ["remove_unfinished"] =>
    let d' := { d with st := removeUnfinished (cfg d) d.st }
    (d', "ok " ++ obs d')
  | ["save_load"] =>
    let d' := { d with st := restoreFile (cfg d) (getData d.st) }
    (d', "ok " ++ obs d')
  | ["pickle"] =>
    let d' := { d with st := setState (cfg d) (getState d.st) }
    (d', "ok " ++ obs d')
  | _ => (d, "bad-op")

end L2D.Drv
