import AdaptiveModel.L1D
import AdaptiveModel.Drv.Avg
import Std.Data.HashMap
/-! Line protocol for the Learner1D model at `Float`; the loss function is a table of recorded calls. -/
namespace L1D.Drv
open _root_.Drv Scalar

def r12 (v : Float) : Float := Float.floor (v * 1e12 + 0.5) / 1e12

structure D where
  st : State Float := init 0 1 2 0 0
  table : Std.HashMap String (Loss Float) := {}

def bitsOf (x : Float) : String := toString x.toBits.toNat

def keyOf (xs : List (Option Float)) (ys : List (Option (List Float))) : String :=
  "/".intercalate (xs.map fun | none => "n" | some x => bitsOf x) ++ "|" ++
  "/".intercalate (ys.map fun | none => "n" | some y => ",".intercalate (y.map bitsOf))

def nanF : Float := 0.0 / 0.0

def lossFn (d : D) (xs : List (Option Float)) (ys : List (Option (List Float))) : Loss Float :=
  match d.table[keyOf xs ys]? with
  | some v => v
  | none => .fin nanF      -- a call the real code never made: surfaces as a NaN in the output

def showLoss : Loss Float → String
  | .fin v => showF v
  | .inf => "inf"

def showTable (l : List (Ival Float × Loss Float)) : String :=
  ",".intercalate (l.map fun e => s!"{showF e.1.1}:{showF e.1.2}:{showLoss e.2}")

def obs (s : State Float) : String :=
  let pend := (s.pending.toArray.qsort (· < ·)).toList
  s!"data={",".intercalate (s.data.map fun kv => s!"{showF kv.1}:{"/".intercalate (kv.2.map showF)}")} " ++
  s!"pending={",".intercalate (pend.map showF)} losses={showTable s.losses} lossesC={showTable s.lossesC} " ++
  s!"lossT={showLoss (loss s true)} lossF={showLoss (loss s false)}"

def parseVal (t : String) : Option (List Float) := (t.splitOn "/").mapM parseF

def parsePts (t : String) : Option (List (Float × List Float)) :=
  if t = "-" then some [] else
  (t.splitOn ";").mapM fun item =>
    match item.splitOn ":" with
    | [x, y] => match parseF x, parseVal y with
      | some x, some y => some (x, y)
      | _, _ => none
    | _ => none

def parseRecord (t : String) : Option (String × Loss Float) :=
  match t.splitOn "=" with
  | [k, v] => if v = "inf" then some (k, .inf) else (parseF v).map fun v => (k, Loss.fin v)
  | _ => none

def stepLine (d : D) : List String → D × String
  | ["new", lo, hi, fac, eps, nn] => match parseF lo, parseF hi, parseF fac, parseF eps, nn.toNat? with
    | some lo, some hi, some fac, some eps, some nn =>
      let d' : D := { st := init lo hi fac eps nn, table := {} }
      (d', "ok " ++ obs d'.st)
    | _, _, _, _, _ => (d, "bad-op")
  | ["oracle", recs] =>
    match (recs.splitOn ";").mapM parseRecord with
    | some rs => ({ d with table := rs.foldl (fun t kv => t.insert kv.1 kv.2) d.table }, "ok")
    | none => (d, "bad-op")
  | ["tell", x, y] => match parseF x, parseVal y with
    | some x, some y => let s' := tell (lossFn d) r12 d.st x y; ({ d with st := s' }, "ok " ++ obs s')
    | _, _ => (d, "bad-op")
  | ["tell_pending", x] => match parseF x with
    | some x => let s' := tellPending (lossFn d) r12 d.st x; ({ d with st := s' }, "ok " ++ obs s')
    | none => (d, "bad-op")
  | ["tell_many", force, pts] => match parsePts pts with
    | some pts => let s' := tellMany (lossFn d) r12 d.st pts (force == "1"); ({ d with st := s' }, "ok " ++ obs s')
    | none => (d, "bad-op")
  | ["remove_unfinished"] => let s' := removeUnfinished d.st; ({ d with st := s' }, "ok " ++ obs s')
  | ["ask", n, c] => match n.toNat? with
    | some n =>
      let ((pts, imps), s') := ask (lossFn d) r12 d.st n (c == "1")
      ({ d with st := s' },
       s!"pts={",".intercalate (pts.map showF)} imps={",".intercalate (imps.map showLoss)} " ++ obs s')
    | none => (d, "bad-op")
  | _ => (d, "bad-op")

end L1D.Drv
