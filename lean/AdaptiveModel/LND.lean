/-!
# LearnerND — bookkeeping model on top of an abstract triangulation

Mirror of `adaptive/learner/learnerND.py` (class `LearnerND`) AS IT IS: `tell`, `tell_pending`,
`_try_adding_pending_point_to_simplex`, `_update_subsimplex_losses`, `ask` / `_ask` / `_ask_bound_point` /
`_ask_point_without_known_simplices` / `_pop_highest_existing_simplex` / `_ask_best_point`,
`_update_losses`, `_recompute_all_losses`, `_update_range`, `loss`, `remove_unfinished` (as of fix e79ba45: the queue is rebuilt), the lazily created
`tri` property and the roll-back of `ask(n, tell_pending=False)`.

Everything geometric or numerical is an ORACLE, a field of `Env` (DESIGN.md 2.4): the triangulation
(`Triangulation(points)`, `add_point`, `locate_point`, `simplices`, `point_in_simplex`, `volume`), the
sub-triangulations of pending points, the loss function, `choose_point_in_simplex`, the random bootstrap
point, `inside_bounds`, `round(loss, 8)`.  All of them are *pure* functions of their keys:
  * points are ids (`Pt`); a vertex index of the triangulation denotes the same point for ever, the value of
    a point never changes (first `tell` wins), so loss / volume / containment / chosen point are functions of
    ordered point lists (and the output multiplier);
  * a `Triangulation` object is deterministic, so its state is a function of its vertex list: the main
    triangulation is keyed by its number of vertices, a sub-triangulation by its vertex list.
The theorems (`AdaptiveProofs/Props/C04.lean`) quantify over every `Env`; the correspondence run records the
answers of the real code and hands them to this model as lookup tables (`Drv/LND.lean`).

Core only (no Mathlib).  Polymorphic in the scalar type `α`: executed at `Float`, proved about over ordered
fields.
-/
namespace LND

abbrev Pt := Nat
/-- sorted tuple of vertex indices (of the main triangulation, or of a sub-triangulation) -/
abbrev Simplex := List Nat

inductive Err
  | valueError   -- `ValueError` (or `RuntimeError`) out of `Triangulation.add_point`
  | assertion    -- "Could not find a simplex to subdivide"
  | keyError
  deriving DecidableEq, Repr

/-- entry of `_simplex_queue`: `(loss, simplex, subsimplex or None)` -/
structure QE (α : Type) where
  loss : α
  simplex : Simplex
  sub : Option Simplex

/-- the oracles (see the module comment) and the few numeric constants of `_update_range` -/
structure Env (α : Type) where
  dim : Nat
  /-- `_bounds_points` (sorted) -/
  boundsPts : List Pt
  /-- `inside_bounds(point)` -/
  inside : Pt → Bool
  one : α
  inf : α
  /-- `1e-15`, `1e-2`, `_recompute_losses_factor` -/
  c15 : α
  c2 : α
  factor : α
  abs : α → α
  /-- falsiness of a number (`x or 1`, `if self._old_scale`) -/
  isZero : α → Bool
  /-- `round(loss, ndigits=8)` in units of `1e-8` -/
  rnd : α → Int
  /-- `_compute_loss(simplex)` as a function of the simplex' vertex points (in order) and `_output_multiplier` -/
  lossFn : List Pt → α → α
  /-- `Triangulation.volume(simplex)` as a function of the vertex points (in order); main and sub -/
  vol : List Pt → α
  /-- `tri.point_in_simplex(point, simplex)` -/
  pis : Pt → List Pt → Bool
  /-- `choose_point_in_simplex(points, transform)` -/
  choose : List Pt → Pt
  /-- does `Triangulation(self.points)` succeed with the first `n` data points -/
  triInit : Nat → Bool
  /-- `tri.simplices` when the triangulation has `n` vertices -/
  triSimps : Nat → List Simplex
  /-- `tri.add_point(point, hint)` on the triangulation with `n` vertices: `(deleted, added)`; `none` = raises -/
  triAdd : Nat → Option Simplex → Option (List Simplex × List Simplex)
  /-- `tri.locate_point(point)` on the triangulation with `n` vertices (`[]` = outside) -/
  locate : Nat → Pt → Simplex
  /-- iteration order of the set `pending_points_unbound` in the `_update_losses` call made when the
  triangulation has `n` vertices (a hash-set order: relational, any order is allowed) -/
  uord : Nat → List Pt
  /-- simplices of the sub-triangulation with these vertices -/
  subSimps : List Pt → List Simplex
  /-- `subtri.add_point(point)`: `(deleted, added)`; `none` = raises `ValueError` -/
  subAdd : List Pt → Pt → Option (List Simplex × List Simplex)
  /-- the `k`-th accepted random bootstrap point of `_ask_point_without_known_simplices` -/
  randPt : Nat → Pt

/-! ### association lists (python dicts; iteration order is never observable here) -/
section assoc
variable {κ β : Type} [DecidableEq κ]

def get? (k : κ) (l : List (κ × β)) : Option β := (l.find? (fun e => e.1 = k)).map (·.2)
def del (k : κ) (l : List (κ × β)) : List (κ × β) := l.filter (fun e => e.1 ≠ k)
def put (k : κ) (v : β) (l : List (κ × β)) : List (κ × β) := del k l ++ [(k, v)]
def keys (l : List (κ × β)) : List κ := l.map (·.1)

end assoc

/-- `_subtriangulations`, `_pending_to_simplex`, `_simplex_queue`: what the pending-point refinement touches.
`geomOK` is a ghost (it never influences the behaviour): it records that the geometric side condition of
the queue theorem held so far — a (sub)simplex chosen for subdivision by `_ask_best_point` really was
subdivided (it is no longer a live queue key afterwards). -/
structure Book (α : Type) where
  subs : List (Simplex × List Pt) := []
  p2s : List (Pt × Simplex) := []
  queue : List (QE α) := []
  geomOK : Bool := true

structure State (α : Type) where
  /-- keys of `data` in insertion order -/
  data : List Pt := []
  pending : List Pt := []
  /-- vertices of `_tri` (`none`: no triangulation yet) -/
  tri : Option (List Pt) := none
  losses : List (Simplex × α) := []
  book : Book α := {}
  /-- `(_min_value, _max_value, _old_scale)`; `none` before the first in-domain value -/
  range : Option (α × α × α) := none
  /-- `_output_multiplier` -/
  mult : α
  /-- number of random bootstrap points drawn so far (state of `_random`) -/
  nrand : Nat := 0

def init {α : Type} (env : Env α) : State α := { mult := env.one }

/-- vertex points of a simplex (`get_vertices`) -/
def ptsOf (vs : List Pt) (sx : Simplex) : List Pt := sx.map (fun i => vs.getD i 0)

def simplices {α : Type} (env : Env α) (tri : Option (List Pt)) : List Simplex :=
  match tri with
  | none => []
  | some vs => env.triSimps vs.length

section queue
variable {α : Type}

/-- strict order of `_simplex_evaluation_priority`: `(-round(loss, 8), simplex, subsimplex or (0,))` -/
def keyLt (env : Env α) (a b : QE α) : Bool :=
  let ra := env.rnd a.loss
  let rb := env.rnd b.loss
  if rb < ra then true else if ra < rb then false
  else if a.simplex < b.simplex then true else if b.simplex < a.simplex then false
  else decide (a.sub.getD [0] < b.sub.getD [0])

/-- `SortedKeyList.add` (insertion at `bisect_right`) -/
def qinsert (env : Env α) (e : QE α) : List (QE α) → List (QE α)
  | [] => [e]
  | x :: xs => if keyLt env e x then e :: x :: xs else x :: qinsert env e xs

/-- the two acceptance tests of `_pop_highest_existing_simplex` -/
def live (env : Env α) (simps : List Simplex) (subs : List (Simplex × List Pt)) (e : QE α) : Bool :=
  match e.sub with
  | none => simps.contains e.simplex && (get? e.simplex subs).isNone
  | some ss =>
    match get? e.simplex subs with
    | none => false
    | some sv => simps.contains e.simplex && (env.subSimps sv).contains ss

/-- `_pop_highest_existing_simplex`: pop entries until a live one; `none` = `AssertionError` -/
def popHighest (env : Env α) (simps : List Simplex) (subs : List (Simplex × List Pt)) :
    List (QE α) → Option (QE α × List (QE α))
  | [] => none
  | e :: q => if live env simps subs e then some (e, q) else popHighest env simps subs q

end queue

section model
variable {α : Type} [Sub α] [Mul α] [Div α] [LT α] [DecidableLT α]

/-- `_try_adding_pending_point_to_simplex(point, simplex)`; second component = `to_add` (`none` if the point
is not in the simplex) -/
def tryAdd (env : Env α) (vs : List Pt) (b : Book α) (p : Pt) (sx : Simplex) :
    Except Err (Book α × Option (List Simplex)) :=
  if env.pis p (ptsOf vs sx) then
    let sv := (get? sx b.subs).getD (ptsOf vs sx)   -- `Triangulation(vertices)` if new
    match env.subAdd sv p with
    | none => .error .valueError
    | some (_, added) =>
      .ok ({ b with subs := put sx (sv ++ [p]) b.subs, p2s := put p sx b.p2s }, some added)
  else .ok (b, none)

/-- `_update_subsimplex_losses(simplex, new_subsimplices)` -/
def updateSubLosses (env : Env α) (vs : List Pt) (losses : List (Simplex × α)) (b : Book α)
    (sx : Simplex) (news : List Simplex) : Except Err (Book α) :=
  match get? sx losses, get? sx b.subs with
  | some loss, some sv =>
    let density := loss / env.vol (ptsOf vs sx)
    let q' := news.foldl
      (fun q ss => qinsert env { loss := env.vol (ptsOf sv ss) * density, simplex := sx, sub := some ss } q)
      b.queue
    .ok { b with queue := q' }
  | _, _ => .error .keyError

/-- the loop `for simpl in neighbors` of `tell_pending` -/
def pendLoop (env : Env α) (vs : List Pt) (losses : List (Simplex × α)) (p : Pt) :
    Book α → List Simplex → Except Err (Book α)
  | b, [] => .ok b
  | b, t :: ts =>
    match tryAdd env vs b p t with
    | .error e => .error e
    | .ok (b1, none) => pendLoop env vs losses p b1 ts
    | .ok (b1, some added) =>
      match updateSubLosses env vs losses b1 t added with
      | .error e => .error e
      | .ok b2 => pendLoop env vs losses p b2 ts

/-- simplices sharing a vertex with `sx`: `set.union(*[tri.vertex_to_simplices[i] for i in simplex])` -/
def neighborsOf (simps : List Simplex) (sx : Simplex) : List Simplex :=
  simps.filter (fun t => t.any (fun i => sx.contains i))

/-- first loop of `_update_losses`: drop the deleted simplices, collect the vertices of their
sub-triangulations -/
def dropDeleted (losses : List (Simplex × α)) (subs : List (Simplex × List Pt)) (unb : List Pt) :
    List Simplex → List (Simplex × α) × List (Simplex × List Pt) × List Pt
  | [] => (losses, subs, unb)
  | sx :: rest =>
    match get? sx subs with
    | none => dropDeleted (del sx losses) subs unb rest
    | some sv => dropDeleted (del sx losses) (del sx subs) (unb ++ sv) rest

/-- `for p in pending_points_unbound: self._try_adding_pending_point_to_simplex(p, simplex)` -/
def addPts (env : Env α) (vs : List Pt) (sx : Simplex) : Book α → List Pt → Except Err (Book α)
  | b, [] => .ok b
  | b, p :: ps =>
    match tryAdd env vs b p sx with
    | .error e => .error e
    | .ok (b1, _) => addPts env vs sx b1 ps

/-- second loop of `_update_losses` (`for simplex in to_add`); with `unb = []` it is also the loop of
`_recompute_all_losses` -/
def addLoop (env : Env α) (vs : List Pt) (mult : α) (unb : List Pt) :
    List (Simplex × α) → Book α → List Simplex → Except Err (List (Simplex × α) × Book α)
  | losses, b, [] => .ok (losses, b)
  | losses, b, sx :: rest =>
    let loss := env.lossFn (ptsOf vs sx) mult
    let losses1 := put sx loss losses
    match addPts env vs sx b unb with
    | .error e => .error e
    | .ok b1 =>
      match get? sx b1.subs with
      | none =>
        addLoop env vs mult unb losses1
          { b1 with queue := qinsert env { loss := loss, simplex := sx, sub := none } b1.queue } rest
      | some sv =>
        match updateSubLosses env vs losses1 b1 sx (env.subSimps sv) with
        | .error e => .error e
        | .ok b2 => addLoop env vs mult unb losses1 b2 rest

def dedup : List Pt → List Pt
  | [] => []
  | p :: ps => if ps.contains p then dedup ps else p :: dedup ps

/-- `_update_losses(to_delete, to_add)` (loss functions without neighbours) -/
def updateLosses (env : Env α) (s : State α) (del_ add : List Simplex) : Except Err (State α) :=
  match s.tri with
  | none => .ok s
  | some vs =>
    match dropDeleted s.losses s.book.subs [] del_ with
    | (losses1, subs1, unb) =>
      let unb1 := dedup (unb.filter (fun p => !s.data.contains p))
      let ord := env.uord vs.length
      let unb2 := ord.filter (fun p => unb1.contains p) ++ unb1.filter (fun p => !ord.contains p)
      match addLoop env vs s.mult unb2 losses1 { s.book with subs := subs1 } add with
      | .error e => .error e
      | .ok (l, b) => .ok { s with losses := l, book := b }

/-- the `tri` property: the triangulation is created on first access once the data allow it -/
def touchTri (env : Env α) (s : State α) : Except Err (State α) :=
  match s.tri with
  | some _ => .ok s
  | none =>
    if env.triInit s.data.length then
      updateLosses env { s with tri := some s.data } [] (env.triSimps s.data.length)
    else .ok s

/-- `_recompute_all_losses` -/
def recomputeAll (env : Env α) (s : State α) : Except Err (State α) :=
  match touchTri env s with
  | .error e => .error e
  | .ok s1 =>
    match s1.tri with
    | none => .ok s1
    | some vs =>
      match addLoop env vs s1.mult [] s1.losses { s1.book with queue := [] } (env.triSimps vs.length) with
      | .error e => .error e
      | .ok (l, b) => .ok { s1 with losses := l, book := b }

/-- the arithmetic of `_update_range(new_output)` with `vmin = np.min(new_output)`, `vmax = np.max(new_output)`:
new `(_min_value, _max_value, _old_scale)`, new `_output_multiplier`, and whether all losses are recomputed -/
def rangeStep (env : Env α) (range : Option (α × α × α)) (mult : α) (vmin vmax : α) :
    Option (α × α × α) × α × Bool :=
  match range with
  | none => (some (vmin, vmax, vmax - vmin), mult, false)
  | some (mn, mx, old) =>
    let mn' := if vmin < mn then vmin else mn
    let mx' := if mx < vmax then vmax else mx
    let scale := mx' - mn'
    let sm := env.one / (if env.isZero scale then env.one else scale)
    let a := env.abs mn'
    let b := env.abs mx'
    let maxAbs := if a < b then b else a
    let scaledErr := (env.c15 * maxAbs) * sm
    let sm := if env.c2 < scaledErr then env.one else sm
    let sf := if env.isZero old then env.inf else scale / old
    if env.factor < sf then (some (mn', mx', scale), sm, true) else (some (mn', mx', old), sm, false)

/-- `_update_range(new_output)` -/
def updateRange (env : Env α) (s : State α) (vmin vmax : α) : Except Err (State α) :=
  match rangeStep env s.range s.mult vmin vmax with
  | (r, m, true) => recomputeAll env { s with range := r, mult := m }
  | (r, m, false) => .ok { s with range := r, mult := m }

/-- `tuple(simplex or self.tri.locate_point(point))` -/
def hintOr (env : Env α) (n : Nat) (p : Pt) : Option Simplex → Simplex
  | some h => if h.isEmpty then env.locate n p else h
  | none => env.locate n p

/-- `tell_pending(point, simplex=hint)` -/
def tellPending (env : Env α) (s : State α) (p : Pt) (hint : Option Simplex) : Except Err (State α) :=
  if s.data.contains p then .ok s else
  if !env.inside p then .ok s else
  let s := { s with pending := if s.pending.contains p then s.pending else s.pending ++ [p] }
  match touchTri env s with
  | .error e => .error e
  | .ok s1 =>
    match s1.tri with
    | none => .ok s1
    | some vs =>
      let sx := hintOr env vs.length p hint
      if sx.isEmpty then .ok s1 else
      match pendLoop env vs s1.losses p s1.book (neighborsOf (env.triSimps vs.length) sx) with
      | .error e => .error e
      | .ok b => .ok { s1 with book := b }

/-- `tell(point, value)` for a value that is not `None`; `vmin`/`vmax` = smallest / largest component -/
def tell (env : Env α) (s : State α) (p : Pt) (vmin vmax : α) : Except Err (State α) :=
  if s.data.contains p then .ok s else
  let s := { s with pending := s.pending.filter (· ≠ p) }
  match touchTri env s with
  | .error e => .error e
  | .ok s1 =>
    let triBefore := s1.tri
    let s2 := { s1 with data := s1.data ++ [p] }
    if !env.inside p then .ok s2 else
    match updateRange env s2 vmin vmax with
    | .error e => .error e
    | .ok s3 =>
      match triBefore with
      | none => .ok s3
      | some vs =>
        let hint := match get? p s3.book.p2s with
          | some sx => if (env.triSimps vs.length).contains sx then some sx else none
          | none => none
        match env.triAdd vs.length hint with
        | none => .error .valueError
        | some (deleted, added) => updateLosses env { s3 with tri := some (vs ++ [p]) } deleted added

/-- `_ask_best_point` -/
def askBest (env : Env α) (s : State α) (vs : List Pt) : Except Err ((Pt × α) × State α) :=
  match popHighest env (env.triSimps vs.length) s.book.subs s.book.queue with
  | none => .error .assertion
  | some (e, q) =>
    let points := match e.sub with
      | none => ptsOf vs e.simplex
      | some ss => ptsOf ((get? e.simplex s.book.subs).getD []) ss
    let pnew := env.choose points
    let s1 := { s with book := { s.book with queue := q, p2s := put pnew e.simplex s.book.p2s } }
    match tellPending env s1 pnew (some e.simplex) with
    | .error err => .error err
    | .ok s2 =>
      -- ghost: the (sub)simplex chosen for subdivision is gone afterwards
      let dead := !(live env (simplices env s2.tri) s2.book.subs e)
      .ok ((pnew, env.abs e.loss), { s2 with book := { s2.book with geomOK := s2.book.geomOK && dead } })

/-- the first corner of the domain that is neither evaluated nor pending (`_bounds_available`) -/
def missingBound (env : Env α) (s : State α) : Option Pt :=
  env.boundsPts.find? (fun p => !s.data.contains p && !s.pending.contains p)

/-- `_ask` -/
def askOne (env : Env α) (s : State α) : Except Err ((Pt × α) × State α) :=
  match missingBound env s with
  | some p =>
    match tellPending env s p none with
    | .error e => .error e
    | .ok s1 => .ok ((p, env.inf), s1)
  | none =>
    match touchTri env s with
    | .error e => .error e
    | .ok s1 =>
      match s1.tri with
      | none =>
        let p := env.randPt s1.nrand
        match tellPending env { s1 with nrand := s1.nrand + 1 } p none with
        | .error e => .error e
        | .ok s2 => .ok ((p, env.inf), s2)
      | some vs => askBest env s1 vs

/-- `_ask_and_tell_pending(n)` -/
def askLoop (env : Env α) : Nat → State α → Except Err (List (Pt × α) × State α)
  | 0, s => .ok ([], s)
  | n + 1, s =>
    match askOne env s with
    | .error e => .error e
    | .ok (r, s1) =>
      match askLoop env n s1 with
      | .error e => .error e
      | .ok (rs, s2) => .ok (r :: rs, s2)

/-- `ask(n, tell_pending)`: without commit the learner is restored from a deep copy -/
def ask (env : Env α) (s : State α) (n : Nat) (commit : Bool) : Except Err (List (Pt × α) × State α) :=
  match askLoop env n s with
  | .error e => .error e
  | .ok (rs, s1) => .ok (rs, if commit then s1 else s)

/-- the entries `remove_unfinished` puts back: `(loss, simplex, None)` for every item of the dict `_losses` -/
def requeueEntries (losses : List (Simplex × α)) : List (QE α) :=
  (keys losses).filterMap (fun x => (get? x losses).map (fun L => { loss := L, simplex := x, sub := none }))

/-- `remove_unfinished`: forget the pending points and their sub-triangulations and rebuild the queue from
`_losses` (one entry per simplex; fix e79ba45 — before, the queue was left stale) -/
def removeUnfinished (env : Env α) (s : State α) : State α :=
  let q := (requeueEntries s.losses).foldl (fun q e => qinsert env e q) []
  { s with pending := [], book := { s.book with subs := [], p2s := [], queue := q } }

/-- `max(losses.values())` (python keeps the first maximal element) -/
def maxOf (d : α) : List α → α
  | [] => d
  | x :: xs => xs.foldl (fun m y => if m < y then y else m) x

/-- `loss()`: reading `self.tri` may create the triangulation -/
def lossOp (env : Env α) (s : State α) : Except Err (α × State α) :=
  match touchTri env s with
  | .error e => .error e
  | .ok s1 =>
    match s1.tri with
    | none => .ok (env.inf, s1)
    | some _ => .ok (maxOf env.inf (s1.losses.map (·.2)), s1)

inductive Op (α : Type)
  | tell (p : Pt) (vmin vmax : α)
  | tellPending (p : Pt)
  | ask (n : Nat) (commit : Bool)
  | removeUnfinished
  | loss

def step (env : Env α) (s : State α) : Op α → Except Err (State α)
  | .tell p a b => tell env s p a b
  | .tellPending p => tellPending env s p none
  | .ask n c => (ask env s n c).map (·.2)
  | .removeUnfinished => .ok (removeUnfinished env s)
  | .loss => (lossOp env s).map (·.2)

def run (env : Env α) : State α → List (Op α) → Except Err (State α)
  | s, [] => .ok s
  | s, op :: ops =>
    match step env s op with
    | .error e => .error e
    | .ok s1 => run env s1 ops

end model
end LND
