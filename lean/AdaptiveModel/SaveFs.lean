/-
Model of `adaptive.utils.save` / `BaseLearner.load` at the level of file-system primitives.

  save(fname, data, compress):
      if dirname: os.makedirs(dirname, exist_ok=True)          -- step makedirs
      blob = …                                                  -- pure
      temp = f"{fname}.{pid}"
      try:  with open(temp,"wb") as f: f.write(blob)            -- steps open, write, close
      except OSError: return False
      try:  os.replace(temp, fname)                             -- step replace
      except OSError: return False
      finally:
          if os.path.exists(temp): os.remove(temp)              -- steps exists, remove
      return True

Every primitive may succeed, raise `OSError`, or be the point where the process dies
(nothing after it runs, `finally` included).  A failing `write` has written an arbitrary
prefix.  Assumptions built into the model (stated in DESIGN.md): `os.replace` is atomic,
writes touch only the temp path, temp path ≠ destination, `os.path.exists` does not raise.
Hand-written; tied to /repo by `harness/props/c14.py` (real `utils.save` with injected
faults, real `os._exit` for process death).
-/
namespace SaveFs

abbrev Blob := List Nat

inductive Step where
  | makedirs | open | write | close | replace | exists | remove
deriving Repr, DecidableEq

inductive FaultKind where
  | oserror | death
deriving Repr, DecidableEq

/-- which primitives fail, and how many bytes a failing `write` got out -/
structure Faults where
  on : Step → Option FaultKind
  prefixLen : Nat

structure FS where
  dest : Option Blob       -- contents of `fname`, `none` = absent
  temp : Option Blob       -- contents of the temp file
deriving Repr, DecidableEq

inductive Result where
  | ret (b : Bool)         -- returned True / False
  | raised                 -- an OSError propagated to the caller
  | died                   -- the process terminated
deriving Repr, DecidableEq

structure Outcome where
  fs : FS
  result : Result
  trace : List Step        -- primitives attempted, in order
deriving Repr

/-- the `finally` block of the second `try` followed by `after` (return value or re-raise) -/
def cleanup (f : Faults) (fs : FS) (tr : List Step) (after : Result) : Outcome :=
  match f.on .exists with
  | some .death => ⟨fs, .died, tr ++ [.exists]⟩
  | _ =>
    let tr := tr ++ [.exists]
    match fs.temp with
    | none => ⟨fs, after, tr⟩
    | some _ =>
      match f.on .remove with
      | some .death => ⟨fs, .died, tr ++ [.remove]⟩
      | some .oserror => ⟨fs, .raised, tr ++ [.remove]⟩
      | none => ⟨{ fs with temp := none }, after, tr ++ [.remove]⟩

def save (f : Faults) (hasDirname : Bool) (fs : FS) (blob : Blob) : Outcome :=
  -- makedirs
  let tr0 : List Step := if hasDirname then [.makedirs] else []
  match (if hasDirname then f.on .makedirs else none) with
  | some .death => ⟨fs, .died, tr0⟩
  | some .oserror => ⟨fs, .raised, tr0⟩
  | none =>
  -- open(temp, "wb")
  match f.on .open with
  | some .death => ⟨fs, .died, tr0 ++ [.open]⟩
  | some .oserror => ⟨fs, .ret false, tr0 ++ [.open]⟩
  | none =>
  let fs1 : FS := { fs with temp := some [] }     -- created / truncated
  let tr1 := tr0 ++ [.open]
  -- f.write(blob)
  match f.on .write with
  | some .death => ⟨{ fs1 with temp := some (blob.take f.prefixLen) }, .died, tr1 ++ [.write]⟩
  | some .oserror =>
    -- `with` still closes the file; the OSError is caught: return False
    (match f.on .close with
     | some .death => ⟨{ fs1 with temp := some (blob.take f.prefixLen) }, .died, tr1 ++ [.write, .close]⟩
     | _ => ⟨{ fs1 with temp := some (blob.take f.prefixLen) }, .ret false, tr1 ++ [.write, .close]⟩)
  | none =>
  let fs2 : FS := { fs1 with temp := some blob }
  let tr2 := tr1 ++ [.write]
  -- close
  match f.on .close with
  | some .death => ⟨fs2, .died, tr2 ++ [.close]⟩
  | some .oserror => ⟨fs2, .ret false, tr2 ++ [.close]⟩
  | none =>
  let tr3 := tr2 ++ [.close]
  -- os.replace(temp, fname)
  match f.on .replace with
  | some .death => ⟨fs2, .died, tr3 ++ [.replace]⟩
  | some .oserror => cleanup f fs2 (tr3 ++ [.replace]) (.ret false)
  | none => cleanup f { dest := fs2.temp, temp := none } (tr3 ++ [.replace]) (.ret true)

/-- `BaseLearner.load`: a missing or empty file leaves the learner as it was
(`FileNotFoundError`, `EOFError` suppressed); otherwise the decoded data is installed;
`none` = an exception propagates (undecodable contents). -/
def load {δ : Type} (decode : Blob → Option δ) (file : Option Blob) (cur : δ) : Option δ :=
  match file with
  | none => some cur
  | some [] => some cur
  | some b => decode b

def noFaults : Faults := { on := fun _ => none, prefixLen := 0 }

end SaveFs
