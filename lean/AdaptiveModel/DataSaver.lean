import AdaptiveModel.Learner
/-
Model of `adaptive/learner/data_saver.py`: `DataSaver(learner, arg_picker)`.
State = the wrapped learner's state and `extra_data` (an `OrderedDict`: assignment keeps the
position of an existing key, appends a new one).  `R` is the type of full results,
`pick : R → V` the `arg_picker`.
Hand-written; tied to /repo by `harness/props/c18.py`.
-/
namespace DataSaver

structure State (σ P R : Type) where
  child : σ
  extra : List (P × R)
deriving Repr

variable {σ P V R : Type} [DecidableEq P]

/-- `OrderedDict.__setitem__` -/
def oset (k : P) (v : R) : List (P × R) → List (P × R)
  | [] => [(k, v)]
  | (k', v') :: r => if k = k' then (k, v) :: r else (k', v') :: oset k v r

def oget (k : P) : List (P × R) → Option R
  | [] => none
  | (k', v) :: r => if k = k' then some v else oget k r

/-- the wrapper as a learner over full results -/
def wrap (L : Learner σ P V) (pick : R → V) : Learner (State σ P R) P R where
  ask s n c := let (pts, c') := L.ask s.child n c; (pts, { s with child := c' })
  tell s x r := { child := L.tell s.child x (pick r), extra := oset x r s.extra }
  tellPending s x := { s with child := L.tellPending s.child x }
  removeUnfinished s := { s with child := L.removeUnfinished s.child }

/-- `_get_data` / `_set_data` given the child's -/
def getData {D : Type} (childGet : σ → D) (s : State σ P R) : D × List (P × R) :=
  (childGet s.child, s.extra)

def setData {D : Type} (childSet : σ → D → σ) (s : State σ P R) (d : D × List (P × R)) : State σ P R :=
  { child := childSet s.child d.1, extra := d.2 }

/-- the same client operations with the picker applied to every told result -/
def pickOps (pick : R → V) : List (Learner.Op P R) → List (Learner.Op P V)
  | [] => []
  | .tell x r :: t => .tell x (pick r) :: pickOps pick t
  | .ask n c :: t => .ask n c :: pickOps pick t
  | .tellPending x :: t => .tellPending x :: pickOps pick t
  | .removeUnfinished :: t => .removeUnfinished :: pickOps pick t

/-- the last full result told for `x` along an op list, starting from `acc` -/
def lastResult (x : P) (acc : Option R) : List (Learner.Op P R) → Option R
  | [] => acc
  | .tell x' r :: t => lastResult x (if x = x' then some r else acc) t
  | _ :: t => lastResult x acc t

end DataSaver
