import AdaptiveModel.Drv.Seq
import AdaptiveModel.Drv.Runner
import AdaptiveModel.Drv.SaveFs
import AdaptiveModel.Drv.DataSaver
import AdaptiveModel.Drv.Avg
import AdaptiveModel.Drv.Avg1D
import AdaptiveModel.Drv.Avg1DFull
import AdaptiveModel.Drv.L1D
import AdaptiveModel.Drv.Balancing
import AdaptiveModel.Drv.Tri
import AdaptiveModel.Drv.LND
import AdaptiveModel.Drv.Integ
import AdaptiveModel.Drv.Prims
import AdaptiveModel.Drv.Quad
import AdaptiveModel.Drv.Choose
import AdaptiveModel.Drv.L2D
import AdaptiveModel.Drv.Prims2
/-!
Line-protocol driver: `lake env lean --run Driver.lean < ops.txt`.
Each input line is `<component> <op> <args…>`; one output line per input line.
-/
structure All where
  seq : Seq.State Int := Seq.init 0
  ds : DataSaver.Drv.D := {}
  l1 : L1D.Drv.D := {}
  avg : Avg.State Float := Avg.init none none 2
  a1 : Avg1D.State Float := { minSamples := 0, maxSamples := 0, neighborSampling := 0 }
  a1f : Avg1DFull.Drv.D := {}
  bal : Balancing.Drv.St := Balancing.init [] .cycle
  lnd : LND.Drv.D := {}
  tri : Tri.State := { dim := 2, nVerts := 0, simplices := [], vts := [] }
  integ : Integ.Drv.D := {}
  l2d : L2D.Drv.D := {}
  run : Runner.State := Runner.init { ntasks := 1, retries := 0, raiseIf := true, blocking := true, doLog := false }

def stepAll (a : All) (line : String) : All × String :=
  match (line.trimAscii.toString.splitOn " ").filter (· ≠ "") with
  | "seq" :: rest => let (s, o) := Seq.Drv.stepLine a.seq rest; ({ a with seq := s }, o)
  | "run" :: rest => let (s, o) := Runner.Drv.stepLine a.run rest; ({ a with run := s }, o)
  | "ds" :: rest => let (s, o) := DataSaver.Drv.stepLine a.ds rest; ({ a with ds := s }, o)
  | "avg" :: rest => let (s, o) := Avg.Drv.stepLine a.avg rest; ({ a with avg := s }, o)
  | "a1" :: rest => let (s, o) := Avg1D.Drv.stepLine a.a1 rest; ({ a with a1 := s }, o)
  | "a1f" :: rest => let (s, o) := Avg1DFull.Drv.stepLine a.a1f rest; ({ a with a1f := s }, o)
  | "l1" :: rest => let (s, o) := L1D.Drv.stepLine a.l1 rest; ({ a with l1 := s }, o)
  | "bal" :: rest => let (s, o) := Balancing.Drv.stepLine a.bal rest; ({ a with bal := s }, o)
  | "integ" :: rest => let (s, o) := Integ.Drv.stepLine a.integ rest; ({ a with integ := s }, o)
  | "lnd" :: rest => let (s, o) := LND.Drv.stepLine a.lnd rest; ({ a with lnd := s }, o)
  | "tri" :: rest => let (s, o) := Tri.Drv.stepLine a.tri rest; ({ a with tri := s }, o)
  | "save" :: rest => (a, SaveFs.Drv.stepLine rest)
  | "prims" :: rest => (a, Prims.Drv.stepLine rest)
  | "quad" :: rest => (a, Quad.Drv.stepLine rest)
  | "choose" :: rest => (a, Choose.Drv.stepLine rest)
  | "prims2" :: rest => (a, Prims2.Drv.stepLine rest)
  | "l2d" :: rest => let (s, o) := L2D.Drv.stepLine a.l2d rest; ({ a with l2d := s }, o)
  | _ => (a, "bad-component")

partial def loop (h : IO.FS.Stream) (out : IO.FS.Stream) (a : All) : IO Unit := do
  let line ← h.getLine
  if line.isEmpty then return ()
  let (a', o) := stepAll a line
  out.putStrLn o
  loop h out a'

def main : IO Unit := do
  let out ← IO.getStdout
  loop (← IO.getStdin) out {}
  out.flush
