import AdaptiveModel.Seq
