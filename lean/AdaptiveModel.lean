import AdaptiveModel.Seq
import AdaptiveModel.Runner
import AdaptiveModel.Drv.Util
import AdaptiveModel.Drv.Seq
import AdaptiveModel.Drv.Runner
import AdaptiveModel.SaveFs
import AdaptiveModel.Drv.SaveFs
