#!/venv/bin/python
"""Copy confirmed seeded changes from /tmp/mut_out into /verif/seeded/<id>/ and (re)run them against the checks.

  tools/collect_seeded.py [--tests] [ids...]     e.g. tools/collect_seeded.py C05/a C17/b

For each change: scratch worktree of /repo, apply patch, demo must fail there and pass on /repo, (with --tests) the
repository's test suite must show no new failure, then the property's quick check is run with VERIF_REPO pointing at the
patched worktree.  Writes seeded/<Cxx>-<v>/{patch.diff, demo.py, notes.md, meta.json}.
"""
import json, os, re, shutil, subprocess, sys
sys.path.insert(0, os.path.dirname(os.path.abspath(__file__)))
import mutest

SRC = os.environ.get("SEED_SRC", "/tmp/mut_out")
DST = "/verif/seeded"
EXTRA = {"C11": ["C01"], "C02": ["C01"], "C01": ["C11"], "C09": ["C15"], "C10": [], "C05": ["C06"], "C08": ["C07"]}


def needs_of(notes):
    m = re.search(r"(?is)(what it needs|needs to manifest|what is needed|trigger)[^\n]*\n(.{0,600})", notes)
    return (m.group(2).strip().replace("\n", " ")[:500]) if m else ""


def main():
    want = [a for a in sys.argv[1:] if not a.startswith("--")]
    ids = want or sorted(f"{p}/{v}" for p in os.listdir(SRC) if p.startswith("C") for v in ("a", "b")
                         if os.path.exists(f"{SRC}/{p}/{v}/patch.diff"))
    for i in ids:
        p, v = i.split("/")
        src = f"{SRC}/{p}/{v}"
        dst = f"{DST}/{p}-" + os.environ.get("SEED_SUFFIX", "") + v
        os.makedirs(dst, exist_ok=True)
        for f in ("patch.diff", "demo.py", "notes.md"):
            if os.path.exists(f"{src}/{f}"):
                shutil.copy(f"{src}/{f}", f"{dst}/{f}")
        sys.argv = ["mutest", dst, p] + EXTRA.get(p, []) + (["--tests"] if "--tests" in sys.argv else [])
        res = mutest.main()
        notes = open(f"{dst}/notes.md").read() if os.path.exists(f"{dst}/notes.md") else ""
        old = json.load(open(f"{dst}/meta.json")) if os.path.exists(f"{dst}/meta.json") else {}
        meta = {
            "breaks": p,
            "origin": "independent sub-agent given only the property text and a scratch worktree",
            "needs": needs_of(notes) or old.get("needs", "see notes.md"),
            "confirmed": {"patch_applies": res.get("apply", True), "demo_fails_with_patch": res.get("demo_patched_fails"),
                          "demo_passes_on_clean": res.get("demo_clean_passes"),
                          "new_test_failures": res.get("new_test_failures", old.get("confirmed", {}).get("new_test_failures", "not re-run")),
                          "tests_summary": res.get("tests_summary", old.get("confirmed", {}).get("tests_summary", ""))},
            "ran": f"tools/mutest.py seeded/{p}-{v} {p} (scratch worktree + VERIF_REPO; equivalent to git -C /repo apply; ./check {p} --tier quick; git -C /repo checkout -- .)",
            "detected_by": {c: {"exit": r["rc"], "lines": [l for l in r["lines"] if not l.startswith("KNOWN")][:4]} for c, r in res.get("props", {}).items()},
        }
        json.dump(meta, open(f"{dst}/meta.json", "w"), indent=1)


if __name__ == "__main__":
    main()
