#!/venv/bin/python
"""(Re)create seeded/revert-<commit>/ for every fix: commit of /repo (reverse patch against HEAD) and try it against the
checks of the properties the defect belonged to.  A reverse patch that no longer applies to HEAD (later fix on the same lines) is
recorded as such."""
import json, os, subprocess, sys
sys.path.insert(0, os.path.dirname(os.path.abspath(__file__)))
import mutest
PROPS = {
    "254b065": ["C01"], "dbd0af7": ["C01"], "4035eb8": ["C15"], "0e51737": ["C10"], "70d078f": ["C10"], "6d66402": ["C09", "C15"],
    "3a792a7": ["C09"], "ec93fb4": ["C07"], "b8586d8": ["C07"], "367d180": ["C07"], "9657306": ["C10"], "f2a6bbb": ["C10"],
    "276f442": ["C12"], "6bbcd68": ["C20", "C09"], "96c1a46": ["C20"], "21a0c15": ["C20", "C04"], "ed77ba0": ["C20"], "b228c71": ["C10", "C09"],
    "e79ba45": ["C04"], "1cb5cb1": ["C02", "C13"], "317a110": ["C03"], "633350e": ["C09"], "7e225a3": ["C10"], "f204e85": ["C10", "C04"], "58bf22e": ["C09"], "b0cdc00": ["C03", "C20"], "c7c4136": ["C08"], "e806eb2": ["C09"], "844d031": ["C09"],
}
def sh(c): return subprocess.run(c, shell=True, capture_output=True, text=True)
only = sys.argv[1:]
for c, props in PROPS.items():
    if only and c not in only: continue
    d = f"/verif/seeded/revert-{c}"
    os.makedirs(d, exist_ok=True)
    subj = sh(f"git -C /repo log -1 --format=%s {c}").stdout.strip()
    open(f"{d}/patch.diff", "w").write(sh(f"git -C /repo diff {c} {c}~1").stdout)
    old = json.load(open(f"{d}/meta.json")) if os.path.exists(f"{d}/meta.json") else {}
    sys.argv = ["mutest", d] + props
    res = mutest.main() or {}
    meta = {"breaks": props[0], "what": f"reverse of {c} ({subj})", "needs": old.get("needs", "see the commit message of the fix"),
            "origin": "reverse patch of a fix: commit of this work (the defect was found by the checks)",
            "confirmed": {"patch_applies": res.get("apply", True)},
            "ran": f"tools/mutest.py seeded/revert-{c} " + " ".join(props),
            "detected_by": {p: {"exit": r["rc"], "lines": [l for l in r["lines"] if not l.startswith("KNOWN")][:4]} for p, r in res.get("props", {}).items()}}
    json.dump(meta, open(f"{d}/meta.json", "w"), indent=1)
    print(c, meta["confirmed"], {p: r["exit"] for p, r in meta["detected_by"].items()})
