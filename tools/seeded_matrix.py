#!/venv/bin/python
"""Rewrite DESIGN.md section 10.6 (between the SEEDED-MATRIX markers) from seeded/*/meta.json."""
import glob, json, os, re
ROOT = os.path.dirname(os.path.dirname(os.path.abspath(__file__)))
rows = []
for f in sorted(glob.glob(f"{ROOT}/seeded/*/meta.json")):
    d = json.load(open(f))
    name = f.split("/")[-2]
    det = d.get("detected_by") or {}
    if isinstance(det, dict):
        parts = []
        for c, r in det.items():
            lines = [l for l in r.get("lines", []) if "clause=" in l]
            cl = sorted({re.search(r"clause=(\S+)", l).group(1) for l in lines})
            nf = any("no-failing-input-found" in l for l in r.get("lines", []))
            if r.get("exit") == 1:
                parts.append(f"{c}: " + (", ".join(cl[:3]) if cl else ("correspondence/proof only" if nf else "violation")))
            else:
                parts.append(f"{c}: not detected (exit {r.get('exit')})")
        dets = "; ".join(parts)
        if d.get("outside_quantifier"):
            dets += " - OUTSIDE THE QUANTIFIER: " + d["outside_quantifier"][:120]
        if d.get("neutralised"):
            dets += " - NEUTRALISED: " + d["neutralised"][:160]
        if not parts and d.get("confirmed", {}).get("patch_applies") is False:
            dets = "reverse patch no longer applies to HEAD (a later fix rewrote the same lines); detected when it was made"
    else:
        dets = str(det)
    what = d.get("what") or ""
    needs = (d.get("needs") or "").replace("|", "/").replace("\n", " ")[:160]
    conf = d.get("confirmed", {})
    tests = "no new failures" if conf.get("new_test_failures") == [] else str(conf.get("new_test_failures", "n/a"))[:40]
    rows.append(f"| {name} | {d.get('breaks')} | {(what + ' ' + needs).strip()[:200]} | {tests} | {dets} |")
table = "| change | breaks | what it is / needs in order to manifest | test suite on patched tree | detected by (clause) |\n|---|---|---|---|---|\n" + "\n".join(rows)
p = f"{ROOT}/DESIGN.md"
s = open(p).read()
block = "<!-- SEEDED-MATRIX-BEGIN -->\n" + table + "\n<!-- SEEDED-MATRIX-END -->"
if "<!-- SEEDED-MATRIX-BEGIN -->" in s:
    s = re.sub(r"<!-- SEEDED-MATRIX-BEGIN -->.*?<!-- SEEDED-MATRIX-END -->", lambda m: block, s, flags=re.S)
else:
    s += "\n### 10.6 Seeded changes and which checks catch them\nEach change lives in `seeded/<name>/` (patch.diff, demo.py, notes.md, meta.json). Origin: independent sub-agents given only the\nproperty text (`Cxx-a/b`, second round `Cxx-r2a/b` asked for subtler changes), plus the reverse patches of this work's own `fix:` commits\n(`revert-<commit>`). Each was confirmed in a scratch worktree (patch applies, demo fails with it and passes without, test suite shows no\nnew failure) and tried with `tools/mutest.py` (scratch worktree + `VERIF_REPO`, the equivalent of apply / check / checkout in /repo).\nChecks that missed a change at first were strengthened (the generator or oracle, never by weakening) — see git log of /verif.\n\n" + block + "\n"
open(p, "w").write(s)
print(len(rows), "rows")
