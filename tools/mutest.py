#!/venv/bin/python
"""Try one seeded change against the checks, in a scratch worktree (never in /repo).

  tools/mutest.py <dir with patch.diff, demo.py> <Cxx> [<Cyy> ...] [--tier quick] [--tests]

Creates /tmp/mt/<name>, applies the patch, confirms the demonstration fails there and passes on /repo,
runs `./check Cxx` with VERIF_REPO pointing at the worktree (evidence redirected to /tmp/mt/ev), prints a summary
line, removes the worktree.  With --tests also runs the repository's test suite on the patched worktree.
"""
import json, os, subprocess, sys, shutil, time

def sh(cmd, cwd=None, env=None, timeout=3600):
    p = subprocess.run(cmd, cwd=cwd, env=env, shell=isinstance(cmd, str), capture_output=True, text=True, timeout=timeout)
    out = "\n".join(l for l in (p.stdout + p.stderr).splitlines() if "condarc" not in l)
    return p.returncode, out

def main():
    args = [a for a in sys.argv[1:] if not a.startswith("--")]
    tier = "quick"
    if "--tier" in sys.argv:
        tier = sys.argv[sys.argv.index("--tier") + 1]; args.remove(tier)
    d, props = os.path.abspath(args[0]), args[1:]
    name = "_".join(d.strip("/").split("/")[-2:])
    wt = f"/tmp/mt/{name}"
    os.makedirs("/tmp/mt", exist_ok=True)
    sh(f"git -C /repo worktree remove --force {wt}")
    rc, out = sh(f"git -C /repo worktree add --detach {wt} HEAD")
    res = {"name": name, "props": {}}
    try:
        rc, out = sh(f"git -C {wt} apply {d}/patch.diff")
        if rc != 0:
            print("PATCH DOES NOT APPLY", out); res["apply"] = False; print(json.dumps(res)); return res
        if os.path.exists(f"{d}/demo.py"):
            rc1, o1 = sh(f"/venv/bin/python {d}/demo.py", cwd=wt, timeout=900)
            rc0, o0 = sh(f"/venv/bin/python {d}/demo.py", cwd="/repo", timeout=900)
            res["demo_patched_fails"] = rc1 != 0
            res["demo_clean_passes"] = rc0 == 0
        if "--tests" in sys.argv:
            t0 = time.time()
            rc, out = sh("/venv/bin/python -m pytest -q -p no:cacheprovider --timeout=900 --continue-on-collection-errors -rf adaptive/tests 2>&1 | grep -E '^FAILED|passed|failed'", cwd=wt, timeout=3000)
            failed = sorted(l.split()[1] for l in out.splitlines() if l.startswith("FAILED"))
            base = open("/verif/tools/baseline_failed.txt").read().split()
            flaky = ("test_tell_in_random_order", "test_point_adding_order_is_irrelevant[LearnerND", "test_default_executor")  # the last one: 900 s timeout on a loaded machine only
            res["new_test_failures"] = [f for f in failed if f not in base and not any(k in f for k in flaky)]
            res["tests_summary"] = out.splitlines()[-1] if out else ""
        env = dict(os.environ, VERIF_REPO=wt, VERIF_EVIDENCE_DIR="/tmp/mt/ev/" + name)
        for p in props:
            t0 = time.time()
            rc, out = sh(["/verif/check", p, "--tier", tier], cwd="/verif", env=env, timeout=3000)
            viol = [l for l in out.splitlines() if l.startswith("VIOLATION") or l.startswith("  clause") or l.startswith("KNOWN-FINDING")]
            res["props"][p] = {"rc": rc, "wall": round(time.time() - t0), "lines": viol[:6], "tail": out[-600:] if rc not in (0, 1) else ""}
    finally:
        sh(f"git -C /repo worktree remove --force {wt}")
        if "C20" in props:  # the translator rewrote lean/AdaptiveModel/Gen from the patched tree: regenerate from /repo
            sh("/venv/bin/python harness/translate.py", cwd="/verif")
        if "C08" in props or "C07" in props:  # the table dumps were rewritten from the patched tree: regenerate from /repo
            sh("/venv/bin/python harness/integ_tables.py", cwd="/verif")
    print(json.dumps(res, indent=1))
    return res

if __name__ == "__main__":
    main()
