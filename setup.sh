#!/bin/sh
# MANIFEST.setup_cmd: build the Lean models and proofs offline (no network, no Mathlib fetch).
set -e
cd "$(dirname "$0")"
mkdir -p out evidence
if [ -f harness/translate.py ]; then /venv/bin/python harness/translate.py; fi
if [ -f harness/integ_tables.py ]; then /venv/bin/python harness/integ_tables.py; fi
cd lean
lake build AdaptiveModel AdaptiveProofs 2>&1 | grep -v '^trace' | tail -40
echo "setup done"
